#!/usr/bin/env python3
# Rewrites the "rules built" column of the overview table at the top of DESIGN.md from checker/props.go.
import re
s=open('/verif/checker/props.go').read()
rules={}
for m in re.finditer(r'\{ID: "(C\d\d)".*?Rules:\s*\[\]string\{([^}]*)\}', s, re.S):
    rules[m.group(1)]=[x.strip().strip('"') for x in m.group(2).split(',') if x.strip()]
p='/verif/DESIGN.md'; d=open(p).read().split('\n')
for i,l in enumerate(d):
    m=re.match(r'\| (C\d\d) \| ([^|]*) \| ([^|]*) \|(.*)$', l)
    if m and m.group(1) in rules and i<60:
        rs=[r for r in rules[m.group(1)] if r!='CG0']
        d[i]='| %s | %s | %s |%s'%(m.group(1),m.group(2),' '.join(rs),m.group(4))
open(p,'w').write('\n'.join(d))
