#!/bin/bash
# For every seeded change (and every revert-of-fix), apply it to a scratch copy of /repo and run the checks of
# all properties; print which properties/rules report it.
cd /verif
export GOFLAGS=-mod=mod GOPROXY=off GOSUMDB=off GOTOOLCHAIN=local GOWORK=off
PROPS=$(bin/hlsverif list | awk '{print $1}')
run_one() {
  name=$1; patch=/verif/$2
  T=$(mktemp -d /root/scratch/sm.XXXXXX)
  rsync -a --exclude .git /repo/ "$T/"
  if ! (cd "$T" && patch -p1 -s < "$patch" >/dev/null 2>&1); then echo "$name APPLY-FAILED"; rm -rf "$T"; return; fi
  hits=""
  out=$(timeout 900 bin/hlsverif matrix -repo "$T" 2>&1)
  for p in $PROPS; do
    k=$(echo "$out" | grep "^$p FAILKEY" | sed "s/^$p FAILKEY //" | grep -v "BYTERANGE" | cut -d'|' -f1 | sort -u | tr '\n' ',')
    u=$(echo "$out" | grep -c "^$p UNDECIDED")
    [ -n "$k" ] && hits="$hits $p[$k]"
    [ -z "$k" ] && [ "$u" != "0" ] && hits="$hits $p[undecided]"
  done
  echo "$out" | grep -q '^LOADERROR' && hits=" LOADERROR"
  echo "$name :$hits"
  rm -rf "$T"
}
export -f run_one; export PROPS
# optional arguments: names to run (default: all)
( for d in seeded/*/; do echo "$(basename $d) $d/patch.diff"; done; for f in mutants/revert/*.diff; do echo "revert-$(basename $f | cut -c1-2) $f"; done ) | { if [ $# -gt 0 ]; then grep -E "^($(echo "$@" | tr ' ' '|')) "; else cat; fi; } | xargs -P ${MATRIX_JOBS:-6} -L 1 bash -c 'run_one $0 $1'
