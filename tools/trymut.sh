#!/bin/bash
# usage: trymut.sh <patch.diff> <rule[,rule..]>   — apply a patch to a scratch copy of /repo and dump failing obligations
set -e
P=$(readlink -f "$1"); R="$2"
T=$(mktemp -d /root/scratch/mut.XXXXXX)
trap 'rm -rf "$T"' EXIT
rsync -a --exclude .git /repo/ "$T/"
(cd "$T" && patch -p1 -s < "$P")
timeout 300 /verif/bin/hlsverif dump -rule "$R" -repo "$T" 2>&1 | sed "s#$T/##g"
