#!/usr/bin/env python3
# usage: seedtable.py <matrix.txt>...   (output of tools/seedmatrix.sh)
# Writes detected_by into seeded/*/meta.json and regenerates the table of DESIGN.md section 12 (between the markers).
import re,json,glob,sys
rows={}
for f in sys.argv[1:]:
    for l in open(f):
        l=l.strip()
        if not l or 'APPLY-FAILED' in l: continue
        name,_,rest=l.partition(' :')
        hits=re.findall(r'(C\d\d)\[([^\]]*)\]',rest)
        rows[name.strip()]=[(p,[r for r in rs.split(',') if r]) for p,rs in hits]
for mf in glob.glob('/verif/seeded/*/meta.json'):
    m=json.load(open(mf)); sid=m['id']
    if sid not in rows: continue
    det=[]
    for p,rs in rows[sid]:
        for r in rs:
            if r!='undecided': det.append('%s:%s'%(p,r))
    m['detected_by']=det
    json.dump(m,open(mf,'w'),indent=1)
lines=['| seed | property | change | reported by |','|---|---|---|---|']
n=own=0
for mf in sorted(glob.glob('/verif/seeded/*/meta.json')):
    m=json.load(open(mf)); n+=1
    o=[d for d in m['detected_by'] if d.startswith(m['property']+':')]
    oth=sorted(set(d for d in m['detected_by'] if not d.startswith(m['property']+':')))
    if o: own+=1
    rep=', '.join(d.split(':')[1] for d in o) if o else ('— (own check silent)' if m['detected_by'] else '**not detected**')
    if oth: rep+=' (also '+' '.join(oth)+')'
    ch=m['change'].replace('|','/')
    if len(ch)>120: ch=ch[:117]+'…'
    lines.append('| %s | %s | %s | %s |'%(m['id'],m['property'],ch,rep))
lines.append('')
lines.append('Reverts of the `fix:` commits (`mutants/revert/NN_*.diff`, applied to the current tree): '+'; '.join('%s → %s'%(k.replace('revert-',''),' '.join('%s[%s]'%(p,','.join(rs)) for p,rs in v)) for k,v in sorted(rows.items()) if k.startswith('revert'))+'.')
table='\n'.join(lines)
p='/verif/DESIGN.md'; s=open(p).read()
a='<!-- SEEDTABLE-BEGIN -->'; b='<!-- SEEDTABLE-END -->'
i=s.index(a)+len(a); j=s.index(b)
s=s[:i]+'\n'+table+'\n'+s[j:]
open(p,'w').write(s)
print('%d seeds, %d reported by their own property\'s check'%(n,own))
