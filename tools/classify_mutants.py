#!/usr/bin/env python3
# For the mutants named on the command line (ids of catalog_red.json / catalog.json): apply each to a scratch copy of /repo,
# build, run the repository's suite in a private network namespace; record in mutants/red19.json whether the suite notices
# (true = red, the thorough tier does not use it; false = green, it goes into catalog.json).
import json,sys,os,subprocess,shutil,tempfile
ids=sys.argv[1:]
allm={}
for f in ('catalog.json','catalog_red.json'):
    for m in json.load(open('/verif/mutants/'+f))['mutants']: allm[m['id']]=m
try: red=json.load(open('/verif/mutants/red19.json'))
except Exception: red={}
env=dict(os.environ,GOFLAGS='-mod=mod',GOPROXY='off',GOSUMDB='off',GOTOOLCHAIN='local',GOWORK='off')
for i in ids:
    m=allm[i]
    T=tempfile.mkdtemp(dir='/root/scratch')
    subprocess.run(['rsync','-a','--exclude','.git','/repo/',T+'/'],check=True)
    p=os.path.join(T,m['file']); s=open(p).read()
    parts=s.split(m['old']); n=m.get('n',0)
    s=m['old'].join(parts[:n+1])+m['new']+m['old'].join(parts[n+1:])
    open(p,'w').write(s)
    b=subprocess.run(['go','build','.','./pkg/...'],cwd=T,env=env,capture_output=True,text=True)
    if b.returncode!=0:
        print(i,'DOES NOT BUILD',b.stderr[:200]); shutil.rmtree(T); continue
    t=subprocess.run(['unshare','-n','sh','-c','ip link set lo up; go test -vet=off -count=1 . ./pkg/...'],cwd=T,env=env,capture_output=True,text=True)
    red[i]=(t.returncode!=0)
    print(i,'red' if red[i] else 'green')
    shutil.rmtree(T)
json.dump(red,open('/verif/mutants/red19.json','w'),indent=1,sort_keys=True)
