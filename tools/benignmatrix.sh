#!/bin/bash
# usage: benignmatrix.sh [<dir>]   — <dir>/<name>/patch.diff (default /verif/benign) are behaviour-preserving refactorings of /repo.
# Applies each to a scratch copy and runs every check; any FAILKEY is a false alarm of the named rule,
# UNDECIDED lines are lost anchors (exit 2, no verdict).
cd /verif
export GOFLAGS=-mod=mod GOPROXY=off GOSUMDB=off GOTOOLCHAIN=local GOWORK=off
PROPS=$(bin/hlsverif list | awk '{print $1}')
run_one() {
  name=$1; patch=$2
  T=$(mktemp -d /root/scratch/bm.XXXXXX)
  rsync -a --exclude .git /repo/ "$T/"
  if ! (cd "$T" && patch -p1 -s -f < "$patch" >/dev/null 2>&1); then echo "$name APPLY-FAILED"; rm -rf "$T"; return; fi
  res=""
  out=$(timeout 900 bin/hlsverif matrix -repo "$T" 2>&1)
  for p in $PROPS; do
    k=$(echo "$out" | grep "^$p FAILKEY" | sed "s/^$p FAILKEY //" | grep -v "BYTERANGE" | sed "s/^/  $name $p FAIL /")
    u=$(echo "$out" | grep "^$p UNDECIDED" | sed "s/^$p //" | cut -c1-200 | sed "s/^/  $name $p /")
    [ -n "$k" ] && res="$res
$k"
    [ -n "$u" ] && res="$res
$u"
  done
  echo "$out" | grep -q '^LOADERROR' && res="$res
  $name LOADERROR"
  if [ -z "$res" ]; then echo "$name : silent"; else echo "$name :$res"; fi
  rm -rf "$T"
}
export -f run_one; export PROPS
D=$(readlink -f "${1:-/verif/benign}")
for d in "$D"/*/; do [ -f "$d/patch.diff" ] && echo "$(basename $d) ${d}patch.diff"; done | xargs -P ${MATRIX_JOBS:-6} -L 1 bash -c 'run_one $0 $1'
