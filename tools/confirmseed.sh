#!/bin/bash
# usage: confirmseed.sh <id> [<src dir>]   — <src dir> (default /tmp/wt/<id>/SEED) holds patch.diff, the demo and meta.json
# Confirms a seeded change in a scratch copy of /repo: patch applies, library builds, the existing suite stays green with the
# patch, the demo passes without the patch and fails with it. Prints one line "<id> OK|BAD ..." and, on OK, installs
# /verif/seeded/<id>/ (patch.diff, demo, NOTES.md, meta.json with the confirmation record).
export GOFLAGS=-mod=mod GOPROXY=off GOSUMDB=off GOTOOLCHAIN=local GOWORK=off
id=$1; S=${2:-/tmp/wt/$id/SEED}
[ -f "$S/patch.diff" ] && [ -f "$S/meta.json" ] || { echo "$id BAD missing deliverables in $S"; exit 1; }
demo=$(python3 -c "import json;print(json.load(open('$S/meta.json')).get('demo','zz_seed_test.go'))")
pdir=$(python3 -c "import json;print(json.load(open('$S/meta.json')).get('demo_pkg_dir','.') or '.')")
[ -f "$S/$demo" ] || { echo "$id BAD demo $demo missing"; exit 1; }
mkdir -p /root/scratch; T=$(mktemp -d /root/scratch/cf.XXXXXX)
trap 'rm -rf "$T"' EXIT
rsync -a --exclude .git /repo/ "$T/"
cd "$T"
# 1 demo without the patch
cp "$S/$demo" "$pdir/$demo"
if ! timeout 300 unshare -n sh -c 'ip link set lo up; exec "$@"' sh go test -vet=off -count=1 -run 'TestSeed' "./$pdir" >"$T/.d0" 2>&1; then echo "$id BAD demo fails WITHOUT the patch"; tail -15 "$T/.d0"; exit 1; fi
grep -q "no tests to run" "$T/.d0" && { echo "$id BAD demo has no TestSeed test"; exit 1; }
rm "$pdir/$demo"
# 2 patch applies and builds
if ! patch -p1 -s -f < "$S/patch.diff" >/dev/null 2>&1; then echo "$id BAD patch does not apply"; exit 1; fi
if ! go build . ./pkg/... >"$T/.b" 2>&1; then echo "$id BAD does not build"; tail -5 "$T/.b"; exit 1; fi
# 3 existing suite green with the patch (twice)
for i in 1 2; do
  if ! timeout 900 unshare -n sh -c 'ip link set lo up; exec "$@"' sh go test -vet=off -count=1 . ./pkg/... >"$T/.s" 2>&1; then echo "$id BAD suite red with the patch (run $i)"; grep -E "^(--- FAIL|FAIL|panic)" "$T/.s" | head; exit 1; fi
done
# 4 demo fails with the patch
cp "$S/$demo" "$pdir/$demo"
if timeout 300 unshare -n sh -c 'ip link set lo up; exec "$@"' sh go test -vet=off -count=1 -run 'TestSeed' "./$pdir" >"$T/.d1" 2>&1; then echo "$id BAD demo PASSES with the patch"; exit 1; fi
grep -q "^\(--- FAIL\|panic\|FAIL\)" "$T/.d1" || { echo "$id BAD demo did not fail cleanly"; tail -5 "$T/.d1"; exit 1; }
D=/verif/seeded/$id; mkdir -p "$D"
cp "$S/patch.diff" "$D/patch.diff"; cp "$S/$demo" "$D/$demo"; [ -f "$S/NOTES.md" ] && cp "$S/NOTES.md" "$D/NOTES.md"
python3 - "$id" "$S/meta.json" "$D/meta.json" "$(git -C /repo rev-parse --short HEAD)" <<'EOF'
import json,sys,datetime
i,src,dst,head=sys.argv[1:5]
m=json.load(open(src))
out={"id":i,"property":m["property"],"change":m.get("change",""),"needs_to_manifest":m.get("needs_to_manifest",""),
 "origin":"independent sub-agent (round %s) given only the property text, the list of ideas already tried and a scratch worktree of /repo at %s"%(i.split('r')[-1][:-1],head),
 "demo":m.get("demo","zz_seed_test.go"),"demo_pkg_dir":m.get("demo_pkg_dir","."),
 "confirmed":{"by":"/verif/tools/confirmseed.sh in a scratch copy of /repo %s (%s)"%(head,datetime.date.today().isoformat()),
  "builds":True,"existing_suite_with_patch":"pass twice (go test -vet=off -count=1 . ./pkg/...)","demo_with_patch":"FAIL","demo_without_patch":"pass"},
 "detected_by":[]}
json.dump(out,open(dst,'w'),indent=1)
EOF
echo "$id OK"
