#!/usr/bin/env python3
# validate MANIFEST.json and every evidence file against the schemas (tooling venv python)
import json,sys,glob
import jsonschema
m=json.load(open('/verif/MANIFEST.json')); s=json.load(open('/root/.vp/MANIFEST.schema.json'))
jsonschema.validate(m,s)
print('manifest valid; checks:',[c['property_id'] for c in m['checks']],'na:',[n['property_id'] for n in m.get('not_applicable',[])])
es=json.load(open('/root/.vp/EVIDENCE.schema.json'))
for f in sorted(glob.glob('/verif/evidence/C*.json')):
    e=json.load(open(f))
    try:
        jsonschema.validate(e,es); print(f,'valid', e['coverage'].get('obligations'), e['coverage'].get('discharged'), 'viol', e.get('violations'))
    except Exception as ex:
        print(f,'INVALID',str(ex)[:300])
