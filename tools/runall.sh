#!/bin/bash
# regenerate MANIFEST.json, run every claimed check (quick or $1), validate manifest + evidence
cd /verif
TIER=${1:-quick}
(cd checker && GOFLAGS=-mod=mod GOPROXY=off GOSUMDB=off GOTOOLCHAIN=local GOWORK=off go build -o /verif/bin/hlsverif .) || exit 2
bin/hlsverif manifest > MANIFEST.json
rc=0
for p in $(python3 -c "import json;print(' '.join(c['property_id'] for c in json.load(open('MANIFEST.json'))['checks']))"); do
  out=$(bin/check $p $TIER 2>&1); e=$?
  echo "$out" | grep -E "^(VIOLATION|UNDECIDED|KNOWN-FINDING|C[0-9]+ )" | cut -c1-220
  [ $e -ne 0 ] && rc=1
done
python3-vt tools/validate.py | grep -v " valid " 
exit $rc
