package main

// Rules added after the seventh round of seeded changes (DESIGN section 10, "seventh batch").

import (
	"fmt"
	"go/token"
	"go/types"
	"sort"
	"strings"

	"golang.org/x/tools/go/ssa"
)

func init() {
	registerRule("G7f", "a blocking reload is answered only when the requested part exists: in the function that evaluates the part-availability predicate, the playlist generation is reachable only through the `true` outcome of that predicate (never through another disjunct)", ruleG7f)
	registerRule("G7g", "a delta update replaces the map by a skip tag: on every path of the fMP4 playlist generator to the encoder either the EXT-X-MAP or the EXT-X-SKIP field of the playlist has been set", ruleG7g)
	registerRule("G13b", "no stream is left out of a fan-out: where the Muxer calls a method of every element of m.streams, the call depends on nothing but the loop, the element's isLeading flag and the errors of earlier calls", ruleG13b)
	registerRule("F30", "the advertised part target is the computed one: after the part target is recomputed from the listed parts, every path to the end of the rotation either stores the result in the stream or has found it equal to the stored value", ruleF30)
	registerRule("T11", "integer widths agree: a decoder that fills a 64-bit field of a playlist struct parses with bit size 64 (the encoder prints the whole range of the field)", ruleT11)
	registerRule("T12", "key equality covers every attribute: an equality method of a tag struct that the encoder consults to omit a repeated tag compares every field the tag's encoder prints", ruleT12)
	registerRule("T7m", "readers do not inherit a bypass: a library type that implements Read itself (to limit or offset what is read) has no WriteTo / ReadFrom promoted from an embedded field — io.Copy would prefer it and skip the type's own Read", ruleT7m)
	registerRule("T7n", "every disk reader owns its descriptor: the *os.File behind a reader handed out by the disk back end is opened by the call that creates the reader, never taken from a field shared with other readers or with Remove", ruleT7n)
	registerRule("T6f", "every compared codec parameter is stored: a field of the codec object that a video writer compares with the received value (to raise the pending-parameter flag) is also assigned in that writer", ruleT6f)
	registerRule("F8b", "the leading time scale is the leading track's: the time scale of the fMP4 time converter is selected by the leading track's id (or read from the same part track as the base time), never by position", ruleF8b)
	registerRule("K2b", "cancellation leaves the wait: from the ctx.Done() arm of a select inside a loop of the client's queue and pool code, the same select cannot be reached again", ruleK2b)
	registerRule("G11c", "peak covers the mean: in the bandwidth computation every condition that restricts the per-segment peak also restricts the sums the average is computed from (so BANDWIDTH >= AVERAGE-BANDWIDTH)", ruleG11c)
	registerRule("F31", "AV1 colour description order: where the codec string prints colour primaries, transfer characteristics and matrix coefficients, they are printed in that order (AV1 codecs parameter string, section 5)", ruleF31)
}

// controlEdges returns the If edges of fn that control block b: cutting the edge makes b unreachable from the entry.
func controlEdges(fn *ssa.Function, b *ssa.BasicBlock) map[edge]bool {
	out := map[edge]bool{}
	for _, d := range fn.Blocks {
		if len(d.Instrs) == 0 {
			continue
		}
		if _, ok := d.Instrs[len(d.Instrs)-1].(*ssa.If); !ok {
			continue
		}
		for _, s := range d.Succs {
			e := edge{d.Index, s.Index}
			if !reachableBlocks(fn, 0, map[edge]bool{e: true}, nil)[b.Index] {
				out[e] = true
			}
		}
	}
	return out
}

// gateClosure: base, plus every boolean library function that returns true only after a function of the set
// returned true.
func (c *Ctx) gateClosure(base *ssa.Function) map[*ssa.Function]bool {
	gate := map[*ssa.Function]bool{base: true}
	isGateCall := func(v ssa.Value) bool {
		call, ok := v.(*ssa.Call)
		return ok && gate[call.Call.StaticCallee()]
	}
	for changed := true; changed; {
		changed = false
		for _, fn := range c.Funcs {
			if gate[fn] || !InLib(fn) || fn.Blocks == nil || fn.Signature.Results().Len() != 1 {
				continue
			}
			if b, ok := fn.Signature.Results().At(0).Type().Underlying().(*types.Basic); !ok || b.Kind() != types.Bool {
				continue
			}
			conds := ifsOnV(fn, isGateCall)
			if len(conds) == 0 {
				continue
			}
			okAll, nTrue := true, 0
			for _, b := range fn.Blocks {
				ret, ok := b.Instrs[len(b.Instrs)-1].(*ssa.Return)
				if !ok {
					continue
				}
				if bv, isB := constBool(retVal(ret, 0)); isB {
					if bv {
						nTrue++
						if !onlyIf(fn, ret, conds, true) {
							okAll = false
						}
					}
					continue
				}
				okAll = false
			}
			if okAll && nTrue > 0 {
				gate[fn] = true
				changed = true
			}
		}
	}
	return gate
}

func ruleG7f(c *Ctx) *RuleResult {
	r := &RuleResult{Floor: 1, FloorWhat: "playlist generations behind the part-availability predicate"}
	pred := c.Method("", "muxerStream", "hasPart")
	if pred == nil {
		r.undecided("(*muxerStream).hasPart not found")
		return r
	}
	gate := c.gateClosure(pred)
	isGen := func(g *ssa.Function) bool {
		return g != nil && InLib(g) && strings.Contains(g.Name(), "generateMediaPlaylist")
	}
	n := 0
	for _, fn := range c.Funcs {
		if !InRootPkg(fn) || gate[fn] {
			continue
		}
		var gateCalls []*ssa.Call
		var gens []*ssa.Call
		allInstrs(fn, func(in ssa.Instruction) {
			if call, ok := in.(*ssa.Call); ok {
				if g := call.Call.StaticCallee(); g != nil && gate[g] {
					gateCalls = append(gateCalls, call)
				}
				// the generator is called through a function-valued field: resolve with the call graph
				for _, g := range c.calleesOf(call) {
					if isGen(g) {
						gens = append(gens, call)
						break
					}
				}
			}
		})
		if len(gateCalls) == 0 {
			continue
		}
		conds := ifsOn(fn, func(v ssa.Value) bool {
			call, ok := v.(*ssa.Call)
			return ok && gate[call.Call.StaticCallee()]
		})
		k := 0
		for _, g := range gens {
			reached := false
			for _, gc := range gateCalls {
				if instrReaches(gc, g) {
					reached = true
				}
			}
			if !reached {
				continue
			}
			n++
			k++
			key := fmt.Sprintf("%s|generate#%d", FuncName(fn), k)
			what := "the playlist is generated only after the part-availability predicate returned true"
			if len(conds) == 0 {
				r.undecided("G7f: in %s the result of %s is not tested by a branch directly: form not known to the rule", FuncName(fn), pred.Name())
				continue
			}
			// the other legitimate way out of the wait: no _HLS_part was given and the segment is complete
			// (`msn < nextSegmentID`, reachable only on the `part == ""` side)
			_, absent := partPresenceConds(c, fn)
			if nextF := c.Field("", "muxerStream", "nextSegmentID"); nextF != nil && len(absent) > 0 {
				for _, ci := range ifsOn(fn, func(v ssa.Value) bool {
					bo, ok := v.(*ssa.BinOp)
					if !ok || bo.Op != token.LSS {
						return false
					}
					f, _ := loadedField(stripConv(bo.Y))
					return f == nextF
				}) {
					if onlyIf(fn, ci.If, absent, true) {
						conds = append(conds, ci)
					}
				}
			}
			if onlyIf(fn, g, conds, true) {
				r.ok(key, c.Pos(g.Pos()), FuncName(fn), what, "reachable only through the true outcome")
			} else {
				r.fail(key, c.Pos(g.Pos()), FuncName(fn), what,
					"the generation is reachable without the predicate having returned true (another disjunct leaves the wait loop): a request for a part index past the end of a complete segment — which stands for part 0 of the next one — is answered before that part exists")
			}
		}
	}
	if n == 0 {
		r.undecided("G7f: no playlist generation found downstream of a %s call (the construct this rule is anchored on was not found: no verdict)", pred.Name())
	}
	r.Instances = n
	return r
}

func ruleG7g(c *Ctx) *RuleResult {
	r := &RuleResult{Floor: 1, FloorWhat: "fMP4 playlist generators"}
	mapF := c.Field("pkg/playlist", "Media", "Map")
	skipF := c.Field("pkg/playlist", "Media", "Skip")
	if mapF == nil || skipF == nil {
		r.undecided("playlist.Media.Map / Skip not found")
		return r
	}
	n := 0
	for _, fn := range c.Funcs {
		if !InRootPkg(fn) || fn.Parent() != nil {
			continue
		}
		// a generator that sets Skip somewhere
		setsSkip := false
		allInstrs(fn, func(in ssa.Instruction) {
			if st, ok := in.(*ssa.Store); ok {
				if f, _ := fieldOfAddr(st.Addr); f == skipF {
					setsSkip = true
				}
			}
		})
		if !setsSkip {
			continue
		}
		n++
		key := FuncName(fn) + "|map-or-skip"
		what := "every path to a successful return sets EXT-X-MAP or EXT-X-SKIP"
		isSet := func(in ssa.Instruction) bool {
			st, ok := in.(*ssa.Store)
			if !ok {
				return false
			}
			f, _ := fieldOfAddr(st.Addr)
			if f != mapF && f != skipF {
				return false
			}
			if k, isC := st.Val.(*ssa.Const); isC && k.IsNil() {
				return false
			}
			return true
		}
		// the literal may also initialise the fields: composite literal stores are Stores too
		isMarshalCall := func(in ssa.Instruction) bool {
			call, ok := in.(*ssa.Call)
			if !ok {
				return false
			}
			g := call.Call.StaticCallee()
			return g != nil && g.Name() == "Marshal" && inPlaylistPkgs(g)
		}
		if len(fn.Blocks) == 0 {
			continue
		}
		path := pathAvoidingFromBlock(c, fn, fn.Blocks[0], isSet, isMarshalCall)
		if path == nil {
			r.ok(key, c.Pos(fn.Pos()), FuncName(fn), what, "no path to the encoder avoids both stores")
		} else {
			r.fail(key, c.Pos(fn.Pos()), FuncName(fn), what,
				"a path reaches the encoder with neither field set: the response is a playlist without an initialization section that a client merges as a full playlist (the delta branch drops the map, so it must always carry the skip tag)", path...)
		}
	}
	if n == 0 {
		r.undecided("G7g: no function of the root package stores playlist.Media.Skip (the construct this rule is anchored on was not found: no verdict)")
	}
	r.Instances = n
	return r
}

func ruleG13b(c *Ctx) *RuleResult {
	r := &RuleResult{Floor: 4, FloorWhat: "per-stream calls inside a range over m.streams"}
	streamsF := c.Field("", "Muxer", "streams")
	isLeadF := c.Field("", "muxerStream", "isLeading")
	if streamsF == nil || isLeadF == nil {
		r.undecided("Muxer.streams / muxerStream.isLeading not found")
		return r
	}
	n := 0
	var fns []*ssa.Function
	for _, fn := range c.Funcs {
		if InRootPkg(fn) && fn.Signature.Recv() != nil && typeIs(fn.Signature.Recv().Type(), modPath, "Muxer") {
			fns = append(fns, fn)
		}
	}
	sort.Slice(fns, func(i, j int) bool { return fns[i].String() < fns[j].String() })
	for _, fn := range fns {
		k := 0
		allInstrs(fn, func(in ssa.Instruction) {
			call, ok := in.(*ssa.Call)
			if !ok {
				return
			}
			g := call.Call.StaticCallee()
			if g == nil || g.Signature.Recv() == nil || !typeIs(g.Signature.Recv().Type(), modPath, "muxerStream") || len(call.Call.Args) == 0 {
				return
			}
			recv := call.Call.Args[0]
			ld, ok := recv.(*ssa.UnOp)
			if !ok || ld.Op != token.MUL {
				return
			}
			ia, ok := ld.X.(*ssa.IndexAddr)
			if !ok {
				return
			}
			if f, _ := loadedField(ia.X); f != streamsF {
				return
			}
			if isRange, _ := rangeIndexOver(ia.Index); !isRange {
				return
			}
			n++
			k++
			key := fmt.Sprintf("%s|%s#%d", FuncName(fn), g.Name(), k)
			what := "the call is made for every stream (restricted at most by isLeading and by the error of an earlier call)"
			for e := range controlEdges(fn, call.Block()) {
				iff := fn.Blocks[e.from].Instrs[len(fn.Blocks[e.from].Instrs)-1].(*ssa.If)
				v := iff.Cond
				for {
					if u, ok := v.(*ssa.UnOp); ok && u.Op == token.NOT {
						v = u.X
						continue
					}
					break
				}
				// allowed: the loop condition (index < len), isLeading of an element, err != nil
				if acceptableFanoutCond(v, isLeadF) {
					continue
				}
				r.fail(key, c.Pos(call.Pos()), FuncName(fn), what,
					"the call also depends on `"+condText(c, iff)+"`: a stream for which the condition does not hold is skipped while the others move on — its segments then span different boundaries than the leading stream's (durations and sequence numbers of the renditions drift apart)")
				return
			}
			r.ok(key, c.Pos(call.Pos()), FuncName(fn), what, "only loop / isLeading / error conditions control the call")
		})
	}
	r.Instances = n
	return r
}

func condText(c *Ctx, iff *ssa.If) string {
	if p := accessPath(iff.Cond); p != "" {
		return p
	}
	if bo, ok := iff.Cond.(*ssa.BinOp); ok {
		return describeVal(bo.X) + " " + bo.Op.String() + " " + describeVal(bo.Y)
	}
	return iff.Cond.String() + " at " + c.Pos(posOf(iff))
}

func acceptableFanoutCond(v ssa.Value, isLeadF *types.Var) bool {
	if f, _ := loadedField(v); f != nil && f == isLeadF {
		return true
	}
	bo, ok := v.(*ssa.BinOp)
	if !ok {
		return false
	}
	switch bo.Op {
	case token.LSS, token.GTR, token.LEQ, token.GEQ:
		// loop condition: index against len
		for _, s := range []ssa.Value{bo.X, bo.Y} {
			if call, ok := s.(*ssa.Call); ok {
				if b, ok := call.Call.Value.(*ssa.Builtin); ok && b.Name() == "len" {
					return true
				}
			}
		}
	case token.NEQ, token.EQL:
		for _, pair := range [][2]ssa.Value{{bo.X, bo.Y}, {bo.Y, bo.X}} {
			if k, ok := pair[1].(*ssa.Const); ok && k.IsNil() && isErrorType(pair[0].Type()) {
				return true
			}
			if f, _ := loadedField(pair[0]); f != nil && f == isLeadF {
				return true
			}
		}
	}
	return false
}

func isErrorType(t types.Type) bool {
	n, ok := t.(*types.Named)
	return ok && n.Obj().Pkg() == nil && n.Obj().Name() == "error"
}

func ruleF30(c *Ctx) *RuleResult {
	r := &RuleResult{Floor: 1, FloorWhat: "recomputations of the part target"}
	ptF := c.Field("", "muxerStream", "partTargetDuration")
	compute := c.Func("", "partTargetDuration")
	if ptF == nil || compute == nil {
		r.undecided("muxerStream.partTargetDuration / partTargetDuration() not found")
		return r
	}
	n := 0
	for _, fn := range c.Funcs {
		if !InRootPkg(fn) {
			continue
		}
		k := 0
		allInstrs(fn, func(in ssa.Instruction) {
			call, ok := in.(*ssa.Call)
			if !ok || call.Call.StaticCallee() != compute {
				return
			}
			n++
			k++
			key := fmt.Sprintf("%s|part-target#%d", FuncName(fn), k)
			what := "after the recomputation the stored part target equals the computed one on every path"
			// established: store of the result into the field, or the equal edge of a comparison of the two
			cut := map[edge]bool{}
			eqEdge := map[edge]bool{}
			for _, b := range fn.Blocks {
				if len(b.Instrs) == 0 {
					continue
				}
				iff, ok := b.Instrs[len(b.Instrs)-1].(*ssa.If)
				if !ok {
					continue
				}
				bo, ok := iff.Cond.(*ssa.BinOp)
				if !ok || (bo.Op != token.EQL && bo.Op != token.NEQ) {
					continue
				}
				isRes := func(v ssa.Value) bool { return stripConv(v) == ssa.Value(call) }
				isFld := func(v ssa.Value) bool { f, _ := loadedField(stripConv(v)); return f == ptF }
				if (isRes(bo.X) && isFld(bo.Y)) || (isRes(bo.Y) && isFld(bo.X)) {
					idx := 0
					if bo.Op == token.NEQ {
						idx = 1
					}
					eqEdge[edge{b.Index, b.Succs[idx].Index}] = true
				}
			}
			for e := range eqEdge {
				cut[e] = true
			}
			isStore := func(x ssa.Instruction) bool {
				st, ok := x.(*ssa.Store)
				if !ok {
					return false
				}
				f, _ := fieldOfAddr(st.Addr)
				return f == ptF && stripConv(st.Val) == ssa.Value(call)
			}
			isRet := func(x ssa.Instruction) bool { _, ok := x.(*ssa.Return); return ok }
			// path search from the call to a return that avoids the stores and the equal edges
			if path := pathAvoidingCut(c, fn, call, cut, isStore, isRet); path != nil {
				r.fail(key, c.Pos(call.Pos()), FuncName(fn), what,
					"a path leaves the rotation with the computed value neither stored nor found equal: the playlist keeps advertising a PART-TARGET that a listed part exceeds", path...)
			} else {
				r.ok(key, c.Pos(call.Pos()), FuncName(fn), what, "every path stores the result or found it equal")
			}
		})
	}
	if n == 0 {
		r.undecided("F30: no call of partTargetDuration() found (the construct this rule is anchored on was not found: no verdict)")
	}
	r.Instances = n
	return r
}

// pathAvoidingCut is pathAvoiding on a CFG from which the given edges were removed.
func pathAvoidingCut(c *Ctx, fn *ssa.Function, from ssa.Instruction, cut map[edge]bool, barrier, goal func(ssa.Instruction) bool) []string {
	scan := func(instrs []ssa.Instruction) (hit ssa.Instruction, blocked bool) {
		for _, x := range instrs {
			if barrier(x) {
				return nil, true
			}
			if goal(x) {
				return x, false
			}
		}
		return nil, false
	}
	sb := from.Block()
	rest := sb.Instrs[instrIndex(from)+1:]
	if hit, blocked := scan(rest); hit != nil {
		return []string{c.blockDesc(sb), "reaches " + shortInstr(hit) + " at " + c.Pos(posOf(hit))}
	} else if blocked {
		return nil
	}
	prev := map[int]int{}
	seen := map[int]bool{}
	var q []int
	for _, s := range sb.Succs {
		if cut[edge{sb.Index, s.Index}] || seen[s.Index] {
			continue
		}
		seen[s.Index] = true
		prev[s.Index] = -1
		q = append(q, s.Index)
	}
	for len(q) > 0 {
		bi := q[0]
		q = q[1:]
		b := fn.Blocks[bi]
		hit, blocked := scan(b.Instrs)
		if hit != nil {
			var idx []int
			for x := bi; x != -1; x = prev[x] {
				idx = append([]int{x}, idx...)
			}
			out := []string{c.blockDesc(sb)}
			for _, i := range idx {
				out = append(out, c.blockDesc(fn.Blocks[i]))
			}
			return append(out, "reaches "+shortInstr(hit)+" at "+c.Pos(posOf(hit)))
		}
		if blocked {
			continue
		}
		for _, s := range b.Succs {
			if cut[edge{bi, s.Index}] || seen[s.Index] {
				continue
			}
			seen[s.Index] = true
			prev[s.Index] = bi
			q = append(q, s.Index)
		}
	}
	return nil
}

func ruleT11(c *Ctx) *RuleResult {
	r := &RuleResult{Floor: 4, FloorWhat: "integer parses that fill a 64-bit field"}
	_, dec := c.codecSets()
	n := 0
	var fns []*ssa.Function
	for fn := range dec {
		fns = append(fns, fn)
	}
	sort.Slice(fns, func(i, j int) bool { return fns[i].String() < fns[j].String() })
	for _, fn := range fns {
		k := 0
		allInstrs(fn, func(in ssa.Instruction) {
			call, ok := in.(*ssa.Call)
			if !ok {
				return
			}
			g := call.Call.StaticCallee()
			if !isFuncNamed(g, "strconv", "ParseUint") && !isFuncNamed(g, "strconv", "ParseInt") {
				return
			}
			bits, isConst := constInt(call.Call.Args[2])
			// fields the parsed value reaches
			var fields []*types.Var
			seen := map[ssa.Value]bool{}
			var follow func(v ssa.Value, depth int)
			follow = func(v ssa.Value, depth int) {
				if v == nil || seen[v] || depth > 8 {
					return
				}
				seen[v] = true
				refs := v.Referrers()
				if refs == nil {
					return
				}
				for _, ref := range *refs {
					switch x := ref.(type) {
					case *ssa.Extract:
						if x.Index == 0 {
							follow(x, depth+1)
						}
					case *ssa.Convert:
						follow(x, depth+1)
					case *ssa.ChangeType:
						follow(x, depth+1)
					case *ssa.Phi:
						follow(x, depth+1)
					case *ssa.Store:
						if x.Val != v {
							continue
						}
						if f, _ := fieldOfAddr(x.Addr); f != nil {
							fields = append(fields, f)
							continue
						}
						// a local cell: its loads, and its address stored into a pointer field (`&tmp`)
						if al, ok := x.Addr.(*ssa.Alloc); ok {
							for _, r2 := range *al.Referrers() {
								switch y := r2.(type) {
								case *ssa.UnOp:
									if y.Op == token.MUL {
										follow(y, depth+1)
									}
								case *ssa.Store:
									if y.Val == ssa.Value(al) {
										if f, _ := fieldOfAddr(y.Addr); f != nil {
											fields = append(fields, f)
										}
									}
								}
							}
						}
					}
				}
			}
			follow(call, 0)
			for _, f := range fields {
				t := f.Type()
				if p, ok := t.Underlying().(*types.Pointer); ok {
					t = p.Elem()
				}
				b, ok := t.Underlying().(*types.Basic)
				if !ok || (b.Kind() != types.Uint64 && b.Kind() != types.Int64) {
					continue
				}
				n++
				k++
				key := fmt.Sprintf("%s|%s.%s#%d", FuncName(fn), c.fieldOwner(f), f.Name(), k)
				what := "a 64-bit field is parsed with bit size 64"
				if !isConst {
					r.undecided("T11: %s parses %s.%s with a bit size that is not a constant", FuncName(fn), c.fieldOwner(f), f.Name())
					continue
				}
				if bits == 64 || bits == 0 {
					r.ok(key, c.Pos(call.Pos()), FuncName(fn), what, fmt.Sprintf("bit size %d", bits))
				} else {
					r.fail(key, c.Pos(call.Pos()), FuncName(fn), what,
						fmt.Sprintf("bit size %d for the %s field %s.%s: the encoder prints the whole range, so a legal value of 2^%d or more is marshalled and then refused by the library's own decoder (round trip broken for large byte ranges / sequence numbers)", bits, b.Name(), c.fieldOwner(f), f.Name(), bits))
				}
			}
		})
	}
	r.Instances = n
	return r
}

func ruleT12(c *Ctx) *RuleResult {
	r := &RuleResult{Floor: 1, FloorWhat: "equality methods of tag structs consulted by the encoder"}
	enc, _ := c.codecSets()
	n := 0
	var fns []*ssa.Function
	for fn := range enc {
		fns = append(fns, fn)
	}
	sort.Slice(fns, func(i, j int) bool { return fns[i].String() < fns[j].String() })
	for _, fn := range fns {
		if fn.Parent() != nil || fn.Signature.Recv() == nil || fn.Signature.Params().Len() != 1 || fn.Signature.Results().Len() != 1 {
			continue
		}
		if b, ok := fn.Signature.Results().At(0).Type().Underlying().(*types.Basic); !ok || b.Kind() != types.Bool {
			continue
		}
		rt := namedOf(fn.Signature.Recv().Type())
		pt := namedOf(fn.Signature.Params().At(0).Type())
		if rt == nil || pt == nil || rt != pt {
			continue
		}
		st, ok := rt.Underlying().(*types.Struct)
		if !ok {
			continue
		}
		n++
		// fields loaded from the receiver and from the parameter
		fromRecv, fromParam := map[*types.Var]bool{}, map[*types.Var]bool{}
		allInstrs(fn, func(in ssa.Instruction) {
			u, ok := in.(*ssa.UnOp)
			if !ok || u.Op != token.MUL {
				return
			}
			f, base := fieldOfAddr(u.X)
			if f == nil {
				return
			}
			switch rootOf(base) {
			case ssa.Value(fn.Params[0]):
				fromRecv[f] = true
			case ssa.Value(fn.Params[1]):
				fromParam[f] = true
			}
		})
		for i := 0; i < st.NumFields(); i++ {
			f := st.Field(i)
			if !f.Exported() {
				continue
			}
			key := fmt.Sprintf("%s|%s", FuncName(fn), f.Name())
			what := "the equality method compares field " + f.Name() + " of both operands"
			if fromRecv[f] && fromParam[f] {
				r.ok(key, c.Pos(fn.Pos()), FuncName(fn), what, "loaded from both")
			} else {
				r.fail(key, c.Pos(fn.Pos()), FuncName(fn), what,
					"the field is not read from both operands: two tags that differ only in "+f.Name()+" count as equal, the encoder omits the second one and the decoder applies the first to the following segments — the decoded playlist differs from the encoded one")
			}
		}
	}
	r.Instances = n
	return r
}

func ruleT7m(c *Ctx) *RuleResult {
	r := &RuleResult{Floor: 2, FloorWhat: "library types with their own Read method"}
	n := 0
	seen := map[*types.Named]bool{}
	var names []*types.Named
	for _, fn := range c.Funcs {
		if !InLib(fn) || fn.Parent() != nil || fn.Name() != "Read" || fn.Signature.Recv() == nil {
			continue
		}
		if fn.Signature.Params().Len() != 1 || fn.Signature.Results().Len() != 2 {
			continue
		}
		nt := namedOf(fn.Signature.Recv().Type())
		if nt == nil || seen[nt] {
			continue
		}
		seen[nt] = true
		names = append(names, nt)
	}
	sort.Slice(names, func(i, j int) bool { return names[i].String() < names[j].String() })
	for _, nt := range names {
		n++
		ms := c.Prog.MethodSets.MethodSet(types.NewPointer(nt))
		bad := ""
		for i := 0; i < ms.Len(); i++ {
			sel := ms.At(i)
			name := sel.Obj().Name()
			if name != "WriteTo" && name != "ReadFrom" {
				continue
			}
			if len(sel.Index()) > 1 {
				bad = name
			}
		}
		key := nt.Obj().Name() + "|no-promoted-bypass"
		what := "no WriteTo / ReadFrom is promoted from an embedded field next to the type's own Read"
		if bad == "" {
			r.ok(key, c.Pos(nt.Obj().Pos()), nt.Obj().Name(), what, "method set checked")
		} else {
			r.fail(key, c.Pos(nt.Obj().Pos()), nt.Obj().Name(), what,
				bad+" is promoted from an embedded field: io.Copy prefers it to Read, so the window the type's own Read enforces (limit, offset, cursor) is bypassed — a part served from disk returns every byte up to the end of the segment file")
		}
	}
	r.Instances = n
	return r
}

func ruleT7n(c *Ctx) *RuleResult {
	r := &RuleResult{Floor: 2, FloorWhat: "disk readers"}
	n := 0
	var fns []*ssa.Function
	for _, fn := range c.Funcs {
		if fn.Pkg == nil || fn.Pkg.Pkg.Path() != modPath+"/pkg/storage" || fn.Parent() != nil {
			continue
		}
		fns = append(fns, fn)
	}
	sort.Slice(fns, func(i, j int) bool { return fns[i].String() < fns[j].String() })
	isOSFile := func(t types.Type) bool {
		p, ok := t.(*types.Pointer)
		return ok && typeIs(p.Elem(), "os", "File")
	}
	for _, fn := range fns {
		res := fn.Signature.Results()
		if res.Len() != 2 || !isErrorType(res.At(1).Type()) {
			continue
		}
		if !types.IsInterface(res.At(0).Type()) {
			continue
		}
		// does the function (or what it builds) involve an *os.File at all?
		var files []ssa.Value
		allInstrs(fn, func(in ssa.Instruction) {
			v, ok := in.(ssa.Value)
			if !ok {
				return
			}
			if isOSFile(v.Type()) && v.Referrers() != nil {
				used := false
				for _, ref := range *v.Referrers() {
					switch ref.(type) {
					case *ssa.BinOp, *ssa.DebugRef:
						// a nil test (the "finalized yet?" check) does not use the descriptor
					default:
						used = true
					}
				}
				if used {
					files = append(files, v)
				}
			}
		})
		if len(files) == 0 {
			continue
		}
		// only readers: the result type has a Read method
		hasRead := false
		if it, ok := res.At(0).Type().Underlying().(*types.Interface); ok {
			for i := 0; i < it.NumMethods(); i++ {
				if it.Method(i).Name() == "Read" {
					hasRead = true
				}
			}
		}
		if !hasRead {
			continue
		}
		n++
		key := FuncName(fn) + "|own-descriptor"
		what := "every *os.File used by the reader this function returns is opened by this call"
		bad := ""
		for _, f := range files {
			switch x := f.(type) {
			case *ssa.Extract:
				if call, ok := x.Tuple.(*ssa.Call); ok {
					g := call.Call.StaticCallee()
					if isFuncNamed(g, "os", "Open") || isFuncNamed(g, "os", "OpenFile") {
						continue
					}
				}
				bad = "a descriptor obtained from " + x.Tuple.String()
			case *ssa.UnOp:
				if fl, _ := fieldOfAddr(x.X); fl != nil {
					bad = "the descriptor kept in field " + c.fieldOwner(fl) + "." + fl.Name()
				}
			case *ssa.Phi:
				bad = "a descriptor merged from several sources"
			}
		}
		if bad == "" {
			r.ok(key, c.Pos(fn.Pos()), FuncName(fn), what, "os.Open in this function")
		} else {
			r.fail(key, c.Pos(fn.Pos()), FuncName(fn), what,
				"the reader is built on "+bad+": readers share one descriptor, so closing it (Remove, another reader's Close) breaks every reader still open, and reads at the shared offset interfere — the RAM back end gives every reader its own cursor")
		}
	}
	r.Instances = n
	return r
}

func ruleT6f(c *Ctx) *RuleResult {
	r := &RuleResult{Floor: 10, FloorWhat: "codec parameter fields compared in the video writers"}
	si := c.segmenter()
	if len(si.problems) > 0 {
		r.undecided("%s", si.problems[0])
		return r
	}
	n := 0
	for _, fn := range si.video {
		compared := map[*types.Var]token.Pos{}
		isCodecField := func(v ssa.Value) *types.Var {
			f, _ := loadedField(stripConv(v))
			if f == nil || f.Pkg() == nil || !strings.HasSuffix(f.Pkg().Path(), "/pkg/codecs") {
				return nil
			}
			return f
		}
		allInstrs(fn, func(in ssa.Instruction) {
			switch x := in.(type) {
			case *ssa.BinOp:
				if x.Op != token.NEQ && x.Op != token.EQL {
					return
				}
				for _, pair := range [][2]ssa.Value{{x.X, x.Y}, {x.Y, x.X}} {
					if k, isC := pair[1].(*ssa.Const); isC && k.IsNil() {
						continue // presence test, not a comparison with the received value
					}
					if f := isCodecField(pair[0]); f != nil {
						if _, dup := compared[f]; !dup {
							compared[f] = x.Pos()
						}
					}
				}
			case *ssa.Call:
				if isFuncNamed(x.Call.StaticCallee(), "bytes", "Equal") {
					for _, a := range x.Call.Args {
						if f := isCodecField(a); f != nil {
							if _, dup := compared[f]; !dup {
								compared[f] = x.Pos()
							}
						}
					}
				}
			}
		})
		stored := map[*types.Var]bool{}
		allInstrs(fn, func(in ssa.Instruction) {
			if st, ok := in.(*ssa.Store); ok {
				if f, _ := fieldOfAddr(st.Addr); f != nil {
					stored[f] = true
				}
			}
		})
		var fl []*types.Var
		for f := range compared {
			fl = append(fl, f)
		}
		sort.Slice(fl, func(i, j int) bool { return fl[i].Name() < fl[j].Name() })
		for _, f := range fl {
			n++
			key := fmt.Sprintf("%s|%s", FuncName(fn), f.Name())
			what := "the compared parameter codec." + f.Name() + " is assigned in this writer"
			if stored[f] {
				r.ok(key, c.Pos(compared[f]), FuncName(fn), what, "stored")
			} else {
				r.fail(key, c.Pos(compared[f]), FuncName(fn), what,
					"the field is compared but never updated: once the stream's value differs from the stored one every later key frame counts as a parameter change — a cut at every key frame regardless of the minimum duration, and an init segment that never carries the new value")
			}
		}
	}
	r.Instances = n
	return r
}

func ruleF8b(c *Ctx) *RuleResult {
	r := &RuleResult{Floor: 1, FloorWhat: "constructions of the fMP4 time converter"}
	tsF := c.Field("", "clientTimeConvFMP4", "leadingTimeScale")
	btF := c.Field("", "clientTimeConvFMP4", "leadingBaseTime")
	idF := c.Field("", "clientStreamProcessorFMP4", "leadingTrackID")
	if tsF == nil || btF == nil || idF == nil {
		r.undecided("clientTimeConvFMP4.leadingTimeScale / leadingBaseTime or clientStreamProcessorFMP4.leadingTrackID not found")
		return r
	}
	n := 0
	for _, fn := range c.Funcs {
		if !InRootPkg(fn) {
			continue
		}
		k := 0
		allInstrs(fn, func(in ssa.Instruction) {
			st, ok := in.(*ssa.Store)
			if !ok {
				return
			}
			f, base := fieldOfAddr(st.Addr)
			if f != tsF {
				return
			}
			n++
			k++
			key := fmt.Sprintf("%s|leadingTimeScale#%d", FuncName(fn), k)
			what := "the stored time scale is selected by the leading track's id or comes from the object that supplies the base time"
			// the base-time source stored into the same object
			var btRoot ssa.Value
			allInstrs(fn, func(x ssa.Instruction) {
				if s2, ok := x.(*ssa.Store); ok {
					if f2, b2 := fieldOfAddr(s2.Addr); f2 == btF && b2 == base {
						btRoot = rootOf(stripConv(s2.Val))
					}
				}
			})
			okSel := false
			seen := map[ssa.Value]bool{}
			var walk func(v ssa.Value, depth int)
			walk = func(v ssa.Value, depth int) {
				if v == nil || seen[v] || depth > 10 || okSel {
					return
				}
				seen[v] = true
				if fl, _ := loadedField(v); fl == idF {
					okSel = true
					return
				}
				if btRoot != nil && v == btRoot {
					if _, isParam := v.(*ssa.Parameter); isParam {
						okSel = true
						return
					}
				}
				switch x := v.(type) {
				case *ssa.Convert:
					walk(x.X, depth+1)
				case *ssa.ChangeType:
					walk(x.X, depth+1)
				case *ssa.Call:
					for _, a := range x.Call.Args {
						walk(a, depth+1)
					}
				case *ssa.Extract:
					walk(x.Tuple, depth+1)
				case *ssa.Phi:
					for _, e := range x.Edges {
						walk(e, depth+1)
					}
				case *ssa.UnOp:
					walk(x.X, depth+1)
				case *ssa.FieldAddr:
					walk(x.X, depth+1)
				case *ssa.Field:
					walk(x.X, depth+1)
				case *ssa.IndexAddr:
					walk(x.X, depth+1)
					walk(x.Index, depth+1)
				case *ssa.BinOp:
					walk(x.X, depth+1)
					walk(x.Y, depth+1)
				}
			}
			walk(st.Val, 0)
			if okSel {
				r.ok(key, c.Pos(st.Pos()), FuncName(fn), what, "depends on leadingTrackID")
			} else {
				r.fail(key, c.Pos(st.Pos()), FuncName(fn), what,
					"the value ("+describeVal(stripConv(st.Val))+") does not depend on the leading track's id: with a non-leading track listed first in the init section the origin of the leading track is rescaled with another track's time scale, and every delivered timestamp is shifted")
			}
		})
	}
	if n == 0 {
		r.undecided("F8b: no store to clientTimeConvFMP4.leadingTimeScale found (the construct this rule is anchored on was not found: no verdict)")
	}
	r.Instances = n
	return r
}

func ruleK2b(c *Ctx) *RuleResult {
	r := &RuleResult{Floor: 3, FloorWhat: "selects with a Done() arm inside a loop (client code)"}
	n := 0
	var fns []*ssa.Function
	for _, fn := range c.Funcs {
		if InRootPkg(fn) {
			fns = append(fns, fn)
		}
	}
	sort.Slice(fns, func(i, j int) bool { return fns[i].String() < fns[j].String() })
	for _, fn := range fns {
		top := enclosingNamed(fn)
		if top == nil || !isClientFunc(top) {
			continue
		}
		k := 0
		allInstrs(fn, func(in ssa.Instruction) {
			sel, ok := in.(*ssa.Select)
			if !ok || !sel.Blocking {
				return
			}
			if !inLoopBlock(fn, sel.Block()) {
				return
			}
			for i, stt := range sel.States {
				if !isDoneChan(stt.Chan) {
					continue
				}
				// the block taken when this arm fires: If (index == i)
				var arm *ssa.BasicBlock
				for _, ref := range *sel.Referrers() {
					ex, ok := ref.(*ssa.Extract)
					if !ok || ex.Index != 0 {
						continue
					}
					for _, r2 := range *ex.Referrers() {
						bo, ok := r2.(*ssa.BinOp)
						if !ok || bo.Op != token.EQL {
							continue
						}
						if kk, ok := constInt(bo.Y); !ok || int(kk) != i {
							continue
						}
						for _, r3 := range *bo.Referrers() {
							if iff, ok := r3.(*ssa.If); ok {
								arm = iff.Block().Succs[0]
							}
						}
					}
				}
				if arm == nil {
					continue
				}
				n++
				k++
				key := fmt.Sprintf("%s|done-arm#%d", FuncName(fn), k)
				what := "after the Done() arm fired the same select is not entered again"
				if arm == sel.Block() || reachableBlocks(fn, arm.Index, nil, nil)[sel.Block().Index] {
					r.fail(key, c.Pos(sel.Pos()), FuncName(fn), what,
						"the arm leads back to the select (a `break` inside select leaves only the select): with the context cancelled the loop spins on the closed Done channel for ever — the goroutine never ends, the pool's close and Client.Wait never return")
				} else {
					r.ok(key, c.Pos(sel.Pos()), FuncName(fn), what, "the arm leaves the loop")
				}
			}
		})
	}
	r.Instances = n
	return r
}

func isDoneChan(v ssa.Value) bool {
	call, ok := v.(*ssa.Call)
	if !ok {
		return false
	}
	if call.Call.IsInvoke() && call.Call.Method.Name() == "Done" {
		return true
	}
	return false
}

func isClientFunc(fn *ssa.Function) bool {
	if fn.Signature.Recv() != nil {
		if nt := namedOf(fn.Signature.Recv().Type()); nt != nil {
			return strings.HasPrefix(nt.Obj().Name(), "client") || nt.Obj().Name() == "Client"
		}
	}
	return strings.HasPrefix(fn.Name(), "client")
}

func ruleG11c(c *Ctx) *RuleResult {
	r := &RuleResult{Floor: 1, FloorWhat: "bandwidth computations"}
	fn := c.Func("", "bandwidth")
	if fn == nil {
		r.undecided("bandwidth() not found")
		return r
	}
	// per-segment peak: a division inside a loop; sums: additions whose one operand is a loop phi
	var quos []*ssa.BinOp
	var sums []*ssa.BinOp
	allInstrs(fn, func(in ssa.Instruction) {
		bo, ok := in.(*ssa.BinOp)
		if !ok || !inLoopBlock(fn, bo.Block()) {
			return
		}
		switch bo.Op {
		case token.QUO:
			quos = append(quos, bo)
		case token.ADD:
			for _, s := range []ssa.Value{bo.X, bo.Y} {
				if phi, ok := s.(*ssa.Phi); ok {
					for _, e := range phi.Edges {
						if e == ssa.Value(bo) {
							// an accumulator (not the loop index: its increment is the constant 1)
							other := bo.Y
							if s == bo.Y {
								other = bo.X
							}
							if _, isConst := other.(*ssa.Const); !isConst {
								sums = append(sums, bo)
							}
						}
					}
				}
			}
		}
	})
	if len(quos) == 0 || len(sums) == 0 {
		r.undecided("G11c: bandwidth() has no per-segment division or no accumulated sums in its loop: form not known to the rule")
		return r
	}
	n := 0
	for _, q := range quos {
		qc := controlEdges(fn, q.Block())
		for i, s := range sums {
			n++
			key := fmt.Sprintf("bandwidth|sum#%d", i+1)
			what := "the sum is accumulated under every condition that restricts the per-segment peak"
			sc := controlEdges(fn, s.Block())
			missing := ""
			for e := range qc {
				if !sc[e] {
					iff := fn.Blocks[e.from].Instrs[len(fn.Blocks[e.from].Instrs)-1].(*ssa.If)
					missing = condText(c, iff)
				}
			}
			if missing == "" {
				r.ok(key, c.Pos(s.Pos()), FuncName(fn), what, "same controlling conditions")
			} else {
				r.fail(key, c.Pos(s.Pos()), FuncName(fn), what,
					"the peak is restricted by `"+missing+"` but this sum is not: a segment counts towards the average without counting towards the peak, so AVERAGE-BANDWIDTH can exceed BANDWIDTH (a zero-duration segment after a forced rotation adds its bytes to the mean only)")
			}
		}
	}
	r.Instances = n
	return r
}

func ruleF31(c *Ctx) *RuleResult {
	r := &RuleResult{Floor: 1, FloorWhat: "renderings of the AV1 colour description"}
	want := []string{"ColorPrimaries", "TransferCharacteristics", "MatrixCoefficients"}
	rank := map[string]int{}
	for i, w := range want {
		rank[w] = i
	}
	n := 0
	for _, fn := range c.Funcs {
		if fn.Pkg == nil && fn.Parent() == nil {
			continue
		}
		top := enclosingNamed(fn)
		if top == nil || top.Pkg == nil || top.Pkg.Pkg.Path() != modPath+"/pkg/codecparams" {
			continue
		}
		k := 0
		// the colour fields named by a value: loads of fields of those names in its operands
		var fieldsIn func(v ssa.Value, depth int, out *[]string)
		fieldsIn = func(v ssa.Value, depth int, out *[]string) {
			if v == nil || depth > 6 {
				return
			}
			var f *types.Var
			if lf, _ := loadedField(v); lf != nil {
				f = lf
			} else if fv, ok := v.(*ssa.Field); ok {
				if st := derefStruct(fv.X.Type()); st != nil {
					f = st.Field(fv.Field)
				}
			}
			if f != nil {
				if _, ok := rank[f.Name()]; ok {
					*out = append(*out, f.Name())
				}
				return
			}
			switch x := v.(type) {
			case *ssa.Convert:
				fieldsIn(x.X, depth+1, out)
			case *ssa.ChangeType:
				fieldsIn(x.X, depth+1, out)
			case *ssa.MakeInterface:
				fieldsIn(x.X, depth+1, out)
			case *ssa.Call:
				for _, a := range x.Call.Args {
					fieldsIn(a, depth+1, out)
				}
				if len(x.Call.Args) > 0 {
					for _, a := range variadicArgs(x.Call.Args[len(x.Call.Args)-1]) {
						fieldsIn(a, depth+1, out)
					}
				}
			}
		}
		for _, root := range stringRoots(fn) {
			var order []string
			for _, l := range flatten(root, 0) {
				if l.val != nil {
					fieldsIn(l.val, 0, &order)
				}
			}
			if len(order) < 2 {
				continue
			}
			n++
			k++
			key := fmt.Sprintf("%s|colour-order#%d", FuncName(fn), k)
			what := "colour primaries, transfer characteristics, matrix coefficients are printed in this order"
			okOrder := true
			for i := 1; i < len(order); i++ {
				if rank[order[i]] <= rank[order[i-1]] {
					okOrder = false
				}
			}
			pos := c.Pos(fn.Pos())
			if in, ok := root.(ssa.Instruction); ok {
				pos = c.Pos(posOf(in))
			}
			if okOrder {
				r.ok(key, pos, FuncName(fn), what, strings.Join(order, ", "))
			} else {
				r.fail(key, pos, FuncName(fn), what,
					"printed as "+strings.Join(order, ", ")+": the CODECS attribute names other colour parameters than the stream's sequence header (an HDR stream with tc != mc is advertised wrongly)")
			}
		}
	}
	if n == 0 {
		r.undecided("F31: no text printing two or more of ColorPrimaries / TransferCharacteristics / MatrixCoefficients found in pkg/codecparams (the construct this rule is anchored on was not found: no verdict)")
	}
	r.Instances = n
	return r
}

func init() {
	registerRule("F32", "units are dropped silently only while their track processor does not exist: in the functions that hand units to a track processor, a success return that bypasses the hand-over, and every condition inside the hand-over loop that skips it, is a failed lookup (nil / not-ok) of the processor", ruleF32)
}

func isTrackProcType(t types.Type) bool {
	if _, ok := t.(*types.Pointer); !ok {
		return false
	}
	n := namedOf(t)
	return n != nil && n.Obj().Pkg() != nil && n.Obj().Pkg().Path() == modPath && strings.HasPrefix(n.Obj().Name(), "clientTrackProcessor")
}

// procLookupCond: v tests whether a track processor was found: `x == nil` / `x != nil` on a processor-typed value, or
// the ok of a comma-ok map lookup that yields a processor. Returns the successor index taken when it was NOT found.
func procLookupCond(iff *ssa.If) (int, bool) {
	v := iff.Cond
	neg := false
	for {
		if u, ok := v.(*ssa.UnOp); ok && u.Op == token.NOT {
			v = u.X
			neg = !neg
			continue
		}
		break
	}
	switch x := v.(type) {
	case *ssa.BinOp:
		if x.Op != token.EQL && x.Op != token.NEQ {
			return 0, false
		}
		for _, pair := range [][2]ssa.Value{{x.X, x.Y}, {x.Y, x.X}} {
			if k, ok := pair[1].(*ssa.Const); ok && k.IsNil() && isTrackProcType(pair[0].Type()) {
				// EQL: true edge = not found
				notFoundOnTrue := x.Op == token.EQL
				if neg {
					notFoundOnTrue = !notFoundOnTrue
				}
				if notFoundOnTrue {
					return 0, true
				}
				return 1, true
			}
		}
	case *ssa.Extract:
		if x.Index != 1 {
			return 0, false
		}
		if lk, ok := x.Tuple.(*ssa.Lookup); ok && lk.CommaOk {
			if m, ok := lk.X.Type().Underlying().(*types.Map); ok && isTrackProcType(m.Elem()) {
				// ok true = found
				if neg {
					return 0, true
				}
				return 1, true
			}
		}
	}
	return 0, false
}

func ruleF32(c *Ctx) *RuleResult {
	r := &RuleResult{Floor: 2, FloorWhat: "hand-overs of units to track processors"}
	n := 0
	var fns []*ssa.Function
	for _, fn := range c.Funcs {
		if InRootPkg(fn) {
			fns = append(fns, fn)
		}
	}
	sort.Slice(fns, func(i, j int) bool { return fns[i].String() < fns[j].String() })
	for _, fn := range fns {
		var pushes []*ssa.Call
		allInstrs(fn, func(in ssa.Instruction) {
			call, ok := in.(*ssa.Call)
			if !ok {
				return
			}
			g := call.Call.StaticCallee()
			if g == nil || g.Name() != "push" || g.Signature.Recv() == nil || !isTrackProcType(g.Signature.Recv().Type()) {
				return
			}
			// the end-of-stream marker push(ctx, nil) is not a unit
			last := call.Call.Args[len(call.Call.Args)-1]
			if k, ok := last.(*ssa.Const); ok && k.IsNil() {
				return
			}
			pushes = append(pushes, call)
		})
		for i, push := range pushes {
			n++
			key := fmt.Sprintf("%s|hand-over#%d", FuncName(fn), i+1)
			what := "a unit bypasses the hand-over without an error only when its track processor was not found"
			// not-found edges
			cut := map[edge]bool{}
			for _, b := range fn.Blocks {
				if len(b.Instrs) == 0 {
					continue
				}
				if iff, ok := b.Instrs[len(b.Instrs)-1].(*ssa.If); ok {
					if idx, ok := procLookupCond(iff); ok {
						cut[edge{b.Index, b.Succs[idx].Index}] = true
					}
				}
			}
			bad := ""
			var badPos token.Pos
			// (1) success returns that bypass the push
			blocked := map[int]bool{}
			seen := reachableBlocks(fn, 0, cut, nil)
			_ = blocked
			for _, b := range fn.Blocks {
				if !seen[b.Index] || len(b.Instrs) == 0 {
					continue
				}
				ret, ok := b.Instrs[len(b.Instrs)-1].(*ssa.Return)
				if !ok || len(ret.Results) == 0 {
					continue
				}
				ev := retVal(ret, len(ret.Results)-1)
				k, isC := ev.(*ssa.Const)
				if !isC || !k.IsNil() {
					continue
				}
				// reachable from the entry without the push and without a failed lookup?
				if path := pathAvoidingCut0(fn, cut, func(x ssa.Instruction) bool { return x == ssa.Instruction(push) }, ret); path {
					// a function whose only success return lies after its hand-over loop is fine: the return must be
					// reachable while bypassing every push of the function
					bypassAll := pathAvoidingCut0(fn, cut, func(x ssa.Instruction) bool {
						for _, p := range pushes {
							if x == ssa.Instruction(p) {
								return true
							}
						}
						return false
					}, ret)
					if bypassAll && !inLoopBlock(fn, push.Block()) {
						bad = "the success return at " + c.Pos(posOf(ret)) + " is reachable without the hand-over and without a failed processor lookup"
						badPos = posOf(ret)
					}
				}
			}
			// (2) inside the hand-over loop: conditions that skip the push
			if bad == "" && inLoopBlock(fn, push.Block()) {
				fromPush := reachableBlocks(fn, push.Block().Index, nil, nil)
				for e := range controlEdges(fn, push.Block()) {
					d := fn.Blocks[e.from]
					if !fromPush[d.Index] {
						continue // not in the loop of the push
					}
					iff := d.Instrs[len(d.Instrs)-1].(*ssa.If)
					if _, ok := procLookupCond(iff); ok {
						continue
					}
					v := iff.Cond
					for {
						if u, ok := v.(*ssa.UnOp); ok && u.Op == token.NOT {
							v = u.X
							continue
						}
						break
					}
					if acceptableFanoutCond(v, nil) {
						continue // loop condition or an error test
					}
					if ex, ok := v.(*ssa.Extract); ok {
						if _, isNext := ex.Tuple.(*ssa.Next); isNext {
							continue
						}
					}
					bad = "inside the loop the hand-over also depends on `" + condText(c, iff) + "`"
					badPos = posOf(iff)
				}
			}
			if bad == "" {
				r.ok(key, c.Pos(push.Pos()), FuncName(fn), what, "only failed lookups bypass the hand-over")
			} else {
				r.fail(key, c.Pos(badPos), FuncName(fn), what, bad+": units of a downloaded segment are discarded without an error (the consumer sees a gap, not a failure)")
			}
		}
	}
	r.Instances = n
	return r
}

// pathAvoidingCut0: is target reachable from the entry of fn on the CFG without the cut edges, not executing a barrier?
func pathAvoidingCut0(fn *ssa.Function, cut map[edge]bool, barrier func(ssa.Instruction) bool, target ssa.Instruction) bool {
	if len(fn.Blocks) == 0 {
		return false
	}
	seen := map[int]bool{}
	stack := []int{0}
	seen[0] = true
	for len(stack) > 0 {
		bi := stack[len(stack)-1]
		stack = stack[:len(stack)-1]
		b := fn.Blocks[bi]
		blockedHere := false
		for _, x := range b.Instrs {
			if x == target {
				return true
			}
			if barrier(x) {
				blockedHere = true
				break
			}
		}
		if blockedHere {
			continue
		}
		for _, s := range b.Succs {
			if cut[edge{bi, s.Index}] || seen[s.Index] {
				continue
			}
			seen[s.Index] = true
			stack = append(stack, s.Index)
		}
	}
	return false
}

func init() {
	registerRule("K1b", "what Close needs exists when Start returns: every field of the Client that Close reads is assigned in Start before the go statement (never by the goroutine it starts)", ruleK1b)
	registerRule("F26b", "a served playlist is generated by its own request: every function between the media-playlist handler and the generators returns, as playlist bytes, only nil or the result of a call that reaches a generator", ruleF26b)
}

func ruleK1b(c *Ctx) *RuleResult {
	r := &RuleResult{Floor: 1, FloorWhat: "fields of the Client read by Close"}
	closeFn := c.Method("", "Client", "Close")
	startFn := c.Method("", "Client", "Start")
	if closeFn == nil || startFn == nil {
		r.undecided("(*Client).Close / Start not found")
		return r
	}
	// fields Close (and the client helpers it calls directly) reads
	read := map[*types.Var]token.Pos{}
	var scan func(fn *ssa.Function, depth int)
	seenFn := map[*ssa.Function]bool{}
	scan = func(fn *ssa.Function, depth int) {
		if fn == nil || seenFn[fn] || depth > 3 || !InRootPkg(fn) {
			return
		}
		seenFn[fn] = true
		allInstrs(fn, func(in ssa.Instruction) {
			switch x := in.(type) {
			case *ssa.UnOp:
				if x.Op == token.MUL {
					if f, _ := fieldOfAddr(x.X); f != nil && c.fieldOwner(f) == "Client" {
						if _, dup := read[f]; !dup {
							read[f] = x.Pos()
						}
					}
				}
			case *ssa.Call:
				scan(x.Call.StaticCallee(), depth+1)
			}
		})
	}
	scan(closeFn, 0)
	var goInstr *ssa.Go
	allInstrs(startFn, func(in ssa.Instruction) {
		if g, ok := in.(*ssa.Go); ok && goInstr == nil {
			goInstr = g
		}
	})
	if goInstr == nil {
		r.undecided("K1b: (*Client).Start has no go statement: form not known to the rule")
		return r
	}
	var fl []*types.Var
	for f := range read {
		// configuration fields the user sets are not the library's to assign
		if f.Exported() {
			continue
		}
		fl = append(fl, f)
	}
	sort.Slice(fl, func(i, j int) bool { return fl[i].Name() < fl[j].Name() })
	n := 0
	for _, f := range fl {
		n++
		key := "Client.Close|" + f.Name()
		what := "Client." + f.Name() + ", which Close reads, is assigned in Start before the goroutine is started, and nowhere else"
		var stores []*ssa.Store
		for _, fn := range c.Funcs {
			if !InRootPkg(fn) {
				continue
			}
			allInstrs(fn, func(in ssa.Instruction) {
				if st, ok := in.(*ssa.Store); ok {
					if sf, _ := fieldOfAddr(st.Addr); sf == f {
						stores = append(stores, st)
					}
				}
			})
		}
		bad := ""
		inStart := false
		for _, st := range stores {
			if st.Parent() == startFn && instrDominates(st, goInstr) {
				inStart = true
				continue
			}
			bad = "assigned at " + c.Pos(st.Pos()) + " in " + FuncName(st.Parent())
		}
		switch {
		case bad != "":
			r.fail(key, c.Pos(read[f]), FuncName(closeFn), what,
				bad+": a Close issued right after Start returns can run before that assignment — it finds nothing to cancel (or races with the write), the cancellation is lost and Wait never reports the termination")
		case !inStart:
			r.fail(key, c.Pos(read[f]), FuncName(closeFn), what, "never assigned before the go statement of Start")
		default:
			r.ok(key, c.Pos(read[f]), FuncName(closeFn), what, "assigned in Start before `go`")
		}
	}
	r.Instances = n
	return r
}

func ruleF26b(c *Ctx) *RuleResult {
	r := &RuleResult{Floor: 2, FloorWhat: "byte-slice returns between the media-playlist handler and the generators"}
	handler := c.Method("", "muxerStream", "handleMediaPlaylist")
	if handler == nil {
		r.undecided("(*muxerStream).handleMediaPlaylist not found")
		return r
	}
	isGenName := func(g *ssa.Function) bool {
		return g != nil && InLib(g) && strings.Contains(g.Name(), "generateMediaPlaylist")
	}
	// functions reachable from the handler (closures included) that reach a generator
	var roots []*ssa.Function
	roots = append(roots, withAnon(handler)...)
	reachable := c.reach(roots, func(f *ssa.Function) bool { return !InRootPkg(f) && !isGenName(f) })
	for _, a := range roots {
		reachable[a] = true
	}
	reachesGen := map[*ssa.Function]bool{}
	for fn := range reachable {
		if isGenName(fn) {
			reachesGen[fn] = true
		}
	}
	for changed := true; changed; {
		changed = false
		for fn := range reachable {
			if reachesGen[fn] || fn.Blocks == nil {
				continue
			}
			hit := false
			allInstrs(fn, func(in ssa.Instruction) {
				if ci, ok := in.(ssa.CallInstruction); ok {
					for _, g := range c.calleesOf(ci) {
						if reachesGen[g] {
							hit = true
						}
					}
				}
			})
			if hit {
				reachesGen[fn] = true
				changed = true
			}
		}
	}
	var fns []*ssa.Function
	for fn := range reachesGen {
		if isGenName(fn) || fn.Blocks == nil || !InRootPkg(fn) {
			continue
		}
		fns = append(fns, fn)
	}
	sort.Slice(fns, func(i, j int) bool { return fns[i].String() < fns[j].String() })
	n := 0
	for _, fn := range fns {
		res := fn.Signature.Results()
		idx := -1
		for i := 0; i < res.Len(); i++ {
			if isByteSlice(res.At(i).Type()) {
				idx = i
			}
		}
		if idx < 0 {
			continue
		}
		k := 0
		for _, b := range fn.Blocks {
			ret, ok := b.Instrs[len(b.Instrs)-1].(*ssa.Return)
			if !ok || b == fn.Recover {
				continue // the recover block re-loads the spilled results after a panic was recovered (none is here)
			}
			n++
			k++
			key := fmt.Sprintf("%s|bytes-return#%d", FuncName(fn), k)
			what := "the returned playlist bytes are nil or the result of a call that reaches a generator"
			bad := ""
			seen := map[ssa.Value]bool{}
			var check func(v ssa.Value, depth int)
			check = func(v ssa.Value, depth int) {
				if v == nil || seen[v] || depth > 8 || bad != "" {
					return
				}
				seen[v] = true
				switch x := v.(type) {
				case *ssa.Const:
					if !x.IsNil() {
						bad = "a constant"
					}
				case *ssa.Phi:
					for _, e := range x.Edges {
						check(e, depth+1)
					}
				case *ssa.Extract:
					check(x.Tuple, depth+1)
				case *ssa.Call:
					okCall := false
					for _, g := range c.calleesOf(x) {
						if reachesGen[g] {
							okCall = true
						}
					}
					if !okCall {
						bad = "the result of " + shortInstr(x)
					}
				default:
					bad = describeVal(v) + " (" + fmt.Sprintf("%T", v)[5:] + ")"
				}
			}
			check(retVal(ret, idx), 0)
			if bad == "" {
				r.ok(key, c.Pos(posOf(ret)), FuncName(fn), what, "generator result or nil")
			} else {
				r.fail(key, c.Pos(posOf(ret)), FuncName(fn), what,
					"returns "+bad+": the response can be a playlist that was not generated from the state at the time of this request (a copy kept across requests lists segments that a later rotation — also a failed one — has already unregistered)")
			}
		}
	}
	r.Instances = n
	return r
}

func init() {
	registerRule("F7h", "too late only while live: the error raised when the next segment is more than clientLiveMaxDistanceFromEnd from the end is control dependent on the playlist being fetched having no ENDLIST (a finished playlist is played to its end)", ruleF7h)
}

func ruleF7h(c *Ctx) *RuleResult {
	r := &RuleResult{Floor: 1, FloorWhat: "distance-from-end tests"}
	fq := c.Method("", "clientStreamDownloader", "fillSegmentQueue")
	endF := c.Field("pkg/playlist", "Media", "Endlist")
	if fq == nil || endF == nil {
		r.undecided("fillSegmentQueue / playlist.Media.Endlist not found")
		return r
	}
	var maxDist int64 = -1
	if pkg := c.SSA[modPath]; pkg != nil {
		if k, ok := pkg.Members["clientLiveMaxDistanceFromEnd"].(*ssa.NamedConst); ok {
			if v, ok := constInt(k.Value); ok {
				maxDist = v
			}
		}
	}
	if maxDist < 0 {
		r.undecided("constant clientLiveMaxDistanceFromEnd not found")
		return r
	}
	n := 0
	for _, fn := range c.withDownloaderHelpers(fq) {
		for _, b := range fn.Blocks {
			if len(b.Instrs) == 0 {
				continue
			}
			iff, ok := b.Instrs[len(b.Instrs)-1].(*ssa.If)
			if !ok {
				continue
			}
			bo, ok := iff.Cond.(*ssa.BinOp)
			if !ok {
				continue
			}
			trueIdx := -1
			switch bo.Op {
			case token.GTR:
				if k, ok := constInt(bo.Y); ok && k == maxDist {
					if _, isC := bo.X.(*ssa.Const); !isC {
						trueIdx = 0
					}
				}
			case token.LSS:
				if k, ok := constInt(bo.X); ok && k == maxDist {
					if _, isC := bo.Y.(*ssa.Const); !isC {
						trueIdx = 0
					}
				}
			case token.LEQ:
				if k, ok := constInt(bo.Y); ok && k == maxDist {
					if _, isC := bo.X.(*ssa.Const); !isC {
						trueIdx = 1
					}
				}
			}
			if trueIdx < 0 {
				continue
			}
			// the block taken when the distance is exceeded must end in an error return
			tooLate := b.Succs[trueIdx]
			ret, ok := tooLate.Instrs[len(tooLate.Instrs)-1].(*ssa.Return)
			if !ok {
				continue
			}
			n++
			key := fmt.Sprintf("%s|too-late#%d", FuncName(fn), n)
			what := "the `too late` error is returned only for a playlist without ENDLIST"
			conds := ifsOnV(fn, func(v ssa.Value) bool {
				f, _ := loadedField(v)
				return f == endF
			})
			if len(conds) > 0 && onlyIf(fn, ret, conds, false) {
				r.ok(key, c.Pos(posOf(iff)), FuncName(fn), what, "control dependent on !Endlist")
			} else {
				r.fail(key, c.Pos(posOf(iff)), FuncName(fn), what,
					"the error does not depend on the Endlist flag of the playlist: a stream that is closed with ENDLIST while the client is more than "+fmt.Sprint(maxDist)+" segments behind ends with `playback is too late` instead of being played to its last segment and ErrClientEOS")
			}
		}
	}
	if n == 0 {
		r.undecided("F7h: no comparison with clientLiveMaxDistanceFromEnd that leads to an error return found (the construct this rule is anchored on was not found: no verdict)")
	}
	r.Instances = n
	return r
}

// muxerFanOut returns the Muxer method that rotates every stream ("rotateSegments" / "rotateParts"): the method
// named <kind>Inner, or — after a rename — the Muxer method that calls (*muxerStream).<kind> on m.leadingStream.
func (c *Ctx) muxerFanOut(kind string) *ssa.Function {
	if fn := c.Method("", "Muxer", kind+"Inner"); fn != nil {
		return fn
	}
	leadF := c.Field("", "Muxer", "leadingStream")
	target := c.Method("", "muxerStream", kind)
	if leadF == nil || target == nil {
		return nil
	}
	var found []*ssa.Function
	for _, fn := range c.Funcs {
		if fn.Parent() != nil || fn.Signature.Recv() == nil || !typeIs(fn.Signature.Recv().Type(), modPath, "Muxer") {
			continue
		}
		hit := false
		allInstrs(fn, func(in ssa.Instruction) {
			if call, ok := in.(*ssa.Call); ok && call.Call.StaticCallee() == target && len(call.Call.Args) > 0 {
				if f, _ := loadedField(call.Call.Args[0]); f == leadF {
					hit = true
				}
			}
		})
		if hit {
			found = append(found, fn)
		}
	}
	if len(found) == 1 {
		return found[0]
	}
	return nil
}
