package main

// Eleventh batch: rules written after the eleventh round of seeded changes.

import (
	"fmt"
	"go/token"
	"go/types"
	"sort"
	"strings"

	"golang.org/x/tools/go/ssa"
)

func init() {
	registerRule("P8b", "served bytes are private to their handler: a byte slice captured by a closure that is registered as a path handler comes from a buffer that is local to the registering call (never Bytes() of a buffer kept in a field and reused)", ruleP8b)
	registerRule("L3h", "Close wakes every waiter: each condition variable a muxer request waits on (identified by its sync.NewCond site, followed through field copies) is broadcast by code reachable from Muxer.Close", ruleL3h)
	registerRule("L5d", "Close does not reopen the stream: code reachable from Muxer.Close stores nil into no open slot (a nil slot is the segmenter's sign for `nothing written yet`: the next write would create a new file)", ruleL5d)
	registerRule("K19", "the leading variant is a supported one: pickLeadingPlaylist selects among the variants that passed checkSupport (never among its parameter), and indexes that list only under a test of its length", ruleK19)
	registerRule("F7s", "every URI is resolved against the playlist URL: each successful return of clientAbsoluteURL is base.ResolveReference(parsed), and that call is made only after the parse error was tested", ruleF7s)
	registerRule("T29", "an absent byte-range start stays absent: in ByteRange.Unmarshal the store into Start is control dependent on the `@` having been found", ruleT29)
	registerRule("T30", "lines are split by ReadLine only: outside ReadLine no function of the playlist packages searches its cursor for a line feed (a last line without terminator is a line)", ruleT30)
	registerRule("G19", "rendering is read-only: the playlist generators and populateMultivariantPlaylist store into no field of a muxer object (a cached tag outlives the request whose query it carries)", ruleG19)
	registerRule("G11n", "RESOLUTION comes from the displayed size: the integers printed into MultivariantVariant.Resolution are results of Width() / Height() of the parsed parameter set, or the Width / Height fields of the codec", ruleG11n)
	registerRule("T7u", "Finalize keeps the part list: the Finalize methods of the storage files do not store into the parts slice or its elements (allocation order is reading order)", ruleT7u)
	registerRule("P3h", "part URLs exist in Low-Latency only: every registerPath of muxerStream.rotateParts is control dependent on `variant == MuxerVariantLowLatency`", ruleP3h)
	registerRule("P3i", "a path that is registered again replaces itself: the path of the init file handler is built from fields that are never changed after Start (a path that varies needs an unregister of the old one)", ruleP3i)
	registerRule("F53", "no segment without the leading track: in the fMP4 stream processor every path from the lookup of the leading track's data to a successful return passes the test that the data was found (an empty body for an expired segment is an error, not a skip)", ruleF53)
	registerRule("F41b", "reordered pictures keep their composition offset: a video writer that obtains its decode time from a DTS extractor hands `pts - dts` to the sample (FillH26x or PTSOffset)", ruleF41b)
	registerRule("G4g", "renditions follow the leading stream at every rotation: the part fan-out copies partTargetDuration, the segment fan-out copies targetDuration and partTargetDuration", ruleG4g)
}

// ---------------------------------------------------------------------------

func ruleP8b(c *Ctx) *RuleResult {
	r := &RuleResult{Floor: 1, FloorWhat: "byte slices captured by registered handlers"}
	ro := c.roles()
	n := 0
	for _, site := range ro.RegisterSites {
		args := site.Common().Args
		mc, ok := stripConv(args[len(args)-1]).(*ssa.MakeClosure)
		if !ok {
			continue
		}
		fn := site.Parent()
		for bi, b := range mc.Bindings {
			// the captured variable: a cell; its stored values
			var vals []ssa.Value
			if al, ok := b.(*ssa.Alloc); ok {
				for _, ref := range *al.Referrers() {
					if st, ok := ref.(*ssa.Store); ok && st.Addr == ssa.Value(al) {
						vals = append(vals, st.Val)
					}
				}
			} else {
				vals = append(vals, b)
			}
			for _, v := range vals {
				if !isByteSlice(v.Type()) {
					continue
				}
				n++
				key := fmt.Sprintf("%s|captured-bytes#%d.%d", FuncName(fn), n, bi)
				what := "the bytes a handler serves are not rewritten while it is registered"
				call, isCall := stripConv(v).(*ssa.Call)
				if !isCall || call.Call.StaticCallee() == nil || call.Call.StaticCallee().Name() != "Bytes" || len(call.Call.Args) == 0 {
					r.ok(key, c.Pos(site.Pos()), FuncName(fn), what, "not the content of a buffer object")
					continue
				}
				root := rootOf(call.Call.Args[0])
				switch x := root.(type) {
				case *ssa.Alloc:
					_ = x
					r.ok(key, c.Pos(site.Pos()), FuncName(fn), what, "Bytes() of a buffer local to this call")
				default:
					if f, _ := fieldOfAddr(call.Call.Args[0]); f != nil {
						r.fail(key, c.Pos(call.Pos()), FuncName(fn), what, "the handler captures Bytes() of "+c.fieldName(f)+", a buffer that lives in the object and is reset and refilled at the next regeneration: a response in flight (the handler runs outside the muxer mutex) is a mix of the old and the new file")
					} else if f, _ := loadedField(call.Call.Args[0]); f != nil {
						r.fail(key, c.Pos(call.Pos()), FuncName(fn), what, "the handler captures Bytes() of the buffer in "+c.fieldName(f)+", which outlives this call")
					} else {
						r.undecided("P8b: the buffer whose Bytes() the handler registered at %s captures has an origin the rule does not know", c.Pos(site.Pos()))
					}
				}
			}
		}
	}
	r.Instances = n
	return r
}

// ---------------------------------------------------------------------------

// condSites: the sync.NewCond call sites whose result can be stored in field f (through copies from other fields).
func (c *Ctx) condSites(f *types.Var, seen map[*types.Var]bool) map[*ssa.Call]bool {
	out := map[*ssa.Call]bool{}
	if f == nil || seen[f] {
		return out
	}
	seen[f] = true
	for _, fn := range c.Funcs {
		if !InRootPkg(fn) {
			continue
		}
		allInstrs(fn, func(in ssa.Instruction) {
			st, ok := in.(*ssa.Store)
			if !ok {
				return
			}
			if g, _ := fieldOfAddr(st.Addr); g != f {
				return
			}
			v := stripConv(st.Val)
			if call, ok := v.(*ssa.Call); ok && isFuncNamed(call.Call.StaticCallee(), "sync", "NewCond") {
				out[call] = true
				return
			}
			if g, _ := loadedField(v); g != nil {
				for s := range c.condSites(g, seen) {
					out[s] = true
				}
			}
		})
	}
	return out
}

func ruleL3h(c *Ctx) *RuleResult {
	r := &RuleResult{Floor: 3, FloorWhat: "wait loops of muxer requests"}
	closeFn := c.Method("", "Muxer", "Close")
	if closeFn == nil {
		r.undecided("Muxer.Close not found")
		return r
	}
	// cond sites broadcast by code reachable from Close
	woken := map[*ssa.Call]bool{}
	for fn := range c.reach([]*ssa.Function{closeFn}, nil) {
		if !InRootPkg(fn) {
			continue
		}
		allInstrs(fn, func(in ssa.Instruction) {
			call, ok := in.(*ssa.Call)
			if !ok || !isMethodNamed(call.Call.StaticCallee(), "sync", "Cond", "Broadcast") {
				return
			}
			if f, _ := loadedField(call.Call.Args[0]); f != nil {
				for s := range c.condSites(f, map[*types.Var]bool{}) {
					woken[s] = true
				}
			}
		})
	}
	n := 0
	for _, wl := range c.waitLoops() {
		if wl.fn == nil || !InRootPkg(wl.fn) || isClientFunc(enclosingNamed(wl.fn)) {
			continue
		}
		n++
		key := fmt.Sprintf("%s|woken-by-close#%d", FuncName(wl.fn), n)
		what := "the condition variable this request waits on is broadcast when the muxer is closed"
		if wl.condFld == nil {
			r.undecided("L3h: the condition variable of the wait at %s is not a field", c.Pos(wl.wait.Pos()))
			continue
		}
		sites := c.condSites(wl.condFld, map[*types.Var]bool{})
		if len(sites) == 0 {
			r.undecided("L3h: no sync.NewCond site found for %s", c.fieldName(wl.condFld))
			continue
		}
		missing := ""
		for s := range sites {
			if !woken[s] {
				missing = c.Pos(s.Pos())
			}
		}
		if missing == "" {
			r.ok(key, c.Pos(wl.wait.Pos()), FuncName(wl.fn), what, "every cond stored in "+c.fieldName(wl.condFld)+" is broadcast on the Close path")
		} else {
			r.fail(key, c.Pos(wl.wait.Pos()), FuncName(wl.fn), what, "the cond created at "+missing+" (held in "+c.fieldName(wl.condFld)+") is never broadcast by code reachable from Muxer.Close: a request parked here when Close runs stays blocked for ever")
		}
	}
	r.Instances = n
	return r
}

func ruleL5d(c *Ctx) *RuleResult {
	r := &RuleResult{Floor: 5, FloorWhat: "functions reachable from Muxer.Close"}
	closeFn := c.Method("", "Muxer", "Close")
	slots, _ := c.slotFields()
	if closeFn == nil || len(slots) == 0 {
		r.undecided("Muxer.Close / open slots not found")
		return r
	}
	n := 0
	var fns []*ssa.Function
	for fn := range c.reach([]*ssa.Function{closeFn}, nil) {
		if InRootPkg(fn) && fn.Blocks != nil {
			fns = append(fns, fn)
		}
	}
	sort.Slice(fns, func(i, j int) bool { return fns[i].String() < fns[j].String() })
	for _, fn := range fns {
		n++
		key := FuncName(fn) + "|slots-kept"
		what := "Close leaves the open slots as they are"
		bad := ""
		allInstrs(fn, func(in ssa.Instruction) {
			st, ok := in.(*ssa.Store)
			if !ok {
				return
			}
			f, _ := fieldOfAddr(st.Addr)
			if f == nil || !slots[f] {
				return
			}
			if k, isK := st.Val.(*ssa.Const); isK && k.IsNil() {
				bad = c.fieldName(f) + " is set to nil at " + c.Pos(st.Pos())
			}
		})
		if bad == "" {
			r.ok(key, c.Pos(fn.Pos()), FuncName(fn), what, "no nil store into an open slot")
		} else {
			r.fail(key, c.Pos(fn.Pos()), FuncName(fn), what, bad+": the segmenter takes an empty slot for `nothing written yet`, a write that arrives after Close creates a new segment file that nobody removes")
		}
	}
	r.Instances = n
	return r
}

// ---------------------------------------------------------------------------

func ruleK19(c *Ctx) *RuleResult {
	r := &RuleResult{Floor: 1, FloorWhat: "selections of the leading variant"}
	fn := c.Func("", "pickLeadingPlaylist")
	chk := c.Func("", "checkSupport")
	if fn == nil || chk == nil {
		r.undecided("pickLeadingPlaylist / checkSupport not found")
		return r
	}
	r.Instances = 1
	// the candidate list: a local slice grown by append under checkSupport
	var cand ssa.Value // the φ / value that names the list after the filter loop
	allInstrs(fn, func(in ssa.Instruction) {
		call, ok := in.(*ssa.Call)
		if !ok {
			return
		}
		if bi, ok := call.Call.Value.(*ssa.Builtin); !ok || bi.Name() != "append" {
			return
		}
		if _, isParam := rootOf(call.Call.Args[0]).(*ssa.Parameter); isParam {
			return
		}
		cand = call
	})
	key := "pickLeadingPlaylist|among-supported"
	what := "the variant that is returned passed checkSupport"
	if cand == nil {
		r.undecided("K19: no filtered list of variants found in pickLeadingPlaylist")
		return r
	}
	isCandList := func(v ssa.Value) bool {
		// the append result, or a φ that merges it (the loop-carried list)
		seen := map[ssa.Value]bool{}
		var walk func(v ssa.Value, d int) bool
		walk = func(v ssa.Value, d int) bool {
			v = stripConv(v)
			if v == nil || seen[v] || d > 6 {
				return false
			}
			seen[v] = true
			if v == cand {
				return true
			}
			switch x := v.(type) {
			case *ssa.Phi:
				for _, e := range x.Edges {
					if walk(e, d+1) {
						return true
					}
				}
			case *ssa.Slice:
				return walk(x.X, d+1)
			}
			return false
		}
		return walk(v, 0)
	}
	bad := ""
	// every element load that can reach the return comes from the candidate list
	var fromParam func(v ssa.Value, d int, seen map[ssa.Value]bool) string
	fromParam = func(v ssa.Value, d int, seen map[ssa.Value]bool) string {
		v = stripConv(v)
		if v == nil || seen[v] || d > 8 {
			return ""
		}
		seen[v] = true
		switch x := v.(type) {
		case *ssa.Phi:
			for _, e := range x.Edges {
				if w := fromParam(e, d+1, seen); w != "" {
					return w
				}
			}
		case *ssa.UnOp:
			if x.Op == token.MUL {
				if ia, ok := x.X.(*ssa.IndexAddr); ok {
					if _, isParam := rootOf(ia.X).(*ssa.Parameter); isParam && !isCandList(ia.X) {
						return "an element of the parameter (every variant, supported or not) at " + c.Pos(ia.Pos())
					}
					// constant index: needs a length / nil test of the list
					if _, isK := constInt(ia.Index); isK && isCandList(ia.X) {
						guarded := false
						for e := range controlEdges(fn, ia.Block()) {
							iff := fn.Blocks[e.from].Instrs[len(fn.Blocks[e.from].Instrs)-1].(*ssa.If)
							bo, ok := iff.Cond.(*ssa.BinOp)
							if !ok {
								continue
							}
							if isCandList(bo.X) || (lenOf(bo.X) != nil && isCandList(lenOf(bo.X))) {
								guarded = true
							}
						}
						if !guarded {
							return "the first element of the filtered list is taken without a test that the list is not empty at " + c.Pos(ia.Pos())
						}
					}
				}
			}
		}
		return ""
	}
	for _, b := range fn.Blocks {
		ret, ok := b.Instrs[len(b.Instrs)-1].(*ssa.Return)
		if !ok || len(ret.Results) != 1 {
			continue
		}
		if w := fromParam(retVal(ret, 0), 0, map[ssa.Value]bool{}); w != "" {
			bad = w
		}
	}
	if bad == "" {
		r.ok(key, c.Pos(fn.Pos()), FuncName(fn), what, "selected among the filtered list")
	} else {
		r.fail(key, c.Pos(fn.Pos()), FuncName(fn), what, "the result can be "+bad+": a playlist whose best (or only) variants carry unsupported codecs makes the client follow an unsupported variant or panic instead of ending with an error")
	}
	return r
}

func ruleF7s(c *Ctx) *RuleResult {
	r := &RuleResult{Floor: 1, FloorWhat: "URL resolutions of the client"}
	fn := c.Func("", "clientAbsoluteURL")
	if fn == nil {
		r.undecided("clientAbsoluteURL not found")
		return r
	}
	r.Instances = 1
	key := "clientAbsoluteURL|resolved"
	what := "a successful result is base.ResolveReference(parsed reference), computed only when the parse succeeded"
	bad := ""
	var resolve *ssa.Call
	var parse *ssa.Call
	allInstrs(fn, func(in ssa.Instruction) {
		if call, ok := in.(*ssa.Call); ok {
			if isMethodNamed(call.Call.StaticCallee(), "net/url", "URL", "ResolveReference") {
				resolve = call
			}
			if isFuncNamed(call.Call.StaticCallee(), "net/url", "Parse") {
				parse = call
			}
		}
	})
	if resolve == nil || parse == nil {
		r.undecided("F7s: clientAbsoluteURL does not call url.Parse and (*url.URL).ResolveReference: form not known to the rule")
		return r
	}
	for _, b := range fn.Blocks {
		ret, ok := b.Instrs[len(b.Instrs)-1].(*ssa.Return)
		if !ok || len(ret.Results) != 2 {
			continue
		}
		ek, isK := retVal(ret, 1).(*ssa.Const)
		if !isK || !ek.IsNil() {
			// an error (or a possibly non-nil error value) is returned: the URL must not have been computed from a failed parse
			continue
		}
		if retVal(ret, 0) != ssa.Value(resolve) {
			bad = "a successful return yields " + describeVal(retVal(ret, 0)) + " instead of the resolved URL: a reference with a host but no scheme (`//cdn/seg.ts`) is requested without a scheme"
		}
	}
	// the resolve call only after `err != nil` was tested false
	errV := ssa.Value(nil)
	for _, ref := range *parse.Referrers() {
		if ex, ok := ref.(*ssa.Extract); ok && ex.Index == 1 {
			errV = ex
		}
	}
	conds := ifsOnV(fn, func(v ssa.Value) bool {
		bo, ok := v.(*ssa.BinOp)
		return ok && (bo.Op == token.NEQ || bo.Op == token.EQL) && errV != nil && bo.X == errV
	})
	guarded := false
	if len(conds) > 0 {
		var want []condWant
		for _, ci := range conds {
			want = append(want, condWant{ci, ci.Val.(*ssa.BinOp).Op == token.EQL})
		}
		guarded = onlyIfAny(fn, resolve, want)
	}
	if !guarded && bad == "" {
		bad = "ResolveReference is called before the error of url.Parse was tested: a URI that net/url refuses (`init%zz.mp4`) yields a nil URL and the client goroutine panics"
	}
	if bad == "" {
		r.ok(key, c.Pos(fn.Pos()), FuncName(fn), what, "ResolveReference under err == nil, returned as it is")
	} else {
		r.fail(key, c.Pos(fn.Pos()), FuncName(fn), what, bad)
	}
	return r
}

// ---------------------------------------------------------------------------

func ruleT29(c *Ctx) *RuleResult {
	r := &RuleResult{Floor: 1, FloorWhat: "stores into ByteRange.Start"}
	fn := c.Method("pkg/playlist/primitives", "ByteRange", "Unmarshal")
	startF := c.Field("pkg/playlist/primitives", "ByteRange", "Start")
	if fn == nil || startF == nil {
		r.undecided("primitives.ByteRange.Unmarshal / Start not found")
		return r
	}
	// "the separator was found": index >= 0 (or != -1) of an Index call, or the found result of strings.Cut
	found := ifsOnV(fn, func(v ssa.Value) bool {
		if ex, ok := v.(*ssa.Extract); ok && ex.Index == 2 {
			if call, ok := ex.Tuple.(*ssa.Call); ok && isFuncNamed(call.Call.StaticCallee(), "strings", "Cut") {
				return true
			}
		}
		if bo, ok := v.(*ssa.BinOp); ok {
			if call, ok := bo.X.(*ssa.Call); ok && call.Call.StaticCallee() != nil && strings.HasPrefix(call.Call.StaticCallee().Name(), "Index") {
				return true
			}
		}
		return false
	})
	n := 0
	for _, st := range storesToField(c, fn, startF) {
		n++
		key := fmt.Sprintf("ByteRange.Unmarshal|start#%d", n)
		what := "Start is set only when the text carries `@<start>`"
		var want []condWant
		for _, ci := range found {
			w := true
			if bo, ok := ci.Val.(*ssa.BinOp); ok {
				switch bo.Op {
				case token.GEQ, token.NEQ, token.GTR:
					w = true
				case token.LSS, token.EQL:
					w = false
				}
			}
			want = append(want, condWant{ci, w})
		}
		if len(want) > 0 && onlyIfAny(fn, st, want) {
			r.ok(key, c.Pos(st.Pos()), FuncName(fn), what, "control dependent on the separator")
		} else {
			r.fail(key, c.Pos(st.Pos()), FuncName(fn), what, "Start is stored whether or not the `@` was found: `#EXT-X-BYTERANGE:4000` decodes with a start of 0 instead of none and is printed back as `4000@0`")
		}
	}
	r.Instances = n
	return r
}

func ruleT30(c *Ctx) *RuleResult {
	r := &RuleResult{Floor: 1, FloorWhat: "searches for a line feed in the playlist packages"}
	all, _ := c.playlistFuncs()
	sort.Slice(all, func(i, j int) bool { return all[i].String() < all[j].String() })
	n := 0
	// the functions that own the cursor of the input: the two exported decoders and the phases they were split into
	lineLoop := map[*ssa.Function]bool{}
	for _, tn := range []string{"Media", "Multivariant"} {
		for _, g := range c.withLocalHelpers(c.Method("pkg/playlist", tn, "Unmarshal")) {
			lineLoop[g] = true
		}
	}
	for _, fn := range all {
		if fn.Blocks == nil {
			continue
		}
		k := 0
		allInstrs(fn, func(in ssa.Instruction) {
			call, ok := in.(*ssa.Call)
			if !ok {
				return
			}
			g := call.Call.StaticCallee()
			if g == nil || g.Pkg == nil || (g.Pkg.Pkg.Path() != "strings" && g.Pkg.Pkg.Path() != "bytes") {
				return
			}
			isLF := false
			for _, a := range call.Call.Args {
				if s, ok := constString(a); ok && strings.Contains(s, "\n") {
					isLF = true
				}
				if k, ok := constInt(a); ok && k == 10 {
					if b, isB := a.Type().Underlying().(*types.Basic); isB && (b.Kind() == types.Uint8 || b.Kind() == types.Int32) {
						isLF = true
					}
				}
			}
			if !isLF {
				return
			}
			n++
			k++
			key := fmt.Sprintf("%s|line-feed#%d", FuncName(fn), k)
			what := "only ReadLine decides where a line ends"
			switch {
			case fn.Name() == "ReadLine":
				r.ok(key, c.Pos(call.Pos()), FuncName(fn), what, "ReadLine itself")
			case inMarshal(fn):
				r.ok(key, c.Pos(call.Pos()), FuncName(fn), what, "encoder side")
			default:
				// a search whose argument is the chunk a caller assembled with "\n" (line + "\n" + line2) is a split of that chunk, not of the input
				// tag decoders receive the tag's text, not the cursor of the playlist
				isChunk := !lineLoop[enclosingNamed(fn)]
				if isChunk {
					r.ok(key, c.Pos(call.Pos()), FuncName(fn), what, "splits the chunk its caller assembled")
				} else {
					r.fail(key, c.Pos(call.Pos()), FuncName(fn), what, g.Name()+" looks for a line feed in the decoder's input: a last line without terminator (Marshal's own output minus its final byte) is taken for missing")
				}
			}
		})
	}
	r.Instances = n
	return r
}

// ---------------------------------------------------------------------------

func ruleG19(c *Ctx) *RuleResult {
	r := &RuleResult{Floor: 3, FloorWhat: "rendering functions"}
	var roots []*ssa.Function
	for _, nm := range [][2]string{{"muxerStream", "generateMediaPlaylistFMP4"}, {"muxerStream", "generateMediaPlaylistMPEGTS"}, {"Muxer", "generateMultivariantPlaylist"}, {"muxerStream", "populateMultivariantPlaylist"}} {
		if fn := c.Method("", nm[0], nm[1]); fn != nil {
			roots = append(roots, fn)
		} else {
			r.undecided("%s.%s not found", nm[0], nm[1])
		}
	}
	n := 0
	seen := map[*ssa.Function]bool{}
	for _, root := range roots {
		for _, fn := range append([]*ssa.Function{root}, sameRecvCallees(root)...) {
			if seen[fn] {
				continue
			}
			seen[fn] = true
			n++
			key := FuncName(fn) + "|read-only"
			what := "rendering a playlist changes nothing in the muxer"
			bad := ""
			allInstrs(fn, func(in ssa.Instruction) {
				st, ok := in.(*ssa.Store)
				if !ok {
					return
				}
				f, base := fieldOfAddr(st.Addr)
				// a field of a value embedded in a muxer object (`pl := &s.mediaPlaylist; pl.Version = …`) is a part
				// of that object: climb to the outermost field of the address
				for f != nil && (f.Pkg() == nil || f.Pkg().Path() != modPath) {
					var up *types.Var
					switch b := base.(type) {
					case *ssa.FieldAddr:
						up, base = fieldOfAddr(b)
					case *ssa.IndexAddr:
						up, base = fieldOfAddr(b.X)
					}
					f = up
				}
				if f == nil || f.Pkg() == nil || f.Pkg().Path() != modPath {
					return
				}
				if c.isFreshValue(base, 0) {
					return
				}
				bad = c.fieldName(f) + " is written at " + c.Pos(st.Pos())
			})
			if bad == "" {
				r.ok(key, c.Pos(fn.Pos()), FuncName(fn), what, "no store into a muxer object")
			} else {
				r.fail(key, c.Pos(fn.Pos()), FuncName(fn), what, bad+": what one request computed (with its own query string) is served to the next one")
			}
		}
	}
	r.Instances = n
	return r
}

func ruleG11n(c *Ctx) *RuleResult {
	r := &RuleResult{Floor: 3, FloorWhat: "RESOLUTION values"}
	resF := c.fieldByQualifiedName(modPath+"/pkg/playlist", "MultivariantVariant", "Resolution")
	if resF == nil {
		r.undecided("MultivariantVariant.Resolution not found")
		return r
	}
	n := 0
	okSrc := func(v ssa.Value) (bool, string) {
		v = stripConv(v)
		if call, ok := v.(*ssa.Call); ok {
			if g := call.Call.StaticCallee(); g != nil && (g.Name() == "Width" || g.Name() == "Height") {
				return true, ""
			}
			if call.Call.IsInvoke() && (call.Call.Method.Name() == "Width" || call.Call.Method.Name() == "Height") {
				return true, ""
			}
			return false, "the result of " + describeVal(v)
		}
		if f, _ := loadedField(v); f != nil {
			if f.Name() == "Width" || f.Name() == "Height" {
				return true, ""
			}
			return false, "the field " + f.Name()
		}
		return false, describeVal(v)
	}
	var fns []*ssa.Function
	for _, fn := range c.Funcs {
		if InRootPkg(fn) && fn.Blocks != nil {
			fns = append(fns, fn)
		}
	}
	sort.Slice(fns, func(i, j int) bool { return fns[i].String() < fns[j].String() })
	for _, fn := range fns {
		for _, st := range storesToField(c, fn, resF) {
			n++
			key := fmt.Sprintf("%s|resolution#%d", FuncName(fn), n)
			what := "RESOLUTION is the displayed size of the parameter set"
			// integer sources: arguments of a formatting helper, or the FormatInt / Itoa leaves of the concatenation
			var ints []ssa.Value
			v := stripConv(st.Val)
			if call, ok := v.(*ssa.Call); ok && call.Call.StaticCallee() != nil && InRootPkg(call.Call.StaticCallee()) {
				for _, a := range call.Call.Args {
					if b, ok := a.Type().Underlying().(*types.Basic); ok && b.Info()&types.IsInteger != 0 {
						ints = append(ints, a)
					}
				}
			} else {
				for _, l := range flatten(v, 0) {
					if l.kind == "int" || l.kind == "uint" {
						if cc, ok := l.val.(*ssa.Call); ok && len(cc.Call.Args) > 0 {
							ints = append(ints, cc.Call.Args[0])
						}
					}
				}
			}
			if len(ints) < 2 {
				r.undecided("G11n: the RESOLUTION stored at %s is built in a form the rule does not know", c.Pos(st.Pos()))
				continue
			}
			bad := ""
			for _, iv := range ints {
				if ok, why := okSrc(iv); !ok {
					bad = why
				}
			}
			if bad == "" {
				r.ok(key, c.Pos(st.Pos()), FuncName(fn), what, "Width() x Height()")
			} else {
				r.fail(key, c.Pos(st.Pos()), FuncName(fn), what, "a dimension is "+bad+" instead of Width()/Height(): a stream with a cropping / conformance window (1080p coded as 1088 lines) is announced at its coded size")
			}
		}
	}
	r.Instances = n
	return r
}

// ---------------------------------------------------------------------------

func ruleT7u(c *Ctx) *RuleResult {
	r := &RuleResult{Floor: 2, FloorWhat: "Finalize methods of the storage files"}
	n := 0
	for _, tn := range []string{"fileRAM", "fileDisk"} {
		fn := c.Method("pkg/storage", tn, "Finalize")
		partsF := c.Field("pkg/storage", tn, "parts")
		if fn == nil || partsF == nil {
			r.undecided("storage.%s.Finalize / parts not found", tn)
			continue
		}
		n++
		key := tn + ".Finalize|parts-kept"
		what := "the list of parts (and its order) is the same before and after Finalize"
		bad := ""
		for _, g := range append([]*ssa.Function{fn}, sameRecvCallees(fn)...) {
			allInstrs(g, func(in ssa.Instruction) {
				st, ok := in.(*ssa.Store)
				if !ok {
					return
				}
				if f, _ := fieldOfAddr(st.Addr); f == partsF {
					bad = "the parts slice is replaced at " + c.Pos(st.Pos())
				}
				if ia, ok := st.Addr.(*ssa.IndexAddr); ok {
					if f, _ := loadedField(ia.X); f == partsF {
						bad = "an element of the parts slice is overwritten at " + c.Pos(st.Pos())
					}
				}
			})
		}
		if bad == "" {
			r.ok(key, c.Pos(fn.Pos()), FuncName(fn), what, "no store into the slice")
		} else {
			r.fail(key, c.Pos(fn.Pos()), FuncName(fn), what, bad+": the file reader concatenates the parts in slice order, which is no longer allocation order (and the two back ends differ)")
		}
	}
	r.Instances = n
	return r
}

func ruleP3h(c *Ctx) *RuleResult {
	r := &RuleResult{Floor: 2, FloorWhat: "path registrations of rotateParts"}
	fn := c.Method("", "muxerStream", "rotateParts")
	reg := c.pathTableFn("register")
	variantF := c.Field("", "muxerStream", "variant")
	if fn == nil || reg == nil || variantF == nil {
		r.undecided("muxerStream.rotateParts / registerPath / variant not found")
		return r
	}
	conds := ifsOnV(fn, func(v ssa.Value) bool {
		bo, ok := v.(*ssa.BinOp)
		if !ok || (bo.Op != token.EQL && bo.Op != token.NEQ) {
			return false
		}
		f, _ := loadedField(bo.X)
		k, isK := bo.Y.(*ssa.Const)
		return f == variantF && isK && k.Value != nil && strings.Contains(constName(c, bo.Y.Type(), k.Value), "LowLatency")
	})
	var want []condWant
	for _, ci := range conds {
		want = append(want, condWant{ci, ci.Val.(*ssa.BinOp).Op == token.EQL})
	}
	n := 0
	for _, g := range append([]*ssa.Function{fn}, sameRecvCallees(fn)...) {
		if g != fn {
			continue
		}
		allInstrs(g, func(in ssa.Instruction) {
			call, ok := in.(*ssa.Call)
			if !ok || call.Call.StaticCallee() != reg {
				return
			}
			n++
			key := fmt.Sprintf("rotateParts|registration#%d", n)
			what := "part and preload-hint URLs are registered in the Low-Latency variant only"
			if len(want) > 0 && onlyIfAny(g, call, want) {
				r.ok(key, c.Pos(call.Pos()), FuncName(g), what, "control dependent on variant == MuxerVariantLowLatency")
			} else {
				r.fail(key, c.Pos(call.Pos()), FuncName(g), what, "the registration is reachable in another variant: rotateParts also runs once per segment for plain fMP4, whose parts are neither listed nor removed — one path per rotation stays in the table for ever")
			}
		})
	}
	r.Instances = n
	return r
}

func ruleP3i(c *Ctx) *RuleResult {
	r := &RuleResult{Floor: 1, FloorWhat: "re-registrations of the init file"}
	fn := c.Method("", "muxerStream", "generateAndCacheInitFile")
	reg := c.pathTableFn("register")
	unreg := c.pathTableFn("unregister")
	if fn == nil || reg == nil {
		r.undecided("muxerStream.generateAndCacheInitFile / registerPath not found")
		return r
	}
	wset, rset, _ := c.roleSets()
	mutable := func(f *types.Var) string {
		for _, g := range c.Funcs {
			if !InRootPkg(g) || (!wset[g] && !rset[g]) {
				continue
			}
			where := ""
			allInstrs(g, func(in ssa.Instruction) {
				if st, ok := in.(*ssa.Store); ok {
					if ff, base := fieldOfAddr(st.Addr); ff == f && !c.isFreshValue(base, 0) {
						where = c.Pos(st.Pos())
					}
				}
			})
			if where != "" {
				return where
			}
		}
		return ""
	}
	n := 0
	allInstrs(fn, func(in ssa.Instruction) {
		call, ok := in.(*ssa.Call)
		if !ok || call.Call.StaticCallee() != reg {
			return
		}
		n++
		key := fmt.Sprintf("generateAndCacheInitFile|path#%d", n)
		what := "the init file is always registered under the same path (the new handler replaces the old one)"
		bad := ""
		var walk func(v ssa.Value, d int)
		walk = func(v ssa.Value, d int) {
			if v == nil || d > 5 || bad != "" {
				return
			}
			v = stripConv(v)
			if f, _ := loadedField(v); f != nil {
				if w := mutable(f); w != "" {
					bad = "the path is built from " + c.fieldName(f) + ", which changes at " + w
				}
				return
			}
			switch x := v.(type) {
			case *ssa.Call:
				for _, a := range x.Call.Args {
					walk(a, d+1)
				}
			case *ssa.BinOp:
				walk(x.X, d+1)
				walk(x.Y, d+1)
			}
		}
		walk(call.Call.Args[1], 0)
		if bad != "" && unreg != nil {
			// fine when the function removes the previous path itself
			allInstrs(fn, func(x ssa.Instruction) {
				if cc, ok := x.(*ssa.Call); ok && cc.Call.StaticCallee() == unreg {
					bad = ""
				}
			})
		}
		if bad == "" {
			r.ok(key, c.Pos(call.Pos()), FuncName(fn), what, "built from fields fixed at Start")
		} else {
			r.fail(key, c.Pos(call.Pos()), FuncName(fn), what, bad+" and the previous path is not unregistered: every parameter change leaves one more handler (with its copy of the init file) in the table")
		}
	})
	r.Instances = n
	return r
}

// ---------------------------------------------------------------------------

func ruleF53(c *Ctx) *RuleResult {
	r := &RuleResult{Floor: 1, FloorWhat: "lookups of the leading track's data"}
	fn := c.Method("", "clientStreamProcessorFMP4", "processSegment")
	find := c.Func("", "findFirstPartTrackOfLeadingTrack")
	if fn == nil || find == nil {
		r.undecided("clientStreamProcessorFMP4.processSegment / findFirstPartTrackOfLeadingTrack not found")
		return r
	}
	n := 0
	for _, g := range append([]*ssa.Function{fn}, sameRecvCallees(fn)...) {
		allInstrs(g, func(in ssa.Instruction) {
			call, ok := in.(*ssa.Call)
			if !ok || call.Call.StaticCallee() != find {
				return
			}
			n++
			key := fmt.Sprintf("%s|leading-data-required#%d", FuncName(g), n)
			what := "a segment that carries nothing of the leading track ends the client with an error"
			// Ifs that test the result for nil
			isNilTest := func(x ssa.Instruction) bool {
				iff, ok := x.(*ssa.If)
				if !ok {
					return false
				}
				v, _ := stripBoolWrap(iff.Cond)
				bo, ok := v.(*ssa.BinOp)
				if !ok || (bo.Op != token.EQL && bo.Op != token.NEQ) {
					return false
				}
				k, isK := bo.Y.(*ssa.Const)
				return isK && k.IsNil() && stripConv(bo.X) == ssa.Value(call)
			}
			okReturn := func(x ssa.Instruction) bool {
				ret, ok := x.(*ssa.Return)
				if !ok || len(ret.Results) == 0 {
					return false
				}
				return !isErrorReturn(g, ret)
			}
			path := pathAvoiding(c, g, call, isNilTest, okReturn)
			// and the nil outcome of the test must end in an error
			nilEndsInError := true
			for _, b := range g.Blocks {
				iff, ok := b.Instrs[len(b.Instrs)-1].(*ssa.If)
				if !ok || !isNilTest(iff) {
					continue
				}
				v, pol := stripBoolWrap(iff.Cond)
				isEq := v.(*ssa.BinOp).Op == token.EQL
				idx := 0
				if isEq != pol {
					idx = 1
				}
				nilSucc := b.Succs[idx]
				reach := reachableBlocks(g, nilSucc.Index, nil, nil)
				for _, x := range g.Blocks {
					if reach[x.Index] && okReturn(x.Instrs[len(x.Instrs)-1]) {
						nilEndsInError = false
					}
				}
			}
			switch {
			case path != nil:
				r.fail(key, c.Pos(call.Pos()), FuncName(g), what, "a successful return is reachable without testing the lookup for nil: an empty body (what the server answers for a segment that has left the window) is skipped silently, units are lost without an error", path...)
			case !nilEndsInError:
				r.fail(key, c.Pos(call.Pos()), FuncName(g), what, "the `not found` outcome can still reach a successful return")
			default:
				r.ok(key, c.Pos(call.Pos()), FuncName(g), what, "every path to success passes the nil test, whose nil outcome is an error")
			}
		})
	}
	r.Instances = n
	return r
}

func ruleF41b(c *Ctx) *RuleResult {
	r := &RuleResult{Floor: 2, FloorWhat: "video writers with a DTS extractor"}
	si := c.segmenter()
	for _, p := range si.problems {
		r.undecided("%s", p)
	}
	if len(si.problems) > 0 {
		return r
	}
	n := 0
	for _, fn := range si.video {
		var extract *ssa.Call
		allInstrs(fn, func(in ssa.Instruction) {
			if call, ok := in.(*ssa.Call); ok {
				if g := call.Call.StaticCallee(); g != nil && g.Name() == "Extract" && g.Pkg != nil && strings.Contains(g.Pkg.Pkg.Path(), "mediacommon") {
					extract = call
				}
			}
		})
		if extract == nil {
			continue
		}
		n++
		key := FuncName(fn) + "|composition-offset"
		what := "the sample carries pts - dts"
		var dts ssa.Value
		for _, ref := range *extract.Referrers() {
			if ex, ok := ref.(*ssa.Extract); ok && ex.Index == 0 {
				dts = ex
			}
		}
		found := false
		allInstrs(fn, func(in ssa.Instruction) {
			bo, ok := in.(*ssa.BinOp)
			if !ok || bo.Op != token.SUB || stripConv(bo.Y) != dts {
				return
			}
			if _, isParam := stripConv(bo.X).(*ssa.Parameter); !isParam {
				return
			}
			// the difference reaches a Fill* call or a PTSOffset store
			var reaches func(v ssa.Value, d int) bool
			reaches = func(v ssa.Value, d int) bool {
				if d > 4 || v.Referrers() == nil {
					return false
				}
				for _, ref := range *v.Referrers() {
					switch x := ref.(type) {
					case *ssa.Convert:
						if reaches(x, d+1) {
							return true
						}
					case *ssa.Call:
						if g := x.Call.StaticCallee(); g != nil && strings.HasPrefix(g.Name(), "Fill") {
							return true
						}
					case *ssa.Store:
						if f, _ := fieldOfAddr(x.Addr); f != nil && f.Name() == "PTSOffset" {
							return true
						}
					}
				}
				return false
			}
			if reaches(bo, 0) {
				found = true
			}
		})
		if found {
			r.ok(key, c.Pos(fn.Pos()), FuncName(fn), what, "pts - dts reaches the sample")
		} else {
			r.fail(key, c.Pos(extract.Pos()), FuncName(fn), what, "the decode time comes from the extractor, but `pts - dts` is not handed to the sample: with reordered pictures every unit is presented at its decode time")
		}
	}
	r.Instances = n
	return r
}

func ruleG4g(c *Ctx) *RuleResult {
	r := &RuleResult{Floor: 2, FloorWhat: "fan-outs of the rotations"}
	n := 0
	for _, spec := range []struct {
		name   string
		fields []string
	}{{"rotatePartsInner", []string{"partTargetDuration"}}, {"rotateSegmentsInner", []string{"targetDuration", "partTargetDuration"}}} {
		fn := c.Method("", "Muxer", spec.name)
		if fn == nil {
			fn = c.muxerFanOut(strings.TrimSuffix(spec.name, "Inner"))
		}
		if fn == nil {
			r.undecided("Muxer.%s not found", spec.name)
			continue
		}
		n++
		for _, tf := range spec.fields {
			f := c.Field("", "muxerStream", tf)
			key := fmt.Sprintf("%s|copies %s", FuncName(fn), tf)
			what := "the other streams take over the leading stream's " + tf + " in the same critical section"
			has := false
			for _, g := range append([]*ssa.Function{fn}, sameRecvCallees(fn)...) {
				if len(storesToField(c, g, f)) > 0 {
					has = true
				}
			}
			if has {
				r.ok(key, c.Pos(fn.Pos()), FuncName(fn), what, "copied")
			} else {
				r.fail(key, c.Pos(fn.Pos()), FuncName(fn), what, "no store into "+tf+" of the other streams: a rendition keeps announcing the old value while it lists the longer part the leading stream just closed")
			}
		}
	}
	r.Instances = n
	return r
}

// isErrorReturn: the return certainly yields a non-nil error — a freshly made error, or an error value returned on the
// non-nil side of its own test. Anything else (nil, the result of a tail call) may be a success.
func isErrorReturn(fn *ssa.Function, ret *ssa.Return) bool {
	v := retVal(ret, len(ret.Results)-1)
	if k, isK := v.(*ssa.Const); isK {
		return !k.IsNil()
	}
	if call, ok := stripConv(v).(*ssa.Call); ok {
		if g := call.Call.StaticCallee(); g != nil && (isFuncNamed(g, "fmt", "Errorf") || isFuncNamed(g, "errors", "New")) {
			return true
		}
	}
	if _, ok := stripConv(v).(*ssa.MakeInterface); ok {
		return true
	}
	if mi, ok := v.(*ssa.MakeInterface); ok && mi != nil {
		return true
	}
	conds := ifsOnV(fn, func(x ssa.Value) bool {
		bo, ok := x.(*ssa.BinOp)
		if !ok || (bo.Op != token.NEQ && bo.Op != token.EQL) {
			return false
		}
		k, isK := bo.Y.(*ssa.Const)
		return isK && k.IsNil() && bo.X == v
	})
	var want []condWant
	for _, ci := range conds {
		want = append(want, condWant{ci, ci.Val.(*ssa.BinOp).Op == token.NEQ})
	}
	return len(want) > 0 && onlyIfAny(fn, ret, want)
}
