package main

// Fifth gap batch.

import (
	"fmt"
	"go/token"
	"go/types"
	"sort"
	"strings"

	"golang.org/x/tools/go/ssa"
)

func init() {
	registerRule("T18", "byte ranges keep their two numbers apart: ByteRange.Marshal prints Length, then '@', then Start; Unmarshal stores the text before '@' into Length and the text after it into Start; and every user of the primitive moves `Length` to/from its ByteRangeLength field and `Start` to/from its ByteRangeStart field", ruleT18)
	registerRule("T19", "boolean attributes agree on their tokens: every constant the encoder prints right after `NAME=` for a boolean field is a constant the decoder compares the value of NAME with", ruleT19)
	registerRule("T20", "one cursor per segment: in Media.Unmarshal the only append to Segments sits in the URI-line case and is followed, on every path back to the loop head, by the assignment of a fresh MediaSegment to the cursor; the key cursor lives outside the loop", ruleT20)
	registerRule("T21", "a segment's tags precede its URI: in MediaSegment.marshal the URI is the last thing printed before the final newline", ruleT21)
	registerRule("T23", "decoders are lenient: the tag dispatch and the attribute loops of the playlist decoders have no fall-through branch that returns an error for an unknown tag or attribute", ruleT23)
	registerRule("T7r", "sizes are captured before the buffers are dropped: in fileDisk.Finalize every store of nil into a part's buffer comes after the last read of a part buffer, and the descriptor is closed after both", ruleT7r)
	registerRule("P5c", "paths are written once: the path field of parts and segments is stored only in their initialize()", ruleP5c)
	registerRule("F36", "the preload hint is dated from the end of the playlist: dateTimeOfPreloadHint starts from the DateTime of the last listed segment plus that segment's Duration and adds the Duration of every trailing part of the same playlist, unconditionally", ruleF36)
	registerRule("F7n", "the finders return what they index: findSegmentWithInvPosition returns segments[len-invPos] with that very index, findSegmentWithID returns segments[id-seqNo], that index and len-index, each under the bounds test of that index", ruleF7n)
	registerRule("F7p", "the hint belongs to the latest playlist: in runLowLatency the preload hint that is downloaded and the playlist that dates it are the loop-carried playlist (the one just fetched), never the first one", ruleF7p)
	registerRule("K13", "an OnTracks error ends the client: the error returned by the call through Client.OnTracks is returned by setTracks, and the map of tracks is filled before the callback is called", ruleK13)
	registerRule("P3f", "the placeholder waits for its own part: the preload-hint closure compares nextPartID strictly greater than the id its registration path was built from", ruleP3f)
	registerRule("G11f", "codec strings are listed once: the append to the variant's CODECS list is control dependent on `!containsCodec(list, codec)` with the very list and value that are appended", ruleG11f)
	registerRule("G11g", "peak feeds BANDWIDTH, mean feeds AVERAGE-BANDWIDTH: the first result of bandwidth() is the running maximum and is stored into Bandwidth, the second is the quotient of the two sums and is stored into AverageBandwidth", ruleG11g)
}

func ruleT18(c *Ctx) *RuleResult {
	r := &RuleResult{Floor: 5, FloorWhat: "byte-range conversions"}
	lenF := c.Field("pkg/playlist/primitives", "ByteRange", "Length")
	startF := c.Field("pkg/playlist/primitives", "ByteRange", "Start")
	mar := c.Method("pkg/playlist/primitives", "ByteRange", "Marshal")
	unm := c.Method("pkg/playlist/primitives", "ByteRange", "Unmarshal")
	if lenF == nil || startF == nil || mar == nil || unm == nil {
		r.undecided("primitives.ByteRange not found")
		return r
	}
	n := 0
	// (a) Marshal: Length first, '@', Start
	n++
	{
		var order []string
		for _, root := range stringRoots(mar) {
			for _, l := range flatten(root, 0) {
				if l.kind == "" {
					if strings.Contains(l.text, "@") {
						order = append(order, "@")
					}
					continue
				}
				if call, ok := l.val.(*ssa.Call); ok && len(call.Call.Args) > 0 {
					v := stripConv(call.Call.Args[0])
					if f, _ := loadedField(v); f == lenF {
						order = append(order, "Length")
					} else if fv, ok := v.(*ssa.Field); ok && derefStruct(fv.X.Type()) != nil && derefStruct(fv.X.Type()).Field(fv.Field) == lenF {
						order = append(order, "Length")
					} else if u, ok := v.(*ssa.UnOp); ok && u.Op == token.MUL {
						if f2, _ := loadedField(u.X); f2 == startF {
							order = append(order, "Start")
						} else if fv, ok := u.X.(*ssa.Field); ok && derefStruct(fv.X.Type()) != nil && derefStruct(fv.X.Type()).Field(fv.Field) == startF {
							order = append(order, "Start")
						}
					}
				}
			}
		}
		got := strings.Join(order, " ")
		key := "ByteRange.Marshal|order"
		what := "the encoder prints <length>@<start>"
		switch {
		case strings.Contains(got, "Length") && strings.Contains(got, "Start") && strings.Index(got, "Length") < strings.Index(got, "@") && strings.Index(got, "@") < strings.Index(got, "Start"):
			r.ok(key, c.Pos(mar.Pos()), FuncName(mar), what, got)
		case !strings.Contains(got, "Length") || !strings.Contains(got, "Start"):
			r.undecided("T18: ByteRange.Marshal prints [%s]: form not known to the rule", got)
		default:
			r.fail(key, c.Pos(mar.Pos()), FuncName(mar), what, "printed as ["+got+"]: length and start are exchanged")
		}
	}
	// (b) Unmarshal: v[:i] → Length, v[i+1:] → Start
	n++
	{
		key := "ByteRange.Unmarshal|sides"
		what := "the text before '@' becomes Length, the text after it Start"
		bad := ""
		allInstrs(unm, func(in ssa.Instruction) {
			st, ok := in.(*ssa.Store)
			if !ok {
				return
			}
			f, _ := fieldOfAddr(st.Addr)
			if f != lenF && f != startF {
				return
			}
			// the parsed text: ParseUint(arg0 …); arg0 is a Slice of the parameter: Low==nil (before) or High==nil (after) or the parameter itself
			var parsed ssa.Value
			v := st.Val
			if al, ok := v.(*ssa.Alloc); ok {
				for _, ref := range *al.Referrers() {
					if s2, ok := ref.(*ssa.Store); ok && s2.Addr == ssa.Value(al) {
						v = s2.Val
					}
				}
			}
			if ex, ok := v.(*ssa.Extract); ok {
				if call, ok := ex.Tuple.(*ssa.Call); ok && len(call.Call.Args) > 0 {
					parsed = call.Call.Args[0]
				}
			}
			sl, ok := parsed.(*ssa.Slice)
			if !ok {
				return // the whole value (no '@'): Length only
			}
			before := sl.Low == nil && sl.High != nil
			after := sl.Low != nil && sl.High == nil
			if f == lenF && !before {
				bad = "Length is parsed from the text after '@'"
			}
			if f == startF && !after {
				bad = "Start is parsed from the text before '@'"
			}
		})
		if bad == "" {
			r.ok(key, c.Pos(unm.Pos()), FuncName(unm), what, "before → Length, after → Start")
		} else {
			r.fail(key, c.Pos(unm.Pos()), FuncName(unm), what, bad)
		}
	}
	// (c) users: Length ↔ ByteRangeLength, Start ↔ ByteRangeStart
	enc, dec := c.codecSets()
	var fns []*ssa.Function
	for fn := range enc {
		fns = append(fns, fn)
	}
	for fn := range dec {
		if !enc[fn] {
			fns = append(fns, fn)
		}
	}
	sort.Slice(fns, func(i, j int) bool { return fns[i].String() < fns[j].String() })
	for _, fn := range fns {
		k := 0
		allInstrs(fn, func(in ssa.Instruction) {
			st, ok := in.(*ssa.Store)
			if !ok {
				return
			}
			df, _ := fieldOfAddr(st.Addr)
			if df == nil {
				return
			}
			// source field
			var sf *types.Var
			v := stripConv(st.Val)
			if f, _ := loadedField(v); f != nil {
				sf = f
			} else if fa, ok := v.(*ssa.FieldAddr); ok {
				sf = derefStruct(fa.X.Type()).Field(fa.Field)
			} else if u, ok := v.(*ssa.UnOp); ok && u.Op == token.MUL {
				if f, _ := loadedField(u.X); f != nil {
					sf = f
				}
			}
			if sf == nil {
				return
			}
			isBR := func(f *types.Var) bool { return f == lenF || f == startF }
			isUser := func(f *types.Var) bool {
				return !isBR(f) && (f.Name() == "ByteRangeLength" || f.Name() == "ByteRangeStart")
			}
			var prim, user *types.Var
			switch {
			case isBR(df) && isUser(sf):
				prim, user = df, sf
			case isUser(df) && isBR(sf):
				prim, user = sf, df
			default:
				return
			}
			n++
			k++
			key := fmt.Sprintf("%s|%s#%d", FuncName(fn), user.Name(), k)
			what := "Length pairs with ByteRangeLength and Start with ByteRangeStart"
			if (prim == lenF) == (user.Name() == "ByteRangeLength") {
				r.ok(key, c.Pos(st.Pos()), FuncName(fn), what, prim.Name()+" ↔ "+user.Name())
			} else {
				r.fail(key, c.Pos(st.Pos()), FuncName(fn), what, prim.Name()+" is moved to/from "+user.Name()+": the two numbers of a byte range are exchanged")
			}
		})
	}
	r.Instances = n
	return r
}

func ruleT19(c *Ctx) *RuleResult {
	r := &RuleResult{Floor: 4, FloorWhat: "boolean attribute tokens"}
	n := 0
	// per tag struct: encoder leaves `NAME=<const>`; decoder: constants compared with val under case NAME
	enc, dec := c.codecSets()
	// decoder side: for every `key == "NAME"`-controlled comparison of val with a constant
	decTokens := map[string]map[string]bool{} // NAME → constants compared
	for fn := range dec {
		allInstrs(fn, func(in ssa.Instruction) {
			bo, ok := in.(*ssa.BinOp)
			if !ok || (bo.Op != token.EQL && bo.Op != token.NEQ) {
				return
			}
			tok, ok := constString(bo.Y)
			if !ok || tok == "" || strings.ToUpper(tok) != tok {
				return
			}
			// the controlling key comparisons
			for e := range controlEdges(fn, bo.Block()) {
				iff := fn.Blocks[e.from].Instrs[len(fn.Blocks[e.from].Instrs)-1].(*ssa.If)
				if kb, ok := iff.Cond.(*ssa.BinOp); ok && kb.Op == token.EQL {
					if name, ok := constString(kb.Y); ok && name != "" && strings.ToUpper(name) == name {
						if decTokens[name] == nil {
							decTokens[name] = map[string]bool{}
						}
						decTokens[name][tok] = true
					}
				}
			}
		})
	}
	var fns []*ssa.Function
	for fn := range enc {
		fns = append(fns, fn)
	}
	sort.Slice(fns, func(i, j int) bool { return fns[i].String() < fns[j].String() })
	seen := map[string]bool{}
	var names []string
	for nm := range decTokens {
		names = append(names, nm)
	}
	sort.Strings(names)
	for _, fn := range fns {
		for _, root := range stringRoots(fn) {
			for _, l := range flatten(root, 0) {
				if l.kind != "" {
					continue
				}
				for _, name := range names {
					// every `NAME=<token>` inside the constant (the token ends at a comma, a newline or the end)
					rest := l.text
					for {
						i := strings.Index(rest, name+"=")
						if i < 0 {
							break
						}
						if i > 0 && (rest[i-1] == '-' || (rest[i-1] >= 'A' && rest[i-1] <= 'Z')) {
							rest = rest[i+len(name)+1:]
							continue
						}
						tokStart := i + len(name) + 1
						j := tokStart
						for j < len(rest) && rest[j] != ',' && rest[j] != '\n' {
							j++
						}
						tok := rest[tokStart:j]
						rest = rest[j:]
						if tok == "" || strings.HasPrefix(tok, "\"") {
							continue // the value follows as a placeholder, or is a quoted string
						}
						id := FuncName(fn) + "|" + name + "=" + tok
						if seen[id] {
							continue
						}
						seen[id] = true
						n++
						what := "the decoder compares " + name + " with the token the encoder prints"
						if decTokens[name][tok] || (tok == "NO" && decTokens[name]["YES"]) {
							r.ok(id, c.Pos(fn.Pos()), FuncName(fn), what, tok)
						} else {
							var have []string
							for t := range decTokens[name] {
								have = append(have, t)
							}
							sort.Strings(have)
							r.fail(id, c.Pos(fn.Pos()), FuncName(fn), what, "the encoder prints "+name+"="+tok+", the decoder compares with "+strings.Join(have, ", ")+": the flag flips (or the library refuses its own output)")
						}
					}
				}
			}
		}
	}
	r.Instances = n
	return r
}

// findBoolAttrs finds NAME=YES / NAME=NO occurrences in a constant.
func findBoolAttrs(s string) [][2]string {
	var out [][2]string
	for _, tok := range []string{"YES", "NO"} {
		rest := s
		for {
			i := strings.Index(rest, "="+tok)
			if i < 0 {
				break
			}
			end := i + 1 + len(tok)
			if end < len(rest) && rest[end] != ',' && rest[end] != '\n' {
				rest = rest[end:]
				continue
			}
			j := i
			for j > 0 && (rest[j-1] == '-' || (rest[j-1] >= 'A' && rest[j-1] <= 'Z')) {
				j--
			}
			if j < i {
				out = append(out, [2]string{rest[j:i], tok})
			}
			rest = rest[end:]
		}
	}
	return out
}

func ruleT20(c *Ctx) *RuleResult {
	r := &RuleResult{Floor: 1, FloorWhat: "appends to Media.Segments"}
	fn := c.Method("pkg/playlist", "Media", "Unmarshal")
	segsF := c.Field("pkg/playlist", "Media", "Segments")
	if fn == nil || segsF == nil {
		r.undecided("Media.Unmarshal / Media.Segments not found")
		return r
	}
	n := 0
	allInstrs(fn, func(in ssa.Instruction) {
		st, ok := in.(*ssa.Store)
		if !ok {
			return
		}
		if f, _ := fieldOfAddr(st.Addr); f != segsF {
			return
		}
		call, ok := st.Val.(*ssa.Call)
		if !ok {
			return
		}
		if b, ok := call.Call.Value.(*ssa.Builtin); !ok || b.Name() != "append" {
			return
		}
		n++
		key := fmt.Sprintf("Media.Unmarshal|segment-cursor#%d", n)
		what := "after a segment is appended the cursor is replaced by a fresh MediaSegment before the next line is read"
		elems := variadicArgs(call.Call.Args[1])
		if len(elems) != 1 {
			r.undecided("T20: the append to Segments has %d elements: form not known to the rule", len(elems))
			return
		}
		// the cursor is a phi (loop-carried) or a cell; after the append, on the way to the loop head, the value that
		// flows back must be a fresh allocation
		cur := elems[0]
		fresh := false
		switch x := cur.(type) {
		case *ssa.Phi:
			seenPhi := map[*ssa.Phi]bool{}
			var freshFrom func(p *ssa.Phi, depth int) bool
			freshFrom = func(p *ssa.Phi, depth int) bool {
				if seenPhi[p] || depth > 6 {
					return false
				}
				seenPhi[p] = true
				for i, e := range p.Edges {
					// the edges that come from the appending block (or from a block it dominates)
					pb := p.Block().Preds[i]
					if al, ok := e.(*ssa.Alloc); ok && al.Heap && (pb == st.Block() || st.Block().Dominates(pb)) {
						return true
					}
					// a merge on the way back to the loop head (the post statement of a three-clause loop)
					if p2, ok := e.(*ssa.Phi); ok && freshFrom(p2, depth+1) {
						return true
					}
				}
				return false
			}
			fresh = freshFrom(x, 0)
		case *ssa.UnOp:
			// a cell: a store of a fresh allocation follows in the same block
			for _, y := range st.Block().Instrs {
				if s2, ok := y.(*ssa.Store); ok && s2.Addr == x.X {
					if al, ok := s2.Val.(*ssa.Alloc); ok && al.Heap && instrIndex(s2) > instrIndex(st) {
						fresh = true
					}
				}
			}
		}
		if fresh {
			r.ok(key, c.Pos(st.Pos()), FuncName(fn), what, "fresh cursor")
		} else {
			r.fail(key, c.Pos(st.Pos()), FuncName(fn), what, "the same MediaSegment object stays the cursor: every later segment aliases the first one appended")
		}
	})
	r.Instances = n
	return r
}

func ruleT21(c *Ctx) *RuleResult {
	r := &RuleResult{Floor: 1, FloorWhat: "segment encoders"}
	fn := c.Method("pkg/playlist", "MediaSegment", "marshal")
	uriF := c.Field("pkg/playlist", "MediaSegment", "URI")
	if fn == nil || uriF == nil {
		r.undecided("MediaSegment.marshal / URI not found")
		return r
	}
	n := 0
	for _, b := range fn.Blocks {
		ret, ok := b.Instrs[len(b.Instrs)-1].(*ssa.Return)
		if !ok || b == fn.Recover {
			continue
		}
		n++
		key := fmt.Sprintf("MediaSegment.marshal|uri-last#%d", n)
		what := "the URI is the last placeholder of the returned text"
		rv := retVal(ret, 0)
		// text assembled in a local strings.Builder: the argument of the last WriteString
		if call, ok := rv.(*ssa.Call); ok {
			if m, recv := builderMethod(call); m == "String" && recv != nil {
				var last *ssa.Call
				allInstrs(fn, func(x ssa.Instruction) {
					if wc, ok := x.(*ssa.Call); ok {
						if m2, r2 := builderMethod(wc); m2 == "WriteString" && r2 == recv && instrDominates(wc, ret) {
							// the last one: no other WriteString of the builder is reachable from it
							isLast := true
							allInstrs(fn, func(y ssa.Instruction) {
								if w2, ok := y.(*ssa.Call); ok && w2 != wc {
									if m3, r3 := builderMethod(w2); m3 == "WriteString" && r3 == recv && instrReaches(wc, w2) {
										isLast = false
									}
								}
							})
							if isLast {
								last = wc
							}
						}
					}
				})
				if last != nil {
					rv = last.Call.Args[1]
				}
			}
		}
		ls := flatten(rv, 0)
		lastPH := -1
		for i, l := range ls {
			if l.kind != "" && l.kind != "acc" {
				lastPH = i
			}
		}
		okLast := false
		if lastPH >= 0 {
			v := ls[lastPH].val
			if f, _ := loadedField(v); f == uriF {
				okLast = true
			}
			if fv, ok := v.(*ssa.Field); ok && derefStruct(fv.X.Type()) != nil && derefStruct(fv.X.Type()).Field(fv.Field) == uriF {
				okLast = true
			}
		}
		if okLast {
			r.ok(key, c.Pos(posOf(ret)), FuncName(fn), what, "… + URI + \"\\n\"")
		} else {
			r.fail(key, c.Pos(posOf(ret)), FuncName(fn), what, "something is printed after the URI: the decoder attaches every tag seen before a URI line to that segment, so what follows the URI lands on the next segment")
		}
	}
	r.Instances = n
	return r
}

func ruleT23(c *Ctx) *RuleResult {
	r := &RuleResult{Floor: 10, FloorWhat: "dispatch chains of the playlist decoders"}
	_, dec := c.codecSets()
	n := 0
	var fns []*ssa.Function
	for fn := range dec {
		fns = append(fns, fn)
	}
	sort.Slice(fns, func(i, j int) bool { return fns[i].String() < fns[j].String() })
	for _, fn := range fns {
		// the last test of a chain of `key == "NAME"` / HasPrefix(line, "#EXT…") tests: its false successor must not be
		// an error return
		var tests []*ssa.If
		for _, b := range fn.Blocks {
			if len(b.Instrs) == 0 {
				continue
			}
			iff, ok := b.Instrs[len(b.Instrs)-1].(*ssa.If)
			if !ok {
				continue
			}
			isDispatch := false
			switch x := iff.Cond.(type) {
			case *ssa.BinOp:
				if x.Op == token.EQL {
					if s, ok := constString(x.Y); ok && s != "" && (strings.ToUpper(s) == s) && inLoopBlock(fn, b) {
						// the key of a range over the attribute map, or the line itself (a bare tag) — not a value
						// that is being validated against an enumeration
						if ex, ok := x.X.(*ssa.Extract); ok && ex.Index == 1 {
							if _, isNext := ex.Tuple.(*ssa.Next); isNext {
								isDispatch = true
							}
						}
						if strings.HasPrefix(s, "#") {
							isDispatch = true
						}
					}
				}
			case *ssa.Call:
				if isFuncNamed(x.Call.StaticCallee(), "strings", "HasPrefix") {
					if s, ok := constString(x.Call.Args[1]); ok && strings.HasPrefix(s, "#") {
						isDispatch = true
					}
				}
			}
			if isDispatch {
				tests = append(tests, iff)
			}
		}
		if len(tests) < 2 {
			continue
		}
		n++
		key := FuncName(fn) + "|lenient"
		what := "an unknown tag / attribute is ignored"
		bad := ""
		for _, iff := range tests {
			fb := iff.Block().Succs[1]
			if ret, ok := fb.Instrs[len(fb.Instrs)-1].(*ssa.Return); ok && len(ret.Results) > 0 {
				// the false side of a dispatch test returns: is it an error, and is no other dispatch test in between?
				if k, isC := retVal(ret, len(ret.Results)-1).(*ssa.Const); !isC || !k.IsNil() {
					isAnother := false
					for _, t2 := range tests {
						if t2.Block() == fb {
							isAnother = true
						}
					}
					if !isAnother {
						bad = c.Pos(posOf(ret))
					}
				}
			}
		}
		if bad == "" {
			r.ok(key, c.Pos(fn.Pos()), FuncName(fn), what, "no error on the fall-through")
		} else {
			r.fail(key, c.Pos(fn.Pos()), FuncName(fn), what, "the fall-through of the dispatch returns an error at "+bad+": a playlist with a tag or attribute this library does not model is refused")
		}
	}
	r.Instances = n
	return r
}

func ruleT7r(c *Ctx) *RuleResult {
	r := &RuleResult{Floor: 1, FloorWhat: "Finalize of disk files"}
	fn := c.Method("pkg/storage", "fileDisk", "Finalize")
	bufF := c.Field("pkg/storage", "partDisk", "buffer")
	if fn == nil || bufF == nil {
		r.undecided("storage.fileDisk.Finalize / partDisk.buffer not found")
		return r
	}
	var nilStores, reads, closes []ssa.Instruction
	allInstrs(fn, func(in ssa.Instruction) {
		switch x := in.(type) {
		case *ssa.Store:
			if f, _ := fieldOfAddr(x.Addr); f == bufF {
				if k, isC := x.Val.(*ssa.Const); isC && k.IsNil() {
					nilStores = append(nilStores, x)
				}
			}
		case *ssa.UnOp:
			if x.Op == token.MUL {
				if f, _ := fieldOfAddr(x.X); f == bufF {
					reads = append(reads, x)
				}
			}
		case *ssa.Call:
			if g := x.Call.StaticCallee(); g != nil && g.Name() == "Close" {
				closes = append(closes, x)
			} else if g != nil && g.Blocks != nil && g.Signature.Recv() != nil && types.Identical(g.Signature.Recv().Type(), fn.Signature.Recv().Type()) {
				// a helper of the file that reads the buffers (fixes the size of the last part)
				allInstrs(g, func(y ssa.Instruction) {
					if u, ok := y.(*ssa.UnOp); ok && u.Op == token.MUL {
						if f, _ := fieldOfAddr(u.X); f == bufF {
							reads = append(reads, x)
						}
					}
				})
			}
		}
	})
	key := "fileDisk.Finalize|order"
	what := "buffers are read (sizes captured) before they are dropped, and the file is closed last"
	if len(nilStores) == 0 || len(reads) == 0 || len(closes) == 0 {
		r.undecided("T7r: fileDisk.Finalize does not read a buffer, drop the buffers and close the file: form not known to the rule")
		r.Instances = 1
		return r
	}
	bad := ""
	for _, ns := range nilStores {
		for _, rd := range reads {
			if instrReaches(ns, rd) {
				bad = "a buffer is read after the buffers were dropped: the size of the last part (and of the file) is taken from a nil buffer"
			}
		}
		for _, cl := range closes {
			if instrReaches(cl, ns) || !instrReaches(ns, cl) {
				// the loop of nil stores may be skipped when there are no parts: the close must still come after it
				if instrReaches(cl, ns) {
					bad = "the file is closed before the buffers are dropped"
				}
			}
		}
	}
	if bad == "" {
		r.ok(key, c.Pos(fn.Pos()), FuncName(fn), what, "read → drop → close")
	} else {
		r.fail(key, c.Pos(fn.Pos()), FuncName(fn), what, bad)
	}
	r.Instances = 1
	return r
}

func ruleP5c(c *Ctx) *RuleResult {
	r := &RuleResult{Floor: 3, FloorWhat: "stores to path fields"}
	n := 0
	for _, tn := range []string{"muxerPart", "muxerSegmentFMP4", "muxerSegmentMPEGTS"} {
		pf := c.Field("", tn, "path")
		init := c.Method("", tn, "initialize")
		if pf == nil || init == nil {
			r.undecided("%s.path / initialize not found", tn)
			continue
		}
		for _, fn := range c.Funcs {
			if !InRootPkg(fn) {
				continue
			}
			allInstrs(fn, func(in ssa.Instruction) {
				st, ok := in.(*ssa.Store)
				if !ok {
					return
				}
				if f, _ := fieldOfAddr(st.Addr); f != pf {
					return
				}
				n++
				key := fmt.Sprintf("%s|%s.path#%d", FuncName(fn), tn, n)
				what := "the path is assigned in initialize() only"
				if fn == init {
					r.ok(key, c.Pos(st.Pos()), FuncName(fn), what, "initialize")
				} else {
					r.fail(key, c.Pos(st.Pos()), FuncName(fn), what, "the path is rewritten outside initialize(): the key under which the object was registered is no longer the key that is unregistered (the old URL keeps resolving, for ever)")
				}
			})
		}
	}
	r.Instances = n
	return r
}

func ruleF36(c *Ctx) *RuleResult {
	r := &RuleResult{Floor: 1, FloorWhat: "preload-hint date-times"}
	fn := c.Func("", "dateTimeOfPreloadHint")
	segsF := c.Field("pkg/playlist", "Media", "Segments")
	partsF := c.Field("pkg/playlist", "Media", "Parts")
	if fn == nil || segsF == nil || partsF == nil {
		r.undecided("dateTimeOfPreloadHint / Media.Segments / Media.Parts not found")
		return r
	}
	key := "dateTimeOfPreloadHint|shape"
	what := "last segment's DateTime + its Duration + the Duration of every trailing part"
	bad := ""
	// the element: Segments[len(Segments)-1]
	var lastSeg ssa.Value
	allInstrs(fn, func(in ssa.Instruction) {
		ia, ok := in.(*ssa.IndexAddr)
		if !ok {
			return
		}
		if f, _ := loadedField(ia.X); f != segsF {
			return
		}
		sub, ok := ia.Index.(*ssa.BinOp)
		if ok && sub.Op == token.SUB {
			if k, isC := constInt(sub.Y); isC && k == 1 {
				if lc, ok := sub.X.(*ssa.Call); ok {
					if b, ok := lc.Call.Value.(*ssa.Builtin); ok && b.Name() == "len" {
						for _, ref := range *ia.Referrers() {
							if u, ok := ref.(*ssa.UnOp); ok && u.Op == token.MUL {
								lastSeg = u
							}
						}
						return
					}
				}
			}
		}
		bad = "the segment is not Segments[len(Segments)-1]"
	})
	if lastSeg == nil && bad == "" {
		bad = "the last listed segment is never read"
	}
	// Add calls: the first adds lastSeg.Duration on a receiver loaded from lastSeg.DateTime; the loop adds part.Duration
	var adds []*ssa.Call
	allInstrs(fn, func(in ssa.Instruction) {
		if call, ok := in.(*ssa.Call); ok && isMethodNamed(call.Call.StaticCallee(), "time", "Time", "Add") {
			adds = append(adds, call)
		}
	})
	if bad == "" {
		segDur, partDur := false, false
		for _, a := range adds {
			f, base := loadedField(stripConv(a.Call.Args[1]))
			if f == nil || f.Name() != "Duration" {
				continue
			}
			if canon(base) == canon(lastSeg) {
				segDur = true
			}
			// the element of a range over pl.Parts, unconditionally inside the loop
			if u, ok := base.(*ssa.UnOp); ok {
				if ia, ok := u.X.(*ssa.IndexAddr); ok {
					if pf, _ := loadedField(ia.X); pf == partsF {
						if isR, _ := rangeIndexOver(ia.Index); isR {
							// no condition inside the loop other than the loop condition
							okUncond := true
							for e := range controlEdges(fn, a.Block()) {
								iff := fn.Blocks[e.from].Instrs[len(fn.Blocks[e.from].Instrs)-1].(*ssa.If)
								if inLoopBlock(fn, iff.Block()) {
									if bo, ok := iff.Cond.(*ssa.BinOp); !ok || bo.Op != token.LSS {
										okUncond = false
									}
								}
							}
							if okUncond {
								partDur = true
							}
						}
					}
				}
			}
		}
		if !segDur {
			bad = "the Duration of the last segment is not added"
		} else if !partDur {
			bad = "the Duration of every trailing part of the playlist is not added unconditionally"
		}
	}
	if bad == "" {
		r.ok(key, c.Pos(fn.Pos()), FuncName(fn), what, "shape as stated")
	} else {
		r.fail(key, c.Pos(fn.Pos()), FuncName(fn), what, bad+": in Low-Latency mode this is the only source of AbsoluteTime, every unit of a part is dated wrongly")
	}
	r.Instances = 1
	return r
}

func ruleF7n(c *Ctx) *RuleResult {
	r := &RuleResult{Floor: 2, FloorWhat: "segment finders"}
	n := 0
	for _, name := range []string{"findSegmentWithInvPosition", "findSegmentWithID"} {
		fn := c.Func("", name)
		if fn == nil {
			r.undecided("%s not found", name)
			continue
		}
		n++
		key := name + "|shape"
		what := "the segment returned is segments[index], returned together with that index, under the bounds test of the index"
		bad := ""
		var segParam *ssa.Parameter
		for _, p := range fn.Params {
			if _, ok := p.Type().Underlying().(*types.Slice); ok {
				segParam = p
			}
		}
		found := false
		for _, b := range fn.Blocks {
			ret, ok := b.Instrs[len(b.Instrs)-1].(*ssa.Return)
			if !ok || b == fn.Recover || len(ret.Results) < 2 {
				continue
			}
			v0 := retVal(ret, 0)
			if k, isC := v0.(*ssa.Const); isC && k.IsNil() {
				continue
			}
			found = true
			u, ok := v0.(*ssa.UnOp)
			var ia *ssa.IndexAddr
			if ok {
				ia, _ = u.X.(*ssa.IndexAddr)
			}
			if ia == nil || segParam == nil || ia.X != ssa.Value(segParam) {
				bad = "the first result is not an element of the segments parameter"
				continue
			}
			if retVal(ret, 1) != ia.Index {
				bad = "the index returned is not the index that was read (the id the client remembers belongs to another segment)"
			}
			// index shape
			idx := stripConv(ia.Index)
			sub, isSub := idx.(*ssa.BinOp)
			if !isSub || sub.Op != token.SUB {
				bad = "the index is not a difference"
			} else if name == "findSegmentWithInvPosition" {
				lc, ok := sub.X.(*ssa.Call)
				if !ok {
					bad = "the index is not len(segments) - invPos"
				} else if bi, ok := lc.Call.Value.(*ssa.Builtin); !ok || bi.Name() != "len" {
					bad = "the index is not len(segments) - invPos"
				} else if _, isParam := sub.Y.(*ssa.Parameter); !isParam {
					bad = "the index is not len(segments) - invPos (an extra offset starts one segment off)"
				}
			}
			if name == "findSegmentWithID" && len(ret.Results) >= 3 {
				// third result: len(segments) - index
				s3, ok := retVal(ret, 2).(*ssa.BinOp)
				if !ok || s3.Op != token.SUB || s3.Y != ia.Index {
					bad = "the distance from the end is not len(segments) - index"
				}
			}
			// bounds: a `index < 0` test controls the return
			okBound := false
			for e := range controlEdges(fn, b) {
				iff := fn.Blocks[e.from].Instrs[len(fn.Blocks[e.from].Instrs)-1].(*ssa.If)
				if bo, ok := iff.Cond.(*ssa.BinOp); ok && bo.Op == token.LSS && bo.X == ia.Index {
					okBound = true
				}
			}
			if !okBound && bad == "" {
				bad = "no `index < 0` test controls the indexing"
			}
		}
		if !found && bad == "" {
			r.undecided("F7n: %s does not return (segment, index, …) as a tuple: form not known to the rule", name)
			continue
		}
		if bad == "" {
			r.ok(key, c.Pos(fn.Pos()), FuncName(fn), what, "segments[index], index")
		} else {
			r.fail(key, c.Pos(fn.Pos()), FuncName(fn), what, bad)
		}
	}
	r.Instances = n
	return r
}

func ruleF7p(c *Ctx) *RuleResult {
	r := &RuleResult{Floor: 1, FloorWhat: "preload-hint downloads"}
	fn := c.Method("", "clientStreamDownloader", "runLowLatency")
	fpF := c.Field("", "clientStreamDownloader", "firstPlaylist")
	hintF := c.Field("pkg/playlist", "Media", "PreloadHint")
	if fn == nil || fpF == nil || hintF == nil {
		r.undecided("runLowLatency / firstPlaylist / Media.PreloadHint not found")
		return r
	}
	n := 0
	allInstrs(fn, func(in ssa.Instruction) {
		call, ok := in.(*ssa.Call)
		if !ok {
			return
		}
		g := call.Call.StaticCallee()
		if g == nil || (g.Name() != "downloadPreloadHint" && g.Name() != "dateTimeOfPreloadHint") {
			return
		}
		n++
		key := fmt.Sprintf("runLowLatency|%s#%d", g.Name(), n)
		what := "the argument is (a field of) the playlist carried by the loop, not the first playlist"
		// the playlist value: the argument itself or the base of the PreloadHint load
		var plv ssa.Value
		for _, a := range call.Call.Args {
			if f, base := loadedField(a); f == hintF {
				plv = base
			} else if typeIs(a.Type(), modPath+"/pkg/playlist", "Media") {
				plv = a
			}
		}
		if plv == nil {
			r.undecided("F7p: the playlist behind the argument of %s was not recognised", g.Name())
			return
		}
		if phi, ok := plv.(*ssa.Phi); ok && inLoopBlock(fn, phi.Block()) {
			r.ok(key, c.Pos(call.Pos()), FuncName(fn), what, "loop-carried playlist")
		} else {
			r.fail(key, c.Pos(call.Pos()), FuncName(fn), what, "the playlist is "+describeVal(plv)+", loop-invariant: the same part is downloaded (or dated) over and over")
		}
	})
	r.Instances = n
	return r
}

func ruleK13(c *Ctx) *RuleResult {
	r := &RuleResult{Floor: 1, FloorWhat: "calls of OnTracks"}
	fn := c.Method("", "Client", "setTracks")
	otF := c.Field("", "Client", "OnTracks")
	trF := c.Field("", "Client", "tracks")
	if fn == nil || otF == nil || trF == nil {
		r.undecided("Client.setTracks / OnTracks / tracks not found")
		return r
	}
	n := 0
	allInstrs(fn, func(in ssa.Instruction) {
		call, ok := in.(*ssa.Call)
		if !ok || call.Call.StaticCallee() != nil {
			return
		}
		if f, _ := loadedField(call.Call.Value); f != otF {
			return
		}
		n++
		key := "Client.setTracks|OnTracks-error"
		what := "the callback's error is returned, and the track map is filled before the callback runs"
		bad := ""
		returned := false
		for _, b := range fn.Blocks {
			if ret, ok := b.Instrs[len(b.Instrs)-1].(*ssa.Return); ok && len(ret.Results) > 0 {
				if retVal(ret, len(ret.Results)-1) == ssa.Value(call) {
					returned = true
				}
			}
		}
		if !returned {
			bad = "the error of OnTracks does not reach a return of setTracks: the client goes on streaming after the user refused the tracks"
		}
		// map updates of c.tracks dominate the call
		filled := false
		allInstrs(fn, func(x ssa.Instruction) {
			if mu, ok := x.(*ssa.MapUpdate); ok {
				if f, _ := loadedField(mu.Map); f == trF && instrReaches(mu, call) && !instrReaches(call, mu) {
					filled = true
				}
			}
		})
		if bad == "" && !filled {
			bad = "the track map is not filled before OnTracks is called: OnData* inside the callback finds no entry"
		}
		if bad == "" {
			r.ok(key, c.Pos(call.Pos()), FuncName(fn), what, "returned; map filled first")
		} else {
			r.fail(key, c.Pos(call.Pos()), FuncName(fn), what, bad)
		}
	})
	r.Instances = n
	return r
}

func ruleP3f(c *Ctx) *RuleResult {
	r := &RuleResult{Floor: 1, FloorWhat: "placeholder predicates"}
	fn := c.Method("", "muxerStream", "rotateParts")
	idF := c.Field("", "muxerStream", "nextPartID")
	pp := c.Func("", "partPath")
	if fn == nil || idF == nil || pp == nil {
		r.undecided("rotateParts / nextPartID / partPath not found")
		return r
	}
	n := 0
	for _, cl := range fn.AnonFuncs {
		// the closure that compares nextPartID with a captured value
		allInstrs(cl, func(in ssa.Instruction) {
			bo, ok := in.(*ssa.BinOp)
			if !ok {
				return
			}
			if f, _ := loadedField(bo.X); f != idF {
				return
			}
			n++
			key := fmt.Sprintf("rotateParts|placeholder-predicate#%d", n)
			what := "nextPartID > (the id the placeholder's path was built from)"
			bad := ""
			if bo.Op != token.GTR {
				bad = "the comparison is " + bo.Op.String() + ", not `>`: the placeholder delegates before its part exists (to itself)"
			}
			// the captured value in the parent
			var capVal ssa.Value
			if u, ok := bo.Y.(*ssa.UnOp); ok {
				if fv, ok := u.X.(*ssa.FreeVar); ok {
					allInstrs(fn, func(x ssa.Instruction) {
						if mc, ok := x.(*ssa.MakeClosure); ok && mc.Fn == ssa.Value(cl) {
							for i, f := range cl.FreeVars {
								if f == fv {
									capVal = mc.Bindings[i]
								}
							}
						}
					})
				}
			} else if fv, ok := bo.Y.(*ssa.FreeVar); ok {
				_ = fv
			}
			if bad == "" && capVal != nil {
				// the partPath call of the parent that builds the registration key uses the same cell's value
				same := false
				allInstrs(fn, func(x ssa.Instruction) {
					call, ok := x.(*ssa.Call)
					if !ok || call.Call.StaticCallee() != pp || len(call.Call.Args) < 3 {
						return
					}
					a := call.Call.Args[2]
					if u, ok := a.(*ssa.UnOp); ok && u.X == capVal {
						same = true
					}
					if a == capVal {
						same = true
					}
				})
				if !same {
					bad = "the id compared is not the id the registration path was built from"
				}
			}
			if bad == "" {
				r.ok(key, c.Pos(bo.Pos()), FuncName(cl), what, "strict, same id")
			} else {
				r.fail(key, c.Pos(bo.Pos()), FuncName(cl), what, bad)
			}
		})
	}
	r.Instances = n
	return r
}

func ruleG11f(c *Ctx) *RuleResult {
	r := &RuleResult{Floor: 1, FloorWhat: "appends to the CODECS list"}
	fn := c.Method("", "muxerStream", "populateMultivariantPlaylist")
	codF := c.Field("pkg/playlist", "MultivariantVariant", "Codecs")
	cc := c.Func("", "containsCodec")
	if fn == nil || codF == nil || cc == nil {
		r.undecided("populateMultivariantPlaylist / MultivariantVariant.Codecs / containsCodec not found")
		return r
	}
	n := 0
	allInstrs(fn, func(in ssa.Instruction) {
		st, ok := in.(*ssa.Store)
		if !ok {
			return
		}
		if f, _ := fieldOfAddr(st.Addr); f != codF {
			return
		}
		app, ok := st.Val.(*ssa.Call)
		if !ok {
			return
		}
		if b, ok := app.Call.Value.(*ssa.Builtin); !ok || b.Name() != "append" {
			return
		}
		n++
		key := fmt.Sprintf("populateMultivariantPlaylist|codecs-append#%d", n)
		what := "a codec string is appended only when containsCodec(list, codec) is false, for that list and that string"
		elems := variadicArgs(app.Call.Args[1])
		conds := ifsOnV(fn, func(v ssa.Value) bool {
			call, ok := v.(*ssa.Call)
			if !ok || call.Call.StaticCallee() != cc {
				return false
			}
			lf, _ := loadedField(call.Call.Args[0])
			return lf == codF && len(elems) == 1 && call.Call.Args[1] == elems[0]
		})
		if len(conds) > 0 && onlyIf(fn, st, conds, false) {
			r.ok(key, c.Pos(st.Pos()), FuncName(fn), what, "guarded by !containsCodec(mv.Codecs, codec)")
		} else {
			r.fail(key, c.Pos(st.Pos()), FuncName(fn), what, "the append is not guarded by the negated membership test of the same list and value: a codec is listed twice, or a track's codec is left out")
		}
	})
	r.Instances = n
	return r
}

func ruleG11g(c *Ctx) *RuleResult {
	r := &RuleResult{Floor: 1, FloorWhat: "uses of bandwidth()"}
	bw := c.Func("", "bandwidth")
	bF := c.Field("pkg/playlist", "MultivariantVariant", "Bandwidth")
	aF := c.Field("pkg/playlist", "MultivariantVariant", "AverageBandwidth")
	if bw == nil || bF == nil || aF == nil {
		r.undecided("bandwidth() / MultivariantVariant.Bandwidth / AverageBandwidth not found")
		return r
	}
	n := 0
	for _, fn := range c.Funcs {
		if !InRootPkg(fn) {
			continue
		}
		allInstrs(fn, func(in ssa.Instruction) {
			call, ok := in.(*ssa.Call)
			if !ok || call.Call.StaticCallee() != bw {
				return
			}
			n++
			key := fmt.Sprintf("%s|bandwidth-routing#%d", FuncName(fn), n)
			what := "result 0 feeds BANDWIDTH, result 1 feeds AVERAGE-BANDWIDTH"
			bad := ""
			for _, ref := range *call.Referrers() {
				ex, ok := ref.(*ssa.Extract)
				if !ok {
					continue
				}
				var dst *types.Var
				var follow func(v ssa.Value, d int)
				follow = func(v ssa.Value, d int) {
					if d > 4 || v.Referrers() == nil {
						return
					}
					for _, r2 := range *v.Referrers() {
						switch x := r2.(type) {
						case *ssa.Store:
							if f, _ := fieldOfAddr(x.Addr); f == bF || f == aF {
								dst = f
							} else if al, ok := x.Addr.(*ssa.Alloc); ok {
								// &avg stored into the pointer field
								for _, r3 := range *al.Referrers() {
									if s3, ok := r3.(*ssa.Store); ok && s3.Val == ssa.Value(al) {
										if f, _ := fieldOfAddr(s3.Addr); f == bF || f == aF {
											dst = f
										}
									}
								}
							}
						case *ssa.Convert:
							follow(x, d+1)
						}
					}
				}
				follow(ex, 0)
				if dst == nil {
					continue
				}
				if (ex.Index == 0) != (dst == bF) {
					bad = fmt.Sprintf("result %d is stored into %s", ex.Index, dst.Name())
				}
			}
			if bad == "" {
				r.ok(key, c.Pos(call.Pos()), FuncName(fn), what, "routed as stated")
			} else {
				r.fail(key, c.Pos(call.Pos()), FuncName(fn), what, bad+": peak and mean are exchanged, AVERAGE-BANDWIDTH exceeds BANDWIDTH")
			}
		})
	}
	r.Instances = n
	return r
}
