package main

// Twelfth batch: rules written after the twelfth round of seeded changes.

import (
	"fmt"
	"go/token"
	"go/types"
	"sort"
	"strings"

	"golang.org/x/tools/go/ssa"
)

func init() {
	registerRule("T6i", "the pending change is consumed at every random-access unit: the clear of pendingParamsChange is not control dependent on the track's firstRandomAccessReceived flag", ruleT6i)
	registerRule("G3d", "every finalized part is listed: in rotateParts the append to the segment's parts does not depend on the part's duration (its number is consumed either way)", ruleG3d)
	registerRule("P9", "file names are unpredictable per muxer: generatePrefix derives the prefix from crypto/rand and from nothing else (no clock)", ruleP9)
	registerRule("G20", "window helpers do not write the window: a function that receives the segment list as a parameter (targetDuration, partTargetDuration, bandwidth) stores into no element of it and appends to no re-slice of it", ruleG20)
	registerRule("L2c", "closed wins over content: from the head of a request's wait loop no success (a generated playlist, a 200 status, the delegated handler) is reachable without passing the `not closed` outcome of a closed-flag test", ruleL2c)
	registerRule("F7t", "a cloned URL is a whole URL: the url.URL literal of cloneURL sets every exported field of the type", ruleF7t)
	registerRule("K20", "synchronisation state is not copied: every method of a root-package type that contains a sync.WaitGroup, Mutex, RWMutex, Cond or Once has a pointer receiver", ruleK20)
	registerRule("K21", "no nil result with a nil error: in client code a function that returns (value, error) returns a nil value only together with a certain error", ruleK21)
	registerRule("T31", "decoded times keep their zone: the decoders of the playlist packages do not pass a parsed time through UTC / Local / In / Round / Truncate", ruleT31)
	registerRule("S6", "METHOD=NONE stands alone: in MediaKey.marshal every attribute but METHOD is printed under `Method != NONE`", ruleS6)
	registerRule("G2c", "the limit is the user's limit: the segmentMaxSize given to every muxerStream is Muxer.SegmentMaxSize itself", ruleG2c)
	registerRule("F8c", "a segment is held until it was played: every possibly successful return of the MPEG-TS stream processor's processSegment is (or follows) the join with the track processors", ruleF8c)
	registerRule("G6d", "the part target is rounded up: partTargetDuration does not return the result of Duration.Round / Truncate", ruleG6d)
	registerRule("K22", "the outcome of the track negotiation is tested: in a stream processor the result of setTracks is indexed only after a test of that outcome whose failing side returns", ruleK22)
	registerRule("T6j", "every element of the unit is inspected: a video writer never compares or stores a parameter set taken from a constant index of its unit parameter", ruleT6j)
}

// ---------------------------------------------------------------------------

func ruleT6i(c *Ctx) *RuleResult {
	r := &RuleResult{Floor: 1, FloorWhat: "consumptions of the pending flag"}
	si := c.segmenter()
	pending := c.Field("", "muxerSegmenter", "pendingParamsChange")
	firstRA := c.Field("", "muxerTrack", "firstRandomAccessReceived")
	if len(si.problems) > 0 || pending == nil || firstRA == nil {
		r.undecided("segmenter / pendingParamsChange / firstRandomAccessReceived not found")
		return r
	}
	n := 0
	var fns []*ssa.Function
	for _, fn := range si.video {
		fns = append(fns, fn)
		for _, g := range sameRecvCallees(fn) {
			if g != si.writeSample {
				fns = appendUnique(fns, g)
			}
		}
	}
	for _, fn := range fns {
		for _, st := range storesToField(c, fn, pending) {
			if b, isB := constBool(st.Val); !isB || b {
				continue
			}
			n++
			key := fmt.Sprintf("%s|consumed-regardless#%d", FuncName(fn), n)
			what := "the flag is cleared at a random-access unit whether or not it is the first one"
			conds := ifsOnV(fn, func(v ssa.Value) bool { f, _ := loadedField(v); return f == firstRA })
			dep := false
			for _, ci := range conds {
				for _, w := range []bool{true, false} {
					if onlyIf(fn, st, []condIf{ci}, w) {
						dep = true
					}
				}
			}
			if dep {
				r.fail(key, c.Pos(st.Pos()), FuncName(fn), what, "the clear is control dependent on firstRandomAccessReceived: a change raised by the very first key frame stays pending and cuts the segment at the second key frame, earlier than SegmentMinDuration")
			} else {
				r.ok(key, c.Pos(st.Pos()), FuncName(fn), what, "independent of firstRandomAccessReceived")
			}
		}
	}
	r.Instances = n
	return r
}

func ruleG3d(c *Ctx) *RuleResult {
	r := &RuleResult{Floor: 1, FloorWhat: "appends to a segment's part list"}
	fn := c.Method("", "muxerStream", "rotateParts")
	partsF := c.Field("", "muxerSegmentFMP4", "parts")
	if fn == nil || partsF == nil {
		r.undecided("muxerStream.rotateParts / muxerSegmentFMP4.parts not found")
		return r
	}
	n := 0
	for _, g := range append([]*ssa.Function{fn}, sameRecvCallees(fn)...) {
		for _, st := range storesToField(c, g, partsF) {
			n++
			key := fmt.Sprintf("%s|part-listed#%d", FuncName(g), n)
			what := "the finalized part is appended whatever its duration"
			conds := ifsOnV(g, func(v ssa.Value) bool {
				bo, ok := v.(*ssa.BinOp)
				if !ok {
					return false
				}
				for _, x := range []ssa.Value{bo.X, bo.Y} {
					if call, ok := stripConv(x).(*ssa.Call); ok && call.Call.StaticCallee() != nil && call.Call.StaticCallee().Name() == "getDuration" {
						return true
					}
				}
				return false
			})
			dep := false
			for _, ci := range conds {
				for _, w := range []bool{true, false} {
					if onlyIf(g, st, []condIf{ci}, w) {
						dep = true
					}
				}
			}
			if dep {
				r.fail(key, c.Pos(st.Pos()), FuncName(g), what, "the append depends on getDuration(): a part of zero duration consumes its number but is not listed, part numbers jump and the preload hint names a part that does not follow the last listed one")
			} else {
				r.ok(key, c.Pos(st.Pos()), FuncName(g), what, "unconditional")
			}
		}
	}
	r.Instances = n
	return r
}

func ruleP9(c *Ctx) *RuleResult {
	r := &RuleResult{Floor: 1, FloorWhat: "prefix generators"}
	fn := c.Func("", "generatePrefix")
	if fn == nil {
		r.undecided("generatePrefix not found")
		return r
	}
	r.Instances = 1
	usesRand, usesClock := false, ""
	allInstrs(fn, func(in ssa.Instruction) {
		call, ok := in.(*ssa.Call)
		if !ok {
			return
		}
		g := call.Call.StaticCallee()
		if g == nil || g.Pkg == nil {
			return
		}
		switch g.Pkg.Pkg.Path() {
		case "crypto/rand":
			usesRand = true
		case "time":
			usesClock = "time." + g.Name()
		case "math/rand", "math/rand/v2":
			usesClock = g.Pkg.Pkg.Path() + "." + g.Name()
		}
	})
	key := "generatePrefix|random"
	what := "the prefix of a muxer's file and URL names comes from crypto/rand"
	switch {
	case usesClock != "":
		r.fail(key, c.Pos(fn.Pos()), FuncName(fn), what, "the prefix is derived from "+usesClock+": two muxers that share a directory and start close together get the same file names, the second truncates segments the first still lists")
	case !usesRand:
		r.fail(key, c.Pos(fn.Pos()), FuncName(fn), what, "no call into crypto/rand")
	default:
		r.ok(key, c.Pos(fn.Pos()), FuncName(fn), what, "crypto/rand only")
	}
	return r
}

func ruleG20(c *Ctx) *RuleResult {
	r := &RuleResult{Floor: 3, FloorWhat: "functions that receive the segment list"}
	segIface := c.NamedType("", "muxerSegment")
	if segIface == nil {
		r.undecided("muxerSegment not found")
		return r
	}
	n := 0
	var fns []*ssa.Function
	for _, fn := range c.Funcs {
		if InRootPkg(fn) && fn.Blocks != nil && fn.Parent() == nil {
			fns = append(fns, fn)
		}
	}
	sort.Slice(fns, func(i, j int) bool { return fns[i].String() < fns[j].String() })
	for _, fn := range fns {
		for _, p := range fn.Params {
			sl, ok := p.Type().Underlying().(*types.Slice)
			if !ok || namedOf(sl.Elem()) != segIface {
				continue
			}
			n++
			key := FuncName(fn) + "|" + p.Name() + " read-only"
			what := "the caller's window is not changed through the parameter"
			bad := ""
			allInstrs(fn, func(in ssa.Instruction) {
				switch x := in.(type) {
				case *ssa.Store:
					if ia, ok := x.Addr.(*ssa.IndexAddr); ok && rootOf(ia.X) == ssa.Value(p) {
						bad = "an element is overwritten at " + c.Pos(x.Pos())
					}
				case *ssa.Call:
					if bi, ok := x.Call.Value.(*ssa.Builtin); ok && bi.Name() == "append" && len(x.Call.Args) > 0 {
						if rootOf(stripConv(x.Call.Args[0])) == ssa.Value(p) {
							bad = "append writes into the parameter's backing array at " + c.Pos(x.Pos())
						}
						// a local that was initialised as a re-slice of the parameter (`kept := segments[:0]`)
						if phi, ok := x.Call.Args[0].(*ssa.Phi); ok {
							for _, e := range phi.Edges {
								if s2, ok := e.(*ssa.Slice); ok && rootOf(s2.X) == ssa.Value(p) {
									bad = "append writes into a re-slice of the parameter at " + c.Pos(x.Pos())
								}
							}
						}
					}
				}
			})
			if bad == "" {
				r.ok(key, c.Pos(fn.Pos()), FuncName(fn), what, "no store, no append")
			} else {
				r.fail(key, c.Pos(fn.Pos()), FuncName(fn), what, bad+": the stream's own list of segments is rewritten while a playlist is rendered — a listed media sequence number changes its segment")
			}
		}
	}
	r.Instances = n
	return r
}

// ---------------------------------------------------------------------------

func ruleL2c(c *Ctx) *RuleResult {
	r := &RuleResult{Floor: 3, FloorWhat: "wait loops of muxer requests"}
	closed := c.closedFlags()
	n := 0
	for _, wl := range c.waitLoops() {
		fn := wl.fn
		if fn == nil || !InRootPkg(fn) || isClientFunc(enclosingNamed(fn)) || wl.head == nil {
			continue
		}
		n++
		key := fmt.Sprintf("%s|closed-first#%d", FuncName(fn), n)
		what := "after the last wake-up, success is reached only through `closed == false`"
		conds := ifsOnV(fn, func(v ssa.Value) bool { f, _ := loadedField(v); return f != nil && closed[f] })
		if len(conds) == 0 {
			r.fail(key, c.Pos(wl.wait.Pos()), FuncName(fn), what, "the function never tests a closed flag")
			continue
		}
		cut := map[edge]bool{}
		for _, ci := range conds {
			cut[ci.edgeWhen(false)] = true
		}
		reach := reachableBlocks(fn, wl.head.Index, cut, nil)
		bad := ""
		for _, b := range fn.Blocks {
			if !reach[b.Index] {
				continue
			}
			for _, in := range b.Instrs {
				call, ok := in.(ssa.CallInstruction)
				if !ok {
					continue
				}
				com := call.Common()
				switch {
				case com.IsInvoke() && com.Method.Name() == "WriteHeader" && len(com.Args) == 1:
					if k, isK := constInt(com.Args[0]); isK && k == 200 {
						bad = "WriteHeader(200) at " + c.Pos(in.Pos())
					}
				case com.StaticCallee() != nil && strings.HasPrefix(com.StaticCallee().Name(), "generate") && InRootPkg(com.StaticCallee()):
					bad = "the call of " + com.StaticCallee().Name() + " at " + c.Pos(in.Pos())
				case com.StaticCallee() == nil && !com.IsInvoke():
					if _, isBi := com.Value.(*ssa.Builtin); !isBi {
						if sig, ok := com.Value.Type().Underlying().(*types.Signature); ok && sig.Params().Len() >= 1 {
							// a function value: the playlist generator field, or the handler a placeholder delegates to
							bad = "the call through a function value at " + c.Pos(in.Pos())
						}
					}
				}
			}
		}
		if bad == "" {
			r.ok(key, c.Pos(wl.wait.Pos()), FuncName(fn), what, "with the `not closed` edges removed no success is reachable from the loop head")
		} else {
			r.fail(key, c.Pos(wl.wait.Pos()), FuncName(fn), what, bad+" is reachable from the loop head without passing a `closed == false` outcome: a request woken by the last rotation and overtaken by Close answers 200 from a closed muxer")
		}
	}
	r.Instances = n
	return r
}

func ruleF7t(c *Ctx) *RuleResult {
	r := &RuleResult{Floor: 1, FloorWhat: "copies of the playlist URL"}
	fn := c.Func("", "cloneURL")
	if fn == nil {
		r.undecided("cloneURL not found")
		return r
	}
	r.Instances = 1
	key := "cloneURL|every-field"
	what := "the copy carries every field of url.URL"
	var st *types.Struct
	set := map[string]bool{}
	allInstrs(fn, func(in ssa.Instruction) {
		s, ok := in.(*ssa.Store)
		if !ok {
			return
		}
		fa, ok := s.Addr.(*ssa.FieldAddr)
		if !ok {
			return
		}
		if al, ok := fa.X.(*ssa.Alloc); ok && typeIs(al.Type().(*types.Pointer).Elem(), "net/url", "URL") {
			st2 := al.Type().(*types.Pointer).Elem().Underlying().(*types.Struct)
			st = st2
			set[st2.Field(fa.Field).Name()] = true
		}
	})
	if st == nil {
		// a plain `c := *u` copy is whole by construction
		whole := false
		allInstrs(fn, func(in ssa.Instruction) {
			if u, ok := in.(*ssa.UnOp); ok && u.Op == token.MUL && typeIs(u.Type(), "net/url", "URL") {
				whole = true
			}
		})
		if whole {
			r.ok(key, c.Pos(fn.Pos()), FuncName(fn), what, "a struct copy")
		} else {
			r.undecided("F7t: cloneURL builds its result in a form the rule does not know")
		}
		return r
	}
	var missing []string
	for i := 0; i < st.NumFields(); i++ {
		if f := st.Field(i); f.Exported() && !set[f.Name()] {
			missing = append(missing, f.Name())
		}
	}
	if len(missing) == 0 {
		r.ok(key, c.Pos(fn.Pos()), FuncName(fn), what, fmt.Sprintf("%d fields", len(set)))
	} else {
		r.fail(key, c.Pos(fn.Pos()), FuncName(fn), what, "not copied: "+strings.Join(missing, ", ")+" — the delta-update request is built from the clone, a playlist path with an escape Go would not produce itself (`%2F`) is re-encoded and goes to another resource")
	}
	return r
}

func ruleK20(c *Ctx) *RuleResult {
	r := &RuleResult{Floor: 10, FloorWhat: "methods of types that hold synchronisation state"}
	root := c.Pkg("")
	if root == nil {
		r.undecided("root package not found")
		return r
	}
	holdsSync := func(n *types.Named) string {
		st, ok := n.Underlying().(*types.Struct)
		if !ok {
			return ""
		}
		for i := 0; i < st.NumFields(); i++ {
			if fn := namedOf(st.Field(i).Type()); fn != nil && fn.Obj().Pkg() != nil && fn.Obj().Pkg().Path() == "sync" {
				if _, isPtr := st.Field(i).Type().(*types.Pointer); !isPtr {
					switch fn.Obj().Name() {
					case "WaitGroup", "Mutex", "RWMutex", "Cond", "Once":
						return st.Field(i).Name() + " sync." + fn.Obj().Name()
					}
				}
			}
		}
		return ""
	}
	n := 0
	for _, name := range root.Scope().Names() {
		tn, ok := root.Scope().Lookup(name).(*types.TypeName)
		if !ok {
			continue
		}
		nt, ok := tn.Type().(*types.Named)
		if !ok {
			continue
		}
		why := holdsSync(nt)
		if why == "" {
			continue
		}
		for i := 0; i < nt.NumMethods(); i++ {
			m := nt.Method(i)
			n++
			key := name + "." + m.Name() + "|pointer-receiver"
			what := "the method works on the object, not on a copy of its " + why
			sig := m.Type().(*types.Signature)
			if _, isPtr := sig.Recv().Type().(*types.Pointer); isPtr {
				r.ok(key, c.Pos(m.Pos()), name+"."+m.Name(), what, "pointer receiver")
			} else {
				r.fail(key, c.Pos(m.Pos()), name+"."+m.Name(), what, "value receiver: Add / Done / Lock act on a copy, the real "+why+" never sees them (the pool joins nothing, Wait yields while routines still run)")
			}
		}
	}
	r.Instances = n
	return r
}

func ruleK21(c *Ctx) *RuleResult {
	r := &RuleResult{Floor: 10, FloorWhat: "nil-value returns of client functions"}
	n := 0
	for _, fn := range c.clientFuncs() {
		if fn.Blocks == nil {
			continue
		}
		res := fn.Signature.Results()
		if res.Len() != 2 || !isErrorType(res.At(1).Type()) {
			continue
		}
		switch res.At(0).Type().Underlying().(type) {
		case *types.Pointer, *types.Slice, *types.Interface, *types.Map:
		default:
			continue
		}
		k := 0
		for _, b := range fn.Blocks {
			ret, ok := b.Instrs[len(b.Instrs)-1].(*ssa.Return)
			if !ok || len(ret.Results) != 2 || b == fn.Recover {
				continue
			}
			v0, isK := retVal(ret, 0).(*ssa.Const)
			if !isK || !v0.IsNil() {
				continue
			}
			n++
			k++
			key := fmt.Sprintf("%s|nil-with-error#%d", FuncName(fn), k)
			what := "a nil value is returned only with an error that is certainly non-nil"
			if isErrorReturn(fn, ret) {
				r.ok(key, c.Pos(posOf(ret)), FuncName(fn), what, "certain error")
			} else {
				r.fail(key, c.Pos(posOf(ret)), FuncName(fn), what, "(nil, err) is returned on a path where err may be nil: every caller tests only the error and then dereferences the value (a multivariant playlist served where a media playlist is expected panics the client)")
			}
		}
	}
	r.Instances = n
	return r
}

// ---------------------------------------------------------------------------

func ruleT31(c *Ctx) *RuleResult {
	r := &RuleResult{Floor: 1, FloorWhat: "time parsers of the playlist packages"}
	all, _ := c.playlistFuncs()
	sort.Slice(all, func(i, j int) bool { return all[i].String() < all[j].String() })
	n := 0
	for _, fn := range all {
		if fn.Blocks == nil || inMarshal(fn) {
			continue
		}
		parses := false
		allInstrs(fn, func(in ssa.Instruction) {
			if call, ok := in.(*ssa.Call); ok && isFuncNamed(call.Call.StaticCallee(), "time", "Parse") {
				parses = true
			}
		})
		bad := ""
		allInstrs(fn, func(in ssa.Instruction) {
			call, ok := in.(*ssa.Call)
			if !ok {
				return
			}
			g := call.Call.StaticCallee()
			if g == nil || g.Signature.Recv() == nil || !typeIs(g.Signature.Recv().Type(), "time", "Time") {
				return
			}
			switch g.Name() {
			case "UTC", "Local", "In", "Round", "Truncate":
				bad = "time.Time." + g.Name() + " at " + c.Pos(call.Pos())
			}
		})
		if !parses && bad == "" {
			continue
		}
		n++
		key := FuncName(fn) + "|zone-kept"
		what := "a decoded date-time is the instant and the zone that were written"
		if bad == "" {
			r.ok(key, c.Pos(fn.Pos()), FuncName(fn), what, "the parsed value is handed on as it is")
		} else {
			r.fail(key, c.Pos(fn.Pos()), FuncName(fn), what, "the decoder applies "+bad+": `…+05:30` decodes and is printed back as `…Z`, Marshal is no fixpoint on its own output")
		}
	}
	r.Instances = n
	return r
}

func ruleS6(c *Ctx) *RuleResult {
	r := &RuleResult{Floor: 3, FloorWhat: "attributes of EXT-X-KEY other than METHOD"}
	fn := c.codecFuncOf("MediaKey", "marshal")
	methodF := c.Field("pkg/playlist", "MediaKey", "Method")
	if fn == nil || methodF == nil {
		r.undecided("MediaKey.marshal / Method not found")
		return r
	}
	conds := ifsOnV(fn, func(v ssa.Value) bool {
		bo, ok := v.(*ssa.BinOp)
		if !ok || (bo.Op != token.EQL && bo.Op != token.NEQ) {
			return false
		}
		f, _ := loadedField(stripConv(bo.X))
		s, isS := constString(bo.Y)
		return f == methodF && isS && s == "NONE"
	})
	var want []condWant
	for _, ci := range conds {
		want = append(want, condWant{ci, ci.Val.(*ssa.BinOp).Op == token.NEQ})
	}
	n := 0
	for _, root := range stringRoots(fn) {
		for _, l := range flatten(root, 0) {
			if l.kind != "" {
				continue
			}
			for _, attr := range []string{",URI=", ",IV=", ",KEYFORMAT=", ",KEYFORMATVERSIONS="} {
				if !strings.Contains(l.text, attr) {
					continue
				}
				n++
				key := fmt.Sprintf("MediaKey.marshal|%s", strings.Trim(attr, ",="))
				what := "the attribute is printed only when the method is not NONE"
				in, _ := root.(ssa.Instruction)
				if in != nil && len(want) > 0 && onlyIfAny(fn, in, want) {
					r.ok(key, c.Pos(root.Pos()), FuncName(fn), what, "under Method != NONE")
				} else {
					r.fail(key, c.Pos(root.Pos()), FuncName(fn), what, attr[1:]+" is printed whatever the method: RFC 8216 4.3.2.4 allows no other attribute next to METHOD=NONE")
				}
			}
		}
	}
	r.Instances = n
	return r
}

func ruleG2c(c *Ctx) *RuleResult {
	r := &RuleResult{Floor: 1, FloorWhat: "muxerStream literals"}
	f := c.Field("", "muxerStream", "segmentMaxSize")
	src := c.Field("", "Muxer", "SegmentMaxSize")
	if f == nil || src == nil {
		r.undecided("muxerStream.segmentMaxSize / Muxer.SegmentMaxSize not found")
		return r
	}
	n := 0
	for _, cl := range c.compositeLiterals("muxerStream") {
		n++
		key := fmt.Sprintf("%s|segment-max-size#%d", FuncName(cl.fn), n)
		what := "a stream enforces the SegmentMaxSize the user configured"
		v, has := cl.fields[f]
		if !has {
			r.fail(key, c.Pos(cl.alloc.Pos()), FuncName(cl.fn), what, "the literal does not set segmentMaxSize (0)")
			continue
		}
		if lf, _ := loadedField(stripConv(v)); lf == src {
			r.ok(key, c.Pos(cl.alloc.Pos()), FuncName(cl.fn), what, "Muxer.SegmentMaxSize")
		} else {
			r.fail(key, c.Pos(cl.alloc.Pos()), FuncName(cl.fn), what, "the value is "+describeVal(v)+", not the configured field on every path: in some configuration (disk storage still keeps the open segment in RAM) a segment grows without bound")
		}
	}
	r.Instances = n
	return r
}

func ruleF8c(c *Ctx) *RuleResult {
	r := &RuleResult{Floor: 1, FloorWhat: "returns of the MPEG-TS processSegment"}
	fn := c.Method("", "clientStreamProcessorMPEGTS", "processSegment")
	join := c.Method("", "clientStreamProcessorMPEGTS", "joinTrackProcessors")
	if fn == nil || join == nil {
		r.undecided("clientStreamProcessorMPEGTS.processSegment / joinTrackProcessors not found")
		return r
	}
	var joins []*ssa.Call
	allInstrs(fn, func(in ssa.Instruction) {
		if call, ok := in.(*ssa.Call); ok && call.Call.StaticCallee() == join {
			joins = append(joins, call)
		}
	})
	n := 0
	for _, b := range fn.Blocks {
		ret, ok := b.Instrs[len(b.Instrs)-1].(*ssa.Return)
		if !ok || b == fn.Recover || isErrorReturn(fn, ret) {
			continue
		}
		// the end-of-stream branch (nil segment) is not a data segment
		n++
		key := fmt.Sprintf("processSegment|joined#%d", n)
		what := "the segment is released only after its samples were handed to the application"
		okJ := false
		for _, j := range joins {
			if retVal(ret, 0) == ssa.Value(j) || instrDominates(j, ret) {
				okJ = true
			}
		}
		if okJ {
			r.ok(key, c.Pos(posOf(ret)), FuncName(fn), what, "follows the join")
		} else {
			r.fail(key, c.Pos(posOf(ret)), FuncName(fn), what, "a possibly successful return that does not pass joinTrackProcessors: the processor drains the queue at demux speed, the downloader's throttle never engages and the end marker overtakes undelivered samples")
		}
	}
	r.Instances = n
	return r
}

func ruleG6d(c *Ctx) *RuleResult {
	r := &RuleResult{Floor: 1, FloorWhat: "roundings of the part target"}
	fn := c.Func("", "partTargetDuration")
	if fn == nil {
		r.undecided("partTargetDuration not found")
		return r
	}
	r.Instances = 1
	key := "partTargetDuration|rounded-up"
	what := "the announced part target is not below the longest listed part"
	bad := ""
	allInstrs(fn, func(in ssa.Instruction) {
		call, ok := in.(*ssa.Call)
		if !ok {
			return
		}
		g := call.Call.StaticCallee()
		if g != nil && g.Signature.Recv() != nil && typeIs(g.Signature.Recv().Type(), "time", "Duration") && (g.Name() == "Round" || g.Name() == "Truncate") {
			bad = "Duration." + g.Name() + " at " + c.Pos(call.Pos())
		}
		if isFuncNamed(g, "math", "Round") || isFuncNamed(g, "math", "Floor") || isFuncNamed(g, "math", "Trunc") {
			bad = "math." + g.Name() + " at " + c.Pos(call.Pos())
		}
	})
	if bad == "" {
		r.ok(key, c.Pos(fn.Pos()), FuncName(fn), what, "no rounding to nearest / down")
	} else {
		r.fail(key, c.Pos(fn.Pos()), FuncName(fn), what, "the result passes through "+bad+": a part of 208.333 ms is announced under PART-TARGET=0.208")
	}
	return r
}

func ruleK22(c *Ctx) *RuleResult {
	r := &RuleResult{Floor: 2, FloorWhat: "track negotiations of the stream processors"}
	n := 0
	for _, fn := range c.clientFuncs() {
		if fn.Blocks == nil {
			continue
		}
		allInstrs(fn, func(in ssa.Instruction) {
			call, ok := in.(*ssa.Call)
			if !ok {
				return
			}
			name := ""
			if call.Call.IsInvoke() {
				name = call.Call.Method.Name()
			} else if g := call.Call.StaticCallee(); g != nil {
				name = g.Name()
			}
			if name != "setTracks" || isClientFunc(fn) && fn.Name() == "setTracks" {
				return
			}
			if nt := namedOf(fn.Signature.Recv().Type()); fn.Signature.Recv() == nil || nt == nil || !strings.HasPrefix(nt.Obj().Name(), "clientStreamProcessor") {
				return
			}
			n++
			key := fmt.Sprintf("%s|negotiation-tested#%d", FuncName(fn), n)
			what := "a cancelled negotiation ends the routine before the tracks are used"
			// values that carry the outcome: the results of the call, and loads of the field the first result is stored in
			outcome := map[ssa.Value]bool{call: true}
			var fld *types.Var
			for _, ref := range *call.Referrers() {
				if ex, ok := ref.(*ssa.Extract); ok {
					outcome[ex] = true
					for _, r2 := range *ex.Referrers() {
						if st, ok := r2.(*ssa.Store); ok {
							fld, _ = fieldOfAddr(st.Addr)
						}
					}
				}
				if st, ok := ref.(*ssa.Store); ok {
					fld, _ = fieldOfAddr(st.Addr)
				}
			}
			tested := false
			for _, b := range fn.Blocks {
				iff, ok := b.Instrs[len(b.Instrs)-1].(*ssa.If)
				if !ok || !call.Block().Dominates(b) {
					continue
				}
				v, _ := stripBoolWrap(iff.Cond)
				dep := pureDependsOn(v, outcome, 0)
				if bo, ok := v.(*ssa.BinOp); ok && fld != nil {
					if f, _ := loadedField(bo.X); f == fld {
						dep = true
					}
					if x := lenOf(bo.X); x != nil {
						if f, _ := loadedField(x); f == fld {
							dep = true
						}
					}
				}
				if !dep {
					continue
				}
				for _, s := range b.Succs {
					if _, isRet := s.Instrs[len(s.Instrs)-1].(*ssa.Return); isRet {
						tested = true
					}
				}
			}
			if tested {
				r.ok(key, c.Pos(call.Pos()), FuncName(fn), what, "the outcome is tested and the failing side returns")
			} else {
				r.fail(key, c.Pos(call.Pos()), FuncName(fn), what, "the result of setTracks is used without a test of its outcome: when the pool is cancelled during the negotiation (OnTracks refused the tracks, Close) the routine indexes a nil slice and the process dies instead of Wait yielding the error")
			}
		})
	}
	r.Instances = n
	return r
}

func ruleT6j(c *Ctx) *RuleResult {
	r := &RuleResult{Floor: 3, FloorWhat: "video writers that look into their unit"}
	si := c.segmenter()
	if len(si.problems) > 0 {
		r.undecided("%s", si.problems[0])
		return r
	}
	n := 0
	for _, fn := range si.video {
		// the unit parameter: a [][]byte
		var unit *ssa.Parameter
		for _, p := range fn.Params {
			if sl, ok := p.Type().Underlying().(*types.Slice); ok {
				if isByteSlice(sl.Elem()) {
					unit = p
				}
			}
		}
		if unit == nil {
			continue
		}
		n++
		key := FuncName(fn) + "|whole-unit"
		what := "parameter sets are looked for in every element of the unit"
		bad := ""
		allInstrs(fn, func(in ssa.Instruction) {
			ia, ok := in.(*ssa.IndexAddr)
			if !ok || ia.X != ssa.Value(unit) {
				return
			}
			if _, isK := constInt(ia.Index); !isK {
				return
			}
			// the element taken at a constant index is compared with / stored into a codec field
			for _, ref := range *ia.Referrers() {
				ld, ok := ref.(*ssa.UnOp)
				if !ok {
					continue
				}
				for _, r2 := range *ld.Referrers() {
					switch x := r2.(type) {
					case *ssa.Store:
						if f, _ := fieldOfAddr(x.Addr); isCodecsField(f) {
							bad = "element " + ia.Index.String() + " of the unit is stored into codec." + f.Name() + " at " + c.Pos(x.Pos())
						}
					case *ssa.Call:
						if isFuncNamed(x.Call.StaticCallee(), "bytes", "Equal") {
							bad = "only element " + ia.Index.String() + " of the unit is compared with the stored parameters at " + c.Pos(x.Pos())
						}
					}
				}
			}
		})
		if bad == "" {
			r.ok(key, c.Pos(fn.Pos()), FuncName(fn), what, "no constant index into the unit feeds the parameter sets")
		} else {
			r.fail(key, c.Pos(fn.Pos()), FuncName(fn), what, bad+": a unit that carries its sequence header / parameter set after another element (a temporal delimiter first) is neither a random-access point nor a parameter change")
		}
	}
	r.Instances = n
	return r
}

// ---------------------------------------------------------------------------

func init() {
	registerRule("F45b", "a fragment starts where its first sample starts: the BaseTime of every fmp4.PartTrack the muxer builds is the track's fmp4StartDTS (the decode time of the first sample queued for the part), not a time of the part", ruleF45b)
	registerRule("F51b", "MPEG-TS timestamps are in 90 kHz: every int64 timestamp handed to mpegts.Writer.Write* is the result of a rescaling call that carries the constant 90000", ruleF51b)
}

func ruleF45b(c *Ctx) *RuleResult {
	r := &RuleResult{Floor: 1, FloorWhat: "base times of muxed fragments"}
	startF := c.Field("", "muxerTrack", "fmp4StartDTS")
	if startF == nil {
		r.undecided("muxerTrack.fmp4StartDTS not found")
		return r
	}
	n := 0
	for _, fn := range c.Funcs {
		if !InRootPkg(fn) || fn.Blocks == nil || isClientFunc(enclosingNamed(fn)) {
			continue
		}
		allInstrs(fn, func(in ssa.Instruction) {
			st, ok := in.(*ssa.Store)
			if !ok {
				return
			}
			f, _ := fieldOfAddr(st.Addr)
			if f == nil || f.Name() != "BaseTime" || f.Pkg() == nil || !strings.Contains(f.Pkg().Path(), "fmp4") {
				return
			}
			n++
			key := fmt.Sprintf("%s|base-time#%d", FuncName(fn), n)
			what := "BaseTime is the decode time of the fragment's first sample"
			if lf, _ := loadedField(stripConv(st.Val)); lf == startF {
				r.ok(key, c.Pos(st.Pos()), FuncName(fn), what, "muxerTrack.fmp4StartDTS")
			} else {
				r.fail(key, c.Pos(st.Pos()), FuncName(fn), what, "the value is "+describeVal(st.Val)+": a track whose first sample of the part does not start at that instant (audio next to video) gets fragments whose base times overlap or leave holes")
			}
		})
	}
	r.Instances = n
	return r
}

func ruleF51b(c *Ctx) *RuleResult {
	r := &RuleResult{Floor: 2, FloorWhat: "timestamps handed to the MPEG-TS writer"}
	n := 0
	for _, fn := range c.Funcs {
		if !InRootPkg(fn) || fn.Blocks == nil || isClientFunc(enclosingNamed(fn)) {
			continue
		}
		k := 0
		allInstrs(fn, func(in ssa.Instruction) {
			call, ok := in.(*ssa.Call)
			if !ok {
				return
			}
			g := call.Call.StaticCallee()
			if g == nil || g.Pkg == nil || !strings.Contains(g.Pkg.Pkg.Path(), "mpegts") || g.Signature.Recv() == nil || !strings.HasPrefix(g.Name(), "Write") {
				return
			}
			if nt := namedOf(g.Signature.Recv().Type()); nt == nil || nt.Obj().Name() != "Writer" {
				return
			}
			for ai, a := range call.Call.Args {
				b, ok := a.Type().Underlying().(*types.Basic)
				if !ok || b.Kind() != types.Int64 {
					continue
				}
				n++
				k++
				key := fmt.Sprintf("%s|%s arg %d#%d", FuncName(fn), g.Name(), ai, k)
				what := "the timestamp was rescaled to the 90 kHz clock of the container"
				okScale := false
				if cc, ok := stripConv(a).(*ssa.Call); ok {
					for _, x := range cc.Call.Args {
						if kk, isK := constInt(x); isK && kk == 90000 {
							okScale = true
						}
					}
				}
				if okScale {
					r.ok(key, c.Pos(call.Pos()), FuncName(fn), what, "rescaled with 90000")
				} else {
					r.fail(key, c.Pos(call.Pos()), FuncName(fn), what, "the value "+describeVal(a)+" is handed over in the track's own clock: any track whose ClockRate is not 90000 is stamped wrongly")
				}
			}
		})
	}
	r.Instances = n
	return r
}
