package main

func thoroughImpl(spec *PropSpec, o *checkOpts, fails []Obl) (map[string]interface{}, int) {
	return map[string]interface{}{"note": "not built yet"}, 0
}
