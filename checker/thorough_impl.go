package main

import (
	"encoding/json"
	"fmt"
	"os"
	"os/exec"
	"path/filepath"
	"sort"
	"strconv"
	"strings"
	"sync"
	"time"
)

// thorough tier (DESIGN 2.5): the quick analysis plus
//  (1) the same rules under GOARCH=386 and under -tags verif: the set of failing obligations must be identical
//      (a difference is a defect of the checker → exit 2);
//  (2) a mutation self-test of this property's rules: catalogue mutants (single-site rewrites of the current
//      tree), reverts of the fix: commits, and the seeded changes of independent sub-agents are each applied to a
//      scratch copy outside /repo and /verif, analysed in their own process (at most 6 at a time, or $VERIF_THOROUGH_JOBS) and must be
//      reported. Survivors and mutants whose anchor no longer exists are listed; they never change the exit code
//      (they say something about the checker, not about the property).

type catalogMutant struct {
	ID    string   `json:"id"`
	Props []string `json:"props"`
	Rule  string   `json:"rule"`
	File  string   `json:"file"`
	Old   string   `json:"old"`
	New   string   `json:"new"`
	N     int      `json:"n"`
	Why   string   `json:"why"`
}

type mutantJob struct {
	id      string
	kind    string // catalog | revert | seeded
	rule    string
	apply   func(dir string) error
	outcome string // killed | survived | anchor-lost | error
	keys    []string
	detail  string
}

func selfExe() string {
	if p, err := os.Executable(); err == nil {
		return p
	}
	return os.Args[0]
}

func runKeys(prop, repo string, extra ...string) (keys []string, undecided []string, err error) {
	args := append([]string{"check", "-prop", prop, "-repo", repo, "-noevidence", "-keysonly"}, extra...)
	cmd := exec.Command(selfExe(), args...)
	cmd.Env = os.Environ()
	out, _ := cmd.CombinedOutput()
	for _, l := range strings.Split(string(out), "\n") {
		if strings.HasPrefix(l, "FAILKEY ") {
			keys = append(keys, strings.TrimPrefix(l, "FAILKEY "))
		}
		if strings.HasPrefix(l, "UNDECIDED ") {
			undecided = append(undecided, strings.TrimPrefix(l, "UNDECIDED "))
		}
	}
	sort.Strings(keys)
	return keys, undecided, nil
}

func copyTree(src, dst string) error {
	return filepath.Walk(src, func(p string, info os.FileInfo, err error) error {
		if err != nil {
			return err
		}
		rel, _ := filepath.Rel(src, p)
		if rel == ".git" || strings.HasPrefix(rel, ".git"+string(filepath.Separator)) {
			if info.IsDir() {
				return filepath.SkipDir
			}
			return nil
		}
		target := filepath.Join(dst, rel)
		if info.IsDir() {
			return os.MkdirAll(target, 0o755)
		}
		if !info.Mode().IsRegular() {
			return nil
		}
		b, err := os.ReadFile(p)
		if err != nil {
			return err
		}
		return os.WriteFile(target, b, 0o644)
	})
}

func nthIndex(s, sub string, n int) int {
	idx := -1
	from := 0
	for i := 0; i <= n; i++ {
		k := strings.Index(s[from:], sub)
		if k < 0 {
			return -1
		}
		idx = from + k
		from = idx + len(sub)
	}
	return idx
}

func thoroughImpl(spec *PropSpec, o *checkOpts, fails []Obl) (map[string]interface{}, int) {
	t0 := time.Now()
	res := map[string]interface{}{}
	exit := 0
	var base []string
	for _, f := range fails {
		base = append(base, f.Key)
	}
	sort.Strings(base)

	// (1) configurations
	var cfgRes []map[string]interface{}
	for _, cfg := range [][]string{{"-goarch", "386"}, {"-tags", "verif"}} {
		keys, und, _ := runKeys(spec.ID, o.repo, cfg...)
		same := strings.Join(keys, "\n") == strings.Join(base, "\n") && len(und) == 0
		cfgRes = append(cfgRes, map[string]interface{}{"config": strings.Join(cfg, " "), "failing_keys": keys, "undecided": und, "identical_to_default": same})
		if !same {
			fmt.Printf("UNDECIDED property=%s configuration %s gives a different result than the default configuration (default %v, here %v, undecided %v)\n", spec.ID, strings.Join(cfg, " "), base, keys, und)
			exit = 2
		}
	}
	res["configurations"] = cfgRes
	res["cha_cross_check"] = "not run: recomputing the context-sensitive lockset and callback-entry analyses over the CHA graph does not terminate in useful time (>40 min: CHA resolves every interface call in the standard library to every implementation); VTA edges of the four dynamic-call families are asserted by rule CG0 instead"

	// (2) mutants
	var jobs []*mutantJob
	ruleSet := map[string]bool{}
	for _, r := range spec.Rules {
		ruleSet[r] = true
	}
	if b, err := os.ReadFile(filepath.Join(o.verif, "mutants", "catalog.json")); err == nil {
		var doc struct {
			Mutants []catalogMutant `json:"mutants"`
		}
		if json.Unmarshal(b, &doc) == nil {
			for _, m := range doc.Mutants {
				m := m
				relevant := false
				for _, p := range m.Props {
					if p == spec.ID {
						relevant = true
					}
				}
				if !relevant || !ruleSet[m.Rule] {
					continue
				}
				jobs = append(jobs, &mutantJob{id: m.ID, kind: "catalog", rule: m.Rule, apply: func(dir string) error {
					p := filepath.Join(dir, m.File)
					src, err := os.ReadFile(p)
					if err != nil {
						return fmt.Errorf("anchor-lost: %v", err)
					}
					i := nthIndex(string(src), m.Old, m.N)
					if i < 0 {
						return fmt.Errorf("anchor-lost: text to rewrite not found in %s", m.File)
					}
					out := string(src)[:i] + m.New + string(src)[i+len(m.Old):]
					return os.WriteFile(p, []byte(out), 0o644)
				}})
			}
		}
	}
	patchJob := func(id, kind, patch string) *mutantJob {
		return &mutantJob{id: id, kind: kind, apply: func(dir string) error {
			cmd := exec.Command("patch", "-p1", "-s", "-f", "-i", patch)
			cmd.Dir = dir
			if out, err := cmd.CombinedOutput(); err != nil {
				return fmt.Errorf("anchor-lost: patch does not apply: %s", strings.TrimSpace(string(out)))
			}
			return nil
		}}
	}
	// seeded changes of this property
	if ds, err := filepath.Glob(filepath.Join(o.verif, "seeded", "*", "meta.json")); err == nil {
		for _, mf := range ds {
			var meta struct {
				ID, Property string
				DetectedBy   []string `json:"detected_by"`
			}
			b, _ := os.ReadFile(mf)
			if json.Unmarshal(b, &meta) != nil {
				continue
			}
			hit := meta.Property == spec.ID
			for _, d := range meta.DetectedBy {
				if strings.HasPrefix(d, spec.ID+":") {
					hit = true
				}
			}
			if !hit {
				continue
			}
			jobs = append(jobs, patchJob("seeded/"+meta.ID, "seeded", filepath.Join(filepath.Dir(mf), "patch.diff")))
		}
	}
	// reverts of the fix: commits that this property's rules are expected to see (mutants/revert/index.json)
	if b, err := os.ReadFile(filepath.Join(o.verif, "mutants", "revert", "index.json")); err == nil {
		var idx map[string]struct {
			Commit string
			Props  []string
		}
		if json.Unmarshal(b, &idx) == nil {
			var names []string
			for n := range idx {
				names = append(names, n)
			}
			sort.Strings(names)
			for _, n := range names {
				for _, p := range idx[n].Props {
					if p == spec.ID {
						jobs = append(jobs, patchJob("revert/"+idx[n].Commit, "revert", filepath.Join(o.verif, "mutants", "revert", n)))
					}
				}
			}
		}
	}

	par := 6
	if v, err := strconv.Atoi(os.Getenv("VERIF_THOROUGH_JOBS")); err == nil && v > 0 && v <= 16 {
		par = v
	}
	sem := make(chan struct{}, par)
	var wg sync.WaitGroup
	for _, j := range jobs {
		wg.Add(1)
		go func(j *mutantJob) {
			defer wg.Done()
			sem <- struct{}{}
			defer func() { <-sem }()
			dir, err := os.MkdirTemp("", "hlsverif-mut-")
			if err != nil {
				j.outcome, j.detail = "error", err.Error()
				return
			}
			defer os.RemoveAll(dir)
			if err := copyTree(o.repo, dir); err != nil {
				j.outcome, j.detail = "error", err.Error()
				return
			}
			if err := j.apply(dir); err != nil {
				if strings.HasPrefix(err.Error(), "anchor-lost") {
					j.outcome = "anchor-lost"
				} else {
					j.outcome = "error"
				}
				j.detail = err.Error()
				return
			}
			keys, und, _ := runKeys(spec.ID, dir)
			var newKeys []string
			for _, k := range keys {
				isBase := false
				for _, b := range base {
					if b == k {
						isBase = true
					}
				}
				if !isBase {
					newKeys = append(newKeys, k)
				}
			}
			j.keys = newKeys
			switch {
			case len(newKeys) > 0:
				j.outcome = "killed"
				if j.rule != "" {
					hit := false
					for _, k := range newKeys {
						if strings.HasPrefix(k, j.rule+"|") {
							hit = true
						}
					}
					if !hit {
						j.detail = "reported, but by another rule than the expected " + j.rule
					}
				}
			case len(und) > 0:
				j.outcome = "survived"
				j.detail = "undecided (no violation reported): " + strings.Join(und, "; ")
			default:
				j.outcome = "survived"
			}
		}(j)
	}
	wg.Wait()
	counts := map[string]int{}
	var list []map[string]interface{}
	for _, j := range jobs {
		counts[j.outcome]++
		e := map[string]interface{}{"id": j.id, "kind": j.kind, "outcome": j.outcome}
		if j.rule != "" {
			e["expected_rule"] = j.rule
		}
		if len(j.keys) > 0 {
			k := j.keys
			if len(k) > 4 {
				k = k[:4]
			}
			e["reported_keys"] = k
		}
		if j.detail != "" {
			e["detail"] = j.detail
		}
		list = append(list, e)
		if j.outcome != "killed" {
			fmt.Printf("  self-test: mutant %s %s %s\n", j.id, j.outcome, j.detail)
		}
	}
	res["mutants"] = list
	res["mutant_counts"] = counts
	res["mutants_total"] = len(jobs)
	res["self_test_wall_s"] = time.Since(t0).Seconds()
	fmt.Printf("  thorough: %d mutants of %s's rules: %v; configurations identical: %v\n", len(jobs), spec.ID, counts, exit == 0)
	return res, exit
}
