package main

// Rules written from the gap analysis of the attached rule sets against the property clauses (DESIGN section 10,
// "gap batch"): structural conditions of clauses that no earlier rule touched. None of them was prompted by a seed.

import (
	"fmt"
	"go/token"
	"go/types"
	"sort"
	"strings"

	"golang.org/x/tools/go/ssa"
)

func init() {
	registerRule("P3e", "the window is trimmed against SegmentCount: the comparison that guards the drop of the oldest segment is `len(segments) > segmentCount` with the stream's own field, and that field is only ever filled from Muxer.SegmentCount", ruleP3e)
	registerRule("P5b", "a path names its own object: the path constructors in the initialize() of parts and segments take the receiver's own prefix, stream id and id, in that order, and the container flag that fits the type", ruleP5b)
	registerRule("F34", "content types fit what is served: playlists are served as application/vnd.apple.mpegurl, parts and init files as video/mp4, and the segment handler picks video/MP2T exactly on the MPEG-TS edge of the variant test", ruleF34)
	registerRule("G3c", "end instants are kept and durations are their difference: finalize() of parts and segments stores its instant parameter into the receiver's endDTS on every success path, and every getDuration() returns recv.endDTS - recv.startDTS", ruleG3c)
	registerRule("G4e", "targets are computed after listing: targetDuration(s.segments) is called after the finished segment was appended to s.segments, and partTargetDuration(...) after the finished part was appended to its segment's parts", ruleG4e)
	registerRule("F35", "track ids agree between init and fragments: the init file numbers the stream's tracks 1, 2, … in the order of s.tracks (one increment per iteration, no skip) and a fragment numbers a track 1 + its index in the same list", ruleF35)
	registerRule("L2b", "the closed test comes first: in every wait loop of the muxer the test of the closed flag dominates the cond.Wait() call (a request that arrives after Close never reaches Wait)", ruleL2b)
	registerRule("L3f", "a skipped wake-up is justified by the state before the push: in clientSegmentQueue.push the close of the push channel depends on nothing but `len(queue) == 0`, read under the lock before the append", ruleL3f)
	registerRule("K9", "the status is checked before the body is trusted: in every client function that performs an HTTP exchange, a return that hands out the body is reachable only through a comparison of res.StatusCode whose other outcome returns an error", ruleK9)
	registerRule("G7k", "_HLS_part without _HLS_msn is refused: in the Low-Latency branch of handleMediaPlaylist the arm taken when only _HLS_part is present writes 400 and reaches no playlist generation", ruleG7k)
	registerRule("G9b", "the skip count is the loop bound: the value stored into MediaSkip.SkippedSegments is the value the segment loop of the generator compares its index with", ruleG9b)
	registerRule("V1e", "maps are made before they are written: every map update in the playlist packages is dominated by a make of that map (or the map is a parameter / a field assigned from make in the same function)", ruleV1e)
	registerRule("F37", "the absolute time is recorded before the callback runs: in clientTrack.handleData the store to lastAbsoluteTime dominates the call of the data callback and stores the ntp parameter", ruleF37)
	registerRule("K10", "the pacing wait is capped: the duration handed to time.After in clientTrack.handleData is reachable only through the `not greater than clientMaxDTSRTCDiff` outcome of a comparison of that same value, whose other outcome returns an error", ruleK10)
	registerRule("F7j", "relative URIs are resolved against the playlist URL: in clientAbsoluteURL ResolveReference is invoked on the base parameter with the parsed relative reference as argument", ruleF7j)
	registerRule("K4b", "Close only cancels: the body of Client.Close contains nothing but calls of the stored cancel function — no channel operation, no lock, no join", ruleK4b)
}

// ---------------------------------------------------------------------------

func ruleP3e(c *Ctx) *RuleResult {
	r := &RuleResult{Floor: 2, FloorWhat: "trim guards and stores of segmentCount"}
	segF := c.Field("", "muxerStream", "segments")
	cntF := c.Field("", "muxerStream", "segmentCount")
	mcF := c.Field("", "Muxer", "SegmentCount")
	rs := c.Method("", "muxerStream", "rotateSegments")
	if segF == nil || cntF == nil || mcF == nil || rs == nil {
		r.undecided("muxerStream.segments / segmentCount, Muxer.SegmentCount or rotateSegments not found")
		return r
	}
	n := 0
	// the guard: an If on `len(load segments) > X` that controls a re-slice of segments
	for _, b := range rs.Blocks {
		if len(b.Instrs) == 0 {
			continue
		}
		iff, ok := b.Instrs[len(b.Instrs)-1].(*ssa.If)
		if !ok {
			continue
		}
		bo, ok := iff.Cond.(*ssa.BinOp)
		if !ok {
			continue
		}
		lenSide, other := bo.X, bo.Y
		isLen := func(v ssa.Value) bool {
			call, ok := v.(*ssa.Call)
			if !ok {
				return false
			}
			bi, ok := call.Call.Value.(*ssa.Builtin)
			if !ok || bi.Name() != "len" {
				return false
			}
			f, _ := loadedField(call.Call.Args[0])
			return f == segF
		}
		op := bo.Op
		if !isLen(lenSide) {
			if !isLen(other) {
				continue
			}
			lenSide, other = other, lenSide
			switch op {
			case token.GTR:
				op = token.LSS
			case token.LSS:
				op = token.GTR
			case token.GEQ:
				op = token.LEQ
			case token.LEQ:
				op = token.GEQ
			}
		}
		if op != token.GTR && op != token.GEQ && op != token.LSS && op != token.LEQ {
			continue
		}
		// does it control a shrink of the window?
		shrinks := false
		for _, s := range []*ssa.BasicBlock{b.Succs[0], b.Succs[1]} {
			reach := reachableBlocks(rs, s.Index, nil, nil)
			allInstrs(rs, func(in ssa.Instruction) {
				if st, ok := in.(*ssa.Store); ok && reach[st.Block().Index] {
					if f, _ := fieldOfAddr(st.Addr); f == segF {
						if sl, ok := st.Val.(*ssa.Slice); ok && sl.Low != nil {
							shrinks = true
						}
					}
				}
			})
		}
		if !shrinks {
			continue
		}
		n++
		key := fmt.Sprintf("rotateSegments|trim-bound#%d", n)
		what := "the window is trimmed when len(segments) > segmentCount"
		f, _ := loadedField(stripConv(other))
		switch {
		case f != cntF:
			r.fail(key, c.Pos(bo.Pos()), FuncName(rs), what, "the length is compared with "+describeVal(stripConv(other))+", not with muxerStream.segmentCount: more (or fewer) than SegmentCount segments stay listed, for good")
		case op != token.GTR:
			r.fail(key, c.Pos(bo.Pos()), FuncName(rs), what, "the comparison is "+op.String()+", not `>`: the window is trimmed one entry early or late")
		default:
			r.ok(key, c.Pos(bo.Pos()), FuncName(rs), what, "len(s.segments) > s.segmentCount")
		}
	}
	// provenance of segmentCount
	for _, fn := range c.Funcs {
		if !InRootPkg(fn) {
			continue
		}
		k := 0
		allInstrs(fn, func(in ssa.Instruction) {
			st, ok := in.(*ssa.Store)
			if !ok {
				return
			}
			if f, _ := fieldOfAddr(st.Addr); f != cntF {
				return
			}
			n++
			k++
			key := fmt.Sprintf("%s|segmentCount-source#%d", FuncName(fn), k)
			what := "muxerStream.segmentCount is Muxer.SegmentCount"
			if f, _ := loadedField(stripConv(st.Val)); f == mcF {
				r.ok(key, c.Pos(st.Pos()), FuncName(fn), what, "m.SegmentCount")
			} else {
				r.fail(key, c.Pos(st.Pos()), FuncName(fn), what, "assigned "+describeVal(stripConv(st.Val))+": the streams of one muxer trim their windows at different sizes, or at a size the user did not configure")
			}
		})
	}
	r.Instances = n
	return r
}

func ruleP5b(c *Ctx) *RuleResult {
	r := &RuleResult{Floor: 3, FloorWhat: "path constructions in initialize()"}
	n := 0
	for _, spec := range []struct {
		typ, ctor string
		mp4       int // -1: no flag, 0: false, 1: true
	}{{"muxerPart", "partPath", -1}, {"muxerSegmentFMP4", "segmentPath", 1}, {"muxerSegmentMPEGTS", "segmentPath", 0}} {
		fn := c.Method("", spec.typ, "initialize")
		ctor := c.Func("", spec.ctor)
		pathF := c.Field("", spec.typ, "path")
		if fn == nil || ctor == nil || pathF == nil {
			r.undecided("%s.initialize / %s / %s.path not found", spec.typ, spec.ctor, spec.typ)
			continue
		}
		allInstrs(fn, func(in ssa.Instruction) {
			call, ok := in.(*ssa.Call)
			if !ok || call.Call.StaticCallee() != ctor {
				return
			}
			n++
			key := fmt.Sprintf("%s.initialize|path-args", spec.typ)
			what := "the path is built from the receiver's own prefix, stream id and id"
			want := []string{"prefix", "streamID", "id"}
			bad := ""
			for i, w := range want {
				if i >= len(call.Call.Args) {
					bad = "too few arguments"
					break
				}
				f, base := loadedField(stripConv(call.Call.Args[i]))
				if f == nil || f.Name() != w || !isRecvValue(fn, base) {
					bad = fmt.Sprintf("argument %d is %s, not the receiver's %s", i+1, describeVal(stripConv(call.Call.Args[i])), w)
					break
				}
			}
			if bad == "" && spec.mp4 >= 0 {
				if len(call.Call.Args) < 4 {
					bad = "container flag missing"
				} else if b, ok := constBool(call.Call.Args[3]); !ok || b != (spec.mp4 == 1) {
					bad = "the container flag does not fit " + spec.typ
				}
			}
			// stored into the receiver's path
			stored := false
			for _, ref := range *call.Referrers() {
				if st, ok := ref.(*ssa.Store); ok {
					if f, base := fieldOfAddr(st.Addr); f == pathF && isRecvValue(fn, base) {
						stored = true
					}
				}
			}
			if bad == "" && !stored {
				bad = "the result is not stored into the receiver's path"
			}
			if bad == "" {
				r.ok(key, c.Pos(call.Pos()), FuncName(fn), what, spec.ctor+"(prefix, streamID, id)")
			} else {
				r.fail(key, c.Pos(call.Pos()), FuncName(fn), what, bad+": the URI of this object names another number (all parts of a segment collide on one URI, or the number in the URI is not the media sequence number)")
			}
		})
	}
	r.Instances = n
	return r
}

func ruleF34(c *Ctx) *RuleResult {
	r := &RuleResult{Floor: 5, FloorWhat: "Content-Type headers set by muxer handlers"}
	variantF := c.Field("", "muxerStream", "variant")
	n := 0
	var fns []*ssa.Function
	for _, fn := range c.Funcs {
		if InRootPkg(fn) && !isClientFunc(enclosingNamed(fn)) {
			fns = append(fns, fn)
		}
	}
	sort.Slice(fns, func(i, j int) bool { return fns[i].String() < fns[j].String() })
	for _, fn := range fns {
		k := 0
		allInstrs(fn, func(in ssa.Instruction) {
			call, ok := in.(*ssa.Call)
			if !ok {
				return
			}
			g := call.Call.StaticCallee()
			if g == nil || g.Name() != "Set" || g.Signature.Recv() == nil || !typeIs(g.Signature.Recv().Type(), "net/http", "Header") || len(call.Call.Args) < 3 {
				return
			}
			if s, ok := constString(call.Call.Args[1]); !ok || s != "Content-Type" {
				return
			}
			n++
			k++
			key := fmt.Sprintf("%s|content-type#%d", FuncName(fn), k)
			top := enclosingNamed(fn)
			kind := "media"
			switch {
			case strings.Contains(top.Name(), "Playlist"):
				kind = "playlist"
			case top.Name() == "rotateSegments", strings.Contains(strings.ToLower(top.Name()), "segment") && !strings.Contains(strings.ToLower(top.Name()), "part"):
				kind = "segment"
			}
			what := "the Content-Type fits the kind of object the handler serves (" + kind + ")"
			val := call.Call.Args[2]
			// possible constant values with the condition under which each is chosen
			type alt struct {
				s    string
				cond *ssa.If
				edge int
			}
			var alts []alt
			if s, ok := constString(val); ok {
				alts = append(alts, alt{s: s})
			} else if inner, ok := val.(*ssa.Call); ok {
				// an immediately invoked closure returning one of two constants
				var cf *ssa.Function
				if mc, ok := inner.Call.Value.(*ssa.MakeClosure); ok {
					cf = mc.Fn.(*ssa.Function)
				} else if g := inner.Call.StaticCallee(); g != nil && InRootPkg(g) && g.Blocks != nil {
					// a named function / method that picks the type
					cf = g
				}
				if cf != nil {
					for _, b := range cf.Blocks {
						if ret, ok := b.Instrs[len(b.Instrs)-1].(*ssa.Return); ok && len(ret.Results) == 1 {
							if s, ok := constString(ret.Results[0]); ok {
								a := alt{s: s}
								// the If whose edge leads here
								for _, p := range b.Preds {
									if iff, ok := p.Instrs[len(p.Instrs)-1].(*ssa.If); ok {
										a.cond = iff
										if p.Succs[1] == b {
											a.edge = 1
										}
									}
								}
								alts = append(alts, a)
							}
						}
					}
				}
			} else if phi, ok := val.(*ssa.Phi); ok {
				for i, e := range phi.Edges {
					if s, ok := constString(e); ok {
						a := alt{s: s}
						p := phi.Block().Preds[i]
						if iff, ok := p.Instrs[len(p.Instrs)-1].(*ssa.If); ok {
							a.cond = iff
							if p.Succs[1] == phi.Block() {
								a.edge = 1
							}
						} else if len(p.Preds) == 1 {
							q := p.Preds[0]
							if iff, ok := q.Instrs[len(q.Instrs)-1].(*ssa.If); ok {
								a.cond = iff
								if q.Succs[1] == p {
									a.edge = 1
								}
							}
						}
						alts = append(alts, a)
					}
				}
			} else if u, ok := val.(*ssa.UnOp); ok && u.Op == token.MUL {
				// a variable of the enclosing function, computed before the handler is registered:
				// a default constant, overwritten under a test
				if fv, ok := u.X.(*ssa.FreeVar); ok && fn.Parent() != nil {
					var cell ssa.Value
					allInstrs(fn.Parent(), func(x ssa.Instruction) {
						if mc, ok := x.(*ssa.MakeClosure); ok && mc.Fn == ssa.Value(fn) {
							for i, b := range mc.Bindings {
								if i < len(fn.FreeVars) && fn.FreeVars[i] == fv {
									cell = b
								}
							}
						}
					})
					if al, ok := cell.(*ssa.Alloc); ok {
						var def *alt
						var conds []alt
						okForm := true
						for _, ref := range *al.Referrers() {
							st, ok := ref.(*ssa.Store)
							if !ok || st.Addr != ssa.Value(al) {
								continue
							}
							s, isS := constString(st.Val)
							if !isS {
								okForm = false
								continue
							}
							var ctl []edge
							for e := range controlEdges(fn.Parent(), st.Block()) {
								iff := fn.Parent().Blocks[e.from].Instrs[len(fn.Parent().Blocks[e.from].Instrs)-1].(*ssa.If)
								if bo, ok := iff.Cond.(*ssa.BinOp); ok {
									if f, _ := loadedField(bo.X); f == variantF {
										ctl = append(ctl, e)
									}
								}
							}
							switch len(ctl) {
							case 0:
								if def != nil {
									okForm = false
								}
								def = &alt{s: s}
							case 1:
								blk := fn.Parent().Blocks[ctl[0].from]
								a := alt{s: s, cond: blk.Instrs[len(blk.Instrs)-1].(*ssa.If)}
								if blk.Succs[1].Index == ctl[0].to {
									a.edge = 1
								}
								conds = append(conds, a)
							default:
								okForm = false
							}
						}
						if okForm && def != nil && len(conds) == 1 {
							def.cond = conds[0].cond
							def.edge = 1 - conds[0].edge
							alts = append(alts, *def, conds[0])
						} else if okForm && def != nil && len(conds) == 0 {
							alts = append(alts, *def)
						}
					}
				}
			}
			if inner, ok := val.(*ssa.Call); ok && len(alts) == 0 {
				if g := inner.Call.StaticCallee(); g != nil && g.Pkg != nil && g.Pkg.Pkg.Path() == "mime" {
					r.fail(key, c.Pos(call.Pos()), FuncName(fn), what, "the Content-Type is looked up with mime."+g.Name()+": the answer depends on the MIME tables of the host (`.ts` is a Qt translation file on freedesktop systems, unknown in a bare container)")
					return
				}
			}
			if len(alts) == 0 {
				r.undecided("F34: %s sets a Content-Type that is not a constant or a choice between constants: form not known to the rule", FuncName(fn))
				return
			}
			bad := ""
			for _, a := range alts {
				switch kind {
				case "playlist":
					if a.s != "application/vnd.apple.mpegurl" {
						bad = "a playlist is served as " + a.s
					}
				case "media":
					if a.s != "video/mp4" {
						bad = "a part / init file is served as " + a.s
					}
				case "segment":
					if a.s != "video/mp4" && a.s != "video/MP2T" {
						bad = "a segment is served as " + a.s
					}
					if a.cond != nil && variantF != nil {
						// video/MP2T exactly on the `variant == MPEG-TS` side of a test of the variant
						if bo, ok := a.cond.Cond.(*ssa.BinOp); ok && (bo.Op == token.EQL || bo.Op == token.NEQ) {
							if f, _ := loadedField(bo.X); f == variantF {
								if k, ok := bo.Y.(*ssa.Const); ok && k.Value != nil {
									cn := constName(c, bo.Y.Type(), k.Value)
									isTS := strings.Contains(cn, "MPEGTS")
									onEq := (bo.Op == token.EQL && a.edge == 0) || (bo.Op == token.NEQ && a.edge == 1)
									switch {
									case isTS && (a.s == "video/MP2T") != onEq:
										bad = a.s + " is chosen on the wrong side of the variant test"
									case !isTS && onEq && a.s == "video/MP2T":
										bad = "video/MP2T is chosen for " + cn
									case !isTS && !onEq && a.s == "video/MP2T":
										bad = "video/MP2T is chosen whenever the variant is not " + cn + ": the variant has three values, the other fMP4 variant is served as MPEG-TS"
									}
								}
							}
						}
					}
				}
			}
			if kind == "segment" && len(alts) < 2 {
				// a single constant for both containers
				if variantF != nil {
					bad = "one Content-Type for both containers"
				}
			}
			if bad == "" {
				var ss []string
				for _, a := range alts {
					ss = append(ss, a.s)
				}
				r.ok(key, c.Pos(call.Pos()), FuncName(fn), what, strings.Join(ss, " / "))
			} else {
				r.fail(key, c.Pos(call.Pos()), FuncName(fn), what, bad+": the listed URI is fetched with a Content-Type that does not fit its bytes")
			}
		})
	}
	r.Instances = n
	return r
}

func ruleG3c(c *Ctx) *RuleResult {
	r := &RuleResult{Floor: 6, FloorWhat: "finalize / getDuration of parts and segments"}
	n := 0
	for _, tn := range []string{"muxerPart", "muxerSegmentFMP4", "muxerSegmentMPEGTS"} {
		endF := c.Field("", tn, "endDTS")
		startF := c.Field("", tn, "startDTS")
		fin := c.Method("", tn, "finalize")
		gd := c.Method("", tn, "getDuration")
		if endF == nil || startF == nil || fin == nil || gd == nil {
			r.undecided("%s.endDTS / startDTS / finalize / getDuration not found", tn)
			continue
		}
		// finalize: every success return is dominated by a store endDTS = parameter
		var durParam *ssa.Parameter
		for _, p := range fin.Params[1:] {
			if typeIs(p.Type(), "time", "Duration") {
				durParam = p
			}
		}
		n++
		key := tn + ".finalize|keeps-end"
		what := "finalize stores its instant parameter into endDTS before every success return"
		if durParam == nil {
			r.undecided("G3c: %s.finalize has no time.Duration parameter: form not known to the rule", tn)
		} else {
			isStore := func(x ssa.Instruction) bool {
				st, ok := x.(*ssa.Store)
				if !ok {
					return false
				}
				f, base := fieldOfAddr(st.Addr)
				return f == endF && isRecvValue(fin, base) && stripConv(st.Val) == ssa.Value(durParam)
			}
			isOKRet := func(x ssa.Instruction) bool {
				ret, ok := x.(*ssa.Return)
				if !ok {
					return false
				}
				if len(ret.Results) == 0 {
					return true
				}
				k, isC := retVal(ret, len(ret.Results)-1).(*ssa.Const)
				return isC && k.IsNil()
			}
			if len(fin.Blocks) > 0 {
				if path := pathAvoidingFromBlock(c, fin, fin.Blocks[0], isStore, isOKRet); path != nil {
					r.fail(key, c.Pos(fin.Pos()), FuncName(fin), what,
						"a success return is reachable without `endDTS = <parameter>`: the duration of the finished object stays what an earlier write left there (EXTINF short by the last frame, durations no longer add up)", path...)
				} else {
					r.ok(key, c.Pos(fin.Pos()), FuncName(fin), what, "stored on every success path")
				}
			}
		}
		// getDuration: endDTS - startDTS of the receiver
		n++
		key = tn + ".getDuration|difference"
		what = "getDuration returns endDTS - startDTS of the receiver"
		okShape := false
		for _, b := range gd.Blocks {
			ret, ok := b.Instrs[len(b.Instrs)-1].(*ssa.Return)
			if !ok || len(ret.Results) != 1 {
				continue
			}
			if bo, ok := ret.Results[0].(*ssa.BinOp); ok && bo.Op == token.SUB {
				fx, bx := loadedField(bo.X)
				fy, by := loadedField(bo.Y)
				if fx == endF && fy == startF && isRecvValue(gd, bx) && isRecvValue(gd, by) {
					okShape = true
				}
			}
		}
		if okShape {
			r.ok(key, c.Pos(gd.Pos()), FuncName(gd), what, "endDTS - startDTS")
		} else {
			r.fail(key, c.Pos(gd.Pos()), FuncName(gd), what, "another expression: the advertised duration is not the media time between the object's two instants")
		}
	}
	r.Instances = n
	return r
}

func ruleG4e(c *Ctx) *RuleResult {
	r := &RuleResult{Floor: 2, FloorWhat: "target computations"}
	n := 0
	segF := c.Field("", "muxerStream", "segments")
	partsF := c.Field("", "muxerSegmentFMP4", "parts")
	td := c.Func("", "targetDuration")
	ptd := c.Func("", "partTargetDuration")
	if segF == nil || partsF == nil || td == nil || ptd == nil {
		r.undecided("targetDuration / partTargetDuration / segments / parts not found")
		return r
	}
	isAppendTo := func(x ssa.Instruction, f *types.Var) bool {
		st, ok := x.(*ssa.Store)
		if !ok {
			return false
		}
		if sf, _ := fieldOfAddr(st.Addr); sf != f {
			return false
		}
		call, ok := st.Val.(*ssa.Call)
		if !ok {
			return false
		}
		b, ok := call.Call.Value.(*ssa.Builtin)
		return ok && b.Name() == "append"
	}
	for _, fn := range c.Funcs {
		if !InRootPkg(fn) {
			continue
		}
		allInstrs(fn, func(in ssa.Instruction) {
			call, ok := in.(*ssa.Call)
			if !ok {
				return
			}
			g := call.Call.StaticCallee()
			if g != td && g != ptd {
				return
			}
			// only the calls that feed the stream's sticky fields (the rotation), not a generator
			n++
			f := segF
			what := "the finished segment is in s.segments when the target duration is recomputed"
			if g == ptd {
				f = partsF
				what = "the finished part is in its segment's parts when the part target is recomputed"
			}
			key := fmt.Sprintf("%s|%s-after-append#%d", FuncName(fn), g.Name(), n)
			dom := false
			hasAppend := false
			allInstrs(fn, func(x ssa.Instruction) {
				if isAppendTo(x, f) {
					hasAppend = true
					if instrDominates(x, call) {
						dom = true
					}
				}
			})
			switch {
			case !hasAppend && g == ptd:
				// rotateParts appends only in the Low-Latency variant; the parts of other variants are never listed
				r.ok(key, c.Pos(call.Pos()), FuncName(fn), what, "no append in this function")
			case !hasAppend:
				r.undecided("G4e: %s calls %s but never appends to %s: form not known to the rule", FuncName(fn), g.Name(), f.Name())
			case dom:
				r.ok(key, c.Pos(call.Pos()), FuncName(fn), what, "the append dominates the computation")
			default:
				// the Low-Latency append is conditional: accept when the append can reach the call and the call cannot reach the append
				okOrder := true
				allInstrs(fn, func(x ssa.Instruction) {
					if isAppendTo(x, f) && (instrReaches(call, x) || !instrReaches(x, call)) {
						okOrder = false
					}
				})
				if okOrder {
					r.ok(key, c.Pos(call.Pos()), FuncName(fn), what, "every append precedes the computation")
				} else {
					r.fail(key, c.Pos(call.Pos()), FuncName(fn), what,
						"the computation can run before the append: the announced target lags one element behind, so the newest EXTINF / part duration can exceed it")
				}
			}
		})
	}
	r.Instances = n
	return r
}

func ruleF35(c *Ctx) *RuleResult {
	r := &RuleResult{Floor: 2, FloorWhat: "track id assignments"}
	n := 0
	initID := c.fieldByQualifiedName("github.com/bluenviron/mediacommon/v2/pkg/formats/fmp4", "InitTrack", "ID")
	partID := c.fieldByQualifiedName("github.com/bluenviron/mediacommon/v2/pkg/formats/fmp4", "PartTrack", "ID")
	if initID == nil || partID == nil {
		r.undecided("fmp4.InitTrack.ID / fmp4.PartTrack.ID not found")
		return r
	}
	for _, fn := range c.Funcs {
		if !InRootPkg(fn) || isClientFunc(enclosingNamed(fn)) {
			continue
		}
		allInstrs(fn, func(in ssa.Instruction) {
			st, ok := in.(*ssa.Store)
			if !ok {
				return
			}
			f, _ := fieldOfAddr(st.Addr)
			if f != initID && f != partID {
				return
			}
			n++
			key := fmt.Sprintf("%s|%s.ID", FuncName(fn), c.fieldOwner(f))
			what := "the id is 1 + the position of the track in the stream's track list"
			v := stripConv(st.Val)
			okID := false
			desc := describeVal(v)
			// (a) 1 + range index
			if bo, ok := v.(*ssa.BinOp); ok && bo.Op == token.ADD {
				for _, pair := range [][2]ssa.Value{{bo.X, bo.Y}, {bo.Y, bo.X}} {
					if k, isC := constInt(pair[0]); isC && k == 1 {
						if isR, _ := rangeIndexOver(pair[1]); isR {
							okID = true
							desc = "1 + range index"
						}
					}
				}
			}
			// (b) a counter: phi(1, phi+1) with the increment on every path of the loop body
			if phi, ok := v.(*ssa.Phi); ok && len(phi.Edges) == 2 {
				var start, step ssa.Value
				for _, e := range phi.Edges {
					if _, isC := constInt(e); isC {
						start = e
					} else {
						step = e
					}
				}
				if start != nil && step != nil {
					if k, _ := constInt(start); k == 1 {
						if add, ok := step.(*ssa.BinOp); ok && add.Op == token.ADD && add.X == ssa.Value(phi) {
							if one, isC := constInt(add.Y); isC && one == 1 {
								// no other path back to the loop head: the step is the only non-constant edge
								okID = true
								desc = "counter from 1, +1 per track"
							}
						}
					}
				}
			}
			if okID {
				r.ok(key, c.Pos(st.Pos()), FuncName(fn), what, desc)
			} else {
				r.fail(key, c.Pos(st.Pos()), FuncName(fn), what,
					"the id is "+desc+": fragments and init file number the tracks differently, the client finds no processor for a fragment's track id and drops its samples (or ends with `could not find data of leading track`)")
			}
		})
	}
	r.Instances = n
	return r
}

// fieldByQualifiedName looks a struct field up in any loaded package.
func (c *Ctx) fieldByQualifiedName(pkgPath, typeName, field string) *types.Var {
	for _, p := range c.Prog.AllPackages() {
		if p.Pkg.Path() != pkgPath {
			continue
		}
		obj := p.Pkg.Scope().Lookup(typeName)
		if obj == nil {
			return nil
		}
		st, ok := obj.Type().Underlying().(*types.Struct)
		if !ok {
			return nil
		}
		for i := 0; i < st.NumFields(); i++ {
			if st.Field(i).Name() == field {
				return st.Field(i)
			}
		}
	}
	return nil
}

func ruleL2b(c *Ctx) *RuleResult {
	r := &RuleResult{Floor: 4, FloorWhat: "cond.Wait sites in muxer code"}
	n := 0
	var fns []*ssa.Function
	for _, fn := range c.Funcs {
		if InRootPkg(fn) && !isClientFunc(enclosingNamed(fn)) {
			fns = append(fns, fn)
		}
	}
	sort.Slice(fns, func(i, j int) bool { return fns[i].String() < fns[j].String() })
	for _, fn := range fns {
		k := 0
		allInstrs(fn, func(in ssa.Instruction) {
			call, ok := in.(*ssa.Call)
			if !ok || classifySync(&call.Call) != opWait {
				return
			}
			n++
			k++
			key := fmt.Sprintf("%s|wait#%d", FuncName(fn), k)
			what := "a test of the closed flag dominates the Wait"
			dom := false
			for _, b := range fn.Blocks {
				if len(b.Instrs) == 0 {
					continue
				}
				iff, ok := b.Instrs[len(b.Instrs)-1].(*ssa.If)
				if !ok {
					continue
				}
				v := iff.Cond
				for {
					if u, ok := v.(*ssa.UnOp); ok && u.Op == token.NOT {
						v = u.X
						continue
					}
					break
				}
				f, _ := loadedField(v)
				if f == nil || f.Name() != "closed" {
					continue
				}
				// the test sits at the end of its block: a test in the block of the Wait itself comes after it
				if b != call.Block() && b.Dominates(call.Block()) {
					dom = true
				}
			}
			if dom {
				r.ok(key, c.Pos(call.Pos()), FuncName(fn), what, "closed is tested on every path to the Wait")
			} else {
				r.fail(key, c.Pos(call.Pos()), FuncName(fn), what,
					"a path reaches Wait without testing the closed flag: a request that arrives after Close (no Broadcast will ever follow) blocks for ever")
			}
		})
	}
	r.Instances = n
	return r
}

func ruleL3f(c *Ctx) *RuleResult {
	r := &RuleResult{Floor: 1, FloorWhat: "conditional wake-ups of the segment queue"}
	qF := c.Field("", "clientSegmentQueue", "queue")
	pushF := c.Field("", "clientSegmentQueue", "didPush")
	fn := c.Method("", "clientSegmentQueue", "push")
	if qF == nil || pushF == nil || fn == nil {
		r.undecided("clientSegmentQueue.queue / didPush / push not found")
		return r
	}
	n := 0
	// push, or the helper of the queue that push runs under its lock
	pushFns := []*ssa.Function{fn}
	allInstrs(fn, func(in ssa.Instruction) {
		if call, ok := in.(*ssa.Call); ok {
			if g := call.Call.StaticCallee(); g != nil && g.Blocks != nil && g.Signature.Recv() != nil && types.Identical(g.Signature.Recv().Type(), fn.Signature.Recv().Type()) {
				pushFns = appendUnique(pushFns, g)
			}
		}
	})
	for _, fn := range pushFns {
		allInstrs(fn, func(in ssa.Instruction) {
			call, ok := in.(*ssa.Call)
			if !ok {
				return
			}
			b, ok := call.Call.Value.(*ssa.Builtin)
			if !ok || b.Name() != "close" {
				return
			}
			if f, _ := loadedField(call.Call.Args[0]); f != pushF {
				return
			}
			n++
			key := fmt.Sprintf("push|wake-up#%d", n)
			what := "the wake-up is skipped only when the queue was non-empty before the append"
			// the append store
			var app *ssa.Store
			allInstrs(fn, func(x ssa.Instruction) {
				if st, ok := x.(*ssa.Store); ok {
					if f, _ := fieldOfAddr(st.Addr); f == qF {
						app = st
					}
				}
			})
			bad := ""
			for e := range controlEdges(fn, call.Block()) {
				iff := fn.Blocks[e.from].Instrs[len(fn.Blocks[e.from].Instrs)-1].(*ssa.If)
				// the condition: len(queue) == 0, possibly through a local bool
				v := iff.Cond
				okCond := false
				var lenCall *ssa.Call
				if bo, ok := v.(*ssa.BinOp); ok && bo.Op == token.EQL {
					if k, isC := constInt(bo.Y); isC && k == 0 {
						if lc, ok := bo.X.(*ssa.Call); ok {
							if bi, ok := lc.Call.Value.(*ssa.Builtin); ok && bi.Name() == "len" {
								if f, _ := loadedField(lc.Call.Args[0]); f == qF {
									lenCall = lc
									okCond = true
								}
							}
						}
					}
				}
				if !okCond {
					bad = "the wake-up also depends on `" + condText(c, iff) + "`"
					continue
				}
				if app != nil && !instrDominates(lenCall, app) {
					bad = "the length is read after the append (it is never 0 there)"
				}
				// the read happens under the lock
				la := c.clientLockAnalysis()
				if must, _, ok := la.heldAt(lenCall); ok && must == 0 {
					bad = "the length is read before the mutex is taken (the consumer may pull the last segment in between and park: the push then signals nobody)"
				}
			}
			if bad == "" {
				r.ok(key, c.Pos(call.Pos()), FuncName(fn), what, "depends on len(queue) == 0 read before the append, under the lock")
			} else {
				r.fail(key, c.Pos(call.Pos()), FuncName(fn), what, bad+": a processor parked on an empty queue is not woken and the stream stalls")
			}
		})
	}
	r.Instances = n
	return r
}

func ruleK9(c *Ctx) *RuleResult {
	r := &RuleResult{Floor: 3, FloorWhat: "HTTP exchanges in client code"}
	n := 0
	for _, fn := range c.clientFuncs() {
		var do *ssa.Call
		allInstrs(fn, func(in ssa.Instruction) {
			if call, ok := in.(*ssa.Call); ok {
				if g := call.Call.StaticCallee(); g != nil && g.Name() == "Do" && g.Signature.Recv() != nil && typeIs(g.Signature.Recv().Type(), "net/http", "Client") {
					do = call
				}
			}
		})
		if do == nil {
			continue
		}
		n++
		key := FuncName(fn) + "|status-checked"
		what := "a body is handed out only after res.StatusCode was compared and found acceptable"
		// comparisons of StatusCode with constants
		var conds []*ssa.If
		for _, b := range fn.Blocks {
			if len(b.Instrs) == 0 {
				continue
			}
			iff, ok := b.Instrs[len(b.Instrs)-1].(*ssa.If)
			if !ok {
				continue
			}
			bo, ok := iff.Cond.(*ssa.BinOp)
			if !ok || (bo.Op != token.NEQ && bo.Op != token.EQL) {
				continue
			}
			if f, _ := loadedField(bo.X); f != nil && f.Name() == "StatusCode" {
				if _, isC := constInt(bo.Y); isC {
					conds = append(conds, iff)
				}
			}
		}
		if len(conds) == 0 {
			r.fail(key, c.Pos(do.Pos()), FuncName(fn), what, "res.StatusCode is never compared: a 404 page or a 500 body is parsed as a playlist / as media instead of surfacing as an error from Wait")
			continue
		}
		// success returns: the error result is nil; each must be unreachable when every "status differs" edge … is the only
		// way: cut the edges on which the status EQUALS an accepted constant (EQL true / NEQ false); with all of them cut, no
		// success return may be reachable from the Do call
		cut := map[edge]bool{}
		for _, iff := range conds {
			bo := iff.Cond.(*ssa.BinOp)
			idx := 0
			if bo.Op == token.NEQ {
				idx = 1
			}
			cut[edge{iff.Block().Index, iff.Block().Succs[idx].Index}] = true
		}
		reach := reachableBlocks(fn, do.Block().Index, cut, nil)
		bad := ""
		for _, b := range fn.Blocks {
			ret, ok := b.Instrs[len(b.Instrs)-1].(*ssa.Return)
			if !ok || !reach[b.Index] || b == fn.Recover || len(ret.Results) == 0 {
				continue
			}
			if k, isC := retVal(ret, len(ret.Results)-1).(*ssa.Const); isC && k.IsNil() {
				bad = c.Pos(posOf(ret))
			}
		}
		if bad == "" {
			r.ok(key, c.Pos(do.Pos()), FuncName(fn), what, fmt.Sprintf("%d status comparison(s) guard the success returns", len(conds)))
		} else {
			r.fail(key, c.Pos(do.Pos()), FuncName(fn), what, "the success return at "+bad+" is reachable although no accepted status was seen: any status is taken for success")
		}
	}
	r.Instances = n
	return r
}

func ruleG7k(c *Ctx) *RuleResult {
	r := &RuleResult{Floor: 1, FloorWhat: "arms for _HLS_part without _HLS_msn"}
	h := c.Method("", "muxerStream", "handleMediaPlaylist")
	if h == nil {
		r.undecided("handleMediaPlaylist not found")
		return r
	}
	present, _ := partPresenceConds(c, h)
	if len(present) == 0 {
		r.fail("handleMediaPlaylist|part-without-msn", c.Pos(h.Pos()), FuncName(h), "a request with _HLS_part but without _HLS_msn is refused with 400",
			"the handler never tests the raw _HLS_part value: such a request is served like an ordinary one")
		r.Instances = 1
		return r
	}
	n := 0
	for _, ci := range present {
		b := ci.If.Block()
		idx := 0
		if !ci.Pol {
			idx = 1
		}
		arm := b.Succs[idx]
		n++
		key := fmt.Sprintf("handleMediaPlaylist|part-without-msn#%d", n)
		what := "the arm taken when only _HLS_part is present writes 400 and returns"
		is400 := false
		for _, in := range arm.Instrs {
			if cc, ok := in.(ssa.CallInstruction); ok && cc.Common().IsInvoke() && cc.Common().Method.Name() == "WriteHeader" {
				if k, ok := constInt(cc.Common().Args[0]); ok && k == 400 {
					is400 = true
				}
			}
		}
		_, isRet := arm.Instrs[len(arm.Instrs)-1].(*ssa.Return)
		if is400 && isRet {
			r.ok(key, c.Pos(posOf(ci.If)), FuncName(h), what, "WriteHeader(400); return")
		} else {
			r.fail(key, c.Pos(posOf(ci.If)), FuncName(h), what, "the arm does not end in WriteHeader(400) and a return: _HLS_part without _HLS_msn is answered with a playlist")
		}
	}
	r.Instances = n
	return r
}

func ruleG9b(c *Ctx) *RuleResult {
	r := &RuleResult{Floor: 1, FloorWhat: "skip counts"}
	skF := c.Field("pkg/playlist", "MediaSkip", "SkippedSegments")
	segF := c.Field("", "muxerStream", "segments")
	if skF == nil || segF == nil {
		r.undecided("playlist.MediaSkip.SkippedSegments / muxerStream.segments not found")
		return r
	}
	n := 0
	for _, fn := range c.Funcs {
		if !InRootPkg(fn) {
			continue
		}
		allInstrs(fn, func(in ssa.Instruction) {
			st, ok := in.(*ssa.Store)
			if !ok {
				return
			}
			if f, _ := fieldOfAddr(st.Addr); f != skF {
				return
			}
			n++
			key := fmt.Sprintf("%s|skipped#%d", FuncName(fn), n)
			what := "SKIPPED-SEGMENTS is the number of leading entries the segment loop leaves out"
			val := stripConv(st.Val)
			// the loop guard: range index over s.segments compared with a value that the stored one flows into (phi)
			okGuard := false
			for _, b := range fn.Blocks {
				if len(b.Instrs) == 0 {
					continue
				}
				iff, ok := b.Instrs[len(b.Instrs)-1].(*ssa.If)
				if !ok {
					continue
				}
				bo, ok := iff.Cond.(*ssa.BinOp)
				if !ok || bo.Op != token.LSS {
					continue
				}
				if isR, over := rangeIndexOver(bo.X); !isR {
					continue
				} else if f, _ := loadedField(over); f != segF {
					continue
				}
				// bo.Y is `skipped`: the stored value itself or a phi one edge of which it is
				y := stripConv(bo.Y)
				if y == val {
					okGuard = true
				}
				if phi, ok := y.(*ssa.Phi); ok {
					for _, e := range phi.Edges {
						if stripConv(e) == val {
							okGuard = true
						}
					}
				}
			}
			// or: the loop over s.segments starts at the stored value (`for i := skipped; i < len(s.segments); i++`)
			if !okGuard {
				allInstrs(fn, func(x ssa.Instruction) {
					ia, ok := x.(*ssa.IndexAddr)
					if !ok {
						return
					}
					if f, _ := loadedField(ia.X); f != segF {
						return
					}
					phi, ok := ia.Index.(*ssa.Phi)
					if !ok {
						return
					}
					isCounter := false
					for _, e := range phi.Edges {
						if add, ok := e.(*ssa.BinOp); ok && add.Op == token.ADD && add.X == ssa.Value(phi) {
							if one, isC := constInt(add.Y); isC && one == 1 {
								isCounter = true
							}
						}
					}
					if !isCounter {
						return
					}
					for _, e := range phi.Edges {
						y := stripConv(e)
						if y == val {
							okGuard = true
						}
						if p2, ok := y.(*ssa.Phi); ok {
							for _, e2 := range p2.Edges {
								if stripConv(e2) == val {
									okGuard = true
								}
							}
						}
					}
				})
			}
			if okGuard {
				r.ok(key, c.Pos(st.Pos()), FuncName(fn), what, "the stored value bounds the loop")
			} else {
				r.fail(key, c.Pos(st.Pos()), FuncName(fn), what,
					"the stored value ("+describeVal(val)+") is not the one the loop over s.segments compares its index with: the delta update announces another number of skipped segments than it leaves out, and the client mis-numbers every segment that follows")
			}
		})
	}
	r.Instances = n
	return r
}

func ruleV1e(c *Ctx) *RuleResult {
	r := &RuleResult{Floor: 1, FloorWhat: "map updates in the playlist packages"}
	n := 0
	for _, fn := range c.Funcs {
		if !inPlaylistPkgs(fn) {
			continue
		}
		k := 0
		allInstrs(fn, func(in ssa.Instruction) {
			mu, ok := in.(*ssa.MapUpdate)
			if !ok {
				return
			}
			n++
			k++
			key := fmt.Sprintf("%s|map-update#%d", FuncName(fn), k)
			what := "the map written to was made on every path to the write"
			m := mu.Map
			okMake := false
			desc := ""
			switch x := m.(type) {
			case *ssa.MakeMap:
				okMake = true
				desc = "made locally"
			case *ssa.UnOp:
				// *p where p (a pointer receiver / cell) was assigned a MakeMap that dominates the update
				allInstrs(fn, func(y ssa.Instruction) {
					if st, ok := y.(*ssa.Store); ok && st.Addr == x.X {
						if _, isMk := stripConv(st.Val).(*ssa.MakeMap); isMk && instrDominates(st, mu) {
							okMake = true
							desc = "make stored through the same pointer, dominating the update"
						}
						if ct, ok := st.Val.(*ssa.ChangeType); ok {
							if _, isMk := ct.X.(*ssa.MakeMap); isMk && instrDominates(st, mu) {
								okMake = true
								desc = "make stored through the same pointer, dominating the update"
							}
						}
					}
				})
			case *ssa.Parameter:
				okMake = true
				desc = "a parameter (the caller's map)"
			}
			if okMake {
				r.ok(key, c.Pos(mu.Pos()), FuncName(fn), what, desc)
			} else {
				r.fail(key, c.Pos(mu.Pos()), FuncName(fn), what, "no make of the map dominates the update: the first attribute of a tag is written into a nil map and the decoder panics")
			}
		})
	}
	r.Instances = n
	return r
}

func ruleF37(c *Ctx) *RuleResult {
	r := &RuleResult{Floor: 1, FloorWhat: "stores of the last absolute time"}
	fn := c.Method("", "clientTrack", "handleData")
	latF := c.Field("", "clientTrack", "lastAbsoluteTime")
	if fn == nil || latF == nil {
		r.undecided("clientTrack.handleData / lastAbsoluteTime not found")
		return r
	}
	n := 0
	var store *ssa.Store
	allInstrs(fn, func(in ssa.Instruction) {
		if st, ok := in.(*ssa.Store); ok {
			if f, _ := fieldOfAddr(st.Addr); f == latF {
				store = st
			}
		}
	})
	// the callback call: a call through a function-typed field of the track
	var cb ssa.Instruction
	allInstrs(fn, func(in ssa.Instruction) {
		if call, ok := in.(*ssa.Call); ok && call.Call.StaticCallee() == nil && !call.Call.IsInvoke() {
			if f, _ := loadedField(call.Call.Value); f != nil && c.fieldOwner(f) == "clientTrack" {
				cb = call
			}
		}
	})
	n++
	key := "clientTrack.handleData|absolute-time-before-callback"
	what := "lastAbsoluteTime is stored from the ntp parameter before the data callback is called"
	switch {
	case store == nil || cb == nil:
		r.undecided("F37: store of lastAbsoluteTime or the callback call not found in handleData (the construct this rule is anchored on was not found: no verdict)")
	case !instrDominates(store, cb):
		r.fail(key, c.Pos(store.Pos()), FuncName(fn), what, "the store does not dominate the callback: AbsoluteTime() called from inside the callback returns the previous unit's time")
	default:
		isParam := false
		for _, p := range fn.Params[1:] {
			if stripConv(store.Val) == ssa.Value(p) {
				isParam = true
			}
		}
		if isParam {
			r.ok(key, c.Pos(store.Pos()), FuncName(fn), what, "store dominates the callback")
		} else {
			r.fail(key, c.Pos(store.Pos()), FuncName(fn), what, "the value stored is "+describeVal(store.Val)+", not the ntp parameter of this call")
		}
	}
	r.Instances = n
	return r
}

func ruleK10(c *Ctx) *RuleResult {
	r := &RuleResult{Floor: 1, FloorWhat: "pacing waits"}
	fn := c.Method("", "clientTrack", "handleData")
	if fn == nil {
		r.undecided("clientTrack.handleData not found")
		return r
	}
	var maxK int64 = -1
	if pkg := c.SSA[modPath]; pkg != nil {
		if k, ok := pkg.Members["clientMaxDTSRTCDiff"].(*ssa.NamedConst); ok {
			if v, ok := constInt(k.Value); ok {
				maxK = v
			}
		}
	}
	if maxK <= 0 {
		r.undecided("constant clientMaxDTSRTCDiff not found or not positive")
		return r
	}
	n := 0
	allInstrs(fn, func(in ssa.Instruction) {
		call, ok := in.(*ssa.Call)
		if !ok || !isFuncNamed(call.Call.StaticCallee(), "time", "After") {
			return
		}
		n++
		key := fmt.Sprintf("clientTrack.handleData|pacing-cap#%d", n)
		what := "the wait is entered only if the duration is not greater than clientMaxDTSRTCDiff"
		d := call.Call.Args[0]
		var conds []condIf
		for _, b := range fn.Blocks {
			if len(b.Instrs) == 0 {
				continue
			}
			iff, ok := b.Instrs[len(b.Instrs)-1].(*ssa.If)
			if !ok {
				continue
			}
			bo, ok := iff.Cond.(*ssa.BinOp)
			if !ok || bo.Op != token.GTR {
				continue
			}
			if k, isC := constInt(bo.Y); isC && k == maxK && bo.X == d {
				conds = append(conds, condIf{If: iff, Pol: true})
			}
		}
		if len(conds) > 0 && onlyIf(fn, call, conds, false) {
			// the other outcome returns an error
			okErr := true
			for _, ci := range conds {
				t := ci.If.Block().Succs[0]
				ret, isRet := t.Instrs[len(t.Instrs)-1].(*ssa.Return)
				if !isRet || len(ret.Results) == 0 {
					okErr = false
					continue
				}
				if k, isC := retVal(ret, len(ret.Results)-1).(*ssa.Const); isC && k.IsNil() {
					okErr = false
				}
			}
			if okErr {
				r.ok(key, c.Pos(call.Pos()), FuncName(fn), what, "capped; the excess returns an error")
			} else {
				r.fail(key, c.Pos(call.Pos()), FuncName(fn), what, "the branch taken when the cap is exceeded does not return an error")
			}
		} else {
			r.fail(key, c.Pos(call.Pos()), FuncName(fn), what,
				"the wait is reachable without the comparison of that very duration with clientMaxDTSRTCDiff: a timestamp chosen by the server parks the track — and through the join its whole stream — for an arbitrary time")
		}
	})
	r.Instances = n
	return r
}

func ruleF7j(c *Ctx) *RuleResult {
	r := &RuleResult{Floor: 1, FloorWhat: "URL resolutions"}
	fn := c.Func("", "clientAbsoluteURL")
	if fn == nil {
		r.undecided("clientAbsoluteURL not found")
		return r
	}
	n := 0
	allInstrs(fn, func(in ssa.Instruction) {
		call, ok := in.(*ssa.Call)
		if !ok {
			return
		}
		g := call.Call.StaticCallee()
		if g == nil || g.Name() != "ResolveReference" {
			return
		}
		n++
		key := fmt.Sprintf("clientAbsoluteURL|direction#%d", n)
		what := "base.ResolveReference(parsed relative)"
		recvIsBase := false
		for _, p := range fn.Params {
			if call.Call.Args[0] == ssa.Value(p) {
				recvIsBase = true
			}
		}
		argParsed := false
		if ex, ok := call.Call.Args[1].(*ssa.Extract); ok {
			if pc, ok := ex.Tuple.(*ssa.Call); ok && isFuncNamed(pc.Call.StaticCallee(), "net/url", "Parse") {
				argParsed = true
			}
		}
		if recvIsBase && argParsed {
			r.ok(key, c.Pos(call.Pos()), FuncName(fn), what, "resolved against the base parameter")
		} else {
			r.fail(key, c.Pos(call.Pos()), FuncName(fn), what, "the receiver is not the base parameter or the argument is not the parsed relative reference: every relative URI resolves to the playlist URL itself")
		}
	})
	r.Instances = n
	return r
}

func ruleK4b(c *Ctx) *RuleResult {
	r := &RuleResult{Floor: 1, FloorWhat: "Client.Close"}
	fn := c.Method("", "Client", "Close")
	if fn == nil {
		r.undecided("(*Client).Close not found")
		return r
	}
	bad := ""
	allInstrs(fn, func(in ssa.Instruction) {
		switch x := in.(type) {
		case *ssa.Send, *ssa.Select, *ssa.Go, *ssa.Defer:
			bad = "a " + strings.TrimPrefix(fmt.Sprintf("%T", x), "*ssa.") + " instruction"
		case *ssa.UnOp:
			if x.Op == token.ARROW {
				bad = "a channel receive"
			}
		case *ssa.Call:
			if b, ok := x.Call.Value.(*ssa.Builtin); ok && b.Name() == "close" {
				bad = "close() of a channel"
			}
			switch classifySync(&x.Call) {
			case opLock, opRLock, opWait:
				bad = "a lock / wait"
			}
			if g := x.Call.StaticCallee(); g != nil && g.Name() == "Wait" {
				bad = "a join"
			}
		}
	})
	key := "Client.Close|only-cancels"
	what := "Close contains no channel operation, lock or join"
	if bad == "" {
		r.ok(key, c.Pos(fn.Pos()), FuncName(fn), what, "calls of the cancel function only")
	} else {
		r.fail(key, c.Pos(fn.Pos()), FuncName(fn), what, "Close contains "+bad+": it can block, or consume the single result that Wait hands out, so a second Close (or Wait) hangs")
	}
	r.Instances = 1
	return r
}
