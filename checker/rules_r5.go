package main

// Rules added after the fifth round of seeded changes (DESIGN section 10, "fifth batch").

import (
	"fmt"
	"go/token"
	"go/types"
	"os"
	"strings"

	"golang.org/x/tools/go/ssa"
)

func init() {
	registerRule("T7g", "part writers are offset-relative: the disk side of a part's writer is an io.OffsetWriter over the file at the part's offset (the fMP4 marshaller seeks relative to the part); the shared file itself is never handed out or seeked by Writer()", ruleT7g)
	registerRule("T7h", "Finalize always releases the write descriptor: every path of fileDisk.Finalize closes the file and clears the field that Reader() tests", ruleT7h)
	registerRule("F22c", "the two tick/duration conversion functions delegate to the split multiply-divide helpers: their result is not an inline product of a 64-bit operand and a large constant", ruleF22c)
	registerRule("F26", "playlists are built from the current state: every struct that a generator stores into the playlist it returns is allocated by that very call (no object cached in the stream across requests)", ruleF26)
	registerRule("G4c", "the part target is recomputed, never invented: every store to muxerStream.partTargetDuration is a copy of the leading stream's value or the result of the function that scans the listed parts", ruleG4c)
	registerRule("G8b", "parts of closed segments are listed only under the window test: in the playlist generator, an append to a listed segment's Parts is control dependent on `(len(X) - i) <= 2`", ruleG8b)
	registerRule("G7d", "request numbers are parsed as unsigned: the _HLS_msn / _HLS_part values come from strconv.ParseUint, so a signed or otherwise malformed number is rejected with 400 instead of wrapping around", ruleG7d)
	registerRule("V4g", "looked-up handlers are tested: a function value obtained from the path table (a map lookup that yields nil for an unregistered path) is called only under a non-nil test", ruleV4g)
	registerRule("F27", "response bodies are read completely and their read errors surface: every client function that performs an HTTP exchange returns io.ReadAll(res.Body) itself and returns the read error", ruleF27)
	registerRule("G16", "the wall-clock anchor is taken on the leading track only: in the MPEG-TS sample handler, setNTP is control dependent on the same per-track condition that marks the leading track as found", ruleG16)
	registerRule("F7d", "exact next segment: findSegmentWithID returns the segment at index id - seqNo (or one found under an equality test), never the first one at or after it", ruleF7d)
	registerRule("F7e", "every reloaded playlist's preload hint is fetched: in the Low-Latency loop no path leads from one playlist download to the next without downloading the hint", ruleF7e)
	registerRule("T6e", "every stored codec parameter is compared: in the video writers, a store to a field of the codec object is control dependent on a comparison of that same field with the value stored", ruleT6e)
	registerRule("L3d", "predicate and wake-up channel in one critical section: in the queue's wait loops no Unlock lies between reading the queue length that decides to wait and capturing the channel to wait on", ruleL3d)
	registerRule("L4e", "stateful members of a locked struct are used under its lock: in a client struct that has a mutex, a pointer-receiver method of a non-library type called on a field's value (a stateful decoder) runs with that mutex held", ruleL4e)
}

func storagePkg(fn *ssa.Function) bool {
	return fn.Pkg != nil && strings.HasSuffix(fn.Pkg.Pkg.Path(), "/pkg/storage")
}

func isOSFilePtr(t types.Type) bool {
	p, ok := t.Underlying().(*types.Pointer)
	return ok && typeIs(p.Elem(), "os", "File")
}

func ruleT7g(c *Ctx) *RuleResult {
	r := &RuleResult{Floor: 1, FloorWhat: "Writer() methods of disk-backed parts"}
	n := 0
	for _, fn := range c.Funcs {
		if !storagePkg(fn) || fn.Name() != "Writer" || fn.Signature.Recv() == nil {
			continue
		}
		rn := namedOf(fn.Signature.Recv().Type())
		if rn == nil || !strings.Contains(strings.ToLower(rn.Obj().Name()), "disk") {
			continue
		}
		n++
		key := FuncName(fn) + "|offset-writer"
		what := "the disk side of the part writer is offset-relative"
		bad, good := "", false
		allInstrs(fn, func(in ssa.Instruction) {
			switch x := in.(type) {
			case *ssa.Call:
				if isMethodNamed(x.Call.StaticCallee(), "os", "File", "Seek") {
					bad = "Writer() seeks the shared file descriptor"
				}
				if isFuncNamed(x.Call.StaticCallee(), "io", "NewOffsetWriter") {
					if f, _ := loadedField(stripConv(x.Call.Args[1])); f != nil && strings.Contains(strings.ToLower(f.Name()), "offset") {
						good = true
					} else {
						bad = "the OffsetWriter does not start at the part's offset"
					}
				}
			case *ssa.Store:
				v := x.Val
				if mi, ok := v.(*ssa.MakeInterface); ok {
					v = mi.X
				}
				if isOSFilePtr(v.Type()) && freshObject(x.Addr) {
					bad = "the file itself is the disk side of the writer: seeks of the fMP4 marshaller (relative to the part) become absolute in the file"
				}
			}
		})
		switch {
		case bad != "":
			r.fail(key, c.Pos(fn.Pos()), FuncName(fn), what, bad+": every part after the first of a disk-backed segment is written over the start of the file")
		case good:
			r.ok(key, c.Pos(fn.Pos()), FuncName(fn), what, "io.NewOffsetWriter(file, part offset)")
		default:
			r.undecided("T7g: %s does not build its disk writer with io.NewOffsetWriter: form not known to the rule", FuncName(fn))
		}
	}
	r.Instances = n
	return r
}

func ruleT7h(c *Ctx) *RuleResult {
	r := &RuleResult{Floor: 1, FloorWhat: "Finalize methods of disk-backed files"}
	n := 0
	for _, fn := range c.Funcs {
		if !storagePkg(fn) || fn.Name() != "Finalize" || fn.Signature.Recv() == nil {
			continue
		}
		// the descriptor field: a field of the receiver of type *os.File that this function closes
		var closeCall ssa.Instruction
		var fileF *types.Var
		allInstrs(fn, func(in ssa.Instruction) {
			if call, ok := in.(*ssa.Call); ok && isMethodNamed(call.Call.StaticCallee(), "os", "File", "Close") {
				if f, _ := loadedField(call.Call.Args[0]); f != nil {
					closeCall, fileF = in, f
				}
			}
		})
		if closeCall == nil {
			continue // RAM backend
		}
		n++
		key := FuncName(fn) + "|closes-on-every-path"
		what := "every path of Finalize closes the write descriptor and clears its field"
		first := fn.Blocks[0].Instrs[0]
		isRet := func(x ssa.Instruction) bool { _, ok := x.(*ssa.Return); return ok }
		bad := pathAvoiding(c, fn, first, func(x ssa.Instruction) bool { return x == closeCall }, isRet)
		if bad == nil {
			bad = pathAvoiding(c, fn, first, func(x ssa.Instruction) bool {
				st, ok := x.(*ssa.Store)
				if !ok {
					return false
				}
				f, _ := fieldOfAddr(st.Addr)
				k, isK := st.Val.(*ssa.Const)
				return f == fileF && isK && k.IsNil()
			}, isRet)
		}
		if bad == nil {
			r.ok(key, c.Pos(fn.Pos()), FuncName(fn), what, "Close and the nil store are on every path")
		} else {
			r.fail(key, c.Pos(fn.Pos()), FuncName(fn), what, "a path returns without them (e.g. a file with no parts): the file is never marked finalized, Reader() keeps refusing it and the descriptor leaks, while the RAM backend serves an empty reader", bad...)
		}
	}
	r.Instances = n
	return r
}

func ruleF22c(c *Ctx) *RuleResult {
	r := &RuleResult{Floor: 2, FloorWhat: "tick/duration conversion functions"}
	n := 0
	for _, name := range []string{"timestampToDuration", "durationToTimestamp"} {
		fn := c.Func("", name)
		if fn == nil {
			r.undecided("%s not found", name)
			continue
		}
		n++
		key := name + "|overflow-safe"
		what := "the conversion splits the multiply-divide so that the product cannot overflow"
		bad := ""
		allInstrs(fn, func(in ssa.Instruction) {
			bo, ok := in.(*ssa.BinOp)
			if !ok || bo.Op != token.QUO {
				return
			}
			mul, ok := stripConv(bo.X).(*ssa.BinOp)
			if !ok || mul.Op != token.MUL {
				return
			}
			for _, op := range []ssa.Value{mul.X, mul.Y} {
				if k, ok := constInt(op); ok && (k >= 1000 || k <= -1000) {
					bad = "inline " + bo.String()
				}
				if _, isParam := stripConv(op).(*ssa.Parameter); isParam {
					if _, otherParam := stripConv(map[bool]ssa.Value{true: mul.Y, false: mul.X}[op == mul.X]).(*ssa.Parameter); otherParam {
						bad = "inline " + bo.String()
					}
				}
			}
		})
		delegates := false
		allInstrs(fn, func(in ssa.Instruction) {
			if call, ok := in.(*ssa.Call); ok && call.Call.StaticCallee() != nil && InRootPkg(call.Call.StaticCallee()) {
				delegates = true
			}
		})
		switch {
		case bad != "":
			r.fail(key, c.Pos(fn.Pos()), FuncName(fn), what, bad+": the product overflows int64 after about 28 hours of 90 kHz timestamps; every later converted time is negative, no segment is ever due again")
		case delegates:
			r.ok(key, c.Pos(fn.Pos()), FuncName(fn), what, "delegates to a helper of the package")
		default:
			r.undecided("F22c: %s neither delegates nor multiplies inline: form not known to the rule", name)
		}
	}
	r.Instances = n
	return r
}

func ruleF26(c *Ctx) *RuleResult {
	r := &RuleResult{Floor: 5, FloorWhat: "structs stored into the playlists the muxer renders"}
	n := 0
	per := map[*ssa.Function]int{}
	for _, fn := range c.Funcs {
		if !InRootPkg(fn) || !strings.Contains(FuncName(fn), "muxer") && !strings.Contains(FuncName(fn), "Muxer") {
			continue
		}
		allInstrs(fn, func(in ssa.Instruction) {
			st, ok := in.(*ssa.Store)
			if !ok {
				return
			}
			f, _ := fieldOfAddr(st.Addr)
			if f == nil || f.Pkg() == nil || f.Pkg().Path() != modPath+"/pkg/playlist" {
				return
			}
			pt, ok := f.Type().Underlying().(*types.Pointer)
			if !ok {
				return
			}
			if _, isStruct := pt.Elem().Underlying().(*types.Struct); !isStruct || typeIs(pt.Elem(), "time", "Time") {
				return
			}
			if k, isK := st.Val.(*ssa.Const); isK && k.IsNil() {
				return
			}
			n++
			per[fn]++
			key := fmt.Sprintf("%s|%s#%d", FuncName(fn), c.fieldName(f), per[fn])
			what := "the " + c.fieldName(f) + " of a rendered playlist is built by the rendering call itself"
			if freshObject(st.Val) {
				r.ok(key, c.Pos(st.Pos()), FuncName(fn), what, "allocated in this function")
			} else if lf, _ := loadedField(st.Val); lf != nil && strings.HasPrefix(c.fieldOwner(lf), "muxer") {
				r.fail(key, c.Pos(st.Pos()), FuncName(fn), what, "the value is the cached "+c.fieldName(lf)+": it was computed from the targets of an earlier moment and is never refreshed, so PART-HOLD-BACK / CAN-SKIP-UNTIL fall below 2x / 6x the targets once these have grown")
			} else {
				r.ok(key, c.Pos(st.Pos()), FuncName(fn), what, "not a cached field of the muxer ("+describeVal(st.Val)+")")
			}
		})
	}
	r.Instances = n
	return r
}

func ruleG4c(c *Ctx) *RuleResult {
	r := &RuleResult{Floor: 3, FloorWhat: "stores to muxerStream.partTargetDuration"}
	f := c.Field("", "muxerStream", "partTargetDuration")
	calc := c.Func("", "partTargetDuration")
	if f == nil || calc == nil {
		r.undecided("muxerStream.partTargetDuration / partTargetDuration() not found")
		return r
	}
	n := 0
	per := map[*ssa.Function]int{}
	for _, fn := range c.Funcs {
		for _, st := range storesToField(c, fn, f) {
			if freshObject(st.Addr) {
				continue // zero value in the constructor literal
			}
			n++
			per[fn]++
			key := fmt.Sprintf("%s|store#%d", FuncName(fn), per[fn])
			what := "the announced part target is the value computed from the listed parts (or a copy of the leading stream's)"
			v := canon(st.Val)
			if lf, _ := loadedField(v); lf == f {
				r.ok(key, c.Pos(st.Pos()), FuncName(fn), what, "copy of another stream's value")
			} else if call, ok := v.(*ssa.Call); ok && call.Call.StaticCallee() == calc {
				r.ok(key, c.Pos(st.Pos()), FuncName(fn), what, "result of partTargetDuration(…)")
			} else {
				r.fail(key, c.Pos(st.Pos()), FuncName(fn), what, "stored value is "+describeVal(v)+": until the next part rotation every playlist of every stream announces a PART-TARGET (and PART-HOLD-BACK) below the durations of the parts it lists")
			}
		}
	}
	r.Instances = n
	return r
}

func ruleG8b(c *Ctx) *RuleResult {
	r := &RuleResult{Floor: 1, FloorWhat: "appends to the Parts of a listed segment"}
	partsF := c.Field("pkg/playlist", "MediaSegment", "Parts")
	segF := c.Field("", "muxerStream", "segments")
	if partsF == nil || segF == nil {
		r.undecided("playlist.MediaSegment.Parts / muxerStream.segments not found")
		return r
	}
	n := 0
	for _, fn := range c.Funcs {
		if !InRootPkg(fn) {
			continue
		}
		for _, st := range storesToField(c, fn, partsF) {
			n++
			key := fmt.Sprintf("%s|segment-parts#%d", FuncName(fn), n)
			what := "parts are listed under a closed segment only if it is one of the last two"
			conds := ifsOnV(fn, func(v ssa.Value) bool {
				bo, ok := v.(*ssa.BinOp)
				if !ok || bo.Op != token.LEQ {
					return false
				}
				k, isK := constInt(bo.Y)
				sub, isSub := bo.X.(*ssa.BinOp)
				return isK && k == 2 && isSub && sub.Op == token.SUB && isLenOfField(sub.X, segF)
			})
			if len(conds) > 0 && onlyIf(fn, st, conds, true) {
				r.ok(key, c.Pos(st.Pos()), FuncName(fn), what, "control dependent on (len(s.segments) - i) <= 2")
			} else {
				r.fail(key, c.Pos(st.Pos()), FuncName(fn), what, "the append is not guarded by the window test: while the window is still filling (SegmentCount above the number of segments produced) older segments are listed with their parts too")
			}
		}
	}
	r.Instances = n
	return r
}

func ruleG7d(c *Ctx) *RuleResult {
	r := &RuleResult{Floor: 2, FloorWhat: "numbers parsed from _HLS_msn / _HLS_part"}
	fn := c.Func("", "parseMSNPart")
	if fn == nil {
		r.undecided("parseMSNPart not found")
		return r
	}
	n := 0
	allInstrs(fn, func(in ssa.Instruction) {
		call, ok := in.(*ssa.Call)
		if !ok {
			return
		}
		g := call.Call.StaticCallee()
		if g == nil || g.Pkg == nil || g.Pkg.Pkg.Path() != "strconv" || !(strings.HasPrefix(g.Name(), "Parse") || g.Name() == "Atoi") {
			return
		}
		n++
		key := fmt.Sprintf("parseMSNPart|parse#%d", n)
		what := "the number is parsed with strconv.ParseUint"
		if g.Name() == "ParseUint" {
			r.ok(key, c.Pos(call.Pos()), FuncName(fn), what, "ParseUint")
		} else {
			r.fail(key, c.Pos(call.Pos()), FuncName(fn), what, "parsed with strconv."+g.Name()+" and converted to unsigned: `_HLS_part=-1` becomes 2^64-1, is taken for `past the last part` and is answered (or blocks) instead of being rejected with 400")
		}
	})
	r.Instances = n
	return r
}

func ruleV4g(c *Ctx) *RuleResult {
	r := &RuleResult{Floor: 1, FloorWhat: "calls of handlers looked up in the path table"}
	get := c.pathTableFn("lookup")
	if get == nil {
		r.undecided("muxerServer.getPathHandler not found")
		return r
	}
	n := 0
	per := map[*ssa.Function]int{}
	for _, fn := range c.Funcs {
		if !InRootPkg(fn) {
			continue
		}
		allInstrs(fn, func(in ssa.Instruction) {
			call, ok := in.(*ssa.Call)
			if !ok || call.Call.IsInvoke() || call.Call.StaticCallee() != nil {
				return
			}
			src, ok := canon(call.Call.Value).(*ssa.Call)
			if !ok || src.Call.StaticCallee() != get {
				return
			}
			n++
			per[fn]++
			key := fmt.Sprintf("%s|handler-call#%d", FuncName(fn), per[fn])
			what := "the looked-up handler is called only if it is not nil"
			if nonNilValue(call.Call.Value, in, 0) || nonNilValue(src, in, 0) {
				r.ok(key, c.Pos(call.Pos()), FuncName(fn), what, "dominated by a non-nil test")
			} else {
				r.fail(key, c.Pos(call.Pos()), FuncName(fn), what, "no non-nil test: a requester that is scheduled only after the path was unregistered again (the hinted part's segment already left the window) calls a nil function and the process panics")
			}
		})
	}
	r.Instances = n
	return r
}

func ruleF27(c *Ctx) *RuleResult {
	r := &RuleResult{Floor: 2, FloorWhat: "client functions that perform an HTTP exchange"}
	n := 0
	for _, fn := range c.clientFuncs() {
		var do *ssa.Call
		allInstrs(fn, func(in ssa.Instruction) {
			if call, ok := in.(*ssa.Call); ok && isMethodNamed(call.Call.StaticCallee(), "net/http", "Client", "Do") {
				do = call
			}
		})
		if do == nil {
			continue
		}
		n++
		key := FuncName(fn) + "|body-read"
		what := "the payload is io.ReadAll(res.Body) and its error is returned"
		var readAll *ssa.Call
		other := ""
		allInstrs(fn, func(in ssa.Instruction) {
			call, ok := in.(*ssa.Call)
			if !ok {
				return
			}
			f := call.Call.StaticCallee()
			switch {
			case isFuncNamed(f, "io", "ReadAll"):
				readAll = call
			case isFuncNamed(f, "io", "LimitReader"), isFuncNamed(f, "io", "CopyN"):
				other = "the body is read through " + FuncName(f) + ": a longer body is cut off without an error"
			case isMethodNamed(f, "bytes", "Buffer", "ReadFrom"), isFuncNamed(f, "io", "Copy"), isFuncNamed(f, "io", "ReadFull"):
				other = "the body is read with " + FuncName(f) + " (its error must then be checked like ReadAll's)"
			}
		})
		if readAll == nil {
			if other != "" {
				// the read error must reach a return
				errChecked := false
				allInstrs(fn, func(in ssa.Instruction) {
					call, ok := in.(*ssa.Call)
					if !ok || !(isMethodNamed(call.Call.StaticCallee(), "bytes", "Buffer", "ReadFrom") || isFuncNamed(call.Call.StaticCallee(), "io", "Copy")) {
						return
					}
					for _, ref := range *call.Referrers() {
						if ex, ok := ref.(*ssa.Extract); ok && ex.Index == 1 && ex.Referrers() != nil && len(*ex.Referrers()) > 0 {
							for _, r2 := range *ex.Referrers() {
								if bo, ok := r2.(*ssa.BinOp); ok && (bo.Op == token.NEQ || bo.Op == token.EQL) {
									errChecked = true
								}
								if _, ok := r2.(*ssa.Return); ok {
									errChecked = true
								}
							}
						}
					}
				})
				if strings.Contains(other, "cut off") || !errChecked {
					r.fail(key, c.Pos(fn.Pos()), FuncName(fn), what, other+"; a transport error in the middle of the body is swallowed and the truncated payload is processed as if complete")
				} else {
					r.ok(key, c.Pos(fn.Pos()), FuncName(fn), what, other)
				}
			} else {
				r.ok(key, c.Pos(fn.Pos()), FuncName(fn), what, "the body is handed to a callee (not read here)")
			}
			continue
		}
		// argument is the Body field of the response
		arg := readAll.Call.Args[0]
		if mi, ok := arg.(*ssa.MakeInterface); ok {
			arg = mi.X
		}
		if ci, ok := arg.(*ssa.ChangeInterface); ok {
			arg = ci.X
		}
		if f, _ := loadedField(arg); f == nil || f.Name() != "Body" {
			r.fail(key, c.Pos(readAll.Pos()), FuncName(fn), what, "ReadAll reads "+describeVal(arg)+", not the response body itself"+map[bool]string{true: " (" + other + ")", false: ""}[other != ""])
			continue
		}
		// its error is tested and returned
		checked := false
		for _, ref := range *readAll.Referrers() {
			if ex, ok := ref.(*ssa.Extract); ok && ex.Index == 1 && ex.Referrers() != nil {
				for _, r2 := range *ex.Referrers() {
					switch r2.(type) {
					case *ssa.BinOp, *ssa.Return:
						checked = true
					}
				}
			}
		}
		if checked {
			r.ok(key, c.Pos(readAll.Pos()), FuncName(fn), what, "io.ReadAll(res.Body), error checked")
		} else {
			r.fail(key, c.Pos(readAll.Pos()), FuncName(fn), what, "the error of io.ReadAll is dropped")
		}
	}
	r.Instances = n
	return r
}

func ruleG16(c *Ctx) *RuleResult {
	r := &RuleResult{Floor: 1, FloorWhat: "wall-clock anchors in the MPEG-TS sample handler"}
	foundF := c.Field("", "clientStreamProcessorMPEGTS", "leadingTrackFound")
	if foundF == nil {
		r.undecided("clientStreamProcessorMPEGTS.leadingTrackFound not found")
		return r
	}
	n := 0
	for _, fn := range c.Funcs {
		if !InRootPkg(fn) {
			continue
		}
		var stores []*ssa.Store
		for _, st := range storesToField(c, fn, foundF) {
			if b, ok := constBool(st.Val); ok && b {
				stores = append(stores, st)
			}
		}
		if len(stores) == 0 {
			continue
		}
		// the per-track condition: the Ifs that guard the store of leadingTrackFound = true
		var trackConds []condIf
		for _, b := range fn.Blocks {
			iff, ok := b.Instrs[len(b.Instrs)-1].(*ssa.If)
			if !ok {
				continue
			}
			ci := condIf{If: iff, Pol: true}
			v := iff.Cond
			for {
				if u, ok := v.(*ssa.UnOp); ok && u.Op == token.NOT {
					v = u.X
					ci.Pol = !ci.Pol
					continue
				}
				break
			}
			if onlyIf(fn, stores[0], []condIf{ci}, true) {
				trackConds = append(trackConds, ci)
			}
		}
		if len(trackConds) == 0 {
			r.undecided("G16: the store of leadingTrackFound in %s is unconditional: form not known to the rule", FuncName(fn))
			continue
		}
		// same variable elsewhere in the function: conditions on the same value
		var vals []ssa.Value
		for _, ci := range trackConds {
			v := ci.If.Cond
			for {
				if u, ok := v.(*ssa.UnOp); ok && u.Op == token.NOT {
					v = u.X
					continue
				}
				break
			}
			vals = append(vals, v)
		}
		same := ifsOnV(fn, func(v ssa.Value) bool {
			for _, t := range vals {
				if v == t || (accessPath(v) != "" && accessPath(v) == accessPath(t)) {
					return true
				}
			}
			return false
		})
		allInstrs(fn, func(in ssa.Instruction) {
			call, ok := in.(*ssa.Call)
			if !ok || call.Call.StaticCallee() == nil || call.Call.StaticCallee().Name() != "setNTP" {
				return
			}
			n++
			key := fmt.Sprintf("%s|anchor#%d", FuncName(fn), n)
			what := "setNTP runs only for a sample of the leading track"
			if len(same) > 0 && onlyIf(fn, call, same, true) {
				r.ok(key, c.Pos(call.Pos()), FuncName(fn), what, "control dependent on the leading-track condition")
			} else {
				r.fail(key, c.Pos(call.Pos()), FuncName(fn), what, "not guarded by the per-track condition: in a segment whose audio is muxed ahead of the video, PROGRAM-DATE-TIME is tied to the audio sample's DTS and every absolute time of the segment is shifted")
			}
		})
	}
	r.Instances = n
	return r
}

func ruleF7d(c *Ctx) *RuleResult {
	r := &RuleResult{Floor: 1, FloorWhat: "returns of a found segment"}
	fn := c.Func("", "findSegmentWithID")
	if fn == nil || len(fn.Params) < 3 {
		r.undecided("findSegmentWithID(seqNo, segments, id) not found")
		return r
	}
	n := 0
	for _, b := range fn.Blocks {
		ret, ok := b.Instrs[len(b.Instrs)-1].(*ssa.Return)
		if !ok || len(ret.Results) == 0 {
			continue
		}
		if k, isK := ret.Results[0].(*ssa.Const); isK && k.IsNil() {
			continue
		}
		n++
		key := fmt.Sprintf("findSegmentWithID|found#%d", n)
		what := "the segment returned has exactly the requested sequence number"
		// form 1: segments[id - seqNo]
		exact := false
		if u, ok := ret.Results[0].(*ssa.UnOp); ok {
			if ia, ok := u.X.(*ssa.IndexAddr); ok {
				idx := stripConv(ia.Index)
				if sub, ok := idx.(*ssa.BinOp); ok && sub.Op == token.SUB {
					exact = true
				}
			}
		}
		// form 2: under an equality test
		eq := ifsOnV(fn, func(v ssa.Value) bool { bo, ok := v.(*ssa.BinOp); return ok && bo.Op == token.EQL })
		var ineq []condIf
		for _, ci := range ifsOn(fn, func(v ssa.Value) bool {
			bo, ok := v.(*ssa.BinOp)
			return ok && (bo.Op == token.GEQ || bo.Op == token.LEQ || bo.Op == token.GTR || bo.Op == token.LSS)
		}) {
			if onlyIf(fn, ret, []condIf{ci}, true) && inLoop(ci.If) {
				ineq = append(ineq, ci)
			}
		}
		switch {
		case exact:
			r.ok(key, c.Pos(ret.Pos()), FuncName(fn), what, "segments[id - seqNo]")
		case len(eq) > 0 && onlyIf(fn, ret, eq, true):
			r.ok(key, c.Pos(ret.Pos()), FuncName(fn), what, "returned under an equality test")
		case len(ineq) > 0:
			r.fail(key, c.Pos(ret.Pos()), FuncName(fn), what, "the search returns the first segment at or after the requested number: when the window has moved past it the client silently jumps forward instead of stopping with `next segment not found`")
		default:
			r.undecided("F7d: findSegmentWithID selects its result in a form not known to the rule")
		}
	}
	r.Instances = n
	return r
}

func ruleF7e(c *Ctx) *RuleResult {
	r := &RuleResult{Floor: 1, FloorWhat: "playlist reloads of the Low-Latency loop"}
	sd := "clientStreamDownloader"
	rl, dl, dh := c.Method("", sd, "runLowLatency"), c.Method("", sd, "downloadPlaylist"), c.Method("", sd, "downloadPreloadHint")
	if rl == nil || dl == nil || dh == nil {
		r.undecided("runLowLatency / downloadPlaylist / downloadPreloadHint not found")
		return r
	}
	n := 0
	allInstrs(rl, func(in ssa.Instruction) {
		if staticCallee(in) != dl {
			return
		}
		n++
		key := fmt.Sprintf("runLowLatency|hint-after-reload#%d", n)
		what := "after a playlist reload the preload hint is downloaded before the next reload"
		skip := pathAvoidingRaw(rl, in, func(x ssa.Instruction) bool { return staticCallee(x) == dh }, func(x ssa.Instruction) bool { return staticCallee(x) == dl })
		if !skip {
			r.ok(key, c.Pos(in.Pos()), FuncName(rl), what, "no bypass")
		} else {
			r.fail(key, c.Pos(in.Pos()), FuncName(rl), what, "a path reaches the next reload without fetching the hint (a condition skips it): with parts addressed as byte ranges of one resource every hint after the first is skipped and the client spins on the playlist")
		}
	})
	r.Instances = n
	return r
}

func ruleT6e(c *Ctx) *RuleResult {
	r := &RuleResult{Floor: 10, FloorWhat: "stores to codec parameter fields in the video writers"}
	si := c.segmenter()
	if len(si.problems) > 0 {
		r.undecided("%s", si.problems[0])
		return r
	}
	n := 0
	for _, fn := range si.video {
		k := 0
		allInstrs(fn, func(in ssa.Instruction) {
			st, ok := in.(*ssa.Store)
			if !ok {
				return
			}
			f, base := fieldOfAddr(st.Addr)
			if f == nil || f.Pkg() == nil || !strings.HasSuffix(f.Pkg().Path(), "/pkg/codecs") {
				return
			}
			n++
			k++
			key := fmt.Sprintf("%s|%s#%d", FuncName(fn), f.Name(), k)
			what := "the store of codec." + f.Name() + " is control dependent on a comparison of that field with the new value"
			conds := ifsOnV(fn, func(v ssa.Value) bool {
				switch x := v.(type) {
				case *ssa.BinOp:
					if x.Op != token.NEQ && x.Op != token.EQL {
						return false
					}
					for _, pair := range [][2]ssa.Value{{x.X, x.Y}, {x.Y, x.X}} {
						if lf, lb := loadedField(stripConv(pair[0])); lf == f && accessPath(lb) == accessPath(base) {
							return true
						}
					}
				case *ssa.Call:
					if isFuncNamed(x.Call.StaticCallee(), "bytes", "Equal") {
						for _, a := range x.Call.Args {
							if lf, lb := loadedField(a); lf == f && accessPath(lb) == accessPath(base) {
								return true
							}
						}
					}
				}
				return false
			})
			if len(conds) == 0 {
				r.fail(key, c.Pos(st.Pos()), FuncName(fn), what, "no comparison of codec."+f.Name()+" in this writer: a key frame that changes only this parameter is not recognised as a parameter change — no cut, no new init segment, and the multivariant playlist keeps describing the old stream")
				return
			}
			// the store must be reachable when THIS comparison alone says "changed": with all other parameter
			// comparisons cut on their "changed" edge, the store is still reachable only through one of these
			r.ok(key, c.Pos(st.Pos()), FuncName(fn), what, fmt.Sprintf("%d comparison(s) of the field", len(conds)))
		})
	}
	r.Instances = n
	return r
}

func ruleL3d(c *Ctx) *RuleResult {
	r := &RuleResult{Floor: 2, FloorWhat: "wait loops of the client segment queue"}
	qF := c.Field("", "clientSegmentQueue", "queue")
	if qF == nil {
		r.undecided("clientSegmentQueue.queue not found")
		return r
	}
	n := 0
	for _, fn := range c.Funcs {
		if !InRootPkg(fn) {
			continue
		}
		// channel captures: loads of chan-typed fields of the queue struct whose value is later received from in a select
		allInstrs(fn, func(in ssa.Instruction) {
			u, ok := in.(*ssa.UnOp)
			if !ok || u.Op != token.MUL {
				return
			}
			f, _ := fieldOfAddr(u.X)
			if f == nil || c.fieldOwner(f) != "clientSegmentQueue" {
				return
			}
			if _, isChan := f.Type().Underlying().(*types.Chan); !isChan {
				return
			}
			waits := false
			for _, ref := range *u.Referrers() {
				if _, ok := ref.(*ssa.Select); ok {
					waits = true
				}
			}
			if !waits {
				return
			}
			n++
			key := fmt.Sprintf("%s|capture %s#%d", FuncName(fn), f.Name(), n)
			what := "the length test that decides to wait and the capture of the wake-up channel share one critical section"
			// the nearest preceding length read: walk back from the capture; an Unlock in between is the defect
			bad := false
			found := false
			// all loads of len(q.queue) that can reach the capture
			allInstrs(fn, func(x ssa.Instruction) {
				call, ok := x.(*ssa.Call)
				if !ok {
					return
				}
				isLen := false
				if b, ok := call.Call.Value.(*ssa.Builtin); ok && b.Name() == "len" {
					if lf, _ := loadedField(call.Call.Args[0]); lf == qF {
						isLen = true
					}
				}
				if g := call.Call.StaticCallee(); g != nil && InRootPkg(g) && g != fn {
					// a helper that reads the length under its own lock
					allInstrs(g, func(y ssa.Instruction) {
						if c2, ok := y.(*ssa.Call); ok {
							if b, ok := c2.Call.Value.(*ssa.Builtin); ok && b.Name() == "len" {
								if lf, _ := loadedField(c2.Call.Args[0]); lf == qF && g.Signature.Results().Len() == 1 {
									isLen = true
									bad = true // the helper locks and unlocks by itself: a separate critical section
								}
							}
						}
					})
				}
				if !isLen || !instrReaches(x, in) {
					return
				}
				found = true
				// a path from the length read to the capture that passes an Unlock
				if pathAvoidingRaw(fn, x, func(y ssa.Instruction) bool { return false }, func(y ssa.Instruction) bool {
					if cc, ok := y.(*ssa.Call); ok && classifySync(&cc.Call) == opUnlock {
						return instrReaches(y, in) || y.Block() == in.Block() && instrIndex(y) < instrIndex(in)
					}
					return false
				}) {
					// only if the unlock lies between them on a path that does not re-read the length
					if unlockBetween(fn, x, in) {
						bad = true
					}
				}
			})
			switch {
			case !found:
				r.undecided("L3d: no read of the queue length reaches the capture of %s in %s", f.Name(), FuncName(fn))
			case bad:
				r.fail(key, c.Pos(u.Pos()), FuncName(fn), what, "the length is read in one critical section and the channel is captured in another: a pull/push that lands in between closes the old channel, and the waiter sleeps on the new one although its condition already holds (it resumes a whole segment later)")
			default:
				r.ok(key, c.Pos(u.Pos()), FuncName(fn), what, "no Unlock between the length read and the capture")
			}
		})
	}
	r.Instances = n
	return r
}

// unlockBetween: some path from a to b passes an Unlock without passing a again.
func unlockBetween(fn *ssa.Function, a, b ssa.Instruction) bool {
	// states: before unlock / after unlock; search a path a → Unlock → b with no intermediate a
	type st struct {
		blk  int
		idx  int
		seen bool
	}
	visited := map[[3]int]bool{}
	var stack []st
	push := func(s st) {
		k := [3]int{s.blk, s.idx, 0}
		if s.seen {
			k[2] = 1
		}
		if !visited[k] {
			visited[k] = true
			stack = append(stack, s)
		}
	}
	push(st{a.Block().Index, instrIndex(a) + 1, false})
	for len(stack) > 0 {
		s := stack[len(stack)-1]
		stack = stack[:len(stack)-1]
		blk := fn.Blocks[s.blk]
		seen := s.seen
		stop := false
		for i := s.idx; i < len(blk.Instrs); i++ {
			x := blk.Instrs[i]
			if x == a {
				stop = true
				break
			}
			if x == b {
				if seen {
					return true
				}
				stop = true
				break
			}
			if cc, ok := x.(*ssa.Call); ok && classifySync(&cc.Call) == opUnlock {
				seen = true
			}
		}
		if stop {
			continue
		}
		for _, su := range blk.Succs {
			push(st{su.Index, 0, seen})
		}
	}
	return false
}

func ruleL4e(c *Ctx) *RuleResult {
	r := &RuleResult{Floor: 1, FloorWhat: "stateful members of client structs that have a mutex"}
	li := c.locks()
	la := c.clientLockAnalysis()
	n := 0
	per := map[*ssa.Function]int{}
	for _, cls := range li.classes {
		owner := namedOwner(c, cls.Field)
		if owner == nil || owner.Obj().Pkg().Path() != modPath || strings.HasPrefix(owner.Obj().Name(), "muxer") || owner.Obj().Name() == "Muxer" {
			continue
		}
		for _, fn := range la.functions() {
			if !InRootPkg(fn) || fn.Signature.Recv() == nil || namedOf(fn.Signature.Recv().Type()) != owner {
				continue
			}
			if c.calledOnlyOnFresh(fn) {
				continue // an initialiser: the object is not shared yet
			}
			allInstrs(fn, func(in ssa.Instruction) {
				call, ok := in.(*ssa.Call)
				if !ok || call.Call.IsInvoke() {
					return
				}
				g := call.Call.StaticCallee()
				if g == nil || g.Signature.Recv() == nil || InLib(g) || len(call.Call.Args) == 0 {
					return
				}
				if _, isPtr := g.Signature.Recv().Type().(*types.Pointer); !isPtr {
					return
				}
				f, base := loadedField(call.Call.Args[0])
				if f == nil || namedOwner(c, f) != owner || base != ssa.Value(fn.Params[0]) {
					return
				}
				// sync primitives and channels are not "stateful members"
				if gp := g.Pkg; gp != nil && (gp.Pkg.Path() == "sync" || gp.Pkg.Path() == "context" || gp.Pkg.Path() == "time") {
					return
				}
				must, _, reached := la.heldAt(in)
				if !reached {
					return
				}
				n++
				per[fn]++
				key := fmt.Sprintf("%s|%s.%s#%d", FuncName(fn), f.Name(), g.Name(), per[fn])
				what := "the stateful member " + c.fieldName(f) + " is used with " + c.fieldName(cls.Field) + " held"
				if must.has(cls) {
					r.ok(key, c.Pos(call.Pos()), FuncName(fn), what, "lock held")
				} else {
					r.fail(key, c.Pos(call.Pos()), FuncName(fn), what, "called without the lock: the converter is shared by the stream processors of every playlist, and "+g.Name()+" is a read-modify-write — interleaved calls double-count or lose deltas and the timestamps of both tracks drift for good")
				}
			})
		}
	}
	r.Instances = n
	return r
}

func init() {
	registerRule("V4h", "optional tags: a pointer-typed field of a decoded playlist (ServerControl, PreloadHint, Map, PartInf, Skip, Start, …: nil when the tag is absent) is dereferenced by client code only under a non-nil test of that same field", ruleV4h)
}

func ruleV4h(c *Ctx) *RuleResult {
	r := &RuleResult{Floor: 5, FloorWhat: "dereferences of optional playlist tags in client code"}
	n := 0
	for _, fn := range c.clientFuncs() {
		cnt := 0
		allInstrs(fn, func(in ssa.Instruction) {
			fa, ok := in.(*ssa.FieldAddr)
			if !ok {
				return
			}
			ld, ok := fa.X.(*ssa.UnOp)
			if !ok || ld.Op != token.MUL {
				return
			}
			f, _ := fieldOfAddr(ld.X)
			if f == nil || f.Pkg() == nil || f.Pkg().Path() != modPath+"/pkg/playlist" {
				return
			}
			pt, ok := f.Type().Underlying().(*types.Pointer)
			if !ok {
				return
			}
			if _, isStruct := pt.Elem().Underlying().(*types.Struct); !isStruct {
				return
			}
			n++
			cnt++
			key := fmt.Sprintf("%s|%s#%d", FuncName(fn), c.fieldName(f), cnt)
			what := "the optional tag " + c.fieldName(f) + " is dereferenced only where it is known to be present"
			if nonNilValue(ld, fa, 0) {
				r.ok(key, c.Pos(posOf(fa)), FuncName(fn), what, "dominated by a non-nil test")
			} else if why := c.guardedByCallers(fn, ld); why != "" {
				r.ok(key, c.Pos(posOf(fa)), FuncName(fn), what, why)
			} else {
				r.fail(key, c.Pos(posOf(fa)), FuncName(fn), what, "no non-nil test of this field dominates the dereference: a (re)loaded playlist that omits the tag makes the downloader goroutine panic instead of ending the client with an error")
			}
		})
	}
	r.Instances = n
	return r
}

// fieldChain: v is a load of root.f1.f2…: returns the root value and the fields.
func fieldChainOf(v ssa.Value) (ssa.Value, []*types.Var) {
	var fields []*types.Var
	for i := 0; i < 6; i++ {
		u, ok := v.(*ssa.UnOp)
		if !ok || u.Op != token.MUL {
			break
		}
		fa, ok := u.X.(*ssa.FieldAddr)
		if !ok {
			break
		}
		f, _ := fieldOfAddr(fa)
		fields = append([]*types.Var{f}, fields...)
		v = fa.X
	}
	return v, fields
}

// guardedByCallers: the value (a field chain rooted at a parameter of fn) is tested non-nil at every call site of
// fn, through the same chain rooted at the argument, and none of the chain's fields is ever assigned on a
// non-fresh object (the chain is stable once the objects are built).
func (c *Ctx) guardedByCallers(fn *ssa.Function, v ssa.Value) string {
	root, chain := fieldChainOf(v)
	p, ok := root.(*ssa.Parameter)
	if !ok || len(chain) == 0 {
		return ""
	}
	pi := -1
	for i, q := range fn.Params {
		if q == p {
			pi = i
		}
	}
	if pi < 0 {
		return ""
	}
	// assignments of the chain's fields on live objects: allowed only in a caller, ahead of its test
	var live []*ssa.Store
	for _, f := range chain {
		for _, g := range c.Funcs {
			for _, st := range storesToField(c, g, f) {
				if !freshObject(st.Addr) && !InPlaylistDecoder(c, g) {
					live = append(live, st)
				}
			}
		}
	}
	edges := c.callersOf(fn)
	if len(edges) == 0 {
		return ""
	}
	callerSet := map[*ssa.Function]bool{}
	for _, e := range edges {
		callerSet[e.Caller.Func] = true
	}
	for _, st := range live {
		if !callerSet[st.Parent()] {
			if os.Getenv("HLSVERIF_DEBUG") != "" {
				fmt.Println("guardedByCallers: live store outside callers:", FuncName(st.Parent()), c.Pos(st.Pos()))
			}
			return ""
		}
	}
	for _, e := range edges {
		if e.Site == nil {
			return ""
		}
		caller := e.Caller.Func
		args := e.Site.Common().Args
		if pi >= len(args) {
			return ""
		}
		conds := ifsOn(caller, func(x ssa.Value) bool {
			bo, ok := x.(*ssa.BinOp)
			if !ok || bo.Op != token.NEQ {
				return false
			}
			k, isNil := bo.Y.(*ssa.Const)
			if !isNil || !k.IsNil() {
				return false
			}
			r2, ch2 := fieldChainOf(bo.X)
			if canon(r2) != canon(args[pi]) || len(ch2) != len(chain) {
				return false
			}
			for i := range chain {
				if chain[i] != ch2[i] {
					return false
				}
			}
			return true
		})
		site, ok := e.Site.(ssa.Instruction)
		if !ok || len(conds) == 0 || !onlyIf(caller, site, conds, true) {
			return ""
		}
		for _, st := range live {
			if st.Parent() != caller {
				continue
			}
			for _, ci := range conds {
				if instrReaches(ci.If, st) {
					return "" // the field can be reassigned after it was tested
				}
			}
		}
	}
	return fmt.Sprintf("every call of %s is control dependent on a non-nil test of the same field chain, which is never reassigned", FuncName(fn))
}

// InPlaylistDecoder: stores made by the playlist decoders fill freshly decoded objects.
func InPlaylistDecoder(c *Ctx, g *ssa.Function) bool {
	_, dec := c.codecSets()
	return dec[g] || dec[enclosingNamed(g)]
}
