package main

import (
	"encoding/json"
	"flag"
	"fmt"
	"os"
	"path/filepath"
	"sort"
	"strconv"
	"strings"
	"time"
)

func usage() {
	fmt.Fprintln(os.Stderr, `usage:
  hlsverif check   -prop C07 [-tier quick|thorough] [-repo /repo] [-verif /verif] [-goarch A] [-tags T] [-cha] [-noevidence]
  hlsverif explain <witness.json> [-repo /repo]
  hlsverif dump    -rule L1 [-repo /repo] [-all]
  hlsverif list`)
	os.Exit(2)
}

func main() {
	if len(os.Args) < 2 {
		usage()
	}
	buildProps()
	switch os.Args[1] {
	case "manifest":
		os.Exit(cmdManifest())
	case "check":
		os.Exit(cmdCheck(os.Args[2:]))
	case "matrix":
		os.Exit(cmdMatrix(os.Args[2:]))
	case "explain":
		os.Exit(cmdExplain(os.Args[2:]))
	case "dump":
		os.Exit(cmdDump(os.Args[2:]))
	case "sigs":
		// regenerate pinned_sigs.json from a tree (run on the tree the rules were written against)
		repo := "/repo"
		if len(os.Args) > 2 {
			repo = os.Args[2]
		}
		c, err := Load(repo, "", "", false)
		if err != nil {
			fmt.Println("UNDECIDED:", err)
			os.Exit(2)
		}
		b, _ := json.MarshalIndent(c.dumpSigs(), "", " ")
		fmt.Println(string(b))
		os.Exit(0)
	case "list":
		var ids []string
		for id := range propRegistry {
			ids = append(ids, id)
		}
		sort.Strings(ids)
		for _, id := range ids {
			fmt.Printf("%s %s\n", id, strings.Join(propRegistry[id].Rules, " "))
		}
		os.Exit(0)
	default:
		usage()
	}
}

type checkOpts struct {
	prop, tier, repo, verif, goarch, tags string
	cha, noEvidence, keysOnly             bool
}

func cmdCheck(args []string) int {
	fs := flag.NewFlagSet("check", flag.ExitOnError)
	var o checkOpts
	fs.StringVar(&o.prop, "prop", "", "property id")
	fs.StringVar(&o.tier, "tier", "", "quick|thorough (default $VERIF_TIER or quick)")
	fs.StringVar(&o.repo, "repo", "/repo", "repository to analyse")
	fs.StringVar(&o.verif, "verif", "/verif", "verification directory (known findings, evidence)")
	fs.StringVar(&o.goarch, "goarch", "", "GOARCH override")
	fs.StringVar(&o.tags, "tags", "", "build tags")
	fs.BoolVar(&o.cha, "cha", false, "use the CHA call graph instead of VTA")
	fs.BoolVar(&o.noEvidence, "noevidence", false, "do not write evidence/witness files")
	fs.BoolVar(&o.keysOnly, "keysonly", false, "print only the sorted keys of failing obligations (for cross-checks)")
	fs.Parse(args)
	if o.tier == "" {
		o.tier = os.Getenv("VERIF_TIER")
	}
	if o.tier != "thorough" {
		o.tier = "quick"
	}
	spec := propRegistry[o.prop]
	if spec == nil {
		fmt.Fprintf(os.Stderr, "unknown property %q\n", o.prop)
		return 2
	}
	return runCheck(spec, &o)
}

// cmdMatrix loads the repository once and prints, for every property, the keys of failing obligations and
// the undecided rules (the same lines "check -keysonly" prints, prefixed by the property). It is a convenience
// for tools/seedmatrix.sh and tools/benignmatrix.sh; registered checks never use it.
func cmdMatrix(args []string) int {
	fs := flag.NewFlagSet("matrix", flag.ExitOnError)
	repo := fs.String("repo", "/repo", "repository to analyse")
	fs.Parse(args)
	abs, err := filepath.Abs(*repo)
	if err == nil {
		*repo = abs
	}
	c, err := Load(*repo, "", "", false)
	if err != nil {
		fmt.Printf("LOADERROR %v\n", err)
		return 2
	}
	var ids []string
	for id := range propRegistry {
		ids = append(ids, id)
	}
	sort.Strings(ids)
	// known findings of the unchanged tree are not news in a matrix
	knownKeys := map[string]bool{}
	if known, err := loadKnownFindings("/verif"); err == nil {
		for _, k := range known {
			if k.Status == "known" {
				knownKeys[k.Key] = true
			}
		}
	}
	for _, id := range ids {
		var keys, und []string
		for _, rn := range propRegistry[id].Rules {
			r := c.runRule(rn)
			for _, ob := range r.Obls {
				if !ob.OK && !knownKeys[ob.Key] {
					keys = append(keys, ob.Key)
				}
			}
			for _, u := range r.Undecided {
				und = append(und, r.Rule+": "+u)
			}
		}
		sort.Strings(keys)
		for _, k := range keys {
			fmt.Printf("%s FAILKEY %s\n", id, k)
		}
		for _, u := range und {
			fmt.Printf("%s UNDECIDED %s\n", id, u)
		}
	}
	return 0
}

type ruleEvidence struct {
	Rule        string   `json:"rule"`
	Desc        string   `json:"desc"`
	Instances   int      `json:"instances"`
	Floor       int      `json:"floor"`
	Obligations int      `json:"obligations"`
	Discharged  int      `json:"discharged"`
	Undecided   []string `json:"undecided,omitempty"`
	Analysed    []string `json:"analysed,omitempty"`
	Notes       []string `json:"notes,omitempty"`
}

func runCheck(spec *PropSpec, o *checkOpts) int {
	t0 := time.Now()
	seed, _ := strconv.Atoi(os.Getenv("VERIF_SEED"))
	abs, err := filepath.Abs(o.repo)
	if err == nil {
		o.repo = abs
	}
	c, err := Load(o.repo, o.goarch, o.tags, o.cha)
	if err != nil {
		fmt.Printf("UNDECIDED property=%s: cannot load %s: %v\n", spec.ID, o.repo, err)
		writeUndecidedEvidence(spec, o, seed, time.Since(t0).Seconds(), []string{err.Error()})
		return 2
	}

	known, err := loadKnownFindings(o.verif)
	if err != nil {
		fmt.Printf("UNDECIDED property=%s: known_findings.json unreadable: %v\n", spec.ID, err)
		return 2
	}

	var results []*RuleResult
	for _, rn := range spec.Rules {
		results = append(results, c.runRule(rn))
	}

	var undecided []string
	var fails []Obl
	var revs []ruleEvidence
	total, discharged := 0, 0
	var samples []interface{}
	for _, r := range results {
		re := ruleEvidence{Rule: r.Rule, Desc: r.Desc, Instances: r.Instances, Floor: r.Floor, Undecided: r.Undecided, Analysed: r.Analysed, Notes: r.Notes}
		for _, u := range r.Undecided {
			undecided = append(undecided, r.Rule+": "+u)
		}
		ns := 0
		for _, ob := range r.Obls {
			total++
			re.Obligations++
			if ob.OK {
				discharged++
				re.Discharged++
				if ns < 3 {
					samples = append(samples, ob)
					ns++
				}
			} else {
				fails = append(fails, ob)
			}
		}
		revs = append(revs, re)
	}

	if o.keysOnly {
		var keys []string
		for _, f := range fails {
			keys = append(keys, f.Key)
		}
		sort.Strings(keys)
		for _, k := range keys {
			fmt.Println("FAILKEY " + k)
		}
		for _, u := range undecided {
			fmt.Println("UNDECIDED " + u)
		}
	}

	// classify failures: known finding or violation
	var violations []Obl
	var knownHit []string
	for _, f := range fails {
		matched := false
		for _, k := range known {
			if k.Property == spec.ID && k.Status == "known" && k.Key == f.Key {
				matched = true
				knownHit = append(knownHit, fmt.Sprintf("KNOWN-FINDING: property=%s %s [%s at %s]", spec.ID, k.What, f.Key, f.Pos))
			}
		}
		if !matched {
			violations = append(violations, f)
		}
	}
	if !o.keysOnly {
		for _, l := range knownHit {
			fmt.Println(l)
		}
	}

	wall := time.Since(t0).Seconds()
	exit := 0

	// witnesses
	var witnessPaths []string
	if !o.noEvidence {
		wdir := filepath.Join(o.verif, "evidence", "witness")
		os.MkdirAll(wdir, 0o755)
		old, _ := filepath.Glob(filepath.Join(wdir, spec.ID+"-*.json"))
		for _, f := range old {
			os.Remove(f)
		}
	}
	for i, v := range violations {
		p := filepath.Join(o.verif, "evidence", "witness", fmt.Sprintf("%s-%d.json", spec.ID, i+1))
		if !o.noEvidence {
			b, _ := json.MarshalIndent(map[string]interface{}{
				"property": spec.ID, "rule": v.Rule, "key": v.Key, "pos": v.Pos, "func": v.Func,
				"what": v.What, "why": v.Why, "path": v.Path, "repo": o.repo,
			}, "", " ")
			os.WriteFile(p, b, 0o644)
		}
		witnessPaths = append(witnessPaths, p)
		if !o.keysOnly {
			fmt.Printf("  rule %s at %s in %s\n    required: %s\n    failed:   %s\n", v.Rule, v.Pos, v.Func, v.What, v.Why)
			for _, s := range v.Path {
				fmt.Printf("      %s\n", s)
			}
			fmt.Printf("VIOLATION property=%s replay=%s\n", spec.ID, p)
		}
		exit = 1
	}
	if len(undecided) > 0 && exit == 0 {
		exit = 2
	}
	if !o.keysOnly {
		for _, u := range undecided {
			fmt.Printf("UNDECIDED property=%s %s\n", spec.ID, u)
		}
	}

	var thorough map[string]interface{}
	if o.tier == "thorough" && !o.keysOnly && len(undecided) == 0 {
		var tex int
		thorough, tex = runThorough(spec, o, fails)
		if tex == 2 && exit == 0 {
			exit = 2
		}
	}

	if !o.noEvidence {
		var funcs []string
		for _, f := range c.Funcs {
			funcs = append(funcs, FuncName(f))
		}
		if len(samples) == 0 {
			samples = append(samples, "no discharged obligation")
		}
		var rulesList []string
		for _, r := range results {
			rulesList = append(rulesList, r.Rule+": "+r.Desc)
		}
		cov := map[string]interface{}{
			"explanation": "Static analysis of /repo's current source (type-checked packages, SSA, VTA call graph); nothing is executed. " +
				"DECIDED (structural necessary conditions of the property): " + spec.Decided +
				" NOT DECIDED (value-level clauses out of static reach): " + spec.NotDecided,
			"obligations":        total,
			"discharged":         discharged,
			"failed":             len(fails),
			"known_findings_hit": len(knownHit),
			"failed_obligations": failedList(fails, known, spec.ID),
			"rules":              revs,
			"rules_applied":      rulesList,
			"samples":            samples,
			"checker_cmd":        fmt.Sprintf("bin/hlsverif check -prop %s -tier %s", spec.ID, o.tier),
			"trusted_base":       commonTrustedBase,
			"packages_analysed":  libPkgs,
			"functions_in_scope": len(c.Funcs),
			"call_graph":         map[bool]string{true: "CHA", false: "VTA"}[o.cha],
			"load_seconds":       c.LoadSeconds,
			"exhaustive":         true,
			"undecided":          undecided,
		}
		if thorough != nil {
			cov["thorough"] = thorough
		}
		// anchors that were not found under the name the rules know and were resolved through the pinned signatures
		cov["renamed_anchors"] = c.renameLog()
		ev := map[string]interface{}{
			"property_id": spec.ID,
			"tier":        o.tier,
			"seed":        seed,
			"level":       "other",
			"coverage":    cov,
			"assumptions": append(append([]string{}, commonTrustedBase...), spec.Assumptions...),
			"wall_s":      time.Since(t0).Seconds(),
			"violations":  len(violations),
		}
		b, _ := json.MarshalIndent(ev, "", " ")
		os.MkdirAll(filepath.Join(o.verif, "evidence"), 0o755)
		if err := os.WriteFile(filepath.Join(o.verif, "evidence", spec.ID+".json"), b, 0o644); err != nil {
			fmt.Printf("UNDECIDED property=%s cannot write evidence: %v\n", spec.ID, err)
			if exit == 0 {
				exit = 2
			}
		}
	}
	if !o.keysOnly {
		fmt.Printf("%s %s: rules=%d obligations=%d discharged=%d violations=%d known=%d undecided=%d wall=%.1fs exit=%d\n",
			spec.ID, o.tier, len(results), total, discharged, len(violations), len(knownHit), len(undecided), wall, exit)
	}
	return exit
}

func writeUndecidedEvidence(spec *PropSpec, o *checkOpts, seed int, wall float64, reasons []string) {
	if o.noEvidence {
		return
	}
	ev := map[string]interface{}{
		"property_id": spec.ID, "tier": o.tier, "seed": seed, "level": "other",
		"coverage": map[string]interface{}{
			"explanation": "UNDECIDED: the program could not be loaded, no rule was run: " + strings.Join(reasons, "; "),
			"obligations": 0, "discharged": 0, "samples": []interface{}{"none"},
		},
		"wall_s": wall, "violations": 0,
	}
	b, _ := json.MarshalIndent(ev, "", " ")
	os.MkdirAll(filepath.Join(o.verif, "evidence"), 0o755)
	os.WriteFile(filepath.Join(o.verif, "evidence", spec.ID+".json"), b, 0o644)
}

func cmdExplain(args []string) int {
	if len(args) < 1 {
		usage()
	}
	b, err := os.ReadFile(args[0])
	if err != nil {
		fmt.Fprintln(os.Stderr, err)
		return 2
	}
	var w struct {
		Property, Rule, Key, Repo string
	}
	if err := json.Unmarshal(b, &w); err != nil {
		fmt.Fprintln(os.Stderr, err)
		return 2
	}
	repo := "/repo"
	for i := 1; i+1 < len(args); i++ {
		if args[i] == "-repo" {
			repo = args[i+1]
		}
	}
	c, err := Load(repo, "", "", false)
	if err != nil {
		fmt.Println("UNDECIDED:", err)
		return 2
	}
	r := c.runRule(w.Rule)
	found := false
	for _, ob := range r.Obls {
		if ob.Key == w.Key {
			found = true
			st := "HOLDS"
			if !ob.OK {
				st = "FAILS"
			}
			fmt.Printf("%s %s\n  at %s in %s\n  required: %s\n  %s\n", st, ob.Key, ob.Pos, ob.Func, ob.What, ob.Why)
			for _, s := range ob.Path {
				fmt.Println("    " + s)
			}
			if !ob.OK {
				fmt.Printf("VIOLATION property=%s replay=%s\n", w.Property, args[0])
				return 1
			}
		}
	}
	if !found {
		fmt.Printf("obligation %s no longer exists on the current tree\n", w.Key)
	}
	return 0
}

func cmdDump(args []string) int {
	fs := flag.NewFlagSet("dump", flag.ExitOnError)
	rule := fs.String("rule", "", "rule name")
	repo := fs.String("repo", "/repo", "repo")
	all := fs.Bool("all", false, "print discharged obligations too")
	chaF := fs.Bool("cha", false, "CHA")
	fs.Parse(args)
	c, err := Load(*repo, "", "", *chaF)
	if err != nil {
		fmt.Println("UNDECIDED:", err)
		return 2
	}
	names := strings.Split(*rule, ",")
	for _, n := range names {
		r := c.runRule(n)
		fmt.Printf("== %s: %s\n   instances=%d floor=%d obligations=%d\n", r.Rule, r.Desc, r.Instances, r.Floor, len(r.Obls))
		for _, u := range r.Undecided {
			fmt.Println("   UNDECIDED:", u)
		}
		for _, nn := range r.Notes {
			fmt.Println("   note:", nn)
		}
		for _, ob := range r.Obls {
			if ob.OK && !*all {
				continue
			}
			st := "ok  "
			if !ob.OK {
				st = "FAIL"
			}
			fmt.Printf("   %s %s @%s [%s]\n        need: %s\n        %s\n", st, ob.Key, ob.Pos, ob.Func, ob.What, ob.Why)
			for _, s := range ob.Path {
				fmt.Println("          " + s)
			}
		}
	}
	return 0
}

func failedList(fails []Obl, known []KnownFinding, prop string) []map[string]string {
	out := []map[string]string{}
	for _, f := range fails {
		status := "VIOLATION"
		for _, k := range known {
			if k.Property == prop && k.Status == "known" && k.Key == f.Key {
				status = "known finding"
			}
		}
		out = append(out, map[string]string{"key": f.Key, "pos": f.Pos, "func": f.Func, "required": f.What, "failed": f.Why, "status": status})
	}
	return out
}
