package main

import (
	"fmt"
	"go/token"
	"go/types"
	"sort"
	"strings"

	"golang.org/x/tools/go/ssa"
)

// ---------------------------------------------------------------------------
// L1 — lock balance: no function returns with a lock it acquired itself, and no function
// releases a lock it did not acquire.

func init() {
	registerRule("L1", "lock balance: on every path to a return (or explicit panic) a function holds no lock it acquired itself and has released none it did not acquire",
		ruleL1)
	registerRule("L2", "wait discipline: every Cond.Wait holds the cond's lock, re-evaluates its predicate from the loop head after waking, and its loop has an exit on a closed flag",
		ruleL2)
	registerRule("L3", "signal after write: every critical section of the writer that changes a wait predicate is followed by Broadcast on every success path; predicates change only under the cond's lock",
		ruleL3)
}

func ruleL1(c *Ctx) *RuleResult {
	r := &RuleResult{Floor: 12, FloorWhat: "functions containing a Lock/RLock call"}
	li := c.locks()
	for _, p := range li.problems {
		r.undecided("%s", p)
	}
	for _, fn := range c.Funcs {
		hasLockOp := false
		allInstrs(fn, func(in ssa.Instruction) {
			if ci, ok := in.(ssa.CallInstruction); ok {
				switch classifySync(ci.Common()) {
				case opLock, opRLock, opUnlock, opRUnlock:
					hasLockOp = true
				}
			}
		})
		if !hasLockOp {
			continue
		}
		r.analysed(FuncName(fn))
		la := &lockAnalysis{li: li, res: map[fnCtx]*ctxResult{}, ctxsOf: map[*ssa.Function][]fnCtx{}}
		res := la.analyse(c, fnCtx{fn: fn}, func(fnCtx) {})
		for _, u := range la.unresolved {
			r.undecided("%s", u)
		}
		// releasing a lock that is not held (relative to entry) — detected by a second pass
		relUnheld := ""
		for bi, b := range fn.Blocks {
			st := res.in[bi]
			if !st.valid {
				continue
			}
			for _, in := range b.Instrs {
				if call, ok := in.(*ssa.Call); ok {
					op := classifySync(&call.Call)
					if op == opUnlock || op == opRUnlock {
						if cls := li.lockOfReceiver(call.Call.Args[0]); cls != nil {
							bit := bitW(cls)
							if op == opRUnlock {
								bit = bitR(cls)
							}
							if st.may&bit == 0 {
								relUnheld = fmt.Sprintf("%s released at %s although this function did not acquire it", cls.Name, c.Pos(in.Pos()))
							}
						}
					}
				}
				if _, ok := in.(*ssa.RunDefers); ok && st.defMust != 0 {
					// a deferred Unlock runs here: the lock it releases must still be held on this path
					for _, cls := range li.classes {
						for _, bit := range []lockset{bitW(cls), bitR(cls)} {
							if st.defMust&bit != 0 && st.may&bit == 0 {
								relUnheld = fmt.Sprintf("the deferred unlock of %s runs at %s on a path that has already released it (unlock of an unlocked mutex: a fatal error, or another goroutine's critical section is opened)", cls.Name, c.Pos(posOf(in)))
							}
						}
					}
				}
				st = la.transfer(c, fn, in, st, nil, nil)
			}
		}
		if relUnheld != "" {
			r.fail(FuncName(fn)+"|release-unheld", c.Pos(fn.Pos()), FuncName(fn), "a function only releases locks it acquired", relUnheld)
		}
		nret := 0
		for _, ri := range res.ret {
			nret++
			key := fmt.Sprintf("%s|return#%d", FuncName(fn), nret)
			// stable key: ordinal of the return among returns of the function in block order
			if ri.st.may != 0 {
				path := c.pathToInstr(fn, ri.instr)
				r.fail(key, c.Pos(posOf(ri.instr)), FuncName(fn),
					"no lock acquired by this function is still held at this return",
					"returns with "+li.names(ri.st.may)+" possibly held", path...)
			} else {
				r.ok(key, c.Pos(posOf(ri.instr)), FuncName(fn), "no lock acquired by this function is still held at this return", "may-held set is empty")
			}
		}
		// explicit panics
		for bi, b := range fn.Blocks {
			if !res.in[bi].valid || len(b.Instrs) == 0 {
				continue
			}
			if p, ok := b.Instrs[len(b.Instrs)-1].(*ssa.Panic); ok {
				st := res.at[p]
				if st.may&^st.defMust != 0 {
					r.fail(FuncName(fn)+"|panic", c.Pos(posOf(p)), FuncName(fn), "no lock held at an explicit panic", "panics with "+li.names(st.may)+" held")
				}
			}
		}
	}
	r.Instances = len(r.Analysed)
	return r
}

// pathToInstr renders one entry→instr block path (BFS) for diagnostics.
func (c *Ctx) pathToInstr(fn *ssa.Function, target ssa.Instruction) []string {
	prev := map[int]int{0: -1}
	q := []int{0}
	for len(q) > 0 {
		b := q[0]
		q = q[1:]
		if b == target.Block().Index {
			var idx []int
			for x := b; x != -1; x = prev[x] {
				idx = append([]int{x}, idx...)
			}
			var out []string
			for _, i := range idx {
				out = append(out, c.blockDesc(fn.Blocks[i]))
			}
			return out
		}
		for _, s := range fn.Blocks[b].Succs {
			if _, ok := prev[s.Index]; !ok {
				prev[s.Index] = b
				q = append(q, s.Index)
			}
		}
	}
	return nil
}

// ---------------------------------------------------------------------------
// wait loops

type waitLoop struct {
	fn       *ssa.Function
	wait     *ssa.Call
	cls      *lockClass
	condFld  *types.Var
	head     *ssa.BasicBlock          // loop head reached unconditionally after Wait
	body     map[*ssa.BasicBlock]bool // blocks of the loop (on a cycle through the wait block)
	predFlds map[*types.Var]bool      // fields read while evaluating the predicate (through callees)
	closedIf []*ssa.If                // exits on a closed flag
	headOK   bool
	why      string
}

// closedFlags are bool fields that code reachable from Muxer.Close sets to true.
func (c *Ctx) closedFlags() map[*types.Var]bool {
	if v, ok := c.cache["closedflags"]; ok {
		return v.(map[*types.Var]bool)
	}
	out := map[*types.Var]bool{}
	cl := c.Method("", "Muxer", "Close")
	if cl != nil {
		for fn := range c.reach([]*ssa.Function{cl}, nil) {
			if !InLib(fn) {
				continue
			}
			allInstrs(fn, func(in ssa.Instruction) {
				if st, ok := in.(*ssa.Store); ok {
					if b, isC := constBool(st.Val); isC && b {
						if f, _ := fieldOfAddr(st.Addr); f != nil {
							out[f] = true
						}
					}
				}
			})
		}
	}
	c.cache["closedflags"] = out
	return out
}

// fieldsReadBy returns the fields loaded by fn and, transitively, by its library callees.
func (c *Ctx) fieldsReadBy(fn *ssa.Function, seen map[*ssa.Function]bool, out map[*types.Var]bool) {
	if fn == nil || seen[fn] || !InLib(fn) || fn.Blocks == nil {
		return
	}
	seen[fn] = true
	allInstrs(fn, func(in ssa.Instruction) {
		if v, ok := in.(ssa.Value); ok {
			if f, _ := loadedField(v); f != nil {
				out[f] = true
			}
		}
		if ci, ok := in.(ssa.CallInstruction); ok {
			for _, g := range c.calleesOf(ci) {
				c.fieldsReadBy(g, seen, out)
			}
		}
	})
}

func (c *Ctx) waitLoops() []*waitLoop {
	if v, ok := c.cache["waitloops"]; ok {
		return v.([]*waitLoop)
	}
	li := c.locks()
	closed := c.closedFlags()
	var out []*waitLoop
	for _, fn := range c.Funcs {
		allInstrs(fn, func(in ssa.Instruction) {
			call, ok := in.(*ssa.Call)
			if !ok || classifySync(&call.Call) != opWait {
				return
			}
			wl := &waitLoop{fn: fn, wait: call, body: map[*ssa.BasicBlock]bool{}, predFlds: map[*types.Var]bool{}}
			wl.cls, wl.condFld = li.condOfReceiver(call.Call.Args[0])
			out = append(out, wl)
			wb := call.Block()
			// (b) after Wait: only straight-line code and unconditional jumps until a block that dominates the wait block
			idx := instrIndex(call)
			cur := wb
			rest := wb.Instrs[idx+1:]
			steps := 0
			for {
				branching := false
				for _, x := range rest {
					switch x.(type) {
					case *ssa.If, *ssa.Return, *ssa.Panic:
						branching = true
					}
				}
				if branching || len(cur.Succs) != 1 {
					wl.why = "after Wait returns control reaches a branch or return in " + c.blockDesc(cur) + " before going back to the loop head: the predicate is not re-evaluated from the top"
					break
				}
				nxt := cur.Succs[0]
				if nxt.Dominates(wb) {
					wl.head = nxt
					wl.headOK = true
					break
				}
				cur = nxt
				rest = cur.Instrs
				steps++
				if steps > 20 {
					wl.why = "no loop head found after Wait"
					break
				}
			}
			if !wl.headOK {
				return
			}
			// loop body = blocks reachable from head that can reach the wait block
			fromHead := reachableBlocks(fn, wl.head.Index, nil, nil)
			for _, b := range fn.Blocks {
				if !fromHead[b.Index] {
					continue
				}
				rb := reachableBlocks(fn, b.Index, nil, nil)
				if rb[wb.Index] && wl.head.Dominates(b) {
					wl.body[b] = true
				}
			}
			// predicate fields and closed exits
			seen := map[*ssa.Function]bool{}
			for b := range wl.body {
				for _, x := range b.Instrs {
					if v, ok := x.(ssa.Value); ok {
						if f, _ := loadedField(v); f != nil {
							wl.predFlds[f] = true
						}
					}
					if ci, ok := x.(ssa.CallInstruction); ok && classifySync(ci.Common()) == opNone {
						for _, g := range c.calleesOf(ci) {
							c.fieldsReadBy(g, seen, wl.predFlds)
						}
					}
					if iff, ok := x.(*ssa.If); ok {
						cond := iff.Cond
						pol := true
						for {
							if u, ok := cond.(*ssa.UnOp); ok && u.Op == token.NOT {
								cond = u.X
								pol = !pol
								continue
							}
							break
						}
						if f, _ := loadedField(cond); f != nil && closed[f] {
							exit := b.Succs[0]
							if !pol {
								exit = b.Succs[1]
							}
							// the exit must leave the loop: the wait block is unreachable from it without passing the head... simply: not in body
							if !wl.body[exit] {
								wl.closedIf = append(wl.closedIf, iff)
							}
						}
					}
				}
			}
		})
	}
	c.cache["waitloops"] = out
	return out
}

func waitKey(wl *waitLoop, n int) string {
	return fmt.Sprintf("%s|wait#%d", FuncName(wl.fn), n)
}

func ruleL2(c *Ctx) *RuleResult {
	r := &RuleResult{Floor: 4, FloorWhat: "Cond.Wait sites"}
	li := c.locks()
	for _, p := range li.problems {
		r.undecided("%s", p)
	}
	la := c.muxerLockAnalysis()
	loops := c.waitLoops()
	perFn := map[*ssa.Function]int{}
	for _, wl := range loops {
		perFn[wl.fn]++
		key := waitKey(wl, perFn[wl.fn])
		pos := c.Pos(wl.wait.Pos())
		fnn := FuncName(wl.fn)
		r.analysed(fnn)
		if wl.cls == nil {
			r.undecided("Cond.Wait at %s: receiver cannot be resolved to a cond field", pos)
			continue
		}
		// (a) lock held
		must, _, reached := la.heldAt(wl.wait)
		if !reached {
			r.undecided("Cond.Wait at %s is not reachable from any muxer root", pos)
			continue
		}
		if must.hasW(wl.cls) {
			r.ok(key+"|held", pos, fnn, "Wait is called with "+wl.cls.Name+" held on every path and in every calling context", "must-held: "+li.names(must))
		} else {
			r.fail(key+"|held", pos, fnn, "Wait is called with "+wl.cls.Name+" held on every path and in every calling context", "must-held set is "+li.names(must))
		}
		// (b) predicate re-evaluated
		if wl.headOK {
			r.ok(key+"|recheck", pos, fnn, "after Wait returns control goes unconditionally back to the loop head that evaluates the predicate",
				"loop head "+c.blockDesc(wl.head)+"; predicate fields: "+c.fieldSetNames(wl.predFlds))
		} else {
			r.fail(key+"|recheck", pos, fnn, "after Wait returns control goes unconditionally back to the loop head that evaluates the predicate", wl.why)
		}
		// (c) closed exit
		if len(wl.closedIf) > 0 {
			var fl []string
			for _, iff := range wl.closedIf {
				f, _ := loadedField(stripNot(iff.Cond))
				fl = append(fl, c.fieldName(f))
			}
			r.ok(key+"|closed-exit", pos, fnn, "the wait loop has an exit taken when a flag set by Close is true", "exits on "+strings.Join(fl, ", "))
		} else if wl.headOK {
			r.fail(key+"|closed-exit", pos, fnn, "the wait loop has an exit taken when a flag set by Close is true",
				"no branch of the loop tests a field that Muxer.Close sets (closed flags: "+c.fieldSetNames(c.closedFlags())+"): a waiter can never leave after Close")
		}
	}
	r.Instances = len(loops)
	return r
}

func stripNot(v ssa.Value) ssa.Value {
	for {
		if u, ok := v.(*ssa.UnOp); ok && u.Op == token.NOT {
			v = u.X
			continue
		}
		return v
	}
}

func (c *Ctx) fieldSetNames(m map[*types.Var]bool) string {
	var out []string
	for f := range m {
		out = append(out, c.fieldName(f))
	}
	sort.Strings(out)
	return strings.Join(out, ", ")
}

// ---------------------------------------------------------------------------
// L3

// modSet: fields stored by fn and its library callees (transitively).
func (c *Ctx) modSet(fn *ssa.Function) map[*types.Var]bool {
	key := "modset"
	var memo map[*ssa.Function]map[*types.Var]bool
	if v, ok := c.cache[key]; ok {
		memo = v.(map[*ssa.Function]map[*types.Var]bool)
	} else {
		memo = map[*ssa.Function]map[*types.Var]bool{}
		c.cache[key] = memo
	}
	if m, ok := memo[fn]; ok {
		return m
	}
	out := map[*types.Var]bool{}
	seen := map[*ssa.Function]bool{}
	var walk func(f *ssa.Function)
	walk = func(f *ssa.Function) {
		if f == nil || seen[f] || !InLib(f) || f.Blocks == nil {
			return
		}
		seen[f] = true
		allInstrs(f, func(in ssa.Instruction) {
			switch x := in.(type) {
			case *ssa.Store:
				if fl, _ := fieldOfAddr(x.Addr); fl != nil {
					out[fl] = true
				}
				// element stores into a slice/array/map held by a field: attribute to the field
				if ia, ok := x.Addr.(*ssa.IndexAddr); ok {
					if fl, _ := loadedField(ia.X); fl != nil {
						out[fl] = true
					}
				}
			case *ssa.MapUpdate:
				if fl, _ := loadedField(x.Map); fl != nil {
					out[fl] = true
				}
			}
			if ci, ok := in.(ssa.CallInstruction); ok {
				if b, isB := ci.Common().Value.(*ssa.Builtin); isB && b.Name() == "delete" {
					if fl, _ := loadedField(ci.Common().Args[0]); fl != nil {
						out[fl] = true
					}
				}
				for _, g := range c.calleesOf(ci) {
					walk(g)
				}
			}
		})
	}
	walk(fn)
	memo[fn] = out
	return out
}

// predModSet: like modSet, but without (a) initialisation stores (the base object was allocated by the storing
// function) and (b) stores of a freshly allocated object into an open slot: neither can turn a wait predicate true —
// a fresh object is not yet referenced by any predicate, and the predicates that read a slot only inspect the parts
// of the object in it, which a fresh object does not have (checked: the function does not store to its `parts`).
func (c *Ctx) predModSet(fn *ssa.Function) map[*types.Var]bool {
	var memo map[*ssa.Function]map[*types.Var]bool
	if v, ok := c.cache["predmodset"]; ok {
		memo = v.(map[*ssa.Function]map[*types.Var]bool)
	} else {
		memo = map[*ssa.Function]map[*types.Var]bool{}
		c.cache["predmodset"] = memo
	}
	if m, ok := memo[fn]; ok {
		return m
	}
	slots, _ := c.slotFields()
	out := map[*types.Var]bool{}
	seen := map[*ssa.Function]bool{}
	var walk func(f *ssa.Function)
	walk = func(f *ssa.Function) {
		if f == nil || seen[f] || !InLib(f) || f.Blocks == nil {
			return
		}
		seen[f] = true
		allInstrs(f, func(in ssa.Instruction) {
			switch x := in.(type) {
			case *ssa.Store:
				if fl, base := fieldOfAddr(x.Addr); fl != nil {
					if freshObject(base) {
						return
					}
					if slots[fl] && freshEmptyObject(c, x.Val) {
						return
					}
					out[fl] = true
				}
				if ia, ok := x.Addr.(*ssa.IndexAddr); ok {
					if fl, _ := loadedField(ia.X); fl != nil {
						out[fl] = true
					}
				}
			case *ssa.MapUpdate:
				if fl, _ := loadedField(x.Map); fl != nil {
					out[fl] = true
				}
			}
			if ci, ok := in.(ssa.CallInstruction); ok {
				if b, isB := ci.Common().Value.(*ssa.Builtin); isB && b.Name() == "delete" {
					if fl, _ := loadedField(ci.Common().Args[0]); fl != nil {
						out[fl] = true
					}
				}
				for _, g := range c.calleesOf(ci) {
					walk(g)
				}
			}
		})
	}
	walk(fn)
	memo[fn] = out
	return out
}

// freshEmptyObject: v is an object allocated in this function whose `parts` list is not assigned here.
func freshEmptyObject(c *Ctx, v ssa.Value) bool {
	al, ok := stripConv(v).(*ssa.Alloc)
	if !ok {
		if k, isC := v.(*ssa.Const); isC && k.IsNil() {
			return false // emptying a slot is a real change
		}
		return false
	}
	for _, ref := range *al.Referrers() {
		if fa, ok := ref.(*ssa.FieldAddr); ok {
			if st := derefStruct(al.Type()); st != nil && st.Field(fa.Field).Name() == "parts" {
				for _, rr := range *fa.Referrers() {
					if _, isSt := rr.(*ssa.Store); isSt {
						return false
					}
				}
			}
		}
	}
	return true
}

func ruleL3(c *Ctx) *RuleResult {
	r := &RuleResult{Floor: 3, FloorWhat: "writer critical sections that change a wait predicate"}
	li := c.locks()
	loops := c.waitLoops()
	ro := c.roles()
	// Pred(class) = union of predicate fields of the wait loops on conds of that class
	pred := map[*lockClass]map[*types.Var]bool{}
	for _, wl := range loops {
		if wl.cls == nil {
			continue
		}
		if pred[wl.cls] == nil {
			pred[wl.cls] = map[*types.Var]bool{}
		}
		for f := range wl.predFlds {
			// configuration fields never written after Start are not predicates; filtered below by "has a W/R store"
			pred[wl.cls][f] = true
		}
	}
	wset := c.reachRole(ro.W)
	rset := c.reachRole(ro.R)
	la := c.muxerLockAnalysis()

	// (1) every store to a predicate field in W/R code holds the lock (or is a frozen, justified exemption)
	nStores := 0
	for _, fn := range c.Funcs {
		if !wset[fn] && !rset[fn] {
			continue
		}
		cnt := map[string]int{}
		allInstrs(fn, func(in ssa.Instruction) {
			st, ok := in.(*ssa.Store)
			if !ok {
				return
			}
			f, base := fieldOfAddr(st.Addr)
			if f == nil {
				return
			}
			for cls, pf := range pred {
				if !pf[f] {
					continue
				}
				if isFreshAlloc(base) {
					continue // initialisation of an object created in this function
				}
				nStores++
				must, _, reached := la.heldAt(in)
				if !reached {
					continue
				}
				cnt[c.fieldName(f)]++
				key := fmt.Sprintf("%s|store %s#%d", FuncName(fn), c.fieldName(f), cnt[c.fieldName(f)])
				what := "a field read by a wait predicate of " + cls.Name + " is only changed while holding " + cls.Name
				if must.hasW(cls) {
					r.ok(key, c.Pos(in.Pos()), FuncName(fn), what, "must-held: "+li.names(must))
				} else if why := l3Exempt(c, fn, f); why != "" {
					r.ok(key, c.Pos(in.Pos()), FuncName(fn), what, "exempt (frozen, see rule L5): "+why)
				} else {
					r.fail(key, c.Pos(in.Pos()), FuncName(fn), what,
						"store to "+c.fieldName(f)+" with must-held set "+li.names(must)+": a waiter can evaluate its predicate between this store and the next wake-up, or miss the change entirely",
						c.reachPath(append(append([]*ssa.Function{}, ro.W...), ro.R...), fn)...)
				}
			}
		})
	}

	// (2) every critical section in W code whose callees modify a predicate field is followed by Broadcast
	nSections := 0
	for _, fn := range c.Funcs {
		if !wset[fn] {
			continue
		}
		sec := 0
		allInstrs(fn, func(in ssa.Instruction) {
			call, ok := in.(*ssa.Call)
			if !ok || classifySync(&call.Call) != opLock {
				return
			}
			cls := li.lockOfReceiver(call.Call.Args[0])
			if cls == nil || pred[cls] == nil {
				return
			}
			// does the section modify a predicate field? (stores in this function after the Lock + mod-sets of callees)
			mods := map[*types.Var]bool{}
			reachI := instrsReachableUntil(fn, call, func(x ssa.Instruction) bool {
				if cc, ok := x.(*ssa.Call); ok && classifySync(&cc.Call) == opUnlock {
					return li.lockOfReceiver(cc.Call.Args[0]) == cls
				}
				if _, ok := x.(*ssa.RunDefers); ok {
					return true
				}
				return false
			})
			slotsL3, _ := c.slotFields()
			// a change made on a path that can only end in an error return (the roll-back of a failed step) owes no
			// wake-up to the success returns of the function
			reachesSuccess := func(x ssa.Instruction) bool {
				return pathAvoidingRaw(fn, x, func(ssa.Instruction) bool { return false }, func(y ssa.Instruction) bool {
					ret, ok := y.(*ssa.Return)
					return ok && isSuccessReturn(ret)
				})
			}
			for x := range reachI {
				if st, ok := x.(*ssa.Store); ok {
					if f, _ := fieldOfAddr(st.Addr); f != nil && pred[cls][f] {
						if !(slotsL3[f] && freshEmptyObject(c, st.Val)) && reachesSuccess(x) {
							mods[f] = true
						}
					}
				}
				if ci, ok := x.(ssa.CallInstruction); ok && classifySync(ci.Common()) == opNone {
					var hit []*types.Var
					for _, g := range c.calleesOf(ci) {
						for f := range c.predModSet(g) {
							if pred[cls][f] {
								hit = append(hit, f)
							}
						}
					}
					if len(hit) > 0 && reachesSuccess(x) {
						for _, f := range hit {
							mods[f] = true
						}
					}
				}
			}
			if len(mods) == 0 {
				return
			}
			sec++
			nSections++
			key := fmt.Sprintf("%s|section#%d", FuncName(fn), sec)
			what := "after a critical section on " + cls.Name + " that changes wait-predicate fields (" + c.fieldSetNames(mods) + "), every path to a success return passes Cond.Broadcast"
			// search a path Lock → success return avoiding Broadcast
			isBroadcast := func(x ssa.Instruction) bool {
				if cc, ok := x.(*ssa.Call); ok && classifySync(&cc.Call) == opBroadcast {
					if k, _ := li.condOfReceiver(cc.Call.Args[0]); k == cls {
						return true
					}
				}
				return false
			}
			bad := pathAvoiding(c, fn, call, func(x ssa.Instruction) bool {
				if isBroadcast(x) {
					return true
				}
				// a helper of the same package that does nothing but wake the waiters (`m.wakeWaiters()`): every path
				// through it broadcasts
				if cc, ok := x.(*ssa.Call); ok {
					if g := cc.Call.StaticCallee(); g != nil && InRootPkg(g) && g.Blocks != nil && len(g.Blocks) <= 3 {
						blocked := map[int]bool{}
						for _, b := range g.Blocks {
							for _, in := range b.Instrs {
								if isBroadcast(in) {
									blocked[b.Index] = true
								}
							}
						}
						if len(blocked) > 0 {
							if blocked[0] {
								return true
							}
							seen := reachableBlocks(g, 0, nil, blocked)
							all := true
							for _, b := range g.Blocks {
								if seen[b.Index] {
									if _, isRet := b.Instrs[len(b.Instrs)-1].(*ssa.Return); isRet {
										all = false
									}
								}
							}
							return all
						}
					}
				}
				return false
			}, func(x ssa.Instruction) bool {
				ret, ok := x.(*ssa.Return)
				return ok && isSuccessReturn(ret)
			})
			if bad == nil {
				r.ok(key, c.Pos(call.Pos()), FuncName(fn), what, "every path from the Lock to a success return contains Broadcast")
			} else {
				sig := ""
				for x := range reachI {
					if cc, ok := x.(*ssa.Call); ok && classifySync(&cc.Call) == opSignal {
						sig = " (Cond.Signal at " + c.Pos(cc.Pos()) + " wakes a single waiter only; request goroutines are unboundedly many)"
					}
				}
				r.fail(key, c.Pos(call.Pos()), FuncName(fn), what, "a path reaches a success return without Broadcast"+sig, bad...)
			}
		})
	}
	r.Instances = nSections
	if nStores < 8 {
		r.undecided("only %d stores to wait-predicate fields found in writer/request code (floor 8)", nStores)
	}
	return r
}

// isFreshAlloc: base pointer is an allocation of this function (composite literal / new).
func isFreshAlloc(v ssa.Value) bool {
	_, ok := v.(*ssa.Alloc)
	return ok
}

// isSuccessReturn: a return that does not return a non-nil error (functions without an error result always succeed).
func isSuccessReturn(ret *ssa.Return) bool {
	sig := ret.Parent().Signature
	res := sig.Results()
	for i := 0; i < res.Len(); i++ {
		if types.Identical(res.At(i).Type(), types.Universe.Lookup("error").Type()) {
			v := retVal(ret, i)
			if k, ok := v.(*ssa.Const); ok && k.IsNil() {
				return true
			}
			return false
		}
	}
	return true
}

// instrsReachableFrom returns the instructions reachable after `from` (same function).
func instrsReachableFrom(fn *ssa.Function, from ssa.Instruction) map[ssa.Instruction]bool {
	return instrsReachableUntil(fn, from, func(ssa.Instruction) bool { return false })
}

// instrsReachableUntil returns the instructions reachable after `from` on paths that have not
// yet passed an instruction satisfying stop (the stop instruction itself is included).
func instrsReachableUntil(fn *ssa.Function, from ssa.Instruction, stop func(ssa.Instruction) bool) map[ssa.Instruction]bool {
	out := map[ssa.Instruction]bool{}
	scan := func(instrs []ssa.Instruction) bool { // returns true when the block end is reached
		for _, x := range instrs {
			out[x] = true
			if stop(x) {
				return false
			}
		}
		return true
	}
	b := from.Block()
	var stack []int
	if scan(b.Instrs[instrIndex(from)+1:]) {
		for _, s := range b.Succs {
			stack = append(stack, s.Index)
		}
	}
	seen := map[int]bool{}
	for len(stack) > 0 {
		i := stack[len(stack)-1]
		stack = stack[:len(stack)-1]
		if seen[i] {
			continue
		}
		seen[i] = true
		if scan(fn.Blocks[i].Instrs) {
			for _, s := range fn.Blocks[i].Succs {
				stack = append(stack, s.Index)
			}
		}
	}
	return out
}

// pathAvoiding searches a path from `from` to an instruction satisfying goal that passes no
// instruction satisfying barrier. Returns the block path (descriptions) or nil.
func pathAvoiding(c *Ctx, fn *ssa.Function, from ssa.Instruction, barrier, goal func(ssa.Instruction) bool) []string {
	const virt = -1 // the remainder of the start block after `from`
	prev := map[int]int{}
	seenBlock := map[int]bool{}
	scan := func(instrs []ssa.Instruction) (hitGoal ssa.Instruction, blocked bool) {
		for _, x := range instrs {
			if barrier(x) {
				return nil, true
			}
			if goal(x) {
				return x, false
			}
		}
		return nil, false
	}
	render := func(last int) []string {
		var idx []int
		for x := last; x != virt; x = prev[x] {
			idx = append([]int{x}, idx...)
			if len(idx) > len(fn.Blocks)+1 {
				break
			}
		}
		out := []string{c.blockDesc(from.Block()) + " (after " + c.Pos(posOf(from)) + ")"}
		for _, i := range idx {
			out = append(out, c.blockDesc(fn.Blocks[i]))
		}
		return out
	}
	sb := from.Block()
	g, blocked := scan(sb.Instrs[instrIndex(from)+1:])
	if g != nil {
		return append(render(virt), "reaches "+shortInstr(g)+" at "+c.Pos(posOf(g)))
	}
	if blocked {
		return nil
	}
	var q []int
	for _, s := range sb.Succs {
		if !seenBlock[s.Index] {
			seenBlock[s.Index] = true
			prev[s.Index] = virt
			q = append(q, s.Index)
		}
	}
	for len(q) > 0 {
		bi := q[0]
		q = q[1:]
		g, blocked := scan(fn.Blocks[bi].Instrs)
		if g != nil {
			return append(render(bi), "reaches "+shortInstr(g)+" at "+c.Pos(posOf(g)))
		}
		if blocked {
			continue
		}
		for _, s := range fn.Blocks[bi].Succs {
			if !seenBlock[s.Index] {
				seenBlock[s.Index] = true
				prev[s.Index] = bi
				q = append(q, s.Index)
			}
		}
	}
	return nil
}

// pathAvoidingFromBlock is pathAvoiding starting at the first instruction of block b (inclusive).
func pathAvoidingFromBlock(c *Ctx, fn *ssa.Function, b *ssa.BasicBlock, barrier, goal func(ssa.Instruction) bool) []string {
	if len(b.Instrs) == 0 {
		return nil
	}
	first := b.Instrs[0]
	if barrier(first) {
		return nil
	}
	if goal(first) {
		return []string{c.blockDesc(b), "reaches " + shortInstr(first) + " at " + c.Pos(posOf(first))}
	}
	return pathAvoiding(c, fn, first, barrier, goal)
}
