package main

import (
	"fmt"
	"go/token"
	"go/types"
	"strings"

	"golang.org/x/tools/go/ssa"
)

func init() {
	registerRule("P1", "final before published: every object captured by a registered handler or appended to a served list has been finalized (finalize()/Marshal) on every path before that point", ruleP1)
	registerRule("P2", "exclusive buffers: byte containers reachable from served parts are owned by their part (every store is a fresh allocation or nil), so a reader obtained under the lock stays valid after it is released", ruleP2)
	registerRule("P3", "register/unregister pairing: the only shrink of the segment window unregisters the segment path and every part path, closes the segment, on every path, before dropping it; nothing can return between publishing a segment and trimming the window", ruleP3)
	registerRule("P4", "response shape: headers are set before WriteHeader(200), bodies are written only after WriteHeader(200) with a Content-Type, never after another status; a closure that wrote an error status returns nil", ruleP4)
	registerRule("P5", "URI provenance: every URI a muxer playlist lists is a constant, a path field, or a path constructor call that a registerPath site also uses with the same arguments", ruleP5)
	registerRule("P6", "owned files are released: close() removes the storage it created, Remove removes the created path, stream/muxer close reach every segment, a segment taken out of the open slot is either listed or closed on every path", ruleP6)
}

// methodCallOn: in is a call of a method named name (static or interface) whose receiver is recv.
func methodCallOn(in ssa.Instruction, name string, recv func(ssa.Value) bool) bool {
	ci, ok := in.(ssa.CallInstruction)
	if !ok {
		return false
	}
	cc := ci.Common()
	if cc.IsInvoke() {
		return cc.Method.Name() == name && recv(cc.Value)
	}
	if f := cc.StaticCallee(); f != nil && f.Name() == name && f.Signature.Recv() != nil && len(cc.Args) > 0 {
		return recv(cc.Args[0])
	}
	return false
}

// sameObject: a and b denote the same object modulo interface conversions / assertions.
func sameObject(a, b ssa.Value) bool {
	return canon(a) == canon(b)
}

// marshalledBytes: the byte slice v, used at instruction `at`, is the output of a completed Marshal call: a Marshal
// call dominates `at`; or v is a parameter and this holds for the argument at every call site; or v is the result of
// a library function every non-nil return of which is dominated by a Marshal call.
func (c *Ctx) marshalledBytes(v ssa.Value, at ssa.Instruction, depth int) (bool, string) {
	if depth > 3 {
		return false, ""
	}
	isMarshal := func(in ssa.Instruction) bool {
		call, ok := in.(*ssa.Call)
		return ok && call.Call.StaticCallee() != nil && call.Call.StaticCallee().Name() == "Marshal"
	}
	found := false
	allInstrs(at.Parent(), func(in ssa.Instruction) {
		if isMarshal(in) && instrDominates(in, at) {
			found = true
		}
	})
	if found {
		return true, "a Marshal call dominates the use in " + FuncName(at.Parent())
	}
	switch x := stripConv(v).(type) {
	case *ssa.Parameter:
		fn := x.Parent()
		idx := -1
		for i, p := range fn.Params {
			if p == x {
				idx = i
			}
		}
		n := 0
		for _, e := range c.callersOf(fn) {
			if e.Site == nil || idx < 0 || idx >= len(e.Site.Common().Args) {
				return false, ""
			}
			n++
			if ok, _ := c.marshalledBytes(e.Site.Common().Args[idx], e.Site, depth+1); !ok {
				return false, ""
			}
		}
		if n > 0 {
			return true, "a parameter; at every call site the argument is the output of a completed Marshal"
		}
	case *ssa.Extract:
		call, ok := x.Tuple.(*ssa.Call)
		if !ok {
			return false, ""
		}
		g := call.Call.StaticCallee()
		if g == nil || !InLib(g) || g.Blocks == nil {
			return false, ""
		}
		nret := 0
		for _, b := range g.Blocks {
			ret, ok := b.Instrs[len(b.Instrs)-1].(*ssa.Return)
			if !ok || b == g.Recover {
				continue
			}
			rv := retVal(ret, x.Index)
			if k, isC := rv.(*ssa.Const); isC && k.IsNil() {
				continue
			}
			nret++
			dom := false
			allInstrs(g, func(in ssa.Instruction) {
				if isMarshal(in) && instrDominates(in, ret) {
					dom = true
				}
			})
			if !dom {
				return false, ""
			}
		}
		if nret > 0 {
			return true, "result of " + FuncName(g) + ", which returns the bytes only after Marshal"
		}
	}
	return false, ""
}

func ruleP1(c *Ctx) *RuleResult {
	r := &RuleResult{Floor: 5, FloorWhat: "publication sites"}
	ro := c.roles()
	n := 0
	// (1) objects captured by handler closures
	for _, site := range ro.RegisterSites {
		args := site.Common().Args
		mc, ok := stripConv(args[len(args)-1]).(*ssa.MakeClosure)
		if !ok {
			continue
		}
		fn := site.Parent()
		for bi, b := range mc.Bindings {
			// captured variables are cells (Alloc) holding the object, or the object itself
			obj := b
			var cell *ssa.Alloc
			if al, ok := b.(*ssa.Alloc); ok {
				cell = al
			}
			fv := mc.Fn.(*ssa.Function).FreeVars[bi]
			t := fv.Type()
			if cell != nil {
				t = cell.Type().(*types.Pointer).Elem()
			}
			kind := ""
			switch {
			case typeIs(t, modPath, "muxerPart"):
				kind = "part"
			case typeIs(t, modPath, "muxerSegment"), typeIs(t, modPath, "muxerSegmentFMP4"), typeIs(t, modPath, "muxerSegmentMPEGTS"):
				kind = "segment"
			case isByteSlice(t):
				kind = "init"
			default:
				continue
			}
			n++
			key := fmt.Sprintf("%s|handler %s captures %s", FuncName(fn), FuncName(mc.Fn.(*ssa.Function)), fv.Name())
			what := "the " + kind + " captured by a registered handler was finalized before registerPath on every path"
			isObj := func(v ssa.Value) bool {
				if cell != nil {
					if u, ok := stripAsserts(v).(*ssa.UnOp); ok && u.Op == token.MUL && u.X == cell {
						return true
					}
					// the value stored into the cell
					for _, ref := range *cell.Referrers() {
						if st, ok := ref.(*ssa.Store); ok && st.Addr == cell && sameObject(st.Val, v) {
							return true
						}
					}
					return false
				}
				return sameObject(v, obj)
			}
			var fin ssa.Instruction
			allInstrs(fn, func(in ssa.Instruction) {
				if fin != nil {
					return
				}
				if kind == "init" {
					// the bytes come from w.Bytes() after init.Marshal(&w) succeeded
					if call, ok := in.(*ssa.Call); ok && call.Call.StaticCallee() != nil && call.Call.StaticCallee().Name() == "Marshal" && instrDominates(in, site) {
						fin = in
					}
					return
				}
				if methodCallOn(in, "finalize", isObj) && instrDominates(in, site) {
					fin = in
				}
			})
			if fin == nil && kind == "init" {
				// the bytes were produced by another phase: a parameter whose argument, at every call site, is the
				// result of a function that returns it only after a Marshal call
				src := obj
				if cell != nil {
					// a captured parameter is spilled into a cell at entry: the single value stored there
					var vals []ssa.Value
					for _, ref := range *cell.Referrers() {
						if st, ok := ref.(*ssa.Store); ok && st.Addr == cell {
							vals = append(vals, st.Val)
						}
					}
					if len(vals) == 1 {
						src = vals[0]
					}
				}
				if ok, why := c.marshalledBytes(src, site, 0); ok {
					r.ok(key, c.Pos(site.Pos()), FuncName(fn), what, why)
					continue
				}
			}
			if fin != nil {
				r.ok(key, c.Pos(site.Pos()), FuncName(fn), what, "dominated by "+shortInstr(fin)+" at "+c.Pos(fin.Pos()))
			} else {
				r.fail(key, c.Pos(site.Pos()), FuncName(fn), what, "no finalize()/Marshal call on the captured object dominates the registerPath call: requests can fetch it while it is still being written")
			}
		}
	}
	// (1b) the next storage part of a segment is allocated only after the current part was finalized
	// (the disk backend fixes the finished part's size and the next offset at that moment)
	for _, fn := range c.Funcs {
		var fins, news []ssa.Instruction
		allInstrs(fn, func(in ssa.Instruction) {
			if f := staticCallee(in); f != nil && f == c.Method("", "muxerPart", "finalize") {
				fins = append(fins, in)
			}
			if ci, ok := in.(ssa.CallInstruction); ok && ci.Common().IsInvoke() && ci.Common().Method.Name() == "NewPart" {
				news = append(news, in)
			}
		})
		if len(fins) == 0 || len(news) == 0 {
			continue
		}
		for i, nw := range news {
			n++
			key := fmt.Sprintf("%s|newpart-after-finalize#%d", FuncName(fn), i+1)
			dom := false
			for _, f := range fins {
				if instrDominates(f, nw) {
					dom = true
				}
			}
			if dom {
				r.ok(key, c.Pos(nw.Pos()), FuncName(fn), "in a function that finalizes a part, the next storage part is allocated only after that finalize", "finalize dominates NewPart")
			} else {
				r.fail(key, c.Pos(nw.Pos()), FuncName(fn), "in a function that finalizes a part, the next storage part is allocated only after that finalize",
					"NewPart is reachable before the current part is finalized: the disk backend computes the finished part's size and the next part's offset from a buffer that is still empty")
			}
		}
	}
	// (2) appends to served lists
	for _, spec := range []struct{ typ, field, kind string }{{"muxerStream", "segments", "segment"}, {"muxerSegmentFMP4", "parts", "part"}} {
		fld := c.Field("", spec.typ, spec.field)
		if fld == nil {
			r.undecided("%s.%s not found", spec.typ, spec.field)
			continue
		}
		for _, fn := range c.Funcs {
			cnt := 0
			allInstrs(fn, func(in ssa.Instruction) {
				st, ok := in.(*ssa.Store)
				if !ok {
					return
				}
				if f, _ := fieldOfAddr(st.Addr); f != fld {
					return
				}
				call, ok := st.Val.(*ssa.Call)
				if !ok {
					return
				}
				if b, ok := call.Call.Value.(*ssa.Builtin); !ok || b.Name() != "append" {
					return
				}
				// appended elements
				var elems []ssa.Value
				if sl, ok := call.Call.Args[1].(*ssa.Slice); ok {
					if al, ok := sl.X.(*ssa.Alloc); ok {
						for _, ref := range *al.Referrers() {
							if ia, ok := ref.(*ssa.IndexAddr); ok {
								for _, rr := range *ia.Referrers() {
									if s2, ok := rr.(*ssa.Store); ok {
										elems = append(elems, s2.Val)
									}
								}
							}
						}
					}
				}
				for _, e := range elems {
					if _, fresh := stripAsserts(e).(*ssa.Alloc); fresh {
						continue // gap placeholders and other objects created right here
					}
					cnt++
					n++
					key := fmt.Sprintf("%s|append to %s#%d", FuncName(fn), spec.field, cnt)
					what := "a " + spec.kind + " is appended to the served list only after finalize() on every path"
					var fin ssa.Instruction
					allInstrs(fn, func(x ssa.Instruction) {
						if fin == nil && methodCallOn(x, "finalize", func(v ssa.Value) bool { return sameObject(v, e) }) && instrDominates(x, st) {
							fin = x
						}
					})
					if fin != nil {
						r.ok(key, c.Pos(st.Pos()), FuncName(fn), what, "dominated by finalize at "+c.Pos(fin.Pos()))
					} else {
						r.fail(key, c.Pos(st.Pos()), FuncName(fn), what, "no finalize() on the appended object dominates the append")
					}
				}
			})
		}
	}
	r.Instances = n
	return r
}

func ruleP2(c *Ctx) *RuleResult {
	r := &RuleResult{Floor: 1, FloorWhat: "byte-container pointer fields of storage structs"}
	sc := c.Pkg("pkg/storage").Scope()
	for _, name := range sc.Names() {
		tn, ok := sc.Lookup(name).(*types.TypeName)
		if !ok {
			continue
		}
		st, ok := tn.Type().Underlying().(*types.Struct)
		if !ok {
			continue
		}
		for i := 0; i < st.NumFields(); i++ {
			f := st.Field(i)
			p, ok := f.Type().(*types.Pointer)
			if !ok {
				continue
			}
			n := namedOf(p.Elem())
			if n == nil || n.Obj().Pkg() == nil {
				continue
			}
			pk := n.Obj().Pkg().Path()
			if !(strings.HasSuffix(pk, "seekablebuffer") || (pk == "bytes" && n.Obj().Name() == "Buffer")) {
				continue
			}
			key := tn.Name() + "." + f.Name()
			if c.ownedField(f) {
				r.ok(key, c.Pos(f.Pos()), "", "every store to this buffer field is nil or a buffer allocated by the storing function", "exclusive ownership: no recycling, no sharing")
			} else {
				r.fail(key, c.Pos(f.Pos()), "", "every store to this buffer field is nil or a buffer allocated by the storing function",
					"a store assigns a buffer that is not freshly allocated (pooled / shared): a request that obtained bytes.NewReader(buffer.Bytes()) under the lock keeps reading memory that a later part overwrites")
			}
		}
	}
	return r
}

// ---------------------------------------------------------------------------
// P3

func ruleP3(c *Ctx) *RuleResult {
	r := &RuleResult{Floor: 7, FloorWhat: "window obligations"}
	segF := c.Field("", "muxerStream", "segments")
	partsF := c.Field("", "muxerSegmentFMP4", "parts")
	partPathF := c.Field("", "muxerPart", "path")
	unreg := c.pathTableFn("unregister")
	if segF == nil || partsF == nil || partPathF == nil || unreg == nil {
		r.undecided("muxerStream.segments / muxerSegmentFMP4.parts / muxerPart.path / unregisterPath not found")
		return r
	}
	type shrink struct {
		fn *ssa.Function
		st *ssa.Store
	}
	var shrinks []shrink
	var appends []*ssa.Store
	for _, fn := range c.Funcs {
		allInstrs(fn, func(in ssa.Instruction) {
			st, ok := in.(*ssa.Store)
			if !ok {
				return
			}
			if f, _ := fieldOfAddr(st.Addr); f != segF {
				return
			}
			switch v := st.Val.(type) {
			case *ssa.Slice:
				shrinks = append(shrinks, shrink{fn, st})
			case *ssa.Call:
				if b, ok := v.Call.Value.(*ssa.Builtin); ok && b.Name() == "append" {
					appends = append(appends, st)
				}
			default:
				if k, ok := st.Val.(*ssa.Const); !ok || !k.IsNil() {
					r.fail(FuncName(fn)+"|segments-store", c.Pos(st.Pos()), FuncName(fn), "the segment window is only changed by append and by dropping its head", "stored value "+st.Val.String())
				}
			}
		})
	}
	if len(shrinks) != 1 {
		r.fail("muxerStream.segments|single-shrink", "-", "", "there is exactly one place that shrinks the segment window", fmt.Sprintf("%d shrink sites", len(shrinks)))
		return r
	}
	sh := shrinks[0]
	fn := sh.fn
	sl := sh.st.Val.(*ssa.Slice)
	// the dropped element: s.segments[0] loaded in this function
	var dropped ssa.Value
	allInstrs(fn, func(in ssa.Instruction) {
		if u, ok := in.(*ssa.UnOp); ok && u.Op == token.MUL {
			if ia, ok := u.X.(*ssa.IndexAddr); ok {
				if f, _ := loadedField(ia.X); f == segF {
					if k, ok := constInt(ia.Index); ok && k == 0 && instrDominates(in, sh.st) {
						dropped = u
					}
				}
			}
		}
	})
	low, okLow := constInt(sl.Low)
	if okLow && low == 1 && sl.High == nil && dropped != nil {
		r.ok("rotateSegments|drop-head", c.Pos(sh.st.Pos()), FuncName(fn), "the window shrinks by exactly its head element", "s.segments = s.segments[1:], head loaded as "+dropped.Name())
	} else {
		r.fail("rotateSegments|drop-head", c.Pos(sh.st.Pos()), FuncName(fn), "the window shrinks by exactly its head element", "shrink is "+sl.String()+" (head element load found: "+fmt.Sprint(dropped != nil)+")")
		return r
	}
	// guard If that dominates the shrink: len(segments) > segmentCount
	var guard *ssa.If
	for _, ci := range ifsOn(fn, func(v ssa.Value) bool {
		bo, ok := v.(*ssa.BinOp)
		return ok && bo.Op == token.GTR && isLenOfField(bo.X, segF)
	}) {
		if onlyIf(fn, sh.st, []condIf{ci}, true) {
			guard = ci.If
		}
	}
	// the guard may sit in the only caller of a helper that does the drop (`if over { s.deleteOldestSegment() }`)
	guardFn := fn
	var guardCall ssa.Instruction
	if guard == nil {
		edges := c.callersOf(fn)
		if len(edges) == 1 && edges[0].Site != nil {
			caller := edges[0].Caller.Func
			site, _ := edges[0].Site.(ssa.Instruction)
			for _, ci := range ifsOn(caller, func(v ssa.Value) bool {
				bo, ok := v.(*ssa.BinOp)
				return ok && bo.Op == token.GTR && isLenOfField(bo.X, segF)
			}) {
				if site != nil && onlyIf(caller, site, []condIf{ci}, true) {
					guard, guardFn, guardCall = ci.If, caller, site
				}
			}
		}
	}
	if guard == nil {
		r.fail("rotateSegments|drop-guard", c.Pos(sh.st.Pos()), FuncName(fn), "the drop is control dependent on len(s.segments) > s.segmentCount", "no such guard")
		return r
	}
	r.ok("rotateSegments|drop-guard", c.Pos(guard.Pos()), FuncName(guardFn), "the drop is control dependent on len(s.segments) > s.segmentCount", "guard found")
	// ... and on nothing else: once the window is over its bound, every path drops the head before it returns
	{
		th := guard.Block().Succs[0]
		var bad []string
		isRet := func(x ssa.Instruction) bool {
			_, ok := x.(*ssa.Return)
			return ok
		}
		if guardFn == fn {
			bad = pathAvoidingFromBlock(c, fn, th, func(x ssa.Instruction) bool { return x == sh.st }, isRet)
		} else {
			// in the caller every path from the true branch reaches the helper; in the helper every path shrinks
			bad = pathAvoidingFromBlock(c, guardFn, th, func(x ssa.Instruction) bool { return x == guardCall }, isRet)
			if bad == nil {
				bad = pathAvoidingFromBlock(c, fn, fn.Blocks[0], func(x ssa.Instruction) bool { return x == sh.st }, isRet)
			}
		}
		if bad == nil {
			r.ok("rotateSegments|drop-whenever", c.Pos(guard.Pos()), FuncName(fn), "whenever len(s.segments) > s.segmentCount the head is dropped before the function returns", "every path from the guard's true branch to a return passes the shrink")
		} else {
			r.fail("rotateSegments|drop-whenever", c.Pos(guard.Pos()), FuncName(fn), "whenever len(s.segments) > s.segmentCount the head is dropped before the function returns",
				"a path from the true branch of the guard returns without the shrink (a further condition): one rotation drops at most one segment, so an excess that is once skipped never goes away and the window, the path table and the files exceed SegmentCount for good", bad...)
		}
	}

	isDropped := func(v ssa.Value) bool { return sameObject(v, dropped) }
	thenBlock := guard.Block().Succs[0]
	if guardFn != fn {
		thenBlock = fn.Blocks[0]
	}
	first := thenBlock.Instrs[0]
	mustPass := func(desc string, pred func(ssa.Instruction) bool) (bool, []string) {
		// every path from the guard's true branch to the shrink passes an instruction satisfying pred
		var virt ssa.Instruction = guard
		_ = first
		if guardFn != fn {
			// the whole helper runs under the guard
			if pred(first) {
				return true, nil
			}
			bad := pathAvoidingFromBlock(c, fn, fn.Blocks[0], pred, func(x ssa.Instruction) bool { return x == sh.st })
			return bad == nil, bad
		}
		bad := pathAvoiding(c, fn, virt, pred, func(x ssa.Instruction) bool { return x == sh.st })
		// paths through the false branch never reach the shrink (checked by drop-guard)
		return bad == nil, bad
	}
	// close()
	if ok, bad := mustPass("close", func(x ssa.Instruction) bool { return methodCallOn(x, "close", isDropped) }); ok {
		r.ok("rotateSegments|drop-close", c.Pos(sh.st.Pos()), FuncName(fn), "the dropped segment is closed (storage removed) on every path before it leaves the window", "close() on the head element on every path")
	} else {
		r.fail("rotateSegments|drop-close", c.Pos(sh.st.Pos()), FuncName(fn), "the dropped segment is closed (storage removed) on every path before it leaves the window",
			"a path drops the head without close(): its file stays in Directory and can no longer be reached by Close", bad...)
	}
	// unregisterPath(dropped.getPath())
	isPathOfDropped := func(v ssa.Value) bool {
		if call, ok := v.(*ssa.Call); ok {
			if call.Call.IsInvoke() && call.Call.Method.Name() == "getPath" && isDropped(call.Call.Value) {
				return true
			}
		}
		if f, b := loadedField(v); f != nil && f.Name() == "path" && isDropped(b) {
			return true
		}
		return false
	}
	if ok, bad := mustPass("unregister", func(x ssa.Instruction) bool {
		call, ok := x.(*ssa.Call)
		return ok && call.Call.StaticCallee() == unreg && isPathOfDropped(call.Call.Args[1])
	}); ok {
		r.ok("rotateSegments|drop-unregister", c.Pos(sh.st.Pos()), FuncName(fn), "the dropped segment's path is unregistered on every path", "unregisterPath(head.getPath())")
	} else {
		r.fail("rotateSegments|drop-unregister", c.Pos(sh.st.Pos()), FuncName(fn), "the dropped segment's path is unregistered on every path",
			"a path drops the head while its URL keeps resolving", bad...)
	}
	// parts loop: a range over the parts of the (type-asserted) head calling unregisterPath(part.path)
	var partsLoad ssa.Instruction
	var partUnreg ssa.Instruction
	allInstrs(fn, func(in ssa.Instruction) {
		if u, ok := in.(*ssa.UnOp); ok && u.Op == token.MUL {
			if f, b := fieldOfAddr(u.X); f == partsF && isDropped(b) {
				partsLoad = in
			}
		}
		if call, ok := in.(*ssa.Call); ok && call.Call.StaticCallee() == unreg {
			if f, b := loadedField(call.Call.Args[1]); f == partPathF {
				// the part comes from an element of the loaded parts slice
				if u, ok := b.(*ssa.UnOp); ok {
					if ia, ok := u.X.(*ssa.IndexAddr); ok && partsLoad != nil && ia.X == partsLoad.(ssa.Value) {
						partUnreg = in
					}
				}
			}
		}
	})
	switch {
	case partsLoad == nil || partUnreg == nil:
		r.fail("rotateSegments|drop-parts", c.Pos(sh.st.Pos()), FuncName(fn), "every part path of the dropped segment is unregistered", "no loop over the head's parts that calls unregisterPath(part.path)")
	case !inLoop(partUnreg) || !instrReaches(partsLoad, sh.st):
		r.fail("rotateSegments|drop-parts", c.Pos(partUnreg.Pos()), FuncName(fn), "every part path of the dropped segment is unregistered", "the unregister call is not inside a loop over the parts that precedes the shrink")
	default:
		// nothing that may modify `parts` of the head runs before the loop reads it
		culprit := ""
		allInstrs(fn, func(in ssa.Instruction) {
			ci, ok := in.(ssa.CallInstruction)
			if !ok || !instrReaches(in, partsLoad) || guardFn == fn && !instrDominates(guard, in) && in.Block() != thenBlock {
				return
			}
			if classifySync(ci.Common()) != opNone {
				return
			}
			// only calls made after the head was loaded matter
			if dv, ok := dropped.(ssa.Instruction); ok && !instrReaches(dv, in) {
				return
			}
			for _, g := range c.calleesOf(ci) {
				if c.modSet(g)[partsF] {
					culprit = shortInstr(in) + " at " + c.Pos(in.Pos()) + " may modify " + c.fieldName(partsF)
				}
			}
		})
		// the loop runs whenever the head is an fMP4 segment: the only way round the load of head.parts is the
		// failed branch of a type test of the head
		skipWhy := ""
		if culprit == "" {
			cut := map[edge]bool{}
			for _, ci := range ifsOn(fn, func(v ssa.Value) bool {
				ex, ok := v.(*ssa.Extract)
				if !ok || ex.Index != 1 {
					return false
				}
				ta, ok := ex.Tuple.(*ssa.TypeAssert)
				return ok && ta.CommaOk && isDropped(ta.X)
			}) {
				b := ci.If.Block()
				idx := 1
				if !ci.Pol {
					idx = 0
				}
				cut[edge{b.Index, b.Succs[idx].Index}] = true
			}
			if partsLoad.Block() != thenBlock {
				seen := reachableBlocks(fn, thenBlock.Index, cut, map[int]bool{partsLoad.Block().Index: true})
				if seen[sh.st.Block().Index] {
					skipWhy = "the loop over the head's parts can be skipped by a condition other than the type test of the head (Low-Latency segments are fMP4 segments too): their part URLs, and the part buffers the handlers capture, are never released"
				}
			}
		}
		if skipWhy != "" {
			r.fail("rotateSegments|drop-parts", c.Pos(partsLoad.Pos()), FuncName(fn), "every part path of the dropped segment is unregistered whenever the head is an fMP4 segment", skipWhy)
		} else if culprit != "" {
			r.fail("rotateSegments|drop-parts", c.Pos(partsLoad.Pos()), FuncName(fn), "the part list of the dropped segment is intact when its part paths are unregistered", culprit+" before the loop reads it: the loop may iterate an emptied list and part URLs keep resolving")
		} else {
			r.ok("rotateSegments|drop-parts", c.Pos(partUnreg.Pos()), FuncName(fn), "every part path of the dropped segment is unregistered, from an unmodified part list", "range over head.parts → unregisterPath(part.path)")
		}
	}
	// nothing can return between publishing a segment (append) and the window guard
	for i, ap := range appends {
		// only the append of the finished segment (not the gap prefill in a loop)
		if inLoop(ap) {
			continue
		}
		key := fmt.Sprintf("rotateSegments|trim-after-append#%d", i+1)
		afn := ap.Parent()
		isGuard := func(x ssa.Instruction) bool { return x == guard }
		if afn != fn && afn == guardFn {
			// append and guard share the caller of the drop helper: the guard itself is the anchor
		} else if afn != fn {
			// the trim lives in a helper: the call of that helper plays the part of the guard
			called := false
			allInstrs(afn, func(x ssa.Instruction) {
				if call, ok := x.(*ssa.Call); ok && call.Call.StaticCallee() == fn {
					called = true
				}
			})
			if !called {
				continue
			}
			isGuard = func(x ssa.Instruction) bool {
				call, ok := x.(*ssa.Call)
				return ok && call.Call.StaticCallee() == fn
			}
		}
		bad := pathAvoiding(c, afn, ap, isGuard, func(x ssa.Instruction) bool {
			_, isRet := x.(*ssa.Return)
			return isRet
		})
		if bad == nil {
			r.ok(key, c.Pos(ap.Pos()), FuncName(fn), "after a segment is appended every path evaluates the window guard before it can return", "no return between the append and the guard")
		} else {
			r.fail(key, c.Pos(ap.Pos()), FuncName(fn), "after a segment is appended every path evaluates the window guard before it can return",
				"an (error) return lies between the append and the trim: each such fault leaves one more segment listed, on disk and in the URL table, forever (at most one is dropped per rotation)", bad...)
		}
	}
	return r
}

// ---------------------------------------------------------------------------
// P4

func isRespWriterMethod(in ssa.Instruction, name string) (*ssa.CallCommon, bool) {
	ci, ok := in.(ssa.CallInstruction)
	if !ok {
		return nil, false
	}
	cc := ci.Common()
	if cc.IsInvoke() && cc.Method.Name() == name && typeIs(cc.Value.Type(), "net/http", "ResponseWriter") {
		return cc, true
	}
	return nil, false
}

func ruleP4(c *Ctx) *RuleResult {
	r := &RuleResult{Floor: 6, FloorWhat: "handler functions that write a response"}
	ro := c.roles()
	set := c.reachRole(ro.Handlers)
	n := 0
	for _, fn := range c.Funcs {
		if !set[fn] || !InRootPkg(fn) {
			continue
		}
		var ok200, other, sets, bodies []ssa.Instruction
		hasCT := map[ssa.Instruction]bool{}
		allInstrs(fn, func(in ssa.Instruction) {
			if cc, ok := isRespWriterMethod(in, "WriteHeader"); ok {
				if k, isK := constInt(cc.Args[0]); isK && k == 200 {
					ok200 = append(ok200, in)
				} else {
					other = append(other, in)
				}
			}
			if _, ok := isRespWriterMethod(in, "Write"); ok {
				bodies = append(bodies, in)
			}
			if call, ok := in.(*ssa.Call); ok {
				if (isFuncNamed(call.Call.StaticCallee(), "io", "Copy") || isFuncNamed(call.Call.StaticCallee(), "io", "CopyBuffer")) && typeIs(stripConv(call.Call.Args[0]).Type(), "net/http", "ResponseWriter") {
					bodies = append(bodies, in)
				}
				if isMethodNamed(call.Call.StaticCallee(), "net/http", "Header", "Set") {
					sets = append(sets, in)
					if s, ok := constString(call.Call.Args[1]); ok && s == "Content-Type" {
						hasCT[in] = true
					}
				}
			}
		})
		if len(ok200)+len(other)+len(bodies) == 0 {
			continue
		}
		n++
		fnn := FuncName(fn)
		for i, b := range bodies {
			key := fmt.Sprintf("%s|body#%d", fnn, i+1)
			dom := false
			for _, h := range ok200 {
				if instrDominates(h, b) {
					dom = true
				}
			}
			after := ""
			for _, h := range other {
				if instrReaches(h, b) {
					after = c.Pos(h.Pos())
				}
			}
			switch {
			case !dom:
				r.fail(key, c.Pos(posOf(b)), fnn, "a body is written only after WriteHeader(200)", "no WriteHeader(200) dominates this write")
			case after != "":
				r.fail(key, c.Pos(posOf(b)), fnn, "no body is written after a non-200 status", "reachable from the WriteHeader at "+after)
			default:
				r.ok(key, c.Pos(posOf(b)), fnn, "a body is written only after WriteHeader(200) and never after another status", "dominated by WriteHeader(200)")
			}
		}
		for i, h := range ok200 {
			key := fmt.Sprintf("%s|status200#%d", fnn, i+1)
			ct := false
			late := ""
			for _, s := range sets {
				if hasCT[s] && instrDominates(s, h) {
					ct = true
				}
				if instrReaches(h, s) {
					late = c.Pos(s.Pos())
				}
			}
			switch {
			case !ct:
				r.fail(key, c.Pos(h.Pos()), fnn, "WriteHeader(200) is preceded by Header().Set(\"Content-Type\", …) on every path", "no dominating Content-Type")
			case late != "":
				r.fail(key, c.Pos(h.Pos()), fnn, "no header is set after WriteHeader", "Header().Set at "+late+" is reachable after the status was written (it is silently ignored)")
			default:
				r.ok(key, c.Pos(h.Pos()), fnn, "WriteHeader(200) is preceded by its Content-Type and followed by no header change", "ok")
			}
		}
		// closures that write an error status return nil afterwards, and the parent's 200 path requires a non-nil result
		if fn.Parent() != nil && len(other) > 0 && fn.Signature.Results().Len() == 1 {
			for i, h := range other {
				key := fmt.Sprintf("%s|error-status-returns-nil#%d", fnn, i+1)
				bad := false
				allInstrs(fn, func(in ssa.Instruction) {
					if ret, ok := in.(*ssa.Return); ok && instrReaches(h, ret) {
						if k, ok := retVal(ret, 0).(*ssa.Const); !ok || !k.IsNil() {
							bad = true
						}
					}
				})
				if bad {
					r.fail(key, c.Pos(h.Pos()), fnn, "after writing an error status the closure returns nil (so the caller writes nothing more)", "a non-nil result is returned after the error status")
				} else {
					r.ok(key, c.Pos(h.Pos()), fnn, "after writing an error status the closure returns nil (so the caller writes nothing more)", "every return reachable from it returns nil")
				}
			}
			// parent: the 200 path is control dependent on result != nil
			par := fn.Parent()
			allInstrs(par, func(in ssa.Instruction) {
				call, ok := in.(*ssa.Call)
				if !ok || call.Call.StaticCallee() != fn {
					return
				}
				conds := ifsOnV(par, func(v ssa.Value) bool {
					bo, ok := v.(*ssa.BinOp)
					if !ok || bo.Op != token.NEQ {
						return false
					}
					k, isNil := bo.Y.(*ssa.Const)
					return isNil && k.IsNil() && bo.X == call
				})
				allInstrs(par, func(x ssa.Instruction) {
					if cc, ok := isRespWriterMethod(x, "WriteHeader"); ok && instrReaches(call, x) {
						if k, isK := constInt(cc.Args[0]); isK && k == 200 {
							key := fmt.Sprintf("%s|200-needs-result", FuncName(par))
							if len(conds) > 0 && onlyIf(par, x, conds, true) {
								r.ok(key, c.Pos(x.Pos()), FuncName(par), "the 200 response is written only if the closure returned a playlist", "control dependent on result != nil")
							} else {
								r.fail(key, c.Pos(x.Pos()), FuncName(par), "the 200 response is written only if the closure returned a playlist", "200 is written although the closure may already have written an error status")
							}
						}
					}
				})
			})
		}
	}
	r.Instances = n
	return r
}

// ---------------------------------------------------------------------------
// P5

var pathConstructors = []string{"initFilePath", "partPath", "mediaPlaylistPath", "segmentPath"}

func ruleP5(c *Ctx) *RuleResult {
	r := &RuleResult{Floor: 8, FloorWhat: "URI stores in muxer code"}
	ro := c.roles()
	ctor := map[*ssa.Function]bool{}
	for _, n := range pathConstructors {
		if f := c.Func("", n); f != nil {
			ctor[f] = true
		}
	}
	if len(ctor) != len(pathConstructors) {
		r.undecided("path constructors not all found")
		return r
	}
	// what the registerPath sites use
	type regUse struct {
		ctor *ssa.Function
		args []string
		path *types.Var // `path` field used
		pos  string
	}
	var regs []regUse
	normArgs := func(call *ssa.Call) []string {
		var out []string
		for _, a := range call.Call.Args {
			out = append(out, fieldChain(canon(a)))
		}
		return out
	}
	for _, site := range ro.RegisterSites {
		p := canon(site.Common().Args[1])
		switch x := p.(type) {
		case *ssa.Call:
			if ctor[x.Call.StaticCallee()] {
				regs = append(regs, regUse{ctor: x.Call.StaticCallee(), args: normArgs(x), pos: c.Pos(site.Pos())})
				continue
			}
			if x.Call.IsInvoke() && x.Call.Method.Name() == "getPath" {
				regs = append(regs, regUse{path: nil, pos: c.Pos(site.Pos()), ctor: nil, args: []string{"getPath"}})
				continue
			}
		}
		if f, _ := loadedField(p); f != nil && f.Name() == "path" {
			regs = append(regs, regUse{path: f, pos: c.Pos(site.Pos())})
			continue
		}
		if _, ok := constString(p); ok {
			continue
		}
		r.fail("register|"+c.Pos(site.Pos()), c.Pos(site.Pos()), FuncName(site.Parent()), "every registered path is a constant, a path field or a path constructor call", "registered path is "+p.String())
	}
	// `path` fields are assigned from a constructor in initialize
	for _, t := range []string{"muxerSegmentFMP4", "muxerSegmentMPEGTS", "muxerPart"} {
		f := c.Field("", t, "path")
		if f == nil {
			r.undecided("%s.path not found", t)
			continue
		}
		okAll, n := true, 0
		for _, fn := range c.Funcs {
			allInstrs(fn, func(in ssa.Instruction) {
				if st, ok := in.(*ssa.Store); ok {
					if ff, _ := fieldOfAddr(st.Addr); ff == f {
						n++
						call, ok := st.Val.(*ssa.Call)
						if !ok || !ctor[call.Call.StaticCallee()] {
							okAll = false
						}
					}
				}
			})
		}
		if okAll && n > 0 {
			r.ok(t+".path|ctor", c.Pos(f.Pos()), "", t+".path is only assigned from a path constructor", fmt.Sprintf("%d store(s)", n))
		} else {
			r.fail(t+".path|ctor", c.Pos(f.Pos()), "", t+".path is only assigned from a path constructor", "a store assigns something else (or no store found)")
		}
	}
	// URI stores
	wset := c.reachRole(append(append([]*ssa.Function{}, ro.R...), ro.W...))
	for _, fn := range c.Funcs {
		if !wset[fn] || !InRootPkg(fn) {
			continue
		}
		cnt := 0
		allInstrs(fn, func(in ssa.Instruction) {
			st, ok := in.(*ssa.Store)
			if !ok {
				return
			}
			f, _ := fieldOfAddr(st.Addr)
			if f == nil || f.Name() != "URI" || f.Pkg() == nil || f.Pkg().Path() != modPath+"/pkg/playlist" {
				return
			}
			cnt++
			key := fmt.Sprintf("%s|%s#%d", FuncName(fn), c.fieldName(f), cnt)
			what := "a listed URI is what a registerPath site registers for the same object kind"
			v := st.Val
			var base ssa.Value
			if al, ok := v.(*ssa.Alloc); ok {
				// *string URIs: address of a local variable
				base = cellBase(al, 0)
			} else {
				base = uriBase(v, 0)
			}
			if base == nil {
				r.fail(key, c.Pos(st.Pos()), FuncName(fn), what, "cannot determine the base of the stored URI "+v.String())
				return
			}
			if s, ok := constString(base); ok {
				r.ok(key, c.Pos(st.Pos()), FuncName(fn), what, fmt.Sprintf("constant %q", s))
				return
			}
			if pf, _ := loadedField(base); pf != nil && pf.Name() == "path" {
				r.ok(key, c.Pos(st.Pos()), FuncName(fn), what, "the object's path field "+c.fieldName(pf)+", which is also what is registered")
				return
			}
			if call, ok := base.(*ssa.Call); ok && ctor[call.Call.StaticCallee()] {
				args := normArgs(call)
				for _, rg := range regs {
					if rg.ctor == call.Call.StaticCallee() && strings.Join(rg.args, ",") == strings.Join(args, ",") {
						r.ok(key, c.Pos(st.Pos()), FuncName(fn), what, call.Call.StaticCallee().Name()+"("+strings.Join(args, ", ")+") as registered at "+rg.pos)
						return
					}
				}
				var have []string
				for _, rg := range regs {
					if rg.ctor != nil {
						have = append(have, rg.ctor.Name()+"("+strings.Join(rg.args, ", ")+")")
					}
				}
				r.fail(key, c.Pos(st.Pos()), FuncName(fn), what, "no registerPath site uses "+call.Call.StaticCallee().Name()+"("+strings.Join(args, ", ")+"): the listed URI does not resolve (registered: "+strings.Join(have, "; ")+")")
				return
			}
			r.fail(key, c.Pos(st.Pos()), FuncName(fn), what, "URI base is "+base.String())
		})
	}
	return r
}

// fieldChain renders an argument as a receiver-relative field chain ("s.prefix"), so that the same
// expression in two methods of the same type compares equal.
func fieldChain(v ssa.Value) string {
	s := accessPath(v)
	s = strings.ReplaceAll(s, "*(", "")
	s = strings.ReplaceAll(s, ")", "")
	s = strings.ReplaceAll(s, "param:", "")
	s = strings.ReplaceAll(s, "free:", "")
	s = strings.ReplaceAll(s, "alloc:", "")
	return s
}

// uriBase strips the optional query suffix: phi(base, base + "?" + q) → base.
func uriBase(v ssa.Value, depth int) ssa.Value {
	if depth > 6 {
		return nil
	}
	switch x := v.(type) {
	case *ssa.Phi:
		var base ssa.Value
		for _, e := range x.Edges {
			b := uriBase(e, depth+1)
			if b == nil {
				return nil
			}
			if base != nil && b != base {
				return nil
			}
			base = b
		}
		return base
	case *ssa.BinOp:
		if x.Op == token.ADD {
			ls := flatten(x, 0)
			if len(ls) >= 2 && ls[1].kind == "" && strings.HasPrefix(ls[1].text, "?") {
				if ls[0].kind == "" {
					return nil
				}
				return ls[0].val
			}
			return nil
		}
	case *ssa.UnOp:
		// a local cell (address-taken variable): uri := ctor(...); if q != "" { uri += "?" + q }
		if al, ok := x.X.(*ssa.Alloc); ok && x.Op == token.MUL {
			return cellBase(al, depth)
		}
		return v
	case *ssa.Call:
		// a helper that appends the query (`appendRawQuery(uri, q)`): the base of its first argument
		if bi, _, ok := queryAppender(x.Call.StaticCallee()); ok {
			return uriBase(x.Call.Args[bi], depth+1)
		}
		return v
	case *ssa.Const:
		return v
	}
	return nil
}

// queryAppender recognises a library function with string parameters every return of which is one parameter, or that
// parameter + "?" + another parameter. It returns the indices of the base and of the query parameter.
func queryAppender(g *ssa.Function) (baseIdx, qIdx int, ok bool) {
	if g == nil || !InLib(g) || g.Blocks == nil || g.Signature.Results().Len() != 1 || !isStringType(g.Signature.Results().At(0).Type()) {
		return 0, 0, false
	}
	idxOf := func(v ssa.Value) int {
		for i, p := range g.Params {
			if v == ssa.Value(p) {
				return i
			}
		}
		return -1
	}
	baseIdx, qIdx = -1, -1
	n := 0
	var alts []ssa.Value
	for _, b := range g.Blocks {
		if ret, isRet := b.Instrs[len(b.Instrs)-1].(*ssa.Return); isRet && b != g.Recover {
			v := retVal(ret, 0)
			if phi, isPhi := v.(*ssa.Phi); isPhi {
				alts = append(alts, phi.Edges...)
			} else {
				alts = append(alts, v)
			}
		}
	}
	for _, v := range alts {
		n++
		if i := idxOf(v); i >= 0 {
			if baseIdx >= 0 && baseIdx != i {
				return 0, 0, false
			}
			baseIdx = i
			continue
		}
		ls := flatten(v, 0)
		if len(ls) == 3 && ls[0].kind != "" && ls[1].kind == "" && ls[1].text == "?" && ls[2].kind != "" {
			bi, qi := idxOf(ls[0].val), idxOf(ls[2].val)
			if bi < 0 || qi < 0 || (baseIdx >= 0 && baseIdx != bi) {
				return 0, 0, false
			}
			baseIdx, qIdx = bi, qi
			continue
		}
		return 0, 0, false
	}
	return baseIdx, qIdx, n > 0 && baseIdx >= 0 && qIdx >= 0
}

// ---------------------------------------------------------------------------
// P6

func ruleP6(c *Ctx) *RuleResult {
	r := &RuleResult{Floor: 7, FloorWhat: "file-ownership obligations"}
	// (a) close() of segment types removes own storage on every path
	for _, t := range []string{"muxerSegmentFMP4", "muxerSegmentMPEGTS"} {
		fn := c.Method("", t, "close")
		stor := c.Field("", t, "storage")
		key := t + ".close|removes-storage"
		if fn == nil || stor == nil {
			r.undecided("%s.close / storage not found", t)
			continue
		}
		first := fn.Blocks[0].Instrs[0]
		isRemove := func(x ssa.Instruction) bool {
			return methodCallOn(x, "Remove", func(v ssa.Value) bool { f, _ := loadedField(v); return f == stor })
		}
		bad := pathAvoiding(c, fn, first, isRemove, func(x ssa.Instruction) bool { _, ok := x.(*ssa.Return); return ok })
		if isRemove(first) {
			bad = nil
		}
		if bad == nil {
			r.ok(key, c.Pos(fn.Pos()), FuncName(fn), "close() calls Remove on the storage the segment created, on every path", "s.storage.Remove()")
		} else {
			r.fail(key, c.Pos(fn.Pos()), FuncName(fn), "close() calls Remove on the storage the segment created, on every path", "a path returns without Remove", bad...)
		}
		// storage is created in initialize from the factory
		ini := c.Method("", t, "initialize")
		okInit := false
		if ini != nil {
			allInstrs(ini, func(in ssa.Instruction) {
				if st, ok := in.(*ssa.Store); ok {
					if f, _ := fieldOfAddr(st.Addr); f == stor {
						if ex, ok := st.Val.(*ssa.Extract); ok {
							if call, ok := ex.Tuple.(*ssa.Call); ok && call.Call.IsInvoke() && call.Call.Method.Name() == "NewFile" {
								okInit = true
							}
						}
					}
				}
			})
		}
		if okInit {
			r.ok(t+".initialize|creates-storage", c.Pos(ini.Pos()), FuncName(ini), "the storage field holds the file created by initialize()", "storageFactory.NewFile result")
		} else {
			r.undecided("%s: %s — %s (the construct this rule is anchored on was not found: no verdict)", t+".initialize|creates-storage", "the storage field holds the file created by initialize()", "no store of a NewFile result into the storage field")
		}
	}
	// (b) fileDisk.Remove removes the path given to os.Create
	if rm, nf := c.Method("pkg/storage", "fileDisk", "Remove"), c.Func("pkg/storage", "newFileDisk"); rm != nil && nf != nil {
		// the path field: the field of the file object that receives the argument of os.Create / os.OpenFile
		var created ssa.Value
		allInstrs(nf, func(in ssa.Instruction) {
			if call, ok := in.(*ssa.Call); ok && (isFuncNamed(call.Call.StaticCallee(), "os", "Create") || isFuncNamed(call.Call.StaticCallee(), "os", "OpenFile")) {
				created = call.Call.Args[0]
			}
		})
		var fpath *types.Var
		okCreate := false
		allInstrs(nf, func(in ssa.Instruction) {
			if st, ok := in.(*ssa.Store); ok && created != nil && st.Val == created {
				if f, _ := fieldOfAddr(st.Addr); f != nil {
					fpath = f
					okCreate = true
				}
			}
		})
		okRm := false
		nRemove := 0
		allInstrs(rm, func(in ssa.Instruction) {
			if call, ok := in.(*ssa.Call); ok && isFuncNamed(call.Call.StaticCallee(), "os", "Remove") {
				nRemove++
				if f, _ := loadedField(call.Call.Args[0]); f != nil && f == fpath {
					okRm = true
				}
			}
		})
		// the file starts empty: os.Create, or os.OpenFile with O_TRUNC or O_EXCL
		allInstrs(nf, func(in ssa.Instruction) {
			call, ok := in.(*ssa.Call)
			if !ok {
				return
			}
			what := "a new disk file starts empty (parts are written at offsets: a longer stale file under the same name would keep its tail)"
			switch {
			case isFuncNamed(call.Call.StaticCallee(), "os", "Create"):
				r.ok("fileDisk|created-empty", c.Pos(call.Pos()), FuncName(nf), what, "os.Create truncates")
			case isFuncNamed(call.Call.StaticCallee(), "os", "OpenFile"):
				flags, isK := constInt(call.Call.Args[1])
				const oTRUNC, oEXCL = 0x200, 0x80 // linux values of os.O_TRUNC, os.O_EXCL
				if isK && (flags&oTRUNC != 0 || flags&oEXCL != 0) {
					r.ok("fileDisk|created-empty", c.Pos(call.Pos()), FuncName(nf), what, "O_TRUNC / O_EXCL set")
				} else if isK {
					r.fail("fileDisk|created-empty", c.Pos(call.Pos()), FuncName(nf), what, "os.OpenFile without O_TRUNC or O_EXCL: the file reader returns the new bytes followed by the stale tail of an older, longer file of the same name")
				} else {
					r.undecided("P6: fileDisk|created-empty: the flags of os.OpenFile are not constant")
				}
			}
		})
		if created == nil || nRemove == 0 {
			r.undecided("P6: fileDisk|remove-created-path: no os.Create in newFileDisk or no os.Remove in Remove: form not known to the rule")
		} else if okRm && okCreate {
			r.ok("fileDisk|remove-created-path", c.Pos(rm.Pos()), FuncName(rm), "Remove deletes exactly the path that was created", "os.Remove(s.fpath), fpath = argument of os.Create")
		} else {
			r.fail("fileDisk|remove-created-path", c.Pos(rm.Pos()), FuncName(rm), "Remove deletes exactly the path that was created", fmt.Sprintf("os.Remove(fpath): %v; fpath is the created path: %v", okRm, okCreate))
		}
	} else {
		r.undecided("fileDisk.Remove / newFileDisk not found")
	}
	// (c) muxerStream.close closes every listed segment and the open one
	if fn := c.Method("", "muxerStream", "close"); fn != nil {
		segF := c.Field("", "muxerStream", "segments")
		slotF := c.Field("", "muxerStream", "nextSegment")
		loopClose, slotClose := false, false
		var slotCloseAt ssa.Instruction
		allInstrs(fn, func(in ssa.Instruction) {
			if methodCallOn(in, "close", func(v ssa.Value) bool {
				// element of s.segments
				if u, ok := stripAsserts(v).(*ssa.UnOp); ok {
					if ia, ok := u.X.(*ssa.IndexAddr); ok {
						f, _ := loadedField(ia.X)
						return f == segF
					}
				}
				return false
			}) && inLoop(in) {
				loopClose = true
			}
			if methodCallOn(in, "close", func(v ssa.Value) bool { f, _ := loadedField(stripAsserts(v)); return f == slotF }) {
				slotClose = true
				slotCloseAt = in
			}
		})
		if loopClose {
			// ... on every path: no return is reachable from the entry without reading the window
			var first ssa.Instruction
			if len(fn.Blocks) > 0 && len(fn.Blocks[0].Instrs) > 0 {
				first = fn.Blocks[0].Instrs[0]
			}
			var bad []string
			readsWindow := func(x ssa.Instruction) bool {
				u, ok := x.(*ssa.UnOp)
				if !ok || u.Op != token.MUL {
					return false
				}
				f, _ := fieldOfAddr(u.X)
				return f == segF
			}
			if first != nil && !readsWindow(first) {
				bad = pathAvoiding(c, fn, first, readsWindow, func(x ssa.Instruction) bool { _, ok := x.(*ssa.Return); return ok })
			}
			if bad == nil {
				r.ok("muxerStream.close|listed", c.Pos(fn.Pos()), FuncName(fn), "stream close calls close() on every listed segment, on every path", "range over s.segments; no return precedes it")
			} else {
				r.fail("muxerStream.close|listed", c.Pos(fn.Pos()), FuncName(fn), "stream close calls close() on every listed segment, on every path",
					"a return is reachable before the loop over s.segments: in that state (e.g. no open segment after a failed rotation) the files of the listed segments stay in Directory after Close", bad...)
			}
		} else {
			r.undecided("%s: %s — %s (the construct this rule is anchored on was not found: no verdict)", "muxerStream.close|listed", "stream close calls close() on every listed segment", "no loop over s.segments calling close()")
		}
		if slotClose {
			// ... whenever there is one: the call depends on nothing but the slot being occupied
			other := ""
			for e := range controlEdges(fn, slotCloseAt.Block()) {
				iff := fn.Blocks[e.from].Instrs[len(fn.Blocks[e.from].Instrs)-1].(*ssa.If)
				okCond := false
				if bo, ok := iff.Cond.(*ssa.BinOp); ok && (bo.Op == token.NEQ || bo.Op == token.EQL) {
					for _, pair := range [][2]ssa.Value{{bo.X, bo.Y}, {bo.Y, bo.X}} {
						if k, isC := pair[1].(*ssa.Const); isC && k.IsNil() {
							if f, _ := loadedField(stripAsserts(pair[0])); f == slotF {
								okCond = true
							}
						}
					}
				}
				if bo, ok := iff.Cond.(*ssa.BinOp); ok && bo.Op == token.LSS {
					okCond = true // the exit of the loop over the listed segments
				}
				if !okCond {
					other = condText(c, iff)
				}
			}
			if other == "" {
				r.ok("muxerStream.close|open", c.Pos(fn.Pos()), FuncName(fn), "stream close calls close() on the open segment whenever there is one", "s.nextSegment.close(), guarded by the slot's own nil test only")
			} else {
				r.fail("muxerStream.close|open", c.Pos(posOf(slotCloseAt)), FuncName(fn), "stream close calls close() on the open segment whenever there is one",
					"the call also depends on `"+other+"`: when that does not hold (MPEG-TS never has an open part) the open segment's file stays in Directory after Close, one per session")
			}
		} else {
			r.fail("muxerStream.close|open", c.Pos(fn.Pos()), FuncName(fn), "stream close calls close() on the open segment", "the open segment's file is never removed")
		}
	} else {
		r.undecided("muxerStream.close not found")
	}
	// (d) Muxer.Close closes every stream
	if fn := c.Method("", "Muxer", "Close"); fn != nil {
		sc := c.Method("", "muxerStream", "close")
		streamsF := c.Field("", "Muxer", "streams")
		okD := false
		allInstrs(fn, func(in ssa.Instruction) {
			if call, ok := in.(*ssa.Call); ok && call.Call.StaticCallee() == sc && inLoop(in) {
				if u, ok := call.Call.Args[0].(*ssa.UnOp); ok {
					if ia, ok := u.X.(*ssa.IndexAddr); ok {
						if f, _ := loadedField(ia.X); f == streamsF {
							okD = true
						}
					}
				}
			}
		})
		if okD {
			r.ok("Muxer.Close|streams", c.Pos(fn.Pos()), FuncName(fn), "Close closes every stream", "range over m.streams")
		} else {
			r.undecided("%s: %s — %s (the construct this rule is anchored on was not found: no verdict)", "Muxer.Close|streams", "Close closes every stream", "no loop over m.streams calling close()")
		}
	}
	// (e) a segment taken out of the open slot is listed or closed on every path to a return
	if fn := c.Method("", "muxerStream", "rotateSegments"); fn != nil {
		slotF := c.Field("", "muxerStream", "nextSegment")
		segF := c.Field("", "muxerStream", "segments")
		var taken ssa.Value
		var nilStore *ssa.Store
		allInstrs(fn, func(in ssa.Instruction) {
			if st, ok := in.(*ssa.Store); ok {
				if f, _ := fieldOfAddr(st.Addr); f == slotF {
					if k, ok := st.Val.(*ssa.Const); ok && k.IsNil() && nilStore == nil {
						nilStore = st
					}
				}
			}
		})
		if nilStore != nil {
			allInstrs(fn, func(in ssa.Instruction) {
				if u, ok := in.(*ssa.UnOp); ok && u.Op == token.MUL {
					if f, _ := fieldOfAddr(u.X); f == slotF && instrDominates(in, nilStore) {
						taken = u
					}
				}
			})
		}
		if nilStore == nil || taken == nil {
			r.undecided("rotateSegments: cannot find the statement that takes the segment out of the open slot")
		} else {
			isTaken := func(v ssa.Value) bool { return sameObject(v, taken) }
			settle := func(x ssa.Instruction) bool {
				if methodCallOn(x, "close", isTaken) {
					return true
				}
				if st, ok := x.(*ssa.Store); ok {
					if f, _ := fieldOfAddr(st.Addr); f == segF {
						return true
					}
				}
				return false
			}
			bad := pathAvoiding(c, fn, nilStore, settle, func(x ssa.Instruction) bool { _, ok := x.(*ssa.Return); return ok })
			if bad == nil {
				r.ok("rotateSegments|taken-segment-settled", c.Pos(nilStore.Pos()), FuncName(fn), "the segment taken out of the open slot is appended to the window or closed on every path to a return", "no escaping path")
			} else {
				r.fail("rotateSegments|taken-segment-settled", c.Pos(nilStore.Pos()), FuncName(fn), "the segment taken out of the open slot is appended to the window or closed on every path to a return",
					"a path returns with the segment neither listed nor closed: its file is never removed", bad...)
			}
			// (f) once listed, the segment is not closed by the same rotation (only the dropped head is)
			var listed ssa.Instruction
			allInstrs(fn, func(in ssa.Instruction) {
				if st, ok := in.(*ssa.Store); ok && !inLoop(in) {
					if f, _ := fieldOfAddr(st.Addr); f == segF {
						if call, ok := st.Val.(*ssa.Call); ok {
							if b, ok := call.Call.Value.(*ssa.Builtin); ok && b.Name() == "append" && instrReaches(nilStore, in) {
								listed = in
							}
						}
					}
				}
			})
			if listed != nil {
				var culprit ssa.Instruction
				allInstrs(fn, func(in ssa.Instruction) {
					if methodCallOn(in, "close", isTaken) && instrReaches(listed, in) {
						culprit = in
					}
				})
				if culprit == nil {
					r.ok("rotateSegments|listed-not-closed", c.Pos(listed.Pos()), FuncName(fn), "after the finished segment was appended to the window no path of the rotation closes it", "no close() on it is reachable from the append")
				} else {
					r.fail("rotateSegments|listed-not-closed", c.Pos(culprit.Pos()), FuncName(fn), "after the finished segment was appended to the window no path of the rotation closes it",
						"close() on the segment that was just listed and registered: with a Directory its file is deleted while every later playlist still lists it, the segment (and in Low-Latency its parts) answer 500")
				}
			}
		}
	}
	return r
}

// cellBase: base of the URI held in a local variable cell: uri := ctor(...); if q != "" { uri += "?" + q }
func cellBase(al *ssa.Alloc, depth int) ssa.Value {
	var base ssa.Value
	for _, ref := range *al.Referrers() {
		st, ok := ref.(*ssa.Store)
		if !ok || st.Addr != al {
			continue
		}
		if bo, ok := st.Val.(*ssa.BinOp); ok && bo.Op == token.ADD {
			ls := flatten(bo, 0)
			if len(ls) >= 2 && ls[0].kind != "" && ls[1].kind == "" && strings.HasPrefix(ls[1].text, "?") {
				if u2, ok := ls[0].val.(*ssa.UnOp); ok && u2.X == al {
					continue // uri += "?" + query
				}
			}
			return nil
		}
		b := uriBase(st.Val, depth+1)
		if b == nil || (base != nil && b != base) {
			return nil
		}
		base = b
	}
	return base
}
