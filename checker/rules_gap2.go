package main

// Second gap batch: playlist codec (C14/C15), multivariant playlist (C16), storage (C17).

import (
	"fmt"
	"go/token"
	"go/types"
	"sort"
	"strings"

	"golang.org/x/tools/go/ssa"
)

func init() {
	registerRule("T15", "tag literals agree: per playlist kind, the `#EXT…` tags the decoder dispatches on are the tags the encoder emits (compared up to the colon)", ruleT15)
	registerRule("T16", "no tag shadows another: in the ordered tag dispatch of a decoder no earlier prefix test is a prefix of a later one, and the payload is sliced by the length of the very literal that was tested", ruleT16)
	registerRule("T17", "durations are seconds on both sides: every FormatFloat that prints a time.Duration is given d.Seconds(), and primitives.Duration.Unmarshal multiplies the parsed float by time.Second", ruleT17)
}

// tagLiterals collects the `#EXT` string constants of the functions reachable from root (within the playlist packages),
// normalised: trailing newline removed, cut after the first colon.
func (c *Ctx) tagLiterals(root *ssa.Function) map[string]token.Pos {
	out := map[string]token.Pos{}
	if root == nil {
		return out
	}
	set := c.reach([]*ssa.Function{root}, func(f *ssa.Function) bool { return !inPlaylistPkgs(f) })
	set[root] = true
	for _, fn := range c.Funcs {
		if fn.Parent() != nil && set[enclosingNamed(fn)] {
			set[fn] = true
		}
	}
	for fn := range set {
		if fn.Blocks == nil {
			continue
		}
		allInstrs(fn, func(in ssa.Instruction) {
			var ops [16]*ssa.Value
			for _, op := range in.Operands(ops[:0]) {
				if op == nil || *op == nil {
					continue
				}
				s, ok := constString(*op)
				if !ok || !strings.HasPrefix(s, "#EXT") {
					continue
				}
				// adjacent literals are folded by the compiler ("#EXTM3U\n#EXT-X-VERSION:"): one tag per line
				for _, piece := range strings.Split(s, "\n") {
					if !strings.HasPrefix(piece, "#EXT") {
						continue
					}
					if i := strings.IndexByte(piece, ':'); i >= 0 {
						piece = piece[:i+1]
					}
					if _, dup := out[piece]; !dup {
						out[piece] = in.Pos()
					}
				}
			}
		})
	}
	return out
}

func ruleT15(c *Ctx) *RuleResult {
	r := &RuleResult{Floor: 20, FloorWhat: "tag literals"}
	n := 0
	for _, kind := range []string{"Media", "Multivariant"} {
		enc := c.tagLiterals(c.Method("pkg/playlist", kind, "Marshal"))
		dec := c.tagLiterals(c.Method("pkg/playlist", kind, "Unmarshal"))
		if len(enc) == 0 || len(dec) == 0 {
			r.undecided("T15: %s.Marshal / Unmarshal not found or without tag literals", kind)
			continue
		}
		all := map[string]bool{}
		for k := range enc {
			all[k] = true
		}
		for k := range dec {
			all[k] = true
		}
		var keys []string
		for k := range all {
			keys = append(keys, k)
		}
		sort.Strings(keys)
		for _, k := range keys {
			n++
			key := kind + "|" + k
			what := "the tag is both decoded and encoded"
			_, e := enc[k]
			_, d := dec[k]
			switch {
			case e && d:
				r.ok(key, c.Pos(enc[k]), kind, what, "both")
			case e:
				r.fail(key, c.Pos(enc[k]), kind+".Marshal", what, "the encoder emits "+k+" but no decoder case tests that literal: the fields printed under it are lost in Unmarshal(Marshal(p))")
			default:
				r.fail(key, c.Pos(dec[k]), kind+".Unmarshal", what, "the decoder dispatches on "+k+" but the encoder never emits it: the fields stored under it are dropped by Marshal")
			}
		}
	}
	r.Instances = n
	return r
}

func ruleT16(c *Ctx) *RuleResult {
	r := &RuleResult{Floor: 20, FloorWhat: "prefix tests in the tag dispatch"}
	_, dec := c.codecSets()
	n := 0
	var fns []*ssa.Function
	for fn := range dec {
		fns = append(fns, fn)
	}
	sort.Slice(fns, func(i, j int) bool { return fns[i].String() < fns[j].String() })
	for _, fn := range fns {
		// HasPrefix(line, K) tests in block order along the false chain
		type pt struct {
			call *ssa.Call
			lit  string
			subj ssa.Value
		}
		var tests []pt
		allInstrs(fn, func(in ssa.Instruction) {
			call, ok := in.(*ssa.Call)
			if !ok || !isFuncNamed(call.Call.StaticCallee(), "strings", "HasPrefix") {
				return
			}
			if s, ok := constString(call.Call.Args[1]); ok && strings.HasPrefix(s, "#") {
				tests = append(tests, pt{call, s, call.Call.Args[0]})
			}
		})
		if len(tests) < 2 {
			continue
		}
		for i, t := range tests {
			n++
			key := fmt.Sprintf("%s|%s", FuncName(fn), t.lit)
			what := "the case is reachable for its own tag and slices its own literal off"
			bad := ""
			// (a) shadowing: an earlier test (one that dominates this one on its false edge) whose literal is a prefix of this one
			for j, u := range tests {
				if j == i || !strings.HasPrefix(t.lit, u.lit) || t.lit == u.lit {
					continue
				}
				if instrDominates(u.call, t.call) {
					bad = "the earlier test for " + u.lit + " matches every line that starts with " + t.lit + ": this case is dead, the tag is decoded as the other one"
				}
			}
			// (b) the slice taken in the true branch uses len(K) of the same literal: line[len(K):] compiles to a Slice with a constant Low
			if bad == "" {
				for _, ref := range *t.call.Referrers() {
					iff, ok := ref.(*ssa.If)
					if !ok {
						continue
					}
					tb := iff.Block().Succs[0]
					for _, x := range tb.Instrs {
						if sl, ok := x.(*ssa.Slice); ok && sl.X == t.subj && sl.Low != nil {
							if k, isC := constInt(sl.Low); isC && int(k) != len(t.lit) {
								bad = fmt.Sprintf("the payload is sliced at %d although the tested literal has %d bytes: the value keeps part of the tag (or loses its first bytes)", k, len(t.lit))
							}
						}
					}
				}
			}
			if bad == "" {
				r.ok(key, c.Pos(t.call.Pos()), FuncName(fn), what, "not shadowed; sliced by its own length")
			} else {
				r.fail(key, c.Pos(t.call.Pos()), FuncName(fn), what, bad)
			}
		}
	}
	r.Instances = n
	return r
}

func ruleT17(c *Ctx) *RuleResult {
	r := &RuleResult{Floor: 5, FloorWhat: "duration conversions in the playlist codec"}
	enc, _ := c.codecSets()
	n := 0
	var fns []*ssa.Function
	for fn := range enc {
		fns = append(fns, fn)
	}
	sort.Slice(fns, func(i, j int) bool { return fns[i].String() < fns[j].String() })
	isDur := func(t types.Type) bool { return typeIs(t, "time", "Duration") }
	for _, fn := range fns {
		k := 0
		allInstrs(fn, func(in ssa.Instruction) {
			call, ok := in.(*ssa.Call)
			if !ok || !isFuncNamed(call.Call.StaticCallee(), "strconv", "FormatFloat") {
				return
			}
			// does the argument derive from a time.Duration?
			arg := call.Call.Args[0]
			var src *ssa.Call
			derives := false
			var walk func(v ssa.Value, depth int)
			walk = func(v ssa.Value, depth int) {
				if v == nil || depth > 5 {
					return
				}
				if isDur(v.Type()) {
					derives = true
				}
				switch x := v.(type) {
				case *ssa.Call:
					if g := x.Call.StaticCallee(); g != nil && g.Signature.Recv() != nil && isDur(g.Signature.Recv().Type()) {
						src = x
						derives = true
						return
					}
				case *ssa.Convert:
					walk(x.X, depth+1)
				case *ssa.BinOp:
					walk(x.X, depth+1)
					walk(x.Y, depth+1)
				case *ssa.UnOp:
					walk(x.X, depth+1)
				}
			}
			walk(arg, 0)
			if !derives {
				return
			}
			n++
			k++
			key := fmt.Sprintf("%s|format-duration#%d", FuncName(fn), k)
			what := "a duration is printed in seconds (d.Seconds())"
			if src != nil && src.Call.StaticCallee().Name() == "Seconds" && arg == ssa.Value(src) {
				r.ok(key, c.Pos(call.Pos()), FuncName(fn), what, "Seconds()")
			} else {
				r.fail(key, c.Pos(call.Pos()), FuncName(fn), what, "the printed number is "+describeVal(arg)+", not d.Seconds(): the decoder reads it back in another unit")
			}
		})
	}
	// the decoder side
	du := c.Method("pkg/playlist/primitives", "Duration", "Unmarshal")
	if du == nil {
		r.undecided("primitives.Duration.Unmarshal not found")
	} else {
		n++
		key := "primitives.Duration.Unmarshal|seconds"
		what := "the parsed float is multiplied by time.Second"
		okMul := false
		allInstrs(du, func(in ssa.Instruction) {
			if bo, ok := in.(*ssa.BinOp); ok && bo.Op == token.MUL {
				for _, s := range []ssa.Value{bo.X, bo.Y} {
					if k, isC := s.(*ssa.Const); isC && k.Value != nil {
						if f, ok := constFloat(k); ok && f == 1e9 {
							okMul = true
						}
					}
				}
			}
		})
		if okMul {
			r.ok(key, c.Pos(du.Pos()), FuncName(du), what, "* 1e9 ns")
		} else {
			r.fail(key, c.Pos(du.Pos()), FuncName(du), what, "no multiplication by time.Second: durations are decoded in another unit than the encoder prints")
		}
	}
	r.Instances = n
	return r
}

// constFloat returns the numeric value of a constant as float64.
func constFloat(k *ssa.Const) (float64, bool) {
	if k == nil || k.Value == nil {
		return 0, false
	}
	switch k.Value.Kind().String() {
	case "Int", "Float":
		f, _ := constantFloat64(k)
		return f, true
	}
	return 0, false
}

func init() {
	registerRule("T7p", "the cursor reader advances and resets together: in ramFileReader.Read every increment of the part index is paired with a reset of the position in the same block and is control dependent on `position == len(current part)`; the copy writes at p[n:], and its result is added to both n and the position", ruleT7p)
	registerRule("T7q", "NewPart publishes what it returns: in both File back ends the part returned by NewPart is the one appended at the tail of the file's parts, on every path", ruleT7q)
	registerRule("G2b", "the size that is limited is the size that is buffered: in muxerPart.writeSample the amount added to the segment size is len(Payload) of the sample that is appended; in the MPEG-TS writers it is the sum of len(e) over the slice handed to the MPEG-TS writer", ruleG2b)
	registerRule("G11d", "the audio group is one: in populateMultivariantPlaylist the group id of the appended rendition and the AUDIO attribute of the variant are the same constant, the rendition is appended once per stream (outside every loop), the variant URI is stored only for the leading stream and the rendition URI only for the others, both from the same value", ruleG11d)
	registerRule("G11e", "the automatic default is given once: in Muxer.Start the constant `true` that reaches muxerStream.isDefault is control dependent on a loop-carried flag that is set on the same path", ruleG11e)
}

func ruleT7p(c *Ctx) *RuleResult {
	r := &RuleResult{Floor: 2, FloorWhat: "cursor updates of the RAM file reader"}
	fn := c.Method("pkg/storage", "ramFileReader", "Read")
	partF := c.Field("pkg/storage", "ramFileReader", "curPart")
	posF := c.Field("pkg/storage", "ramFileReader", "curPos")
	if fn == nil || partF == nil || posF == nil {
		r.undecided("storage.ramFileReader.Read / curPart / curPos not found")
		return r
	}
	n := 0
	// (a) increments of curPart
	allInstrs(fn, func(in ssa.Instruction) {
		st, ok := in.(*ssa.Store)
		if !ok {
			return
		}
		f, _ := fieldOfAddr(st.Addr)
		if f != partF {
			return
		}
		n++
		key := fmt.Sprintf("ramFileReader.Read|advance#%d", n)
		what := "the part index advances by one, with the position reset in the same block, when the position reached the end of the current part"
		bad := ""
		if add, ok := st.Val.(*ssa.BinOp); !ok || add.Op != token.ADD {
			bad = "the index is assigned " + describeVal(st.Val)
		} else if one, isC := constInt(add.Y); !isC || one != 1 {
			bad = "the index does not advance by exactly one"
		}
		reset := false
		for _, x := range st.Block().Instrs {
			if s2, ok := x.(*ssa.Store); ok {
				if f2, _ := fieldOfAddr(s2.Addr); f2 == posF {
					if k, isC := constInt(s2.Val); isC && k == 0 {
						reset = true
					}
				}
			}
		}
		if bad == "" && !reset {
			bad = "the position is not reset to 0 where the index advances: the next part is read from a stale offset (bytes skipped, or a slice out of range)"
		}
		if bad == "" {
			// controlled by position == len(buf)
			okCond := false
			for e := range controlEdges(fn, st.Block()) {
				iff := fn.Blocks[e.from].Instrs[len(fn.Blocks[e.from].Instrs)-1].(*ssa.If)
				if bo, ok := iff.Cond.(*ssa.BinOp); ok && bo.Op == token.EQL {
					fx, _ := loadedField(bo.X)
					if lc, ok := bo.Y.(*ssa.Call); ok {
						if b, ok := lc.Call.Value.(*ssa.Builtin); ok && b.Name() == "len" && fx == posF {
							okCond = true
						}
					}
				}
			}
			if !okCond {
				bad = "the advance is not control dependent on `curPos == len(buf)`"
			}
		}
		if bad == "" {
			r.ok(key, c.Pos(st.Pos()), FuncName(fn), what, "advance + reset under position == len")
		} else {
			r.fail(key, c.Pos(st.Pos()), FuncName(fn), what, bad)
		}
	})
	// (b) the copy
	allInstrs(fn, func(in ssa.Instruction) {
		call, ok := in.(*ssa.Call)
		if !ok {
			return
		}
		b, ok := call.Call.Value.(*ssa.Builtin)
		if !ok || b.Name() != "copy" {
			return
		}
		n++
		key := "ramFileReader.Read|copy-accounting"
		what := "the copy writes at p[n:], and its result is added to n and to the position"
		bad := ""
		dst, ok := call.Call.Args[0].(*ssa.Slice)
		if !ok || dst.X != ssa.Value(fn.Params[1]) || dst.Low == nil {
			bad = "the destination is not p[n:]: a read that crosses a part overwrites the bytes already delivered"
		}
		addedToPos, addedToN := false, false
		for _, ref := range *call.Referrers() {
			if add, ok := ref.(*ssa.BinOp); ok && add.Op == token.ADD {
				for _, r2 := range *add.Referrers() {
					if st, ok := r2.(*ssa.Store); ok {
						if f, _ := fieldOfAddr(st.Addr); f == posF {
							addedToPos = true
						}
					}
					if _, ok := r2.(*ssa.Phi); ok {
						addedToN = true
					}
				}
				if dst != nil && dst.Low != nil {
					if phi, ok := dst.Low.(*ssa.Phi); ok {
						for _, e := range phi.Edges {
							if e == ssa.Value(add) {
								addedToN = true
							}
						}
					}
				}
			}
		}
		if bad == "" && !addedToPos {
			bad = "the number of bytes copied is not added to the position"
		}
		if bad == "" && !addedToN {
			bad = "the number of bytes copied is not added to the running count"
		}
		if bad == "" {
			r.ok(key, c.Pos(call.Pos()), FuncName(fn), what, "p[n:], n += copied, curPos += copied")
		} else {
			r.fail(key, c.Pos(call.Pos()), FuncName(fn), what, bad)
		}
	})
	r.Instances = n
	return r
}

func ruleT7q(c *Ctx) *RuleResult {
	r := &RuleResult{Floor: 2, FloorWhat: "NewPart implementations"}
	n := 0
	for _, tn := range []string{"fileRAM", "fileDisk"} {
		fn := c.Method("pkg/storage", tn, "NewPart")
		partsF := c.Field("pkg/storage", tn, "parts")
		if fn == nil || partsF == nil {
			r.undecided("storage.%s.NewPart / parts not found", tn)
			continue
		}
		n++
		key := tn + ".NewPart|appends-what-it-returns"
		what := "the returned part is appended at the tail of parts on every path"
		// appended elements
		var appended []ssa.Value
		var appSt *ssa.Store
		allInstrs(fn, func(in ssa.Instruction) {
			st, ok := in.(*ssa.Store)
			if !ok {
				return
			}
			if f, _ := fieldOfAddr(st.Addr); f != partsF {
				return
			}
			call, ok := st.Val.(*ssa.Call)
			if !ok {
				return
			}
			if b, ok := call.Call.Value.(*ssa.Builtin); !ok || b.Name() != "append" {
				return
			}
			if f0, _ := loadedField(call.Call.Args[0]); f0 != partsF {
				return // not a tail append of the same list
			}
			appSt = st
			for _, a := range variadicArgs(call.Call.Args[1]) {
				appended = append(appended, a)
			}
		})
		bad := ""
		if appSt == nil {
			bad = "no `parts = append(parts, p)`"
		}
		for _, b := range fn.Blocks {
			ret, ok := b.Instrs[len(b.Instrs)-1].(*ssa.Return)
			if !ok || b == fn.Recover || bad != "" {
				continue
			}
			rv := canon(retVal(ret, 0))
			match := false
			for _, a := range appended {
				if canon(a) == rv {
					match = true
				}
			}
			if !match {
				bad = "the value returned is not the one appended: bytes written through it never reach the file reader, and the next offset is wrong"
			} else if !instrDominates(appSt, ret) {
				bad = "the append does not dominate the return"
			}
		}
		if bad == "" {
			r.ok(key, c.Pos(fn.Pos()), FuncName(fn), what, "append dominates the return of the same object")
		} else {
			r.fail(key, c.Pos(fn.Pos()), FuncName(fn), what, bad)
		}
	}
	r.Instances = n
	return r
}

func ruleG2b(c *Ctx) *RuleResult {
	r := &RuleResult{Floor: 3, FloorWhat: "size computations in front of the segment limit"}
	n := 0
	// fMP4
	if fn := c.Method("", "muxerPart", "writeSample"); fn != nil {
		sizeF := c.Field("", "muxerSegmentFMP4", "size")
		allInstrs(fn, func(in ssa.Instruction) {
			st, ok := in.(*ssa.Store)
			if !ok {
				return
			}
			if f, _ := fieldOfAddr(st.Addr); f != sizeF || sizeF == nil {
				return
			}
			n++
			key := "muxerPart.writeSample|size-term"
			what := "the amount added to the segment size is len(Payload) of the sample parameter"
			okTerm := false
			if add, ok := st.Val.(*ssa.BinOp); ok && add.Op == token.ADD {
				for _, s := range []ssa.Value{add.X, add.Y} {
					if lc, ok := stripConv(s).(*ssa.Call); ok {
						if b, ok := lc.Call.Value.(*ssa.Builtin); ok && b.Name() == "len" {
							if f, base := loadedField(lc.Call.Args[0]); f != nil && f.Name() == "Payload" {
								if _, isParam := rootOf(base).(*ssa.Parameter); isParam {
									okTerm = true
								}
							}
						}
					}
				}
			}
			if okTerm {
				r.ok(key, c.Pos(st.Pos()), FuncName(fn), what, "len(sample.Payload)")
			} else {
				r.fail(key, c.Pos(st.Pos()), FuncName(fn), what, "the term added is "+describeVal(st.Val)+": the limit no longer bounds the bytes that are buffered")
			}
		})
	} else {
		r.undecided("muxerPart.writeSample not found")
	}
	// MPEG-TS
	for _, name := range []string{"writeH264", "writeMPEG4Audio"} {
		fn := c.Method("", "muxerSegmentMPEGTS", name)
		if fn == nil {
			r.undecided("muxerSegmentMPEGTS.%s not found", name)
			continue
		}
		n++
		key := "muxerSegmentMPEGTS." + name + "|size-term"
		what := "the size is the sum of len(e) over the slice that is handed to the MPEG-TS writer"
		// the slice parameter
		var sl *ssa.Parameter
		for _, p := range fn.Params[1:] {
			if s, ok := p.Type().Underlying().(*types.Slice); ok {
				if _, ok := s.Elem().Underlying().(*types.Slice); ok {
					sl = p
				}
			}
		}
		// every addition to the loop-carried size adds exactly len(range element of the parameter)
		sumsLenOver := func(f *ssa.Function, slp *ssa.Parameter) bool {
			okSum := false
			badTerm := false
			isElemLen := func(v ssa.Value) bool {
				lc, ok := stripConv(v).(*ssa.Call)
				if !ok {
					return false
				}
				if b, ok := lc.Call.Value.(*ssa.Builtin); !ok || b.Name() != "len" {
					return false
				}
				u, ok := lc.Call.Args[0].(*ssa.UnOp)
				if !ok {
					return false
				}
				ia, ok := u.X.(*ssa.IndexAddr)
				if !ok || slp == nil || ia.X != ssa.Value(slp) {
					return false
				}
				isR, _ := rangeIndexOver(ia.Index)
				return isR
			}
			allInstrs(f, func(in ssa.Instruction) {
				add, ok := in.(*ssa.BinOp)
				if !ok || add.Op != token.ADD || !inLoopBlock(f, add.Block()) {
					return
				}
				phi, ok := add.X.(*ssa.Phi)
				if !ok {
					return
				}
				carried := false
				for _, e := range phi.Edges {
					if e == ssa.Value(add) {
						carried = true
					}
				}
				if !carried {
					return
				}
				if _, isConst := add.Y.(*ssa.Const); isConst {
					return // the loop index
				}
				if isElemLen(add.Y) {
					okSum = true
				} else {
					badTerm = true
				}
			})
			if badTerm {
				okSum = false
			}
			return okSum
		}
		okSum := sumsLenOver(fn, sl)
		if !okSum && sl != nil {
			// the sum is taken by a helper that is handed the same slice (`size := payloadSize(au)`)
			allInstrs(fn, func(in ssa.Instruction) {
				call, ok := in.(*ssa.Call)
				if !ok {
					return
				}
				g := call.Call.StaticCallee()
				if g == nil || !InRootPkg(g) || g.Blocks == nil || len(g.Params) != 1 || len(call.Call.Args) != 1 || call.Call.Args[0] != ssa.Value(sl) {
					return
				}
				if sumsLenOver(g, g.Params[0]) {
					okSum = true
				}
			})
		}
		// and the same slice goes to the writer
		passed := false
		allInstrs(fn, func(in ssa.Instruction) {
			if call, ok := in.(*ssa.Call); ok {
				if g := call.Call.StaticCallee(); g != nil && !InLib(g) && strings.HasPrefix(g.Name(), "Write") {
					for _, a := range call.Call.Args {
						if sl != nil && a == ssa.Value(sl) {
							passed = true
						}
					}
				}
			}
		})
		switch {
		case sl == nil:
			r.undecided("G2b: muxerSegmentMPEGTS.%s has no [][]byte parameter: form not known to the rule", name)
		case okSum && passed:
			r.ok(key, c.Pos(fn.Pos()), FuncName(fn), what, "sum over the parameter that is written")
		default:
			r.fail(key, c.Pos(fn.Pos()), FuncName(fn), what, fmt.Sprintf("sum over the written slice: %v; that slice is written: %v", okSum, passed))
		}
	}
	r.Instances = n
	return r
}

func ruleG11d(c *Ctx) *RuleResult {
	r := &RuleResult{Floor: 4, FloorWhat: "rendition / variant stores of the multivariant playlist"}
	fn := c.Method("", "muxerStream", "populateMultivariantPlaylist")
	audioF := c.Field("pkg/playlist", "MultivariantVariant", "Audio")
	vURI := c.Field("pkg/playlist", "MultivariantVariant", "URI")
	gidF := c.Field("pkg/playlist", "MultivariantRendition", "GroupID")
	rURI := c.Field("pkg/playlist", "MultivariantRendition", "URI")
	typF := c.Field("pkg/playlist", "MultivariantRendition", "Type")
	rendsF := c.Field("pkg/playlist", "Multivariant", "Renditions")
	leadF := c.Field("", "muxerStream", "isLeading")
	if fn == nil || audioF == nil || vURI == nil || gidF == nil || rURI == nil || typF == nil || rendsF == nil || leadF == nil {
		r.undecided("populateMultivariantPlaylist or the playlist fields not found")
		return r
	}
	n := 0
	var audioConst, gidConst string
	var audioSt, gidSt, vuSt, ruSt, appSt *ssa.Store
	allInstrs(fn, func(in ssa.Instruction) {
		st, ok := in.(*ssa.Store)
		if !ok {
			return
		}
		f, _ := fieldOfAddr(st.Addr)
		switch f {
		case audioF:
			audioSt = st
			audioConst, _ = constString(st.Val)
		case gidF:
			gidSt = st
			gidConst, _ = constString(st.Val)
		case vURI:
			vuSt = st
		case rURI:
			ruSt = st
		case rendsF:
			appSt = st
		}
	})
	if audioSt == nil || gidSt == nil || vuSt == nil || ruSt == nil || appSt == nil {
		r.undecided("G11d: one of the stores (variant Audio / URI, rendition GroupID / URI, append to Renditions) was not found in populateMultivariantPlaylist: form not known to the rule")
		return r
	}
	// (a) group id
	n++
	if audioConst != "" && audioConst == gidConst {
		r.ok("populateMultivariantPlaylist|group-id", c.Pos(gidSt.Pos()), FuncName(fn), "the AUDIO attribute of the variant names the group of the rendition", "\""+gidConst+"\"")
	} else {
		r.fail("populateMultivariantPlaylist|group-id", c.Pos(gidSt.Pos()), FuncName(fn), "the AUDIO attribute of the variant names the group of the rendition",
			fmt.Sprintf("variant AUDIO=%q, rendition GROUP-ID=%q: the client finds no playlist with that group id", audioConst, gidConst))
	}
	// (b) one append per stream
	n++
	if inLoopBlock(fn, appSt.Block()) {
		r.fail("populateMultivariantPlaylist|one-rendition", c.Pos(appSt.Pos()), FuncName(fn), "one rendition is appended per stream", "the append to Renditions lies inside a loop: a rendition is listed once per track")
	} else {
		r.ok("populateMultivariantPlaylist|one-rendition", c.Pos(appSt.Pos()), FuncName(fn), "one rendition is appended per stream", "outside every loop")
	}
	// (c) complementary URI guards
	leadConds := ifsOnV(fn, func(v ssa.Value) bool { f, _ := loadedField(v); return f == leadF })
	n++
	if len(leadConds) > 0 && onlyIf(fn, vuSt, leadConds, true) {
		r.ok("populateMultivariantPlaylist|variant-uri", c.Pos(vuSt.Pos()), FuncName(fn), "the variant URI is stored for the leading stream only", "under isLeading")
	} else {
		r.fail("populateMultivariantPlaylist|variant-uri", c.Pos(vuSt.Pos()), FuncName(fn), "the variant URI is stored for the leading stream only", "the store is not restricted to isLeading: the last stream populated wins, the variant points at a rendition's playlist")
	}
	n++
	if len(leadConds) > 0 && onlyIf(fn, ruSt, leadConds, false) {
		r.ok("populateMultivariantPlaylist|rendition-uri", c.Pos(ruSt.Pos()), FuncName(fn), "a rendition carries a URI unless it is the leading stream", "under !isLeading")
	} else {
		r.fail("populateMultivariantPlaylist|rendition-uri", c.Pos(ruSt.Pos()), FuncName(fn), "a rendition carries a URI unless it is the leading stream", "the store is not restricted to !isLeading")
	}
	// (d) same value
	n++
	vv := stripConv(vuSt.Val)
	same := false
	if al, ok := ruSt.Val.(*ssa.Alloc); ok {
		for _, ref := range *al.Referrers() {
			if st, ok := ref.(*ssa.Store); ok && st.Addr == ssa.Value(al) && stripConv(st.Val) == vv {
				same = true
			}
		}
		// the variant may read the cell
		if u, ok := vv.(*ssa.UnOp); ok && u.X == ssa.Value(al) {
			same = true
		}
	}
	if same {
		r.ok("populateMultivariantPlaylist|same-uri", c.Pos(ruSt.Pos()), FuncName(fn), "both URIs are the stream's own media playlist URI", "one value")
	} else {
		r.fail("populateMultivariantPlaylist|same-uri", c.Pos(ruSt.Pos()), FuncName(fn), "both URIs are the stream's own media playlist URI", "the rendition URI and the variant URI are computed separately")
	}
	r.Instances = n
	return r
}

func ruleG11e(c *Ctx) *RuleResult {
	r := &RuleResult{Floor: 1, FloorWhat: "automatic DEFAULT assignments"}
	fn := c.Method("", "Muxer", "Start")
	defF := c.Field("", "muxerStream", "isDefault")
	if fn == nil || defF == nil {
		r.undecided("(*Muxer).Start / muxerStream.isDefault not found")
		return r
	}
	n := 0
	allInstrs(fn, func(in ssa.Instruction) {
		st, ok := in.(*ssa.Store)
		if !ok {
			return
		}
		if f, _ := fieldOfAddr(st.Addr); f != defF {
			return
		}
		phi, ok := st.Val.(*ssa.Phi)
		if !ok {
			return
		}
		// the const-true edges, transitively through phis
		var trueBlocks []*ssa.BasicBlock
		seen := map[*ssa.Phi]bool{}
		var walk func(p *ssa.Phi)
		walk = func(p *ssa.Phi) {
			if seen[p] {
				return
			}
			seen[p] = true
			for i, e := range p.Edges {
				if b, isC := constBool(e); isC && b {
					trueBlocks = append(trueBlocks, p.Block().Preds[i])
				}
				if p2, ok := e.(*ssa.Phi); ok {
					walk(p2)
				}
			}
		}
		walk(phi)
		for _, tb := range trueBlocks {
			n++
			key := fmt.Sprintf("Muxer.Start|default-latch#%d", n)
			what := "the automatic default is taken only while a loop-carried flag is unset, and sets it"
			okLatch := false
			for e := range controlEdges(fn, tb) {
				iff := fn.Blocks[e.from].Instrs[len(fn.Blocks[e.from].Instrs)-1].(*ssa.If)
				v := iff.Cond
				for {
					if u, ok := v.(*ssa.UnOp); ok && u.Op == token.NOT {
						v = u.X
						continue
					}
					break
				}
				q, ok := v.(*ssa.Phi)
				if !ok || !inLoopBlock(fn, q.Block()) {
					continue
				}
				// q is set true from a block that tb dominates (or tb itself)
				seenQ := map[*ssa.Phi]bool{}
				var setOn func(p *ssa.Phi) bool
				setOn = func(p *ssa.Phi) bool {
					if seenQ[p] {
						return false
					}
					seenQ[p] = true
					for i, ed := range p.Edges {
						if b, isC := constBool(ed); isC && b {
							pb := p.Block().Preds[i]
							if pb == tb || tb.Dominates(pb) {
								return true
							}
						}
						if p2, ok := ed.(*ssa.Phi); ok && setOn(p2) {
							return true
						}
					}
					return false
				}
				if setOn(q) {
					okLatch = true
				}
			}
			if okLatch {
				r.ok(key, c.Pos(st.Pos()), FuncName(fn), what, "latched")
			} else {
				r.fail(key, c.Pos(st.Pos()), FuncName(fn), what, "no loop-carried flag that this path sets guards the constant true: every rendition (or none after the first) is marked DEFAULT=YES")
			}
		}
	})
	if n == 0 {
		r.undecided("G11e: no constant true reaches muxerStream.isDefault in Start (the construct this rule is anchored on was not found: no verdict)")
	}
	r.Instances = n
	return r
}
