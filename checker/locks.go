package main

import (
	"fmt"
	"go/token"
	"go/types"
	"sort"
	"strings"

	"golang.org/x/tools/go/ssa"
)

// ---------------------------------------------------------------------------
// Lock classes (DESIGN 2.2): a class is a struct field of type sync.Mutex / sync.RWMutex.
// Pointer-typed lock/cond fields are resolved to their class through every store to them.

type lockClass struct {
	Field *types.Var
	Name  string // "Muxer.mutex"
	RW    bool
	idx   int
}

type lockInfo struct {
	classes  []*lockClass
	byField  map[*types.Var]*lockClass
	ptrAlias map[*types.Var]*lockClass // *sync.Mutex fields → class
	condOf   map[*types.Var]*lockClass // *sync.Cond fields → class of their L
	problems []string
}

type lockset uint32 // bit 2*idx = held exclusively (Lock), bit 2*idx+1 = held shared (RLock)

func (l lockset) has(c *lockClass) bool  { return l&(3<<(2*uint(c.idx))) != 0 }
func (l lockset) hasW(c *lockClass) bool { return l&(1<<(2*uint(c.idx))) != 0 }
func bitW(c *lockClass) lockset          { return 1 << (2 * uint(c.idx)) }
func bitR(c *lockClass) lockset          { return 2 << (2 * uint(c.idx)) }
func (li *lockInfo) names(l lockset) string {
	var out []string
	for _, c := range li.classes {
		if l&bitW(c) != 0 {
			out = append(out, c.Name)
		}
		if l&bitR(c) != 0 {
			out = append(out, c.Name+"(R)")
		}
	}
	if len(out) == 0 {
		return "{}"
	}
	return "{" + strings.Join(out, ",") + "}"
}

func isSyncType(t types.Type, name string) bool {
	return typeIs(t, "sync", name)
}

func (c *Ctx) locks() *lockInfo {
	if v, ok := c.cache["locks"]; ok {
		return v.(*lockInfo)
	}
	li := &lockInfo{byField: map[*types.Var]*lockClass{}, ptrAlias: map[*types.Var]*lockClass{}, condOf: map[*types.Var]*lockClass{}}
	c.cache["locks"] = li
	var ptrLockFields, condFields []*types.Var
	for _, path := range libPkgs {
		sc := c.Pkgs[path].Types.Scope()
		for _, n := range sc.Names() {
			tn, ok := sc.Lookup(n).(*types.TypeName)
			if !ok {
				continue
			}
			st, ok := tn.Type().Underlying().(*types.Struct)
			if !ok {
				continue
			}
			for i := 0; i < st.NumFields(); i++ {
				f := st.Field(i)
				ft := f.Type()
				_, isPtr := ft.(*types.Pointer)
				switch {
				case !isPtr && (isSyncType(ft, "Mutex") || isSyncType(ft, "RWMutex")):
					lc := &lockClass{Field: f, Name: tn.Name() + "." + f.Name(), RW: isSyncType(ft, "RWMutex"), idx: len(li.classes)}
					li.classes = append(li.classes, lc)
					li.byField[f] = lc
				case isPtr && (isSyncType(ft, "Mutex") || isSyncType(ft, "RWMutex")):
					ptrLockFields = append(ptrLockFields, f)
				case isSyncType(ft, "Cond"):
					condFields = append(condFields, f)
				}
			}
		}
	}
	if len(li.classes) > 15 {
		li.problems = append(li.problems, "more than 15 lock classes")
	}
	// resolve pointer lock fields and cond fields by their stores (fixpoint: a field may copy another)
	stores := map[*types.Var][]ssa.Value{}
	for _, fn := range c.Funcs {
		allInstrs(fn, func(in ssa.Instruction) {
			if st, ok := in.(*ssa.Store); ok {
				if f, _ := fieldOfAddr(st.Addr); f != nil {
					stores[f] = append(stores[f], st.Val)
				}
			}
		})
	}
	for iter := 0; iter < 4; iter++ {
		for _, f := range ptrLockFields {
			if li.ptrAlias[f] != nil {
				continue
			}
			var cls *lockClass
			okAll := len(stores[f]) > 0
			for _, v := range stores[f] {
				var got *lockClass
				if ff, _ := fieldOfAddr(v); ff != nil {
					got = li.byField[ff]
				} else if lf, _ := loadedField(v); lf != nil {
					got = li.ptrAlias[lf]
				}
				if got == nil || (cls != nil && cls != got) {
					okAll = false
					break
				}
				cls = got
			}
			if okAll {
				li.ptrAlias[f] = cls
			}
		}
		for _, f := range condFields {
			if li.condOf[f] != nil {
				continue
			}
			var cls *lockClass
			okAll := len(stores[f]) > 0
			for _, v := range stores[f] {
				var got *lockClass
				if call, ok := v.(*ssa.Call); ok && isFuncNamed(call.Common().StaticCallee(), "sync", "NewCond") {
					arg := stripConv(call.Common().Args[0])
					if ff, _ := fieldOfAddr(arg); ff != nil {
						got = li.byField[ff]
					} else if lf, _ := loadedField(arg); lf != nil {
						got = li.ptrAlias[lf]
					}
				} else if lf, _ := loadedField(v); lf != nil {
					got = li.condOf[lf]
				}
				if got == nil || (cls != nil && cls != got) {
					okAll = false
					break
				}
				cls = got
			}
			if okAll {
				li.condOf[f] = cls
			}
		}
	}
	for _, f := range ptrLockFields {
		if li.ptrAlias[f] == nil {
			li.problems = append(li.problems, "pointer lock field "+c.fieldName(f)+" cannot be resolved to a lock class (a store is not the address of a mutex field)")
		}
	}
	for _, f := range condFields {
		if li.condOf[f] == nil {
			li.problems = append(li.problems, "cond field "+c.fieldName(f)+" cannot be resolved to a lock class (a store is not sync.NewCond(&classField) or a copy)")
		}
	}
	return li
}

// lockOfReceiver resolves the receiver of a Lock/Unlock call to its class.
func (li *lockInfo) lockOfReceiver(v ssa.Value) *lockClass {
	v = stripConv(v)
	if f, _ := fieldOfAddr(v); f != nil {
		return li.byField[f]
	}
	if f, _ := loadedField(v); f != nil {
		return li.ptrAlias[f]
	}
	return nil
}

// condOfReceiver resolves the receiver of a Cond.Wait/Broadcast/Signal call to the class of its lock.
func (li *lockInfo) condOfReceiver(v ssa.Value) (*lockClass, *types.Var) {
	v = stripConv(v)
	if f, _ := loadedField(v); f != nil {
		return li.condOf[f], f
	}
	return nil, nil
}

type lockOp int

const (
	opNone lockOp = iota
	opLock
	opUnlock
	opRLock
	opRUnlock
	opWait
	opBroadcast
	opSignal
)

// classifySync recognises sync calls.
func classifySync(call *ssa.CallCommon) lockOp {
	f := call.StaticCallee()
	if f == nil {
		return opNone
	}
	for _, t := range []string{"Mutex", "RWMutex"} {
		switch {
		case isMethodNamed(f, "sync", t, "Lock"):
			return opLock
		case isMethodNamed(f, "sync", t, "Unlock"):
			return opUnlock
		case isMethodNamed(f, "sync", t, "RLock"):
			return opRLock
		case isMethodNamed(f, "sync", t, "RUnlock"):
			return opRUnlock
		}
	}
	switch {
	case isMethodNamed(f, "sync", "Cond", "Wait"):
		return opWait
	case isMethodNamed(f, "sync", "Cond", "Broadcast"):
		return opBroadcast
	case isMethodNamed(f, "sync", "Cond", "Signal"):
		return opSignal
	}
	return opNone
}

// ---------------------------------------------------------------------------
// Context-sensitive forward lockset analysis.
// A context is the pair (must-held, may-held) at function entry. Within a function the
// transfer is: Lock/RLock add, Unlock/RUnlock remove, defer Unlock releases at RunDefers;
// calls are lockset-neutral (rule L1 checks that every function is balanced, so this is sound
// exactly when L1 holds; L1 violations are reported separately).

type lstate struct {
	must, may       lockset
	defMust, defMay lockset // deferred releases registered so far
	valid           bool
}

func (a lstate) join(b lstate) lstate {
	if !a.valid {
		return b
	}
	if !b.valid {
		return a
	}
	return lstate{must: a.must & b.must, may: a.may | b.may, defMust: a.defMust & b.defMust, defMay: a.defMay | b.defMay, valid: true}
}

type fnCtx struct {
	fn        *ssa.Function
	must, may lockset
}

type ctxResult struct {
	in  []lstate                   // state at block entry
	at  map[ssa.Instruction]lstate // state immediately before the instruction
	ret []retInfo
}

type retInfo struct {
	instr ssa.Instruction
	st    lstate
}

type lockAnalysis struct {
	li         *lockInfo
	res        map[fnCtx]*ctxResult
	ctxsOf     map[*ssa.Function][]fnCtx
	roots      []*ssa.Function
	unresolved []string
}

// lockAnalysisFor runs the analysis from the given roots (each entered with an empty lockset).
func (c *Ctx) lockAnalysisFor(name string, roots []*ssa.Function) *lockAnalysis {
	key := "lockanalysis:" + name
	if v, ok := c.cache[key]; ok {
		return v.(*lockAnalysis)
	}
	la := &lockAnalysis{li: c.locks(), res: map[fnCtx]*ctxResult{}, ctxsOf: map[*ssa.Function][]fnCtx{}, roots: roots}
	c.cache[key] = la
	var work []fnCtx
	var enqueue func(fc fnCtx)
	enqueue = func(fc fnCtx) {
		if fc.fn == nil {
			return
		}
		if !InLib(fc.fn) {
			// a callee outside the library: the library functions it may call back into
			// (io.Copy → Read of a library reader, mpegts.Reader.Read → registered callbacks)
			// run with the caller's lockset
			for _, g := range c.libEntriesVia(fc.fn) {
				enqueue(fnCtx{fn: g, must: fc.must, may: fc.may})
			}
			return
		}
		if fc.fn.Blocks == nil {
			return
		}
		if _, ok := la.res[fc]; ok {
			return
		}
		la.res[fc] = nil
		la.ctxsOf[fc.fn] = append(la.ctxsOf[fc.fn], fc)
		work = append(work, fc)
	}
	for _, r := range roots {
		enqueue(fnCtx{fn: r})
	}
	for len(work) > 0 {
		fc := work[len(work)-1]
		work = work[:len(work)-1]
		la.res[fc] = la.analyse(c, fc, enqueue)
	}
	return la
}

func (la *lockAnalysis) analyse(c *Ctx, fc fnCtx, enqueue func(fnCtx)) *ctxResult {
	fn := fc.fn
	n := len(fn.Blocks)
	res := &ctxResult{in: make([]lstate, n), at: map[ssa.Instruction]lstate{}}
	res.in[0] = lstate{must: fc.must, may: fc.may, valid: true}
	inWork := make([]bool, n)
	work := []int{0}
	inWork[0] = true
	out := make([]lstate, n)
	for len(work) > 0 {
		bi := work[0]
		work = work[1:]
		inWork[bi] = false
		st := res.in[bi]
		for _, in := range fn.Blocks[bi].Instrs {
			st = la.transfer(c, fn, in, st, nil, nil)
		}
		if out[bi] == st && out[bi].valid {
			continue
		}
		out[bi] = st
		for _, s := range fn.Blocks[bi].Succs {
			j := res.in[s.Index].join(st)
			if j != res.in[s.Index] {
				res.in[s.Index] = j
				if !inWork[s.Index] {
					inWork[s.Index] = true
					work = append(work, s.Index)
				}
			}
		}
	}
	// final pass: record per-instruction states, returns and callee contexts
	for bi, b := range fn.Blocks {
		st := res.in[bi]
		if !st.valid {
			continue // unreachable
		}
		for _, in := range b.Instrs {
			res.at[in] = st
			st = la.transfer(c, fn, in, st, res, enqueue)
		}
	}
	return res
}

func (la *lockAnalysis) transfer(c *Ctx, fn *ssa.Function, in ssa.Instruction, st lstate, res *ctxResult, enqueue func(fnCtx)) lstate {
	switch x := in.(type) {
	case *ssa.Defer:
		op := classifySync(&x.Call)
		if op == opUnlock || op == opRUnlock {
			cls := la.li.lockOfReceiver(x.Call.Args[0])
			if cls == nil {
				if res != nil {
					la.unresolved = append(la.unresolved, "deferred unlock with unresolvable receiver at "+c.Pos(in.Pos()))
				}
				return st
			}
			b := bitW(cls)
			if op == opRUnlock {
				b = bitR(cls)
			}
			st.defMust |= b
			st.defMay |= b
			return st
		}
		if enqueue != nil {
			for _, g := range c.calleesOf(x) {
				// deferred library call: approximated with the state at the defer statement minus deferred releases
				enqueue(fnCtx{fn: g, must: st.must &^ st.defMay, may: st.may})
			}
		}
		return st
	case *ssa.RunDefers:
		st.must &^= st.defMay
		st.may &^= st.defMust
		return st
	case *ssa.Go:
		if enqueue != nil {
			for _, g := range c.calleesOf(x) {
				enqueue(fnCtx{fn: g})
			}
		}
		return st
	case *ssa.Return:
		if res != nil {
			res.ret = append(res.ret, retInfo{in, st})
		}
		return st
	case *ssa.Panic:
		return st
	case *ssa.Call:
		op := classifySync(&x.Call)
		switch op {
		case opLock, opRLock, opUnlock, opRUnlock:
			cls := la.li.lockOfReceiver(x.Call.Args[0])
			if cls == nil {
				if res != nil {
					la.unresolved = append(la.unresolved, "lock operation with unresolvable receiver at "+c.Pos(in.Pos()))
				}
				return st
			}
			switch op {
			case opLock:
				st.must |= bitW(cls)
				st.may |= bitW(cls)
			case opRLock:
				st.must |= bitR(cls)
				st.may |= bitR(cls)
			case opUnlock:
				st.must &^= bitW(cls)
				st.may &^= bitW(cls)
			case opRUnlock:
				st.must &^= bitR(cls)
				st.may &^= bitR(cls)
			}
			return st
		case opWait, opBroadcast, opSignal:
			return st
		}
		if enqueue != nil {
			for _, g := range c.calleesOf(x) {
				enqueue(fnCtx{fn: g, must: st.must, may: st.may})
			}
		}
		return st
	}
	return st
}

// mustAt / mayAt aggregate over every context in which fn was analysed.
// ok=false means the instruction was never reached from the roots.
func (la *lockAnalysis) heldAt(in ssa.Instruction) (must, may lockset, ok bool) {
	fn := in.Parent()
	must = ^lockset(0)
	for _, fc := range la.ctxsOf[fn] {
		r := la.res[fc]
		if r == nil {
			continue
		}
		st, reached := r.at[in]
		if !reached {
			continue
		}
		ok = true
		must &= st.must
		may |= st.may
	}
	if !ok {
		must = 0
	}
	return
}

// heldAtPerCtx returns the per-context states of an instruction.
func (la *lockAnalysis) statesAt(in ssa.Instruction) []struct {
	ctx fnCtx
	st  lstate
} {
	var out []struct {
		ctx fnCtx
		st  lstate
	}
	for _, fc := range la.ctxsOf[in.Parent()] {
		if r := la.res[fc]; r != nil {
			if st, ok := r.at[in]; ok {
				out = append(out, struct {
					ctx fnCtx
					st  lstate
				}{fc, st})
			}
		}
	}
	return out
}

func (la *lockAnalysis) functions() []*ssa.Function {
	var fs []*ssa.Function
	for f := range la.ctxsOf {
		fs = append(fs, f)
	}
	sort.Slice(fs, func(i, j int) bool { return fs[i].String() < fs[j].String() })
	return fs
}

// allRoots returns the roots used for the muxer-side and client-side analyses.
func (c *Ctx) muxerLockAnalysis() *lockAnalysis {
	ro := c.roles()
	var roots []*ssa.Function
	roots = append(roots, ro.W...)
	roots = append(roots, ro.R...)
	roots = append(roots, ro.INIT...)
	return c.lockAnalysisFor("muxer", roots)
}

func (c *Ctx) clientLockAnalysis() *lockAnalysis {
	ro := c.roles()
	var roots []*ssa.Function
	roots = append(roots, ro.CL...)
	roots = append(roots, ro.API...)
	return c.lockAnalysisFor("client", roots)
}

func (c *Ctx) roleLockAnalysis(name string, roots []*ssa.Function) *lockAnalysis {
	return c.lockAnalysisFor(name, roots)
}

var _ = fmt.Sprintf
var _ = token.NoPos

// libEntriesVia returns the library functions reachable from the non-library function g through
// non-library code only (the first library functions met on each path).
func (c *Ctx) libEntriesVia(g *ssa.Function) []*ssa.Function {
	var memo map[*ssa.Function][]*ssa.Function
	if v, ok := c.cache["libentries"]; ok {
		memo = v.(map[*ssa.Function][]*ssa.Function)
	} else {
		memo = map[*ssa.Function][]*ssa.Function{}
		c.cache["libentries"] = memo
	}
	if r, ok := memo[g]; ok {
		return r
	}
	seen := map[*ssa.Function]bool{g: true}
	work := []*ssa.Function{g}
	found := map[*ssa.Function]bool{}
	for len(work) > 0 {
		f := work[len(work)-1]
		work = work[:len(work)-1]
		n := c.CG.Nodes[f]
		if n == nil {
			continue
		}
		for _, e := range n.Out {
			h := e.Callee.Func
			if seen[h] {
				continue
			}
			seen[h] = true
			if InLib(h) {
				found[h] = true
				continue
			}
			work = append(work, h)
		}
	}
	var out []*ssa.Function
	for f := range found {
		out = append(out, f)
	}
	sort.Slice(out, func(i, j int) bool { return out[i].String() < out[j].String() })
	memo[g] = out
	return out
}
