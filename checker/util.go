package main

import (
	"fmt"
	"go/constant"
	"go/token"
	"go/types"
	"sort"
	"strings"

	"golang.org/x/tools/go/callgraph"
	"golang.org/x/tools/go/ssa"
)

// ---------------------------------------------------------------------------
// call graph helpers

// calleesOf returns every function the call site may invoke (static callee, or call-graph edges).
func (c *Ctx) calleesOf(site ssa.CallInstruction) []*ssa.Function {
	if f := site.Common().StaticCallee(); f != nil {
		return []*ssa.Function{f}
	}
	m := c.siteMap()
	return m[site]
}

func (c *Ctx) siteMap() map[ssa.CallInstruction][]*ssa.Function {
	if v, ok := c.cache["sitemap"]; ok {
		return v.(map[ssa.CallInstruction][]*ssa.Function)
	}
	m := map[ssa.CallInstruction][]*ssa.Function{}
	for _, n := range c.CG.Nodes {
		for _, e := range n.Out {
			if e.Site != nil {
				dup := false
				for _, x := range m[e.Site] {
					if x == e.Callee.Func {
						dup = true
					}
				}
				if !dup {
					m[e.Site] = append(m[e.Site], e.Callee.Func)
				}
			}
		}
	}
	for k := range m {
		fs := m[k]
		sort.Slice(fs, func(i, j int) bool { return fs[i].String() < fs[j].String() })
	}
	c.cache["sitemap"] = m
	return m
}

// callersOf returns the call edges into fn.
func (c *Ctx) callersOf(fn *ssa.Function) []*callgraph.Edge {
	n := c.CG.Nodes[fn]
	if n == nil {
		return nil
	}
	return n.In
}

// reach computes the set of functions reachable from roots through the call graph.
// Anonymous functions are reached through MakeClosure creation in a reached function
// too (a closure created is assumed callable), unless noClosures is set.
func (c *Ctx) reach(roots []*ssa.Function, stop func(*ssa.Function) bool) map[*ssa.Function]bool {
	seen := map[*ssa.Function]bool{}
	var work []*ssa.Function
	push := func(f *ssa.Function) {
		if f == nil || seen[f] {
			return
		}
		if stop != nil && stop(f) {
			return
		}
		seen[f] = true
		work = append(work, f)
	}
	for _, r := range roots {
		push(r)
	}
	for len(work) > 0 {
		f := work[len(work)-1]
		work = work[:len(work)-1]
		if n := c.CG.Nodes[f]; n != nil {
			for _, e := range n.Out {
				push(e.Callee.Func)
			}
		}
	}
	return seen
}

// reachPath returns a call chain root → target (function names) if one exists.
func (c *Ctx) reachPath(roots []*ssa.Function, target *ssa.Function) []string {
	prev := map[*ssa.Function]*ssa.Function{}
	seen := map[*ssa.Function]bool{}
	var q []*ssa.Function
	for _, r := range roots {
		if r != nil && !seen[r] {
			seen[r] = true
			q = append(q, r)
		}
	}
	for len(q) > 0 {
		f := q[0]
		q = q[1:]
		if f == target {
			var chain []string
			for x := f; x != nil; x = prev[x] {
				chain = append([]string{FuncName(x)}, chain...)
			}
			return chain
		}
		if n := c.CG.Nodes[f]; n != nil {
			outs := append([]*callgraph.Edge{}, n.Out...)
			sort.Slice(outs, func(i, j int) bool { return outs[i].Callee.Func.String() < outs[j].Callee.Func.String() })
			for _, e := range outs {
				g := e.Callee.Func
				if !seen[g] {
					seen[g] = true
					prev[g] = f
					q = append(q, g)
				}
			}
		}
	}
	return nil
}

// ---------------------------------------------------------------------------
// recognisers

// isFuncNamed reports whether fn is pkgPath.name (package-level function).
func isFuncNamed(fn *ssa.Function, pkgPath, name string) bool {
	if fn == nil || fn.Pkg == nil || fn.Signature.Recv() != nil {
		return false
	}
	return fn.Pkg.Pkg.Path() == pkgPath && fn.Name() == name
}

// isMethodNamed reports whether fn is the method (pkgPath.typeName).name, pointer or value receiver.
func isMethodNamed(fn *ssa.Function, pkgPath, typeName, name string) bool {
	if fn == nil || fn.Signature.Recv() == nil || fn.Name() != name {
		return false
	}
	t := fn.Signature.Recv().Type()
	if p, ok := t.(*types.Pointer); ok {
		t = p.Elem()
	}
	n, ok := t.(*types.Named)
	if !ok || n.Obj().Pkg() == nil {
		return false
	}
	return n.Obj().Pkg().Path() == pkgPath && n.Obj().Name() == typeName
}

// staticCallee of a call instruction or nil.
func staticCallee(i ssa.Instruction) *ssa.Function {
	if ci, ok := i.(ssa.CallInstruction); ok {
		return ci.Common().StaticCallee()
	}
	return nil
}

// isInvoke reports an interface method invocation and returns the method.
func invokeMethod(i ssa.Instruction) *types.Func {
	if ci, ok := i.(ssa.CallInstruction); ok && ci.Common().IsInvoke() {
		return ci.Common().Method
	}
	return nil
}

func namedOf(t types.Type) *types.Named {
	for {
		switch x := t.(type) {
		case *types.Pointer:
			t = x.Elem()
		case *types.Named:
			return x
		case *types.Alias:
			t = types.Unalias(x)
		default:
			return nil
		}
	}
}

func typeIs(t types.Type, pkgPath, name string) bool {
	n := namedOf(t)
	return n != nil && n.Obj().Pkg() != nil && n.Obj().Pkg().Path() == pkgPath && n.Obj().Name() == name
}

func isLibNamed(t types.Type) bool {
	n := namedOf(t)
	return n != nil && n.Obj().Pkg() != nil && isLibPkgPath(n.Obj().Pkg().Path())
}

// ---------------------------------------------------------------------------
// field addressing

// fieldOfAddr: if v is &x.f (FieldAddr) returns the field and the base pointer.
func fieldOfAddr(v ssa.Value) (*types.Var, ssa.Value) {
	if fa, ok := v.(*ssa.FieldAddr); ok {
		st := derefStruct(fa.X.Type())
		if st != nil {
			return st.Field(fa.Field), fa.X
		}
	}
	return nil, nil
}

func derefStruct(t types.Type) *types.Struct {
	t = t.Underlying()
	if p, ok := t.(*types.Pointer); ok {
		t = p.Elem().Underlying()
	}
	st, _ := t.(*types.Struct)
	return st
}

// fieldOfValue: if v is x.f on a struct value (ssa.Field) returns field and base.
func fieldOfValue(v ssa.Value) (*types.Var, ssa.Value) {
	if f, ok := v.(*ssa.Field); ok {
		st, _ := f.X.Type().Underlying().(*types.Struct)
		if st != nil {
			return st.Field(f.Field), f.X
		}
	}
	return nil, nil
}

// loadedField: if v is a load `*(&x.f)` or a value-field `x.f`, returns the field and base.
func loadedField(v ssa.Value) (*types.Var, ssa.Value) {
	if u, ok := v.(*ssa.UnOp); ok && u.Op == token.MUL {
		return fieldOfAddr(u.X)
	}
	return fieldOfValue(v)
}

// ownerOfField returns "Type.field" for display/keys.
func (c *Ctx) fieldName(f *types.Var) string {
	if f == nil {
		return "<nil>"
	}
	if owner := c.fieldOwner(f); owner != "" {
		return owner + "." + f.Name()
	}
	return f.Name()
}

// fieldOwner finds the named struct type that declares field f (library + a few deps).
func (c *Ctx) fieldOwner(f *types.Var) string {
	m := c.fieldOwnerMap()
	return m[f]
}

func (c *Ctx) fieldOwnerMap() map[*types.Var]string {
	if v, ok := c.cache["fieldowner"]; ok {
		return v.(map[*types.Var]string)
	}
	m := map[*types.Var]string{}
	for _, p := range c.Prog.AllPackages() {
		sc := p.Pkg.Scope()
		for _, n := range sc.Names() {
			tn, ok := sc.Lookup(n).(*types.TypeName)
			if !ok {
				continue
			}
			st, ok := tn.Type().Underlying().(*types.Struct)
			if !ok {
				continue
			}
			for i := 0; i < st.NumFields(); i++ {
				if _, dup := m[st.Field(i)]; !dup {
					m[st.Field(i)] = tn.Name()
				}
			}
		}
	}
	c.cache["fieldowner"] = m
	return m
}

// ---------------------------------------------------------------------------
// CFG helpers

// instrIndex returns the index of instr in its block.
func instrIndex(i ssa.Instruction) int {
	for k, x := range i.Block().Instrs {
		if x == i {
			return k
		}
	}
	return -1
}

// instrDominates: a executes before b on every path from entry to b.
func instrDominates(a, b ssa.Instruction) bool {
	if a.Block() == b.Block() {
		return instrIndex(a) < instrIndex(b)
	}
	return a.Block().Dominates(b.Block())
}

type edge struct{ from, to int }

// joinInfo describes a block whose terminating If tests a boolean φ of the block itself — what go/ssa emits for a
// short-circuit expression used as a value (`changed := a || !b; if changed`, the cases of a tagless switch): the
// branch taken is determined by the edge through which the block was entered.
type joinInfo struct {
	iff *ssa.If
	phi *ssa.Phi
	pol bool // succ[0] is taken when the φ is true
}

var joinCache = map[*ssa.BasicBlock]*joinInfo{}

func stripBoolWrap(v ssa.Value) (ssa.Value, bool) {
	pol := true
	for {
		switch x := v.(type) {
		case *ssa.UnOp:
			if x.Op == token.NOT {
				v = x.X
				pol = !pol
				continue
			}
		case *ssa.BinOp:
			if x.Op == token.EQL || x.Op == token.NEQ {
				if k, ok := constBool(x.X); ok {
					if _, isK := x.Y.(*ssa.Const); !isK {
						v = x.Y
						if k != (x.Op == token.EQL) {
							pol = !pol
						}
						continue
					}
				}
				if k, ok := constBool(x.Y); ok {
					if _, isK := x.X.(*ssa.Const); !isK {
						v = x.X
						if k != (x.Op == token.EQL) {
							pol = !pol
						}
						continue
					}
				}
			}
		}
		return v, pol
	}
}

func joinOf(b *ssa.BasicBlock) *joinInfo {
	if ji, ok := joinCache[b]; ok {
		return ji
	}
	var ji *joinInfo
	if len(b.Instrs) > 0 {
		if iff, ok := b.Instrs[len(b.Instrs)-1].(*ssa.If); ok {
			v, pol := stripBoolWrap(iff.Cond)
			if phi, ok := v.(*ssa.Phi); ok && phi.Block() == b && len(phi.Edges) == len(b.Preds) {
				ji = &joinInfo{iff: iff, phi: phi, pol: pol}
			}
		}
	}
	joinCache[b] = ji
	return ji
}

// vedge names, in a cut set, the virtual edge "block d, entered through its i-th predecessor (that predecessor — a
// block that only merges a boolean value — itself entered through its j-th predecessor, j < 0: any), to successor s".
func vedge(d, i, j, s int) edge { return edge{-(1 + (d*256+i)*256 + (j + 1)), s} }

// valueJoin: a block that merges a boolean value in a φ and jumps on (the inner `b || c` of `a && (b || c)` used as
// a value).
func valueJoinPhi(b *ssa.BasicBlock, used ssa.Value) *ssa.Phi {
	v, _ := stripBoolWrap(used)
	phi, ok := v.(*ssa.Phi)
	if !ok || phi.Block() != b || len(b.Succs) != 1 || len(phi.Edges) != len(b.Preds) {
		return nil
	}
	return phi
}

// phiPathValue resolves the value tested by the join block d when it was entered through predecessor index i (and
// that predecessor through j, or -1): the value with the polarity of the φ of d.
func phiPathValue(ji *joinInfo, d *ssa.BasicBlock, i, j int) (ssa.Value, bool) {
	ev, epol := stripBoolWrap(ji.phi.Edges[i])
	if j >= 0 {
		if q := valueJoinPhi(d.Preds[i], ev); q != nil && j < len(q.Edges) {
			v2, p2 := stripBoolWrap(q.Edges[j])
			return v2, epol == p2
		}
	}
	return ev, epol
}

// reachableBlocks returns, for fn, the set of blocks reachable from `start` (block index)
// when the given edges are removed and the given blocks are not entered. Blocks that test a φ of their own
// (joinInfo) are threaded: entered through an edge that carries a constant, only the matching successor is followed.
func reachableBlocks(fn *ssa.Function, start int, cut map[edge]bool, blocked map[int]bool) []bool {
	seen := make([]bool, len(fn.Blocks))
	if blocked[start] {
		return seen
	}
	type state struct{ b, via, via2 int } // via, via2: predecessor index + 1 of the block / of that predecessor (0: unknown)
	seenVia := map[state]bool{}
	stack := []state{{start, 0, 0}}
	seen[start] = true
	predIdx := func(B *ssa.BasicBlock, si int) int {
		s := B.Succs[si]
		k := 0
		for j := 0; j < si; j++ {
			if B.Succs[j] == s {
				k++
			}
		}
		for pi, p := range s.Preds {
			if p == B {
				if k == 0 {
					return pi
				}
				k--
			}
		}
		return -1
	}
	for len(stack) > 0 {
		cur := stack[len(stack)-1]
		stack = stack[:len(stack)-1]
		B := fn.Blocks[cur.b]
		ji := joinOf(B)
		for si, s := range B.Succs {
			if cut[edge{cur.b, s.Index}] || blocked[s.Index] {
				continue
			}
			if ji != nil && cur.via > 0 {
				ev, epol := phiPathValue(ji, B, cur.via-1, cur.via2-1)
				if k, ok := constBool(ev); ok {
					phiTrue := k == epol
					takes := 0
					if phiTrue != ji.pol {
						takes = 1
					}
					if si != takes {
						continue
					}
				}
				if cut[vedge(cur.b, cur.via-1, -1, s.Index)] || (cur.via2 > 0 && cut[vedge(cur.b, cur.via-1, cur.via2-1, s.Index)]) {
					continue
				}
			}
			via, via2 := 0, 0
			sj := joinOf(s)
			if sj != nil {
				via = predIdx(B, si) + 1
				if via > 0 && cur.via > 0 {
					ev, _ := stripBoolWrap(sj.phi.Edges[via-1])
					if valueJoinPhi(B, ev) != nil {
						via2 = cur.via
					}
				}
			} else if len(s.Succs) == 1 && joinOf(s.Succs[0]) != nil {
				// possibly a value-merging block: remember how it was entered
				via = predIdx(B, si) + 1
			}
			key := state{s.Index, via, via2}
			if seenVia[key] {
				continue
			}
			seenVia[key] = true
			seen[s.Index] = true
			stack = append(stack, key)
		}
	}
	return seen
}

// ifsOn returns the If instructions of fn whose condition is v (possibly through a chain of
// negations), with the polarity: pol=true means succ[0] is taken when v is true.
type condIf struct {
	If   *ssa.If
	Pol  bool
	Via  int       // 0: the If itself; i+1: the If of a φ-testing block as seen through its i-th incoming edge (ifsOnV)
	Via2 int       // j+1: that predecessor merges a boolean value and was entered through its j-th edge
	Val  ssa.Value // the tested value, negations stripped (the edge value for Via > 0)
}

// edgeWhen returns the (possibly virtual) edge taken when the tested value is val.
func (ci condIf) edgeWhen(val bool) edge {
	b := ci.If.Block()
	idx := 0
	if ci.Pol != val {
		idx = 1
	}
	if ci.Via > 0 {
		return vedge(b.Index, ci.Via-1, ci.Via2-1, b.Succs[idx].Index)
	}
	return edge{b.Index, b.Succs[idx].Index}
}

// ifsOnV is ifsOn plus the virtual conditions of φ-testing blocks: for `c := a || pred-value; if c {…}` (and the
// cases of a tagless switch) the If tests a φ; seen through the incoming edge that carries a value satisfying pred,
// it is an If on that value.
func ifsOnV(fn *ssa.Function, pred func(ssa.Value) bool) []condIf {
	out := ifsOn(fn, pred)
	for _, b := range fn.Blocks {
		ji := joinOf(b)
		if ji == nil {
			continue
		}
		for i, e := range ji.phi.Edges {
			v, epol := stripBoolWrap(e)
			if _, isK := v.(*ssa.Const); isK {
				continue
			}
			if pred(v) {
				out = append(out, condIf{If: ji.iff, Pol: ji.pol == epol, Via: i + 1, Val: v})
			}
			if q := valueJoinPhi(b.Preds[i], v); q != nil {
				for j, e2 := range q.Edges {
					v2, p2 := stripBoolWrap(e2)
					if _, isK := v2.(*ssa.Const); isK {
						continue
					}
					if pred(v2) {
						out = append(out, condIf{If: ji.iff, Pol: ji.pol == (epol == p2), Via: i + 1, Via2: j + 1, Val: v2})
					}
				}
			}
		}
	}
	return out
}

func ifsOn(fn *ssa.Function, pred func(ssa.Value) bool) []condIf {
	var out []condIf
	for _, b := range fn.Blocks {
		if len(b.Instrs) == 0 {
			continue
		}
		iff, ok := b.Instrs[len(b.Instrs)-1].(*ssa.If)
		if !ok {
			continue
		}
		v := iff.Cond
		pol := true
		for {
			if u, ok := v.(*ssa.UnOp); ok && u.Op == token.NOT {
				v = u.X
				pol = !pol
				continue
			}
			break
		}
		if pred(v) {
			out = append(out, condIf{If: iff, Pol: pol, Val: v})
		}
	}
	return out
}

// onlyIf decides "instruction target can execute only if some condition in `conds` took
// its `want` outcome": delete the edges taken when the condition has outcome `want`
// and test that target is unreachable from entry. conds with want=true cut the true edge.
func onlyIf(fn *ssa.Function, target ssa.Instruction, conds []condIf, want bool) bool {
	cut := map[edge]bool{}
	for _, ci := range conds {
		cut[ci.edgeWhen(want)] = true
	}
	seen := reachableBlocks(fn, 0, cut, nil)
	return !seen[target.Block().Index]
}

// constInt returns the integer value of a constant SSA value (through conversions).
func constInt(v ssa.Value) (int64, bool) {
	for {
		switch x := v.(type) {
		case *ssa.Const:
			if x.Value == nil {
				return 0, false
			}
			if x.Value.Kind() == constant.Int {
				i, ok := constant.Int64Val(x.Value)
				return i, ok
			}
			if x.Value.Kind() == constant.Float {
				f, _ := constant.Float64Val(x.Value)
				if f == float64(int64(f)) {
					return int64(f), true
				}
			}
			return 0, false
		case *ssa.Convert:
			v = x.X
		case *ssa.ChangeType:
			v = x.X
		default:
			return 0, false
		}
	}
}

func constString(v ssa.Value) (string, bool) {
	if k, ok := v.(*ssa.Const); ok && k.Value != nil && k.Value.Kind() == constant.String {
		return constant.StringVal(k.Value), true
	}
	return "", false
}

func constBool(v ssa.Value) (bool, bool) {
	if k, ok := v.(*ssa.Const); ok && k.Value != nil && k.Value.Kind() == constant.Bool {
		return constant.BoolVal(k.Value), true
	}
	return false, false
}

// stripConv removes Convert/ChangeType/ChangeInterface/MakeInterface wrappers.
func stripConv(v ssa.Value) ssa.Value {
	for {
		switch x := v.(type) {
		case *ssa.Convert:
			v = x.X
		case *ssa.ChangeType:
			v = x.X
		case *ssa.ChangeInterface:
			v = x.X
		case *ssa.MakeInterface:
			v = x.X
		default:
			return v
		}
	}
}

// ---------------------------------------------------------------------------
// access paths

// accessPath gives a canonical textual path for a value/address, used to match two
// loads of "the same location" (go/ssa performs no CSE). Unknown roots get a unique name.
func accessPath(v ssa.Value) string {
	switch x := v.(type) {
	case *ssa.Parameter:
		return "param:" + x.Name()
	case *ssa.FreeVar:
		return "free:" + x.Name()
	case *ssa.Global:
		return "global:" + x.Name()
	case *ssa.FieldAddr:
		st := derefStruct(x.X.Type())
		n := fmt.Sprintf("#%d", x.Field)
		if st != nil {
			n = st.Field(x.Field).Name()
		}
		return accessPath(x.X) + "." + n
	case *ssa.Field:
		st, _ := x.X.Type().Underlying().(*types.Struct)
		n := fmt.Sprintf("#%d", x.Field)
		if st != nil {
			n = st.Field(x.Field).Name()
		}
		return accessPath(x.X) + "." + n
	case *ssa.UnOp:
		if x.Op == token.MUL {
			return "*(" + accessPath(x.X) + ")"
		}
	case *ssa.TypeAssert:
		return accessPath(x.X) + ".(" + x.AssertedType.String() + ")"
	case *ssa.Extract:
		return fmt.Sprintf("%s#%d", accessPath(x.Tuple), x.Index)
	case *ssa.ChangeType:
		return accessPath(x.X)
	case *ssa.Convert:
		return "conv(" + accessPath(x.X) + ")"
	case *ssa.MakeInterface:
		return accessPath(x.X)
	case *ssa.Const:
		return "const:" + x.String()
	case *ssa.IndexAddr:
		return accessPath(x.X) + "[" + accessPath(x.Index) + "]"
	case *ssa.Alloc:
		if x.Comment != "" {
			return "alloc:" + x.Comment
		}
		return "alloc:" + x.Name()
	}
	return "val:" + v.Name()
}

// rootOf strips field/deref/assert chains and returns the root value of an access path.
func rootOf(v ssa.Value) ssa.Value {
	for {
		switch x := v.(type) {
		case *ssa.FieldAddr:
			v = x.X
		case *ssa.Field:
			v = x.X
		case *ssa.UnOp:
			if x.Op == token.MUL {
				v = x.X
				continue
			}
			return v
		case *ssa.TypeAssert:
			v = x.X
		case *ssa.ChangeType:
			v = x.X
		case *ssa.MakeInterface:
			v = x.X
		case *ssa.IndexAddr:
			v = x.X
		case *ssa.Extract:
			// comma-ok type assertion
			if ta, ok := x.Tuple.(*ssa.TypeAssert); ok && x.Index == 0 {
				v = ta.X
				continue
			}
			return v
		default:
			return v
		}
	}
}

// ---------------------------------------------------------------------------
// misc

func sortedKeys(m map[string]bool) []string {
	var ks []string
	for k := range m {
		ks = append(ks, k)
	}
	sort.Strings(ks)
	return ks
}

func shortInstr(i ssa.Instruction) string {
	s := i.String()
	s = strings.ReplaceAll(s, modPath+"/pkg/", "")
	s = strings.ReplaceAll(s, modPath+".", "")
	if len(s) > 140 {
		s = s[:140] + "…"
	}
	return s
}

// blockPathDesc renders a list of blocks with the source line of their first positioned instruction.
func (c *Ctx) blockDesc(b *ssa.BasicBlock) string {
	for _, in := range b.Instrs {
		if in.Pos().IsValid() {
			return fmt.Sprintf("block %d (%s) %s", b.Index, b.Comment, c.Pos(in.Pos()))
		}
	}
	return fmt.Sprintf("block %d (%s)", b.Index, b.Comment)
}

// allInstrs iterates over the instructions of fn.
func allInstrs(fn *ssa.Function, f func(ssa.Instruction)) {
	for _, b := range fn.Blocks {
		for _, in := range b.Instrs {
			f(in)
		}
	}
}

// anonChildren returns fn and all anonymous functions nested in it.
func withAnon(fn *ssa.Function) []*ssa.Function {
	out := []*ssa.Function{fn}
	for _, a := range fn.AnonFuncs {
		out = append(out, withAnon(a)...)
	}
	return out
}

// enclosingNamed returns the outermost named function containing fn.
func enclosingNamed(fn *ssa.Function) *ssa.Function {
	for fn.Parent() != nil {
		fn = fn.Parent()
	}
	return fn
}

// posOf returns the first valid position of an instruction, falling back to its block.
func posOf(i ssa.Instruction) token.Pos {
	if i.Pos().IsValid() {
		return i.Pos()
	}
	if v, ok := i.(ssa.Value); ok {
		for _, r := range *v.Referrers() {
			if r.Pos().IsValid() {
				return r.Pos()
			}
		}
	}
	for _, in := range i.Block().Instrs {
		if in.Pos().IsValid() {
			return in.Pos()
		}
	}
	return token.NoPos
}

// retVal returns the i-th result of a return, looking through the spill that go/ssa inserts in
// functions with defers (`*t0 = v; rundefers; t1 = *t0; return t1`).
func retVal(ret *ssa.Return, i int) ssa.Value {
	v := ret.Results[i]
	u, ok := v.(*ssa.UnOp)
	if !ok || u.Op != token.MUL {
		return v
	}
	al, ok := u.X.(*ssa.Alloc)
	if !ok {
		return v
	}
	b := ret.Block()
	idx := instrIndex(u)
	if u.Block() != b || idx < 0 {
		return v
	}
	for k := idx - 1; k >= 0; k-- {
		if st, ok := b.Instrs[k].(*ssa.Store); ok && st.Addr == al {
			return st.Val
		}
	}
	return v
}

// canon resolves a load of a single-assignment local cell (a variable captured by a closure)
// to the value stored in it, and strips interface conversions / assertions.
func canon(v ssa.Value) ssa.Value {
	for i := 0; i < 8; i++ {
		v = stripAsserts(v)
		u, ok := v.(*ssa.UnOp)
		if !ok || u.Op != token.MUL {
			return v
		}
		al, ok := u.X.(*ssa.Alloc)
		if !ok {
			return v
		}
		var stored ssa.Value
		n := 0
		for _, ref := range *al.Referrers() {
			if st, ok := ref.(*ssa.Store); ok && st.Addr == al {
				n++
				stored = st.Val
			}
		}
		if n != 1 {
			return v
		}
		v = stored
	}
	return v
}

// freshObject: v is (the address of a field of) an object allocated by this function itself: an Alloc, possibly
// reached through value-embedded struct fields and through single-assignment local cells — but never through a
// pointer load (the pointee of a field of a fresh object need not be fresh, and a local cell holding a parameter
// is not an object).
func freshObject(v ssa.Value) bool {
	for i := 0; i < 8; i++ {
		v = canon(v)
		switch x := v.(type) {
		case *ssa.Alloc:
			return true
		case *ssa.FieldAddr:
			v = x.X
		case *ssa.IndexAddr:
			// element of a local array (varargs pack)
			v = x.X
		default:
			return false
		}
	}
	return false
}

func constantFloat64(k *ssa.Const) (float64, bool) {
	v := constant.ToFloat(k.Value)
	if v.Kind() != constant.Float {
		return 0, false
	}
	f, _ := constant.Float64Val(v)
	return f, true
}
