package main

import (
	"fmt"
	"go/constant"
	"go/token"
	"go/types"
	"sort"
	"strings"

	"golang.org/x/tools/go/callgraph"
	"golang.org/x/tools/go/ssa"
)

// ---------------------------------------------------------------------------
// call graph helpers

// calleesOf returns every function the call site may invoke (static callee, or call-graph edges).
func (c *Ctx) calleesOf(site ssa.CallInstruction) []*ssa.Function {
	if f := site.Common().StaticCallee(); f != nil {
		return []*ssa.Function{f}
	}
	m := c.siteMap()
	return m[site]
}

func (c *Ctx) siteMap() map[ssa.CallInstruction][]*ssa.Function {
	if v, ok := c.cache["sitemap"]; ok {
		return v.(map[ssa.CallInstruction][]*ssa.Function)
	}
	m := map[ssa.CallInstruction][]*ssa.Function{}
	for _, n := range c.CG.Nodes {
		for _, e := range n.Out {
			if e.Site != nil {
				dup := false
				for _, x := range m[e.Site] {
					if x == e.Callee.Func {
						dup = true
					}
				}
				if !dup {
					m[e.Site] = append(m[e.Site], e.Callee.Func)
				}
			}
		}
	}
	for k := range m {
		fs := m[k]
		sort.Slice(fs, func(i, j int) bool { return fs[i].String() < fs[j].String() })
	}
	c.cache["sitemap"] = m
	return m
}

// callersOf returns the call edges into fn.
func (c *Ctx) callersOf(fn *ssa.Function) []*callgraph.Edge {
	n := c.CG.Nodes[fn]
	if n == nil {
		return nil
	}
	return n.In
}

// reach computes the set of functions reachable from roots through the call graph.
// Anonymous functions are reached through MakeClosure creation in a reached function
// too (a closure created is assumed callable), unless noClosures is set.
func (c *Ctx) reach(roots []*ssa.Function, stop func(*ssa.Function) bool) map[*ssa.Function]bool {
	seen := map[*ssa.Function]bool{}
	var work []*ssa.Function
	push := func(f *ssa.Function) {
		if f == nil || seen[f] {
			return
		}
		if stop != nil && stop(f) {
			return
		}
		seen[f] = true
		work = append(work, f)
	}
	for _, r := range roots {
		push(r)
	}
	for len(work) > 0 {
		f := work[len(work)-1]
		work = work[:len(work)-1]
		if n := c.CG.Nodes[f]; n != nil {
			for _, e := range n.Out {
				push(e.Callee.Func)
			}
		}
	}
	return seen
}

// reachPath returns a call chain root → target (function names) if one exists.
func (c *Ctx) reachPath(roots []*ssa.Function, target *ssa.Function) []string {
	prev := map[*ssa.Function]*ssa.Function{}
	seen := map[*ssa.Function]bool{}
	var q []*ssa.Function
	for _, r := range roots {
		if r != nil && !seen[r] {
			seen[r] = true
			q = append(q, r)
		}
	}
	for len(q) > 0 {
		f := q[0]
		q = q[1:]
		if f == target {
			var chain []string
			for x := f; x != nil; x = prev[x] {
				chain = append([]string{FuncName(x)}, chain...)
			}
			return chain
		}
		if n := c.CG.Nodes[f]; n != nil {
			outs := append([]*callgraph.Edge{}, n.Out...)
			sort.Slice(outs, func(i, j int) bool { return outs[i].Callee.Func.String() < outs[j].Callee.Func.String() })
			for _, e := range outs {
				g := e.Callee.Func
				if !seen[g] {
					seen[g] = true
					prev[g] = f
					q = append(q, g)
				}
			}
		}
	}
	return nil
}

// ---------------------------------------------------------------------------
// recognisers

// isFuncNamed reports whether fn is pkgPath.name (package-level function).
func isFuncNamed(fn *ssa.Function, pkgPath, name string) bool {
	if fn == nil || fn.Pkg == nil || fn.Signature.Recv() != nil {
		return false
	}
	return fn.Pkg.Pkg.Path() == pkgPath && fn.Name() == name
}

// isMethodNamed reports whether fn is the method (pkgPath.typeName).name, pointer or value receiver.
func isMethodNamed(fn *ssa.Function, pkgPath, typeName, name string) bool {
	if fn == nil || fn.Signature.Recv() == nil || fn.Name() != name {
		return false
	}
	t := fn.Signature.Recv().Type()
	if p, ok := t.(*types.Pointer); ok {
		t = p.Elem()
	}
	n, ok := t.(*types.Named)
	if !ok || n.Obj().Pkg() == nil {
		return false
	}
	return n.Obj().Pkg().Path() == pkgPath && n.Obj().Name() == typeName
}

// staticCallee of a call instruction or nil.
func staticCallee(i ssa.Instruction) *ssa.Function {
	if ci, ok := i.(ssa.CallInstruction); ok {
		return ci.Common().StaticCallee()
	}
	return nil
}

// isInvoke reports an interface method invocation and returns the method.
func invokeMethod(i ssa.Instruction) *types.Func {
	if ci, ok := i.(ssa.CallInstruction); ok && ci.Common().IsInvoke() {
		return ci.Common().Method
	}
	return nil
}

func namedOf(t types.Type) *types.Named {
	for {
		switch x := t.(type) {
		case *types.Pointer:
			t = x.Elem()
		case *types.Named:
			return x
		case *types.Alias:
			t = types.Unalias(x)
		default:
			return nil
		}
	}
}

func typeIs(t types.Type, pkgPath, name string) bool {
	n := namedOf(t)
	return n != nil && n.Obj().Pkg() != nil && n.Obj().Pkg().Path() == pkgPath && n.Obj().Name() == name
}

func isLibNamed(t types.Type) bool {
	n := namedOf(t)
	return n != nil && n.Obj().Pkg() != nil && isLibPkgPath(n.Obj().Pkg().Path())
}

// ---------------------------------------------------------------------------
// field addressing

// fieldOfAddr: if v is &x.f (FieldAddr) returns the field and the base pointer.
func fieldOfAddr(v ssa.Value) (*types.Var, ssa.Value) {
	if fa, ok := v.(*ssa.FieldAddr); ok {
		st := derefStruct(fa.X.Type())
		if st != nil {
			return st.Field(fa.Field), fa.X
		}
	}
	return nil, nil
}

func derefStruct(t types.Type) *types.Struct {
	t = t.Underlying()
	if p, ok := t.(*types.Pointer); ok {
		t = p.Elem().Underlying()
	}
	st, _ := t.(*types.Struct)
	return st
}

// fieldOfValue: if v is x.f on a struct value (ssa.Field) returns field and base.
func fieldOfValue(v ssa.Value) (*types.Var, ssa.Value) {
	if f, ok := v.(*ssa.Field); ok {
		st, _ := f.X.Type().Underlying().(*types.Struct)
		if st != nil {
			return st.Field(f.Field), f.X
		}
	}
	return nil, nil
}

// loadedField: if v is a load `*(&x.f)` or a value-field `x.f`, returns the field and base.
func loadedField(v ssa.Value) (*types.Var, ssa.Value) {
	if u, ok := v.(*ssa.UnOp); ok && u.Op == token.MUL {
		return fieldOfAddr(u.X)
	}
	return fieldOfValue(v)
}

// ownerOfField returns "Type.field" for display/keys.
func (c *Ctx) fieldName(f *types.Var) string {
	if f == nil {
		return "<nil>"
	}
	if owner := c.fieldOwner(f); owner != "" {
		return owner + "." + f.Name()
	}
	return f.Name()
}

// fieldOwner finds the named struct type that declares field f (library + a few deps).
func (c *Ctx) fieldOwner(f *types.Var) string {
	m := c.fieldOwnerMap()
	return m[f]
}

func (c *Ctx) fieldOwnerMap() map[*types.Var]string {
	if v, ok := c.cache["fieldowner"]; ok {
		return v.(map[*types.Var]string)
	}
	m := map[*types.Var]string{}
	for _, p := range c.Prog.AllPackages() {
		sc := p.Pkg.Scope()
		for _, n := range sc.Names() {
			tn, ok := sc.Lookup(n).(*types.TypeName)
			if !ok {
				continue
			}
			st, ok := tn.Type().Underlying().(*types.Struct)
			if !ok {
				continue
			}
			for i := 0; i < st.NumFields(); i++ {
				if _, dup := m[st.Field(i)]; !dup {
					m[st.Field(i)] = tn.Name()
				}
			}
		}
	}
	c.cache["fieldowner"] = m
	return m
}

// ---------------------------------------------------------------------------
// CFG helpers

// instrIndex returns the index of instr in its block.
func instrIndex(i ssa.Instruction) int {
	for k, x := range i.Block().Instrs {
		if x == i {
			return k
		}
	}
	return -1
}

// instrDominates: a executes before b on every path from entry to b.
func instrDominates(a, b ssa.Instruction) bool {
	if a.Block() == b.Block() {
		return instrIndex(a) < instrIndex(b)
	}
	return a.Block().Dominates(b.Block())
}

type edge struct{ from, to int }

// reachableBlocks returns, for fn, the set of blocks reachable from `start` (block index)
// when the given edges are removed and the given blocks are not entered.
func reachableBlocks(fn *ssa.Function, start int, cut map[edge]bool, blocked map[int]bool) []bool {
	seen := make([]bool, len(fn.Blocks))
	if blocked[start] {
		return seen
	}
	stack := []int{start}
	seen[start] = true
	for len(stack) > 0 {
		b := stack[len(stack)-1]
		stack = stack[:len(stack)-1]
		for _, s := range fn.Blocks[b].Succs {
			if cut[edge{b, s.Index}] || blocked[s.Index] || seen[s.Index] {
				continue
			}
			seen[s.Index] = true
			stack = append(stack, s.Index)
		}
	}
	return seen
}

// ifsOn returns the If instructions of fn whose condition is v (possibly through a chain of
// negations), with the polarity: pol=true means succ[0] is taken when v is true.
type condIf struct {
	If  *ssa.If
	Pol bool
}

func ifsOn(fn *ssa.Function, pred func(ssa.Value) bool) []condIf {
	var out []condIf
	for _, b := range fn.Blocks {
		if len(b.Instrs) == 0 {
			continue
		}
		iff, ok := b.Instrs[len(b.Instrs)-1].(*ssa.If)
		if !ok {
			continue
		}
		v := iff.Cond
		pol := true
		for {
			if u, ok := v.(*ssa.UnOp); ok && u.Op == token.NOT {
				v = u.X
				pol = !pol
				continue
			}
			break
		}
		if pred(v) {
			out = append(out, condIf{iff, pol})
		}
	}
	return out
}

// onlyIf decides "instruction target can execute only if some condition in `conds` took
// its `want` outcome": delete the edges taken when the condition has outcome `want`
// and test that target is unreachable from entry. conds with want=true cut the true edge.
func onlyIf(fn *ssa.Function, target ssa.Instruction, conds []condIf, want bool) bool {
	cut := map[edge]bool{}
	for _, ci := range conds {
		b := ci.If.Block()
		idx := 0 // successor taken when cond value == want
		if ci.Pol != want {
			idx = 1
		}
		cut[edge{b.Index, b.Succs[idx].Index}] = true
	}
	seen := reachableBlocks(fn, 0, cut, nil)
	return !seen[target.Block().Index]
}

// constInt returns the integer value of a constant SSA value (through conversions).
func constInt(v ssa.Value) (int64, bool) {
	for {
		switch x := v.(type) {
		case *ssa.Const:
			if x.Value == nil {
				return 0, false
			}
			if x.Value.Kind() == constant.Int {
				i, ok := constant.Int64Val(x.Value)
				return i, ok
			}
			if x.Value.Kind() == constant.Float {
				f, _ := constant.Float64Val(x.Value)
				if f == float64(int64(f)) {
					return int64(f), true
				}
			}
			return 0, false
		case *ssa.Convert:
			v = x.X
		case *ssa.ChangeType:
			v = x.X
		default:
			return 0, false
		}
	}
}

func constString(v ssa.Value) (string, bool) {
	if k, ok := v.(*ssa.Const); ok && k.Value != nil && k.Value.Kind() == constant.String {
		return constant.StringVal(k.Value), true
	}
	return "", false
}

func constBool(v ssa.Value) (bool, bool) {
	if k, ok := v.(*ssa.Const); ok && k.Value != nil && k.Value.Kind() == constant.Bool {
		return constant.BoolVal(k.Value), true
	}
	return false, false
}

// stripConv removes Convert/ChangeType/ChangeInterface/MakeInterface wrappers.
func stripConv(v ssa.Value) ssa.Value {
	for {
		switch x := v.(type) {
		case *ssa.Convert:
			v = x.X
		case *ssa.ChangeType:
			v = x.X
		case *ssa.ChangeInterface:
			v = x.X
		case *ssa.MakeInterface:
			v = x.X
		default:
			return v
		}
	}
}

// ---------------------------------------------------------------------------
// access paths

// accessPath gives a canonical textual path for a value/address, used to match two
// loads of "the same location" (go/ssa performs no CSE). Unknown roots get a unique name.
func accessPath(v ssa.Value) string {
	switch x := v.(type) {
	case *ssa.Parameter:
		return "param:" + x.Name()
	case *ssa.FreeVar:
		return "free:" + x.Name()
	case *ssa.Global:
		return "global:" + x.Name()
	case *ssa.FieldAddr:
		st := derefStruct(x.X.Type())
		n := fmt.Sprintf("#%d", x.Field)
		if st != nil {
			n = st.Field(x.Field).Name()
		}
		return accessPath(x.X) + "." + n
	case *ssa.Field:
		st, _ := x.X.Type().Underlying().(*types.Struct)
		n := fmt.Sprintf("#%d", x.Field)
		if st != nil {
			n = st.Field(x.Field).Name()
		}
		return accessPath(x.X) + "." + n
	case *ssa.UnOp:
		if x.Op == token.MUL {
			return "*(" + accessPath(x.X) + ")"
		}
	case *ssa.TypeAssert:
		return accessPath(x.X) + ".(" + x.AssertedType.String() + ")"
	case *ssa.Extract:
		return fmt.Sprintf("%s#%d", accessPath(x.Tuple), x.Index)
	case *ssa.ChangeType:
		return accessPath(x.X)
	case *ssa.Convert:
		return "conv(" + accessPath(x.X) + ")"
	case *ssa.MakeInterface:
		return accessPath(x.X)
	case *ssa.Const:
		return "const:" + x.String()
	case *ssa.IndexAddr:
		return accessPath(x.X) + "[" + accessPath(x.Index) + "]"
	case *ssa.Alloc:
		if x.Comment != "" {
			return "alloc:" + x.Comment
		}
		return "alloc:" + x.Name()
	}
	return "val:" + v.Name()
}

// rootOf strips field/deref/assert chains and returns the root value of an access path.
func rootOf(v ssa.Value) ssa.Value {
	for {
		switch x := v.(type) {
		case *ssa.FieldAddr:
			v = x.X
		case *ssa.Field:
			v = x.X
		case *ssa.UnOp:
			if x.Op == token.MUL {
				v = x.X
				continue
			}
			return v
		case *ssa.TypeAssert:
			v = x.X
		case *ssa.ChangeType:
			v = x.X
		case *ssa.MakeInterface:
			v = x.X
		case *ssa.IndexAddr:
			v = x.X
		case *ssa.Extract:
			// comma-ok type assertion
			if ta, ok := x.Tuple.(*ssa.TypeAssert); ok && x.Index == 0 {
				v = ta.X
				continue
			}
			return v
		default:
			return v
		}
	}
}

// ---------------------------------------------------------------------------
// misc

func sortedKeys(m map[string]bool) []string {
	var ks []string
	for k := range m {
		ks = append(ks, k)
	}
	sort.Strings(ks)
	return ks
}

func shortInstr(i ssa.Instruction) string {
	s := i.String()
	s = strings.ReplaceAll(s, modPath+"/pkg/", "")
	s = strings.ReplaceAll(s, modPath+".", "")
	if len(s) > 140 {
		s = s[:140] + "…"
	}
	return s
}

// blockPathDesc renders a list of blocks with the source line of their first positioned instruction.
func (c *Ctx) blockDesc(b *ssa.BasicBlock) string {
	for _, in := range b.Instrs {
		if in.Pos().IsValid() {
			return fmt.Sprintf("block %d (%s) %s", b.Index, b.Comment, c.Pos(in.Pos()))
		}
	}
	return fmt.Sprintf("block %d (%s)", b.Index, b.Comment)
}

// allInstrs iterates over the instructions of fn.
func allInstrs(fn *ssa.Function, f func(ssa.Instruction)) {
	for _, b := range fn.Blocks {
		for _, in := range b.Instrs {
			f(in)
		}
	}
}

// anonChildren returns fn and all anonymous functions nested in it.
func withAnon(fn *ssa.Function) []*ssa.Function {
	out := []*ssa.Function{fn}
	for _, a := range fn.AnonFuncs {
		out = append(out, withAnon(a)...)
	}
	return out
}

// enclosingNamed returns the outermost named function containing fn.
func enclosingNamed(fn *ssa.Function) *ssa.Function {
	for fn.Parent() != nil {
		fn = fn.Parent()
	}
	return fn
}

// posOf returns the first valid position of an instruction, falling back to its block.
func posOf(i ssa.Instruction) token.Pos {
	if i.Pos().IsValid() {
		return i.Pos()
	}
	if v, ok := i.(ssa.Value); ok {
		for _, r := range *v.Referrers() {
			if r.Pos().IsValid() {
				return r.Pos()
			}
		}
	}
	for _, in := range i.Block().Instrs {
		if in.Pos().IsValid() {
			return in.Pos()
		}
	}
	return token.NoPos
}

// retVal returns the i-th result of a return, looking through the spill that go/ssa inserts in
// functions with defers (`*t0 = v; rundefers; t1 = *t0; return t1`).
func retVal(ret *ssa.Return, i int) ssa.Value {
	v := ret.Results[i]
	u, ok := v.(*ssa.UnOp)
	if !ok || u.Op != token.MUL {
		return v
	}
	al, ok := u.X.(*ssa.Alloc)
	if !ok {
		return v
	}
	b := ret.Block()
	idx := instrIndex(u)
	if u.Block() != b || idx < 0 {
		return v
	}
	for k := idx - 1; k >= 0; k-- {
		if st, ok := b.Instrs[k].(*ssa.Store); ok && st.Addr == al {
			return st.Val
		}
	}
	return v
}

// canon resolves a load of a single-assignment local cell (a variable captured by a closure)
// to the value stored in it, and strips interface conversions / assertions.
func canon(v ssa.Value) ssa.Value {
	for i := 0; i < 8; i++ {
		v = stripAsserts(v)
		u, ok := v.(*ssa.UnOp)
		if !ok || u.Op != token.MUL {
			return v
		}
		al, ok := u.X.(*ssa.Alloc)
		if !ok {
			return v
		}
		var stored ssa.Value
		n := 0
		for _, ref := range *al.Referrers() {
			if st, ok := ref.(*ssa.Store); ok && st.Addr == al {
				n++
				stored = st.Val
			}
		}
		if n != 1 {
			return v
		}
		v = stored
	}
	return v
}

// freshObject: v is (the address of a field of) an object allocated by this function itself: an Alloc, possibly
// reached through value-embedded struct fields and through single-assignment local cells — but never through a
// pointer load (the pointee of a field of a fresh object need not be fresh, and a local cell holding a parameter
// is not an object).
func freshObject(v ssa.Value) bool {
	for i := 0; i < 8; i++ {
		v = canon(v)
		switch x := v.(type) {
		case *ssa.Alloc:
			return true
		case *ssa.FieldAddr:
			v = x.X
		case *ssa.IndexAddr:
			// element of a local array (varargs pack)
			v = x.X
		default:
			return false
		}
	}
	return false
}

func constantFloat64(k *ssa.Const) (float64, bool) {
	v := constant.ToFloat(k.Value)
	if v.Kind() != constant.Float {
		return 0, false
	}
	f, _ := constant.Float64Val(v)
	return f, true
}
