package main

import (
	"golang.org/x/tools/go/ssa"
)

// unmodelledStringFuncs: library functions that assemble text through strings.Builder / bytes.Buffer (directly, or by
// printing the result of such a function), keyed by FuncName, with the name of the unmodelled type.
func (c *Ctx) unmodelledStringFuncs() map[string]string {
	if v, ok := c.cache["unmodelledStr"]; ok {
		return v.(map[string]string)
	}
	out := map[string]string{}
	direct := map[*ssa.Function]string{}
	for _, fn := range c.Funcs {
		allInstrs(fn, func(in ssa.Instruction) {
			call, ok := in.(*ssa.Call)
			if !ok {
				return
			}
			f := call.Call.StaticCallee()
			switch {
			case isMethodNamed(f, "strings", "Builder", "String"), isMethodNamed(f, "strings", "Builder", "WriteString"):
				direct[fn] = "strings.Builder"
			case isMethodNamed(f, "bytes", "Buffer", "String"), isMethodNamed(f, "bytes", "Buffer", "WriteString"), isMethodNamed(f, "bytes", "Buffer", "Bytes"):
				// bytes.Buffer is also used as a byte container by the storage and fMP4 code: only string-producing functions count
				if fn.Signature.Results().Len() > 0 && isStringish(fn.Signature.Results()) {
					direct[fn] = "bytes.Buffer"
				}
			}
		})
	}
	// close under lib callers whose own result is a string / byte slice (they print the callee's text)
	work := []*ssa.Function{}
	for f, w := range direct {
		out[FuncName(f)] = w
		work = append(work, f)
	}
	for len(work) > 0 {
		f := work[len(work)-1]
		work = work[:len(work)-1]
		for _, e := range c.callersOf(f) {
			g := e.Caller.Func
			if !InLib(g) || out[FuncName(g)] != "" {
				continue
			}
			if f.Signature.Results().Len() == 0 || !isStringish(f.Signature.Results()) {
				continue
			}
			out[FuncName(g)] = out[FuncName(f)] + " (through " + FuncName(f) + ")"
			work = append(work, g)
		}
	}
	c.cache["unmodelledStr"] = out
	return out
}
