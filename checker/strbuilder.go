package main

import (
	"go/types"

	"golang.org/x/tools/go/ssa"
)

// unmodelledStringFuncs: library functions that assemble text through strings.Builder / bytes.Buffer (directly, or by
// printing the result of such a function), keyed by FuncName, with the name of the unmodelled type.
func (c *Ctx) unmodelledStringFuncs() map[string]string {
	if v, ok := c.cache["unmodelledStr"]; ok {
		return v.(map[string]string)
	}
	out := map[string]string{}
	direct := map[*ssa.Function]string{}
	for _, fn := range c.Funcs {
		allInstrs(fn, func(in ssa.Instruction) {
			call, ok := in.(*ssa.Call)
			if !ok {
				return
			}
			f := call.Call.StaticCallee()
			switch {
			case isMethodNamed(f, "strings", "Builder", "String"), isMethodNamed(f, "strings", "Builder", "WriteString"):
				if al, ok := call.Call.Args[0].(*ssa.Alloc); ok && modelledBuilders(fn)[al] {
					return // a local accumulator: modelled (see below)
				}
				direct[fn] = "strings.Builder"
			case isMethodNamed(f, "bytes", "Buffer", "String"), isMethodNamed(f, "bytes", "Buffer", "WriteString"), isMethodNamed(f, "bytes", "Buffer", "Bytes"):
				// bytes.Buffer is also used as a byte container by the storage and fMP4 code: only string-producing functions count
				if fn.Signature.Results().Len() > 0 && isStringish(fn.Signature.Results()) {
					direct[fn] = "bytes.Buffer"
				}
			}
		})
	}
	// close under lib callers whose own result is a string / byte slice (they print the callee's text)
	work := []*ssa.Function{}
	for f, w := range direct {
		out[FuncName(f)] = w
		work = append(work, f)
	}
	for len(work) > 0 {
		f := work[len(work)-1]
		work = work[:len(work)-1]
		for _, e := range c.callersOf(f) {
			g := e.Caller.Func
			if !InLib(g) || out[FuncName(g)] != "" {
				continue
			}
			if f.Signature.Results().Len() == 0 || !isStringish(f.Signature.Results()) {
				continue
			}
			out[FuncName(g)] = out[FuncName(f)] + " (through " + FuncName(f) + ")"
			work = append(work, g)
		}
	}
	c.cache["unmodelledStr"] = out
	return out
}

// ---------------------------------------------------------------------------
// strings.Builder model: a local Builder that is only used as the receiver of its own methods is a string
// accumulator. Its abstract content is computed by a forward dataflow over the CFG; WriteString calls play the
// part of `acc += x` (a junction is recorded between the content so far and the argument), String() yields the
// content.

type builderModel struct {
	before map[*ssa.Call]sabs // content before a write call
	result map[*ssa.Call]sabs // value of a String() call
}

func builderMethod(call *ssa.Call) (string, ssa.Value) {
	f := call.Call.StaticCallee()
	if f == nil || f.Signature.Recv() == nil || len(call.Call.Args) == 0 {
		return "", nil
	}
	n := namedOf(f.Signature.Recv().Type())
	if n == nil || n.Obj().Pkg() == nil || n.Obj().Pkg().Path() != "strings" || n.Obj().Name() != "Builder" {
		return "", nil
	}
	return f.Name(), call.Call.Args[0]
}

// modelledBuilders: the Builder cells of fn every use of which is a method call with the cell as receiver.
func modelledBuilders(fn *ssa.Function) map[*ssa.Alloc]bool {
	out := map[*ssa.Alloc]bool{}
	allInstrs(fn, func(in ssa.Instruction) {
		al, ok := in.(*ssa.Alloc)
		if !ok {
			return
		}
		pt, ok := al.Type().Underlying().(*types.Pointer)
		if !ok || !typeIs(pt.Elem(), "strings", "Builder") {
			return
		}
		okAll := true
		for _, ref := range *al.Referrers() {
			switch x := ref.(type) {
			case *ssa.Call:
				name, recv := builderMethod(x)
				if recv != ssa.Value(al) {
					okAll = false
				}
				switch name {
				case "WriteString", "WriteByte", "WriteRune", "String", "Len", "Grow", "Reset":
				default:
					okAll = false
				}
			case *ssa.DebugRef:
			default:
				okAll = false
			}
		}
		if okAll {
			out[al] = true
		}
	})
	return out
}

func (si *strInterp) builderModelOf(fn *ssa.Function) *builderModel {
	if si.builders == nil {
		si.builders = map[*ssa.Function]*builderModel{}
	}
	if m, ok := si.builders[fn]; ok {
		return m
	}
	m := &builderModel{before: map[*ssa.Call]sabs{}, result: map[*ssa.Call]sabs{}}
	si.builders[fn] = m
	cells := modelledBuilders(fn)
	for al := range cells {
		in := make([]sabs, len(fn.Blocks))
		out := make([]sabs, len(fn.Blocks))
		reached := make([]bool, len(fn.Blocks))
		start := al.Block().Index
		for iter := 0; iter < 40; iter++ {
			changed := false
			for _, b := range fn.Blocks {
				var st sabs
				if b.Index == start {
					st = absConst("")
					reached[b.Index] = true
				} else {
					any := false
					for _, p := range b.Preds {
						if reached[p.Index] {
							st = st.join(out[p.Index])
							any = true
						}
					}
					if !any {
						continue
					}
					reached[b.Index] = true
				}
				in[b.Index] = st
				for _, ins := range b.Instrs {
					call, ok := ins.(*ssa.Call)
					if !ok {
						continue
					}
					name, recv := builderMethod(call)
					if recv != ssa.Value(al) {
						continue
					}
					switch name {
					case "WriteString":
						arg := si.eval(call.Call.Args[1])
						m.before[call] = m.before[call].join(st)
						si.junctions = append(si.junctions, junction{at: call, left: st.last, right: arg.first})
						st = absConcat(st, arg)
					case "WriteByte", "WriteRune":
						arg := absNonEmpty()
						if k, ok := constInt(call.Call.Args[1]); ok && k > 0 && k < 128 {
							arg = absConst(string(rune(k)))
						}
						m.before[call] = m.before[call].join(st)
						si.junctions = append(si.junctions, junction{at: call, left: st.last, right: arg.first})
						st = absConcat(st, arg)
					case "Reset":
						st = absConst("")
					case "String":
						m.result[call] = m.result[call].join(st)
					}
				}
				if out[b.Index] != st {
					out[b.Index] = st
					changed = true
				}
			}
			if !changed {
				break
			}
		}
	}
	return m
}

// isModelledBuilderWrite: call is WriteString on a modelled Builder of its function.
func isModelledBuilderWrite(call *ssa.Call) bool {
	name, recv := builderMethod(call)
	if name != "WriteString" {
		return false
	}
	al, ok := recv.(*ssa.Alloc)
	return ok && modelledBuilders(call.Parent())[al]
}
