package main

// Fourth gap batch: request side of the muxer (C06–C08) and more of the client (C10, C12).

import (
	"fmt"
	"go/token"
	"go/types"
	"sort"
	"strings"

	"golang.org/x/tools/go/ssa"
)

func init() {
	registerRule("G7l", "the part predicate compares the right things: in hasPart the positive return inside the scan of complete segments is taken for the segment whose id equals the requested one and only below its part count; the open segment is matched under `id == nextSegmentID` with a strict `<` against its part count", ruleG7l)
	registerRule("G9c", "one skip boundary: the duration the delta branch compares its running sum with is the value announced as CAN-SKIP-UNTIL", ruleG9c)
	registerRule("G7m", "the delta flag is the skip directive: the value assigned to the delta flag is `skip == \"YES\" || skip == \"v2\"` on the value of the _HLS_skip query key", ruleG7m)
	registerRule("P4b", "a failed playlist request carries a status: in the closures whose nil result means failure every `return nil` follows a WriteHeader in the closure, or the caller's nil branch writes one", ruleP4b)
	registerRule("V4k", "tables exist before they are used: in Muxer.Start the path table is initialised before the first registerPath, and every map of the Muxer that Write* or Handle index is made before Start returns nil", ruleV4k)
	registerRule("F39", "per-sample times use the running clock: in the fMP4 track processor the dts handed to handleData is the loop-carried value, pts is that value plus the sample's own PTSOffset, and the only increment adds the same sample's Duration after the hand-over", ruleF39)
	registerRule("F40", "the leading track is named by id: every return of fmp4PickLeadingTrack is the ID field of an init track (the video one found by the scan, else the first), and the stored id is only ever compared with ID fields", ruleF40)
	registerRule("F48", "times are taken relative to the origin, not the reverse: the fMP4 converter returns `v - rescaled base`, and both getNTP add `timestamp - stored timestamp`", ruleF48)
	registerRule("K16", "the converter is published before it is announced: in Client.setLeadingTimeConv the stores of the converter and of every track's start time dominate the close of the ready channel", ruleK16)
	registerRule("K12", "user callbacks run in pool routines only: every call through a callback field of the Client (OnRequest, OnTracks, OnDownload*, OnDecodeError, the data callbacks) is reachable only from the run() of a pool runnable, never from Start, Close, Wait or the run goroutine outside the pool", ruleK12)
}

func ruleG7l(c *Ctx) *RuleResult {
	r := &RuleResult{Floor: 1, FloorWhat: "positive outcomes of hasPart"}
	fn := c.Method("", "muxerStream", "hasPart")
	idF := c.Field("", "muxerSegmentFMP4", "id")
	partsF := c.Field("", "muxerSegmentFMP4", "parts")
	nextF := c.Field("", "muxerStream", "nextSegmentID")
	if fn == nil || idF == nil || partsF == nil || nextF == nil {
		r.undecided("hasPart / muxerSegmentFMP4.id / parts / muxerStream.nextSegmentID not found")
		return r
	}
	n := 0
	isLenParts := func(v ssa.Value) bool {
		call, ok := stripConv(v).(*ssa.Call)
		if !ok {
			return false
		}
		b, ok := call.Call.Value.(*ssa.Builtin)
		if !ok || b.Name() != "len" {
			return false
		}
		f, _ := loadedField(call.Call.Args[0])
		return f == partsF
	}
	for _, b := range fn.Blocks {
		ret, ok := b.Instrs[len(b.Instrs)-1].(*ssa.Return)
		if !ok || b == fn.Recover || len(ret.Results) != 1 {
			continue
		}
		rv := retVal(ret, 0)
		// (a) `return true` inside the scan
		if k, isC := constBool(rv); isC && k {
			n++
			key := fmt.Sprintf("hasPart|listed#%d", n)
			what := "true is returned for the segment whose id equals the requested one, below its part count"
			idEq, below := false, false
			for e := range controlEdges(fn, b) {
				iff := fn.Blocks[e.from].Instrs[len(fn.Blocks[e.from].Instrs)-1].(*ssa.If)
				bo, ok := iff.Cond.(*ssa.BinOp)
				if !ok {
					continue
				}
				taken := 0
				if fn.Blocks[e.from].Succs[1].Index == e.to {
					taken = 1
				}
				switch bo.Op {
				case token.EQL, token.NEQ:
					fy, _ := loadedField(bo.Y)
					fx, _ := loadedField(bo.X)
					_ = taken
					if fx == idF || fy == idF {
						idEq = true
					}
				case token.GEQ:
					// partID >= len(parts): the return lies on the false side
					if isLenParts(bo.Y) {
						below = true
					}
				case token.LSS:
					if isLenParts(bo.Y) {
						below = true
					}
				}
			}
			if idEq && below {
				r.ok(key, c.Pos(posOf(ret)), FuncName(fn), what, "id == requested, part < len(parts)")
			} else {
				r.fail(key, c.Pos(posOf(ret)), FuncName(fn), what, fmt.Sprintf("controlled by an id comparison: %v; by a comparison with len(parts): %v", idEq, below))
			}
			continue
		}
		// (b) the open segment: return partID < len(open.parts)
		if bo, ok := rv.(*ssa.BinOp); ok && isLenParts(bo.Y) {
			n++
			key := fmt.Sprintf("hasPart|open#%d", n)
			what := "the open segment has the part iff part < len(parts), and only for id == nextSegmentID"
			bad := ""
			if bo.Op != token.LSS {
				bad = "the comparison is " + bo.Op.String() + ", not `<`: a request is answered one part early (or never)"
			}
			okNext := false
			for e := range controlEdges(fn, b) {
				iff := fn.Blocks[e.from].Instrs[len(fn.Blocks[e.from].Instrs)-1].(*ssa.If)
				if c2, ok := iff.Cond.(*ssa.BinOp); ok && c2.Op == token.EQL {
					fx, _ := loadedField(c2.X)
					fy, _ := loadedField(c2.Y)
					if fx == nextF || fy == nextF {
						okNext = true
					}
				}
			}
			if bad == "" && !okNext {
				bad = "not restricted to `id == nextSegmentID`"
			}
			if bad == "" {
				r.ok(key, c.Pos(posOf(ret)), FuncName(fn), what, "strict, under id == nextSegmentID")
			} else {
				r.fail(key, c.Pos(posOf(ret)), FuncName(fn), what, bad)
			}
		}
	}
	r.Instances = n
	return r
}

func ruleG9c(c *Ctx) *RuleResult {
	r := &RuleResult{Floor: 1, FloorWhat: "skip boundaries"}
	skipF := c.Field("pkg/playlist", "MediaServerControl", "CanSkipUntil")
	if skipF == nil {
		r.undecided("playlist.MediaServerControl.CanSkipUntil not found")
		return r
	}
	n := 0
	for _, fn := range c.Funcs {
		if !InRootPkg(fn) {
			continue
		}
		allInstrs(fn, func(in ssa.Instruction) {
			st, ok := in.(*ssa.Store)
			if !ok {
				return
			}
			if f, _ := fieldOfAddr(st.Addr); f != skipF {
				return
			}
			cell, ok := st.Val.(*ssa.Alloc)
			if !ok {
				return
			}
			n++
			key := fmt.Sprintf("%s|skip-boundary#%d", FuncName(fn), n)
			what := "the running sum of the delta branch is compared with the announced CAN-SKIP-UNTIL"
			// comparisons `sum >= X` in a loop: X must be a load of the cell
			found, okSame := false, true
			allInstrs(fn, func(x ssa.Instruction) {
				bo, ok := x.(*ssa.BinOp)
				if !ok || (bo.Op != token.GEQ && bo.Op != token.GTR) || !inLoopBlock(fn, bo.Block()) {
					return
				}
				if !typeIs(bo.X.Type(), "time", "Duration") {
					return
				}
				if _, isPhi := bo.X.(*ssa.BinOp); !isPhi {
					if _, isPhi2 := bo.X.(*ssa.Phi); !isPhi2 {
						return
					}
				}
				found = true
				u, ok := bo.Y.(*ssa.UnOp)
				if !ok || u.Op != token.MUL || u.X != ssa.Value(cell) {
					okSame = false
				}
			})
			switch {
			case !found:
				r.undecided("G9c: %s announces CAN-SKIP-UNTIL but has no loop comparing a running duration with a boundary: form not known to the rule", FuncName(fn))
			case okSame:
				r.ok(key, c.Pos(st.Pos()), FuncName(fn), what, "one value")
			default:
				r.fail(key, c.Pos(st.Pos()), FuncName(fn), what, "the loop compares with another value than the one announced: the delta update skips segments the client was told it could still ask for (or keeps segments it was told are gone)")
			}
		})
	}
	r.Instances = n
	return r
}

func ruleG7m(c *Ctx) *RuleResult {
	r := &RuleResult{Floor: 1, FloorWhat: "assignments of the delta flag"}
	h := c.Method("", "muxerStream", "handleMediaPlaylist")
	if h == nil {
		r.undecided("handleMediaPlaylist not found")
		return r
	}
	// the value of queryVal(q, "_HLS_skip")
	var skipVal ssa.Value
	allInstrs(h, func(in ssa.Instruction) {
		if call, ok := in.(*ssa.Call); ok {
			for _, a := range call.Call.Args {
				if s, ok := constString(a); ok && s == "_HLS_skip" {
					skipVal = call
				}
			}
		}
	})
	if skipVal == nil {
		r.undecided("G7m: handleMediaPlaylist never reads the _HLS_skip query key (the construct this rule is anchored on was not found: no verdict)")
		return r
	}
	// comparisons of skipVal (directly or through its cell) with constants
	var consts []string
	seen := map[ssa.Value]bool{}
	var uses func(v ssa.Value, depth int)
	uses = func(v ssa.Value, depth int) {
		if v == nil || seen[v] || depth > 4 || v.Referrers() == nil {
			return
		}
		seen[v] = true
		for _, ref := range *v.Referrers() {
			switch x := ref.(type) {
			case *ssa.BinOp:
				if x.Op == token.EQL || x.Op == token.NEQ {
					if s, ok := constString(x.Y); ok {
						consts = append(consts, x.Op.String()+s)
					}
				}
			case *ssa.Store:
				if al, ok := x.Addr.(*ssa.Alloc); ok && x.Val == v {
					for _, r2 := range *al.Referrers() {
						if u, ok := r2.(*ssa.UnOp); ok && u.Op == token.MUL {
							uses(u, depth+1)
						}
					}
				}
			}
		}
	}
	uses(skipVal, 0)
	sort.Strings(consts)
	key := "handleMediaPlaylist|skip-values"
	what := "the skip directive is compared with exactly \"YES\" and \"v2\""
	got := strings.Join(consts, " ")
	if got == "==YES ==v2" {
		r.ok(key, c.Pos(skipVal.Pos()), FuncName(h), what, got)
	} else {
		r.fail(key, c.Pos(skipVal.Pos()), FuncName(h), what, "compared as ["+got+"]: a delta update is produced for other values of _HLS_skip (or not for the two the specification defines)")
	}
	r.Instances = 1
	return r
}

func ruleP4b(c *Ctx) *RuleResult {
	r := &RuleResult{Floor: 6, FloorWhat: "nil results of playlist closures"}
	n := 0
	for _, fn := range c.Funcs {
		if !InRootPkg(fn) || fn.Parent() == nil || isClientFunc(enclosingNamed(fn)) {
			continue
		}
		res := fn.Signature.Results()
		if res.Len() != 1 || !isByteSlice(res.At(0).Type()) {
			continue
		}
		// does the parent answer 200 with the result? does its nil branch write a status?
		parent := fn.Parent()
		parentWrites := false
		allInstrs(parent, func(in ssa.Instruction) {
			call, ok := in.(*ssa.Call)
			if !ok {
				return
			}
			mc, ok := call.Call.Value.(*ssa.MakeClosure)
			if !ok || mc.Fn != ssa.Value(fn) {
				return
			}
			// `if buf == nil { WriteHeader(...) }` in the parent
			for _, ref := range *call.Referrers() {
				bo, ok := ref.(*ssa.BinOp)
				if !ok || (bo.Op != token.EQL && bo.Op != token.NEQ) {
					continue
				}
				for _, r2 := range *bo.Referrers() {
					iff, ok := r2.(*ssa.If)
					if !ok {
						continue
					}
					nb := iff.Block().Succs[0]
					if bo.Op == token.NEQ {
						nb = iff.Block().Succs[1]
					}
					for _, x := range nb.Instrs {
						if ci, ok := x.(ssa.CallInstruction); ok && ci.Common().IsInvoke() && ci.Common().Method.Name() == "WriteHeader" {
							parentWrites = true
						}
					}
				}
			}
		})
		k := 0
		for _, b := range fn.Blocks {
			ret, ok := b.Instrs[len(b.Instrs)-1].(*ssa.Return)
			if !ok || b == fn.Recover {
				continue
			}
			kk, isC := retVal(ret, 0).(*ssa.Const)
			if !isC || !kk.IsNil() {
				continue
			}
			n++
			k++
			key := fmt.Sprintf("%s|nil-result#%d", FuncName(fn), k)
			what := "a nil result is accompanied by an explicit status"
			wrote := parentWrites
			if !wrote {
				// the outcome of a helper that writes the status itself (`if !s.waitForPart(w, …) { return nil }`)
				for e := range controlEdges(fn, b) {
					iff := fn.Blocks[e.from].Instrs[len(fn.Blocks[e.from].Instrs)-1].(*ssa.If)
					v := iff.Cond
					for {
						if u, ok := v.(*ssa.UnOp); ok && u.Op == token.NOT {
							v = u.X
							continue
						}
						break
					}
					if call, ok := v.(*ssa.Call); ok {
						if g := call.Call.StaticCallee(); g != nil && InRootPkg(g) && g.Blocks != nil {
							allInstrs(g, func(x ssa.Instruction) {
								if ci, ok := x.(ssa.CallInstruction); ok && ci.Common().IsInvoke() && ci.Common().Method.Name() == "WriteHeader" {
									wrote = true
								}
							})
						}
					}
				}
			}
			if !wrote {
				// a WriteHeader in this block or in a block that dominates it since the last branch
				for _, x := range b.Instrs {
					if ci, ok := x.(ssa.CallInstruction); ok && ci.Common().IsInvoke() && ci.Common().Method.Name() == "WriteHeader" {
						wrote = true
					}
				}
			}
			if wrote {
				r.ok(key, c.Pos(posOf(ret)), FuncName(fn), what, "status written")
			} else {
				r.fail(key, c.Pos(posOf(ret)), FuncName(fn), what, "neither the closure nor its caller writes a status on this outcome: net/http answers 200 with an empty body (a request pending while Close runs `succeeds`)")
			}
		}
	}
	r.Instances = n
	return r
}

func ruleV4k(c *Ctx) *RuleResult {
	r := &RuleResult{Floor: 2, FloorWhat: "tables of the Muxer"}
	fn := c.Method("", "Muxer", "Start")
	if fn == nil {
		r.undecided("(*Muxer).Start not found")
		return r
	}
	n := 0
	// (a) the server's table: initialize() dominates every registerPath of Start
	var initCall ssa.Instruction
	var regs []ssa.Instruction
	allInstrs(fn, func(in ssa.Instruction) {
		call, ok := in.(*ssa.Call)
		if !ok {
			return
		}
		g := call.Call.StaticCallee()
		if g == nil || g.Signature.Recv() == nil || !typeIs(g.Signature.Recv().Type(), modPath, "muxerServer") {
			return
		}
		switch {
		case g.Name() == "initialize":
			initCall = call
		case g == c.pathTableFn("register"):
			regs = append(regs, call)
		}
	})
	n++
	key := "Muxer.Start|path-table"
	what := "muxerServer.initialize() dominates every registerPath in Start and every call that registers paths"
	if initCall == nil {
		r.undecided("V4k: Start does not call muxerServer.initialize: form not known to the rule")
	} else {
		bad := ""
		for _, rg := range regs {
			if !instrDominates(initCall, rg) {
				bad = c.Pos(rg.Pos())
			}
		}
		// stream.initialize registers the media playlist path
		allInstrs(fn, func(in ssa.Instruction) {
			if call, ok := in.(*ssa.Call); ok {
				if g := call.Call.StaticCallee(); g != nil && g.Name() == "initialize" && g.Signature.Recv() != nil && typeIs(g.Signature.Recv().Type(), modPath, "muxerStream") {
					if !instrDominates(initCall, call) {
						bad = c.Pos(call.Pos())
					}
				}
			}
		})
		if bad == "" {
			r.ok(key, c.Pos(initCall.Pos()), FuncName(fn), what, "initialised first")
		} else {
			r.fail(key, c.Pos(initCall.Pos()), FuncName(fn), what, "a registration at "+bad+" can run before the table exists: write to a nil map")
		}
	}
	// (b) maps of the Muxer indexed elsewhere are made in Start before every success return
	st := derefStruct(fn.Params[0].Type())
	for i := 0; st != nil && i < st.NumFields(); i++ {
		f := st.Field(i)
		if _, isMap := f.Type().Underlying().(*types.Map); !isMap {
			continue
		}
		n++
		key := "Muxer.Start|map " + f.Name()
		what := "the map is made on every path of Start that returns nil"
		isMake := func(x ssa.Instruction) bool {
			s2, ok := x.(*ssa.Store)
			if !ok {
				return false
			}
			sf, _ := fieldOfAddr(s2.Addr)
			_, isMk := s2.Val.(*ssa.MakeMap)
			return sf == f && isMk
		}
		isOKRet := func(x ssa.Instruction) bool {
			ret, ok := x.(*ssa.Return)
			if !ok || len(ret.Results) == 0 {
				return false
			}
			k, isC := retVal(ret, len(ret.Results)-1).(*ssa.Const)
			return isC && k.IsNil()
		}
		if path := pathAvoidingFromBlock(c, fn, fn.Blocks[0], isMake, isOKRet); path != nil {
			r.fail(key, c.Pos(fn.Pos()), FuncName(fn), what, "Start can succeed without making "+f.Name()+": the first Write* indexes a nil map and dereferences the nil entry", path...)
		} else {
			r.ok(key, c.Pos(fn.Pos()), FuncName(fn), what, "made before every success return")
		}
	}
	r.Instances = n
	return r
}

func ruleF39(c *Ctx) *RuleResult {
	r := &RuleResult{Floor: 1, FloorWhat: "sample loops of the fMP4 track processor"}
	fn := c.Method("", "clientTrackProcessorFMP4", "process")
	if fn == nil {
		r.undecided("clientTrackProcessorFMP4.process not found")
		return r
	}
	var hd *ssa.Call
	allInstrs(fn, func(in ssa.Instruction) {
		if call, ok := in.(*ssa.Call); ok {
			if g := call.Call.StaticCallee(); g != nil && g.Name() == "handleData" {
				hd = call
			}
		}
	})
	if hd == nil {
		r.undecided("F39: process does not call handleData: form not known to the rule")
		return r
	}
	key := "clientTrackProcessorFMP4.process|running-clock"
	what := "dts is the loop-carried value, pts = dts + PTSOffset of the sample, the increment adds the sample's Duration after the hand-over"
	// handleData(ctx, pts, dts, ntp, data): find the two int64 args
	var ints []ssa.Value
	for _, a := range hd.Call.Args {
		if b, ok := a.Type().Underlying().(*types.Basic); ok && b.Kind() == types.Int64 {
			ints = append(ints, a)
		}
	}
	bad := ""
	if len(ints) != 2 {
		bad = "handleData is not given two int64 times"
	}
	var phi *ssa.Phi
	if bad == "" {
		p, ok := ints[1].(*ssa.Phi)
		if !ok || !inLoopBlock(fn, p.Block()) {
			bad = "the dts argument is " + describeVal(ints[1]) + ", not the loop-carried clock (every sample of a fragment gets the fragment's first time)"
		} else {
			phi = p
		}
	}
	if bad == "" {
		add, ok := ints[0].(*ssa.BinOp)
		okPts := false
		if ok && add.Op == token.ADD && add.X == ssa.Value(phi) {
			if f, _ := loadedField(stripConv(add.Y)); f != nil && f.Name() == "PTSOffset" {
				okPts = true
			}
		}
		if !okPts {
			bad = "pts is " + describeVal(ints[0]) + ", not the running dts plus the sample's PTSOffset"
		}
	}
	if bad == "" {
		// the increment
		okInc := false
		for _, e := range phi.Edges {
			if add, ok := e.(*ssa.BinOp); ok && add.Op == token.ADD && add.X == ssa.Value(phi) {
				if f, _ := loadedField(stripConv(add.Y)); f != nil && f.Name() == "Duration" {
					if instrReaches(hd, add) && !instrDominates(add, hd) {
						okInc = true
					} else {
						bad = "the clock is advanced before the sample is handed over"
					}
				}
			}
		}
		if bad == "" && !okInc {
			bad = "no `dts += sample.Duration` feeds the loop-carried clock"
		}
	}
	if bad == "" {
		r.ok(key, c.Pos(hd.Pos()), FuncName(fn), what, "running clock")
	} else {
		r.fail(key, c.Pos(hd.Pos()), FuncName(fn), what, bad)
	}
	r.Instances = 1
	return r
}

func ruleF40(c *Ctx) *RuleResult {
	r := &RuleResult{Floor: 2, FloorWhat: "returns of the leading-track picker"}
	fn := c.Func("", "fmp4PickLeadingTrack")
	if fn == nil {
		r.undecided("fmp4PickLeadingTrack not found")
		return r
	}
	n := 0
	for _, b := range fn.Blocks {
		ret, ok := b.Instrs[len(b.Instrs)-1].(*ssa.Return)
		if !ok || b == fn.Recover || len(ret.Results) != 1 {
			continue
		}
		n++
		key := fmt.Sprintf("fmp4PickLeadingTrack|return#%d", n)
		what := "the value returned is the ID field of an init track"
		v := retVal(ret, 0)
		f, base := loadedField(stripConv(v))
		if f == nil || f.Name() != "ID" {
			r.fail(key, c.Pos(posOf(ret)), FuncName(fn), what, "returns "+describeVal(v)+": an index (or anything else of type int) used as a track id picks another track, or none — the time origin comes from the wrong track")
			continue
		}
		// under the video test: the element tested is the element returned
		ctl := controlEdges(fn, b)
		okElem := true
		for e := range ctl {
			iff := fn.Blocks[e.from].Instrs[len(fn.Blocks[e.from].Instrs)-1].(*ssa.If)
			if call, ok := iff.Cond.(*ssa.Call); ok && call.Call.IsInvoke() && call.Call.Method.Name() == "IsVideo" {
				// the receiver's object and base
				_, cb := loadedField(call.Call.Value)
				if canon(cb) != canon(base) {
					okElem = false
				}
				if fn.Blocks[e.from].Succs[0].Index != e.to {
					// cutting the TRUE edge makes the return unreachable → fine; here the false edge is the controlling one
					okElem = false
				}
			}
		}
		if okElem {
			r.ok(key, c.Pos(posOf(ret)), FuncName(fn), what, describeVal(v))
		} else {
			r.fail(key, c.Pos(posOf(ret)), FuncName(fn), what, "the ID returned under the video test is not that of the element tested (or the test is inverted)")
		}
	}
	r.Instances = n
	return r
}

func ruleF48(c *Ctx) *RuleResult {
	r := &RuleResult{Floor: 3, FloorWhat: "origin subtractions of the time converters"}
	n := 0
	// convert: param - rescale(field)
	if fn := c.Method("", "clientTimeConvFMP4", "convert"); fn != nil {
		for _, b := range fn.Blocks {
			ret, ok := b.Instrs[len(b.Instrs)-1].(*ssa.Return)
			if !ok || b == fn.Recover {
				continue
			}
			n++
			key := "clientTimeConvFMP4.convert|sign"
			what := "convert returns the value minus the rescaled base time"
			sub, ok := retVal(ret, 0).(*ssa.BinOp)
			if ok && sub.Op == token.SUB && sub.X == ssa.Value(fn.Params[1]) {
				r.ok(key, c.Pos(posOf(ret)), FuncName(fn), what, "v - base")
			} else {
				r.fail(key, c.Pos(posOf(ret)), FuncName(fn), what, "returns "+describeVal(retVal(ret, 0))+": every delivered timestamp has the wrong sign or origin")
			}
		}
	} else {
		r.undecided("clientTimeConvFMP4.convert not found")
	}
	// getNTP: stored time + (timestamp param - stored timestamp)
	for _, tn := range []string{"clientTimeConvFMP4", "clientTimeConvMPEGTS"} {
		fn := c.Method("", tn, "getNTP")
		if fn == nil {
			r.undecided("%s.getNTP not found", tn)
			continue
		}
		// the computation may live in a helper that getNTP calls with its lock held
		hasSub := func(g *ssa.Function) bool {
			found := false
			allInstrs(g, func(in ssa.Instruction) {
				if sub, ok := in.(*ssa.BinOp); ok && sub.Op == token.SUB {
					if b, ok := sub.Type().Underlying().(*types.Basic); ok && b.Kind() == types.Int64 {
						found = true
					}
				}
			})
			return found
		}
		if !hasSub(fn) {
			for _, g := range sameRecvCallees(fn) {
				if hasSub(g) {
					fn = g
					break
				}
			}
		}
		n++
		key := tn + ".getNTP|sign"
		what := "the offset added to the stored wall clock is (timestamp parameter) - (stored timestamp)"
		okSub, any := false, false
		allInstrs(fn, func(in ssa.Instruction) {
			sub, ok := in.(*ssa.BinOp)
			if !ok || sub.Op != token.SUB {
				return
			}
			if b, ok := sub.Type().Underlying().(*types.Basic); !ok || b.Kind() != types.Int64 {
				return
			}
			any = true
			isParam := false
			for _, p := range fn.Params[1:] {
				if stripConv(sub.X) == ssa.Value(p) {
					isParam = true
				}
			}
			// the subtrahend derives from a field of the receiver
			fromField := false
			var walk func(v ssa.Value, d int)
			walk = func(v ssa.Value, d int) {
				if v == nil || d > 4 {
					return
				}
				if f, _ := loadedField(v); f != nil {
					fromField = true
					return
				}
				switch x := v.(type) {
				case *ssa.Call:
					for _, a := range x.Call.Args {
						walk(a, d+1)
					}
				case *ssa.Convert:
					walk(x.X, d+1)
				}
			}
			walk(sub.Y, 0)
			if isParam && fromField {
				okSub = true
			}
		})
		switch {
		case !any:
			r.undecided("F48: %s.getNTP has no int64 subtraction: form not known to the rule", tn)
		case okSub:
			r.ok(key, c.Pos(fn.Pos()), FuncName(fn), what, "timestamp - stored")
		default:
			r.fail(key, c.Pos(fn.Pos()), FuncName(fn), what, "the subtraction is reversed (or does not involve the parameter): absolute times run backwards")
		}
	}
	r.Instances = n
	return r
}

func ruleK16(c *Ctx) *RuleResult {
	r := &RuleResult{Floor: 1, FloorWhat: "publications of the leading time converter"}
	fn := c.Method("", "Client", "setLeadingTimeConv")
	convF := c.Field("", "Client", "leadingTimeConv")
	readyF := c.Field("", "Client", "leadingTimeConvReady")
	rtcF := c.Field("", "clientTrack", "startRTC")
	if fn == nil || convF == nil || readyF == nil || rtcF == nil {
		r.undecided("Client.setLeadingTimeConv / leadingTimeConv / leadingTimeConvReady / clientTrack.startRTC not found")
		return r
	}
	var closeCall ssa.Instruction
	var stores []ssa.Instruction
	allInstrs(fn, func(in ssa.Instruction) {
		switch x := in.(type) {
		case *ssa.Call:
			if b, ok := x.Call.Value.(*ssa.Builtin); ok && b.Name() == "close" {
				if f, _ := loadedField(x.Call.Args[0]); f == readyF {
					closeCall = x
				}
			}
		case *ssa.Store:
			if f, _ := fieldOfAddr(x.Addr); f == convF || f == rtcF {
				stores = append(stores, x)
			}
		}
	})
	key := "Client.setLeadingTimeConv|publish-then-announce"
	what := "the converter and the start times are stored before the ready channel is closed"
	switch {
	case closeCall == nil || len(stores) < 2:
		r.undecided("K16: setLeadingTimeConv does not store the converter and the start times and close the ready channel: form not known to the rule")
	default:
		bad := ""
		for _, st := range stores {
			if instrReaches(closeCall, st) {
				bad = "a store at " + c.Pos(st.Pos()) + " can run after the channel was closed: a rendition released by the close reads a nil converter or a zero start time"
			}
		}
		if bad == "" {
			r.ok(key, c.Pos(closeCall.Pos()), FuncName(fn), what, "close comes last")
		} else {
			r.fail(key, c.Pos(closeCall.Pos()), FuncName(fn), what, bad)
		}
	}
	r.Instances = 1
	return r
}

func ruleK12(c *Ctx) *RuleResult {
	r := &RuleResult{Floor: 5, FloorWhat: "calls through user callbacks in client code"}
	// callback fields: exported func-typed fields of Client
	cb := map[string]bool{}
	if nt := c.NamedType("", "Client"); nt != nil {
		if st, ok := nt.Underlying().(*types.Struct); ok {
			for i := 0; i < st.NumFields(); i++ {
				f := st.Field(i)
				if _, isFn := f.Type().Underlying().(*types.Signature); isFn && f.Exported() {
					cb[f.Name()] = true
				}
			}
		}
	}
	if len(cb) == 0 {
		r.undecided("no exported callback fields found on Client")
		return r
	}
	// functions that run on the user's goroutine or on the run goroutine outside the pool
	outside := map[*ssa.Function]bool{}
	for _, name := range []string{"Start", "Close", "Wait", "run", "runInner", "AbsoluteTime"} {
		if fn := c.Method("", "Client", name); fn != nil {
			outside[fn] = true
		}
	}
	n := 0
	for _, fn := range c.clientFuncs() {
		allInstrs(fn, func(in ssa.Instruction) {
			call, ok := in.(*ssa.Call)
			if !ok || call.Call.StaticCallee() != nil || call.Call.IsInvoke() {
				return
			}
			f, _ := loadedField(call.Call.Value)
			if f == nil {
				return
			}
			name := f.Name()
			lower := strings.ToLower(name)
			isCB := cb[name] || (strings.HasPrefix(lower, "on") && len(name) > 2)
			if !isCB {
				return
			}
			n++
			key := fmt.Sprintf("%s|%s#%d", FuncName(fn), name, n)
			what := "the callback is invoked from a pool routine"
			top := enclosingNamed(fn)
			if outside[top] && fn.Parent() == nil {
				r.fail(key, c.Pos(call.Pos()), FuncName(fn), what, "called from "+FuncName(top)+", which does not run inside the routine pool: the callback can run after Wait yielded (or on the user's own goroutine, under its locks)")
			} else {
				r.ok(key, c.Pos(call.Pos()), FuncName(fn), what, "in "+FuncName(top))
			}
		})
	}
	r.Instances = n
	return r
}

// sameRecvCallees: the methods of fn's receiver type that fn calls statically, transitively (bounded).
func sameRecvCallees(fn *ssa.Function) []*ssa.Function {
	if fn == nil || fn.Signature.Recv() == nil {
		return nil
	}
	out := []*ssa.Function{fn}
	for i := 0; i < len(out) && i < 10; i++ {
		allInstrs(out[i], func(in ssa.Instruction) {
			if call, ok := in.(*ssa.Call); ok {
				if g := call.Call.StaticCallee(); g != nil && g.Blocks != nil && g.Signature.Recv() != nil && types.Identical(g.Signature.Recv().Type(), fn.Signature.Recv().Type()) {
					out = appendUnique(out, g)
				}
			}
		})
	}
	return out[1:]
}
