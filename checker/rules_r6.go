package main

// Rules added after the sixth round of seeded changes (DESIGN section 10, "sixth batch").

import (
	"fmt"
	"go/token"
	"go/types"
	"sort"
	"strings"

	"golang.org/x/tools/go/ssa"
)

func init() {
	registerRule("F28", "no retained pointer to a loop variable: the address of a variable that is assigned afresh in every iteration (one cell for the whole loop under the module's Go version) is not handed to a callee that keeps it", ruleF28)
	registerRule("T10", "random-access units are the codec library's: the NAL unit types for which the H265/H264 writer sets its random-access flag are the types the codec library's IsRandomAccess accepts", ruleT10)
	registerRule("G1b", "a parameter change alone cuts: in every video writer the segment rotation stays reachable when the open segment has NOT reached its minimum duration (through the params-changed flag)", ruleG1b)
	registerRule("F29", "a segment's date-time is the wall-clock time supplied with its first unit: the time handed to createFirstSegment / rotateSegments by the segmenter is an ntp parameter or an ntp field, read directly", ruleF29)
	registerRule("G6b", "integer rounding of the target duration: if targetDuration() rounds with integer arithmetic, it adds exactly half a second (round half up) before dividing", ruleG6b)
	registerRule("G7e", "presence, not value, selects the blocking branch: in handleMediaPlaylist the branch that waits is chosen by comparing the raw query values with the empty string, never by comparing the parsed numbers with zero", ruleG7e)
	registerRule("G16b", "the fMP4 wall-clock anchor is refreshed by every dated segment: setNTP in processSegment is not control dependent on the one-time initialisation of the track processors", ruleG16b)
	registerRule("K7", "end of stream needs every playlist: the primary downloader receives the ended signal of each stream in a range over all streams", ruleK7)
	registerRule("P2b", "no result aliases pooled memory: a function that takes a buffer from a sync.Pool and puts it back does not return (or store) that buffer's bytes", ruleP2b)
}

// retainsParam: the library function stores its k-th parameter into a field, a slice element or a global, or
// appends it, or passes it on to a function that does (bounded).
func (c *Ctx) retainsParam(fn *ssa.Function, k int, depth int) bool {
	if fn == nil || fn.Blocks == nil || k >= len(fn.Params) || depth > 3 || !InLib(fn) {
		return false
	}
	p := fn.Params[k]
	ret := false
	var use func(v ssa.Value, d int)
	seen := map[ssa.Value]bool{}
	use = func(v ssa.Value, d int) {
		if seen[v] || d > 6 || v.Referrers() == nil {
			return
		}
		seen[v] = true
		for _, ref := range *v.Referrers() {
			switch x := ref.(type) {
			case *ssa.Store:
				if x.Val == v {
					if _, isField := x.Addr.(*ssa.FieldAddr); isField {
						ret = true
					}
					if _, isIdx := x.Addr.(*ssa.IndexAddr); isIdx {
						ret = true
					}
					if al, isAl := x.Addr.(*ssa.Alloc); isAl {
						// a local cell (tuple assignment / captured variable): follow its loads
						for _, r2 := range *al.Referrers() {
							if ld, ok := r2.(*ssa.UnOp); ok && ld.Op == token.MUL {
								use(ld, d+1)
							}
						}
					}
				}
			case *ssa.Phi:
				use(x, d+1)
			case *ssa.MakeInterface:
				use(x, d+1)
			case *ssa.Call:
				if g := x.Call.StaticCallee(); g != nil {
					for i, a := range x.Call.Args {
						if a == v && c.retainsParam(g, i, depth+1) {
							ret = true
						}
					}
				}
			}
		}
	}
	use(p, 0)
	return ret
}

func ruleF28(c *Ctx) *RuleResult {
	r := &RuleResult{Floor: 0, FloorWhat: "loop variables whose address is handed to a callee"}
	n := 0
	for _, fn := range c.Funcs {
		if !InLib(fn) {
			continue
		}
		allInstrs(fn, func(in ssa.Instruction) {
			al, ok := in.(*ssa.Alloc)
			if !ok || inLoopBlock(fn, al.Block()) {
				return
			}
			// assigned inside a loop?
			var loopStore *ssa.Store
			for _, ref := range *al.Referrers() {
				if st, ok := ref.(*ssa.Store); ok && st.Addr == ssa.Value(al) && inLoopBlock(fn, st.Block()) {
					loopStore = st
				}
			}
			if loopStore == nil {
				return
			}
			for _, ref := range *al.Referrers() {
				call, ok := ref.(*ssa.Call)
				if !ok || !inLoopBlock(fn, call.Block()) {
					continue
				}
				g := call.Call.StaticCallee()
				for i, a := range call.Call.Args {
					if a != ssa.Value(al) {
						continue
					}
					n++
					key := fmt.Sprintf("%s|&%s#%d", FuncName(fn), al.Comment, n)
					what := "the address of the per-iteration variable `" + al.Comment + "` is not retained by the callee"
					if c.retainsParam(g, i, 0) {
						r.fail(key, c.Pos(call.Pos()), FuncName(fn), what, FuncName(g)+" keeps the pointer (look-ahead queue / sample list), and under the module's Go version the variable is one cell for the whole loop: every iteration overwrites the unit that is still queued — the first N-1 units of a write are lost and the last one appears N times")
					} else {
						r.ok(key, c.Pos(call.Pos()), FuncName(fn), what, "the callee does not keep it")
					}
				}
			}
		})
	}
	r.Instances = n
	return r
}

// caseConstsLeadingTo: the integer constants c for which `tag == c` (a switch over tag) leads to a block
// satisfying pred, in fn.
func caseConstsLeadingTo(fn *ssa.Function, pred func(b *ssa.BasicBlock) bool) map[int64]bool {
	out := map[int64]bool{}
	for _, b := range fn.Blocks {
		iff, ok := b.Instrs[len(b.Instrs)-1].(*ssa.If)
		if !ok {
			continue
		}
		bo, ok := iff.Cond.(*ssa.BinOp)
		if !ok || bo.Op != token.EQL {
			continue
		}
		k, ok := constInt(bo.Y)
		if !ok {
			continue
		}
		// the true successor, through the shared case body
		if pred(b.Succs[0]) {
			out[k] = true
		}
	}
	return out
}

func ruleT10(c *Ctx) *RuleResult {
	r := &RuleResult{Floor: 1, FloorWhat: "codec writers that classify NAL units"}
	si := c.segmenter()
	if len(si.problems) > 0 {
		r.undecided("%s", si.problems[0])
		return r
	}
	n := 0
	for _, fn := range si.video {
		// the codec package used for NALU types in this writer
		var lib *ssa.Function
		pkgPath := ""
		allInstrs(fn, func(in ssa.Instruction) {
			if cv, ok := in.(*ssa.Convert); ok {
				if nt := namedOf(cv.Type()); nt != nil && nt.Obj().Name() == "NALUType" && nt.Obj().Pkg() != nil {
					pkgPath = nt.Obj().Pkg().Path()
				}
			}
			if ct, ok := in.(*ssa.ChangeType); ok {
				if nt := namedOf(ct.Type()); nt != nil && nt.Obj().Name() == "NALUType" && nt.Obj().Pkg() != nil {
					pkgPath = nt.Obj().Pkg().Path()
				}
			}
		})
		if pkgPath == "" {
			continue
		}
		if p := c.Prog.ImportedPackage(pkgPath); p != nil {
			lib = p.Func("IsRandomAccess")
		}
		if lib == nil || lib.Blocks == nil {
			continue
		}
		// types for which the writer sets randomAccess = true: blocks that feed `true` into a bool phi named randomAccess
		isRATarget := func(b *ssa.BasicBlock) bool {
			hit := false
			for _, blk := range fn.Blocks {
				for _, in := range blk.Instrs {
					phi, ok := in.(*ssa.Phi)
					if !ok {
						break
					}
					if !strings.EqualFold(phi.Comment, "randomAccess") {
						continue
					}
					for k, e := range phi.Edges {
						if bv, isB := constBool(e); isB && bv {
							pred := blk.Preds[k]
							if pred == b || b.Dominates(pred) && len(b.Preds) <= 8 {
								hit = true
							}
						}
					}
				}
			}
			return hit
		}
		mine := caseConstsLeadingTo(fn, isRATarget)
		// types the library accepts: constants compared in IsRandomAccess that lead to `return true`
		theirs := map[int64]bool{}
		allInstrs(lib, func(in ssa.Instruction) {
			bo, ok := in.(*ssa.BinOp)
			if !ok || bo.Op != token.EQL {
				return
			}
			if k, ok := constInt(bo.Y); ok {
				theirs[k] = true
			}
		})
		if len(mine) == 0 || len(theirs) == 0 {
			continue
		}
		n++
		key := FuncName(fn) + "|random-access-types"
		what := "the writer's random-access NAL unit types are those of " + FuncName(lib)
		var missing, extra []string
		for k := range theirs {
			if !mine[k] {
				missing = append(missing, fmt.Sprint(k))
			}
		}
		for k := range mine {
			if !theirs[k] {
				extra = append(extra, fmt.Sprint(k))
			}
		}
		sort.Strings(missing)
		sort.Strings(extra)
		if len(missing) == 0 && len(extra) == 0 {
			r.ok(key, c.Pos(fn.Pos()), FuncName(fn), what, fmt.Sprintf("%d types on both sides", len(mine)))
		} else {
			r.fail(key, c.Pos(fn.Pos()), FuncName(fn), what, fmt.Sprintf("types accepted by the library but not by the writer: %v; by the writer only: %v — a stream whose random-access points are of such a type (open-GOP H265: CRA) never starts, or its segments begin at units the fMP4 sync flag does not mark", missing, extra))
		}
	}
	r.Instances = n
	return r
}

func ruleG1b(c *Ctx) *RuleResult {
	r := &RuleResult{Floor: 2, FloorWhat: "video-led rotateSegments call sites"}
	si := c.segmenter()
	if len(si.problems) > 0 {
		r.undecided("%s", si.problems[0])
		return r
	}
	minDur := c.Field("", "muxerSegmenter", "segmentMinDuration")
	seg := c.NamedType("", "muxerSegmenter")
	if minDur == nil || seg == nil {
		r.undecided("muxerSegmenter.segmentMinDuration not found")
		return r
	}
	n := 0
	for _, fn := range c.Funcs {
		if fn.Signature.Recv() == nil || namedOf(fn.Signature.Recv().Type()) != seg {
			continue
		}
		_, pc := si.flagsIn(fn)
		if pc == nil {
			continue
		}
		if _, isConst := constBool(pc); isConst {
			continue // audio writers: no parameter changes
		}
		cnt := 0
		allInstrs(fn, func(in ssa.Instruction) {
			call, ok := in.(*ssa.Call)
			if !ok || !call.Call.IsInvoke() || call.Call.Method.Name() != "rotateSegments" {
				return
			}
			n++
			cnt++
			key := fmt.Sprintf("%s|rotateSegments#%d|params-alone", FuncName(fn), cnt)
			what := "the rotation is reachable while the open segment is shorter than SegmentMinDuration (a parameter change forces the cut)"
			// cut the "duration reached" edges
			cut := map[edge]bool{}
			for _, ci := range ifsOnV(fn, func(v ssa.Value) bool {
				bo, ok := v.(*ssa.BinOp)
				if !ok || (bo.Op != token.GEQ && bo.Op != token.LSS && bo.Op != token.GTR && bo.Op != token.LEQ) {
					return false
				}
				return mentionsField(bo, minDur, 0)
			}) {
				bo := ci.Val.(*ssa.BinOp)
				reached := bo.Op == token.GEQ || bo.Op == token.GTR
				cut[ci.edgeWhen(reached)] = true
			}
			if len(cut) == 0 {
				r.undecided("G1b: no comparison with segmentMinDuration in %s: form not known to the rule", FuncName(fn))
				return
			}
			if reachableBlocks(fn, 0, cut, nil)[call.Block().Index] {
				r.ok(key, c.Pos(call.Pos()), FuncName(fn), what, "reachable with every `duration reached` edge removed")
			} else {
				r.fail(key, c.Pos(call.Pos()), FuncName(fn), what, "the call is reachable only after the duration test succeeded: a key frame that carries changed parameters does not start a new segment until the minimum duration has passed, so one segment mixes two parameter sets")
			}
		})
	}
	r.Instances = n
	return r
}

func ruleF29(c *Ctx) *RuleResult {
	r := &RuleResult{Floor: 5, FloorWhat: "wall-clock times handed to the segment functions by the segmenter"}
	seg := c.NamedType("", "muxerSegmenter")
	if seg == nil {
		r.undecided("muxerSegmenter not found")
		return r
	}
	n := 0
	per := map[*ssa.Function]int{}
	for _, fn := range c.Funcs {
		if fn.Signature.Recv() == nil || namedOf(fn.Signature.Recv().Type()) != seg {
			continue
		}
		allInstrs(fn, func(in ssa.Instruction) {
			call, ok := in.(*ssa.Call)
			if !ok || !call.Call.IsInvoke() || (call.Call.Method.Name() != "rotateSegments" && call.Call.Method.Name() != "createFirstSegment") {
				return
			}
			for _, a := range call.Call.Args {
				if !typeIs(a.Type(), "time", "Time") {
					continue
				}
				n++
				per[fn]++
				key := fmt.Sprintf("%s|%s ntp#%d", FuncName(fn), call.Call.Method.Name(), per[fn])
				what := "the date-time of the new segment is the wall-clock time supplied with the unit that opens it"
				v := canon(a)
				okSrc := false
				if p, isP := v.(*ssa.Parameter); isP && strings.Contains(strings.ToLower(p.Name()), "ntp") {
					okSrc = true
				}
				if f, _ := loadedField(v); f != nil && strings.Contains(strings.ToLower(f.Name()), "ntp") {
					okSrc = true
				}
				if ph, isPhi := v.(*ssa.Phi); isPhi && strings.Contains(strings.ToLower(ph.Comment), "ntp") {
					okSrc = true // the per-packet running ntp of a multi-unit write
				}
				if okSrc {
					r.ok(key, c.Pos(call.Pos()), FuncName(fn), what, describeVal(v))
				} else {
					r.fail(key, c.Pos(call.Pos()), FuncName(fn), what, "the time is computed ("+describeVal(v)+") instead of taken from the unit: whenever the caller's wall clock is not in lock-step with the timestamps (jitter, drift) PROGRAM-DATE-TIME differs from the time supplied with the segment's first unit")
				}
			}
		})
	}
	r.Instances = n
	return r
}

func ruleG6b(c *Ctx) *RuleResult {
	r := &RuleResult{Floor: 0, FloorWhat: "integer roundings in targetDuration()"}
	fn := c.Func("", "targetDuration")
	if fn == nil {
		r.undecided("targetDuration() not found")
		return r
	}
	n := 0
	allInstrs(fn, func(in ssa.Instruction) {
		bo, ok := in.(*ssa.BinOp)
		if !ok || bo.Op != token.QUO {
			return
		}
		div, ok := constInt(bo.Y)
		if !ok || div != 1000000000 {
			return
		}
		// net constant added to the duration through a chain of + and -
		var k int64
		found := false
		cur := stripConv(bo.X)
		for i := 0; i < 4; i++ {
			ab, ok := cur.(*ssa.BinOp)
			if !ok || (ab.Op != token.ADD && ab.Op != token.SUB) {
				break
			}
			kk, ok := constInt(ab.Y)
			if !ok {
				break
			}
			if ab.Op == token.ADD {
				k += kk
			} else {
				k -= kk
			}
			found = true
			cur = stripConv(ab.X)
		}
		if !found {
			return
		}
		n++
		key := fmt.Sprintf("targetDuration|integer-round#%d", n)
		what := "a duration is rounded to whole seconds half up (or up)"
		switch {
		case k == 500000000 || k == 999999999:
			r.ok(key, c.Pos(bo.Pos()), FuncName(fn), what, fmt.Sprintf("(d + %d) / 1e9", k))
		default:
			r.fail(key, c.Pos(bo.Pos()), FuncName(fn), what, fmt.Sprintf("(d + %d) / 1e9 is neither round-half-up nor ceil: a segment of exactly N.5 s is announced with TARGETDURATION N although its EXTINF rounds to N+1", k))
		}
	})
	r.Instances = n
	return r
}

func ruleG7e(c *Ctx) *RuleResult {
	r := &RuleResult{Floor: 1, FloorWhat: "selections of the blocking branch"}
	top := c.Method("", "muxerStream", "handleMediaPlaylist")
	if top == nil {
		r.undecided("handleMediaPlaylist not found")
		return r
	}
	// the blocking branch: the block of `top` from which a wait loop (a call or closure that contains Cond.Wait and a
	// 400 response) is entered
	waits := func(g *ssa.Function) bool {
		w := false
		for _, h := range withAnon(g) {
			allInstrs(h, func(in ssa.Instruction) {
				if ci, ok := in.(ssa.CallInstruction); ok && classifySync(ci.Common()) == opWait {
					w = true
				}
			})
		}
		return w
	}
	has400 := func(g *ssa.Function) bool {
		h := false
		allInstrs(g, func(in ssa.Instruction) {
			if ci, ok := in.(ssa.CallInstruction); ok && ci.Common().IsInvoke() && ci.Common().Method.Name() == "WriteHeader" {
				if k, ok := constInt(ci.Common().Args[0]); ok && k == 400 {
					h = true
				}
			}
		})
		return h
	}
	n := 0
	allInstrs(top, func(in ssa.Instruction) {
		call, ok := in.(*ssa.Call)
		if !ok {
			return
		}
		var g *ssa.Function
		if mc, ok := call.Call.Value.(*ssa.MakeClosure); ok {
			g, _ = mc.Fn.(*ssa.Function)
		} else {
			g = call.Call.StaticCallee()
		}
		if g == nil || !InRootPkg(g) || !waits(g) {
			return
		}
		// the blocking one is the one that can answer 400 from inside (range check)
		blocking := has400(g)
		for _, h := range withAnon(g) {
			if has400(h) {
				blocking = true
			}
			allInstrs(h, func(x ssa.Instruction) {
				if c2, ok := x.(*ssa.Call); ok && c2.Call.StaticCallee() != nil && InRootPkg(c2.Call.StaticCallee()) && has400(c2.Call.StaticCallee()) && waits(c2.Call.StaticCallee()) {
					blocking = true
				}
			})
		}
		if !blocking {
			return
		}
		n++
		key := fmt.Sprintf("handleMediaPlaylist|blocking-branch#%d", n)
		what := "the blocking branch is selected by the presence of _HLS_msn (raw value != \"\")"
		strConds := ifsOn(top, func(v ssa.Value) bool {
			bo, ok := v.(*ssa.BinOp)
			if !ok || (bo.Op != token.NEQ && bo.Op != token.EQL) {
				return false
			}
			s, isS := constString(bo.Y)
			return isS && s == "" && isStringType(bo.X.Type())
		})
		var sel []condIf
		for _, ci := range strConds {
			want := stripNot(ci.If.Cond).(*ssa.BinOp).Op == token.NEQ
			if onlyIf(top, call, []condIf{ci}, want) {
				sel = append(sel, ci)
			}
		}
		numConds := ifsOn(top, func(v ssa.Value) bool {
			bo, ok := v.(*ssa.BinOp)
			if !ok || (bo.Op != token.NEQ && bo.Op != token.EQL && bo.Op != token.GTR) {
				return false
			}
			k, isK := constInt(bo.Y)
			return isK && k == 0 && isTimestampType(bo.X.Type())
		})
		numSel := false
		for _, ci := range numConds {
			for _, want := range []bool{true, false} {
				if onlyIf(top, call, []condIf{ci}, want) {
					numSel = true
				}
			}
		}
		switch {
		case len(sel) > 0:
			r.ok(key, c.Pos(call.Pos()), FuncName(top), what, "control dependent on a comparison of a query value with \"\"")
		case numSel:
			r.fail(key, c.Pos(call.Pos()), FuncName(top), what, "selected by comparing the parsed number with 0: an absent directive and the value 0 are confused — `_HLS_msn=0` (long expired) and `_HLS_part=0` without msn get a plain 200 instead of 400")
		default:
			r.undecided("G7e: the blocking branch of handleMediaPlaylist is selected in a form not known to the rule")
		}
	})
	r.Instances = n
	return r
}

func ruleG16b(c *Ctx) *RuleResult {
	r := &RuleResult{Floor: 1, FloorWhat: "wall-clock anchors of the fMP4 stream processor"}
	fn := c.Method("", "clientStreamProcessorFMP4", "processSegment")
	tpF := c.Field("", "clientStreamProcessorFMP4", "trackProcessors")
	if fn == nil || tpF == nil {
		r.undecided("clientStreamProcessorFMP4.processSegment / trackProcessors not found")
		return r
	}
	n := 0
	allInstrs(fn, func(in ssa.Instruction) {
		call, ok := in.(*ssa.Call)
		if !ok || call.Call.StaticCallee() == nil || call.Call.StaticCallee().Name() != "setNTP" {
			return
		}
		n++
		key := fmt.Sprintf("processSegment|anchor#%d", n)
		what := "setNTP runs for every dated segment, not only while the track processors are being created"
		once := ifsOnV(fn, func(v ssa.Value) bool {
			bo, ok := v.(*ssa.BinOp)
			if !ok || bo.Op != token.EQL {
				return false
			}
			k, isNil := bo.Y.(*ssa.Const)
			f, _ := loadedField(bo.X)
			return isNil && k.IsNil() && f == tpF
		})
		if len(once) > 0 && onlyIf(fn, call, once, true) {
			r.fail(key, c.Pos(call.Pos()), FuncName(fn), what, "the call is reachable only when trackProcessors == nil (the first segment): later PROGRAM-DATE-TIME values are ignored, absolute times drift from the playlist's dates, and a stream whose first segment carries no date never gets an absolute time")
		} else {
			r.ok(key, c.Pos(call.Pos()), FuncName(fn), what, "not control dependent on trackProcessors == nil")
		}
	})
	r.Instances = n
	return r
}

func ruleK7(c *Ctx) *RuleResult {
	r := &RuleResult{Floor: 1, FloorWhat: "receives of a stream's ended signal"}
	endedF := c.Field("", "clientStreamDownloader", "chEnded")
	if endedF == nil {
		// renamed: the one channel field of the stream downloader that its own methods close
		var cands []*types.Var
		for _, fn := range c.Funcs {
			if !InRootPkg(fn) || fn.Signature.Recv() == nil || namedOf(fn.Signature.Recv().Type()) == nil || namedOf(fn.Signature.Recv().Type()).Obj().Name() != "clientStreamDownloader" {
				continue
			}
			allInstrs(fn, func(in ssa.Instruction) {
				if call, ok := in.(*ssa.Call); ok {
					if bi, ok := call.Call.Value.(*ssa.Builtin); ok && bi.Name() == "close" {
						if f, _ := loadedField(call.Call.Args[0]); f != nil && c.fieldOwner(f) == "clientStreamDownloader" {
							dup := false
							for _, x := range cands {
								dup = dup || x == f
							}
							if !dup {
								cands = append(cands, f)
							}
						}
					}
				}
			})
		}
		if len(cands) == 1 {
			endedF = cands[0]
		}
	}
	run := c.Method("", "clientPrimaryDownloader", "run")
	if endedF == nil || run == nil {
		r.undecided("clientStreamDownloader.chEnded / clientPrimaryDownloader.run not found")
		return r
	}
	n := 0
	for _, fn := range withAnon(run) {
		allInstrs(fn, func(in ssa.Instruction) {
			sel, ok := in.(*ssa.Select)
			if !ok {
				return
			}
			for _, st := range sel.States {
				if st.Dir != types.RecvOnly {
					continue
				}
				f, base := loadedField(st.Chan)
				if f != endedF {
					continue
				}
				n++
				key := fmt.Sprintf("%s|ended#%d", FuncName(fn), n)
				what := "the end of stream is awaited on every stream"
				// base: streams[i] with i a range index
				okRange := false
				if u, ok := base.(*ssa.UnOp); ok {
					if ia, ok := u.X.(*ssa.IndexAddr); ok && isRangeIdx(ia.Index) {
						okRange = true
					}
				}
				if okRange {
					r.ok(key, c.Pos(sel.Pos()), FuncName(fn), what, "receive inside a range over the streams")
				} else {
					r.fail(key, c.Pos(sel.Pos()), FuncName(fn), what, "the ended signal is taken from "+describeVal(base)+" only: the client reports a clean end of stream while units of the other playlists (an audio rendition that outlasts the video) are still queued, and drops them")
				}
			}
		})
	}
	r.Instances = n
	return r
}

func ruleP2b(c *Ctx) *RuleResult {
	r := &RuleResult{Floor: 0, FloorWhat: "functions that recycle a pooled buffer"}
	n := 0
	for _, fn := range c.Funcs {
		if !InLib(fn) {
			continue
		}
		var gets []ssa.Value
		puts := 0
		allInstrs(fn, func(in ssa.Instruction) {
			var cc *ssa.CallCommon
			switch x := in.(type) {
			case *ssa.Call:
				cc = &x.Call
			case *ssa.Defer:
				cc = &x.Call
			}
			if cc == nil {
				return
			}
			if isMethodNamed(cc.StaticCallee(), "sync", "Pool", "Get") {
				if v, ok := in.(ssa.Value); ok {
					gets = append(gets, v)
				}
			}
			if isMethodNamed(cc.StaticCallee(), "sync", "Pool", "Put") {
				puts++
			}
		})
		// deferred closures that Put
		for _, h := range fn.AnonFuncs {
			allInstrs(h, func(in ssa.Instruction) {
				if call, ok := in.(*ssa.Call); ok && isMethodNamed(call.Call.StaticCallee(), "sync", "Pool", "Put") {
					puts++
				}
			})
		}
		if len(gets) == 0 || puts == 0 {
			continue
		}
		n++
		key := FuncName(fn) + "|pooled-result"
		what := "what the function returns does not alias the buffer it gives back to the pool"
		bad := ""
		for _, b := range fn.Blocks {
			ret, ok := b.Instrs[len(b.Instrs)-1].(*ssa.Return)
			if !ok {
				continue
			}
			for i := range ret.Results {
				v := retVal(ret, i)
				if call, ok := v.(*ssa.Call); ok && call.Call.StaticCallee() != nil && call.Call.StaticCallee().Name() == "Bytes" {
					bad = "returns " + call.String()
				}
				if sl, ok := v.(*ssa.Slice); ok {
					if call, ok := sl.X.(*ssa.Call); ok && call.Call.StaticCallee() != nil && call.Call.StaticCallee().Name() == "Bytes" {
						bad = "returns a slice of " + call.String()
					}
				}
			}
		}
		if bad != "" {
			r.fail(key, c.Pos(fn.Pos()), FuncName(fn), what, bad+" of a buffer that goes back to the pool when the function returns: the next call rewrites the earlier result in place (a playlist served to one viewer is overwritten by the next viewer's)")
		} else {
			r.ok(key, c.Pos(fn.Pos()), FuncName(fn), what, "no Bytes() of the pooled buffer is returned")
		}
	}
	r.Instances = n
	return r
}

func init() {
	registerRule("F7f", "start position: the client starts from the first listed segment only for a playlist whose type compares equal to VOD (EVENT and untyped playlists start near the live edge)", ruleF7f)
	registerRule("F7g", "delta updates are a Low-Latency matter: the `_HLS_skip` parameter is added under a flag that the traditional polling loop passes as false", ruleF7g)
	registerRule("T3b", "an optional attribute is printed under its own condition: in a tag encoder, the fragment that prints field F is not nested under a test of another field that is printed as a separate attribute", ruleT3b)
	registerRule("T7k", "part sizes are buffer lengths: the size recorded for a disk part (and the file's final size) is len(buffer.Bytes()), never a write position", ruleT7k)
	registerRule("T7j", "cursor readers honour their cursor: every use of a part's bytes in a reader that keeps a (part, position) cursor is sliced from the position field", ruleT7j)
	registerRule("P3c", "listed segments keep their parts: the part list of a segment reached through the window is never reassigned (the window trim reads it to release the part URLs)", ruleP3c)
	registerRule("L3e", "every predicate of a queue wait loop wakes its waiter: a store to a field that a wait loop of the segment queue tests (other than the queue itself, covered by L3c) closes that loop's channel before the mutex is released", ruleL3e)
}

func ruleF7f(c *Ctx) *RuleResult {
	r := &RuleResult{Floor: 1, FloorWhat: "start-from-the-beginning selections"}
	fq := c.Method("", "clientStreamDownloader", "fillSegmentQueue")
	segF := c.Field("pkg/playlist", "Media", "Segments")
	ptF := c.Field("pkg/playlist", "Media", "PlaylistType")
	if fq == nil || segF == nil || ptF == nil {
		r.undecided("fillSegmentQueue / playlist.Media.Segments / PlaylistType not found")
		return r
	}
	n := 0
	for _, fn := range c.withDownloaderHelpers(fq) {
		allInstrs(fn, func(in ssa.Instruction) {
			// seg = pl.Segments[0]
			u, ok := in.(*ssa.UnOp)
			if !ok || u.Op != token.MUL {
				return
			}
			ia, ok := u.X.(*ssa.IndexAddr)
			if !ok {
				return
			}
			if f, _ := loadedField(ia.X); f != segF {
				return
			}
			if k, ok := constInt(ia.Index); !ok || k != 0 {
				return
			}
			n++
			key := fmt.Sprintf("%s|from-first-segment#%d", FuncName(fn), n)
			what := "starting at the first listed segment is control dependent on PlaylistType == VOD"
			isVODTest := func(v ssa.Value) bool {
				bo, ok := v.(*ssa.BinOp)
				if !ok || bo.Op != token.EQL {
					return false
				}
				for _, pair := range [][2]ssa.Value{{bo.X, bo.Y}, {bo.Y, bo.X}} {
					s, isS := constString(pair[1])
					if !isS || !strings.EqualFold(s, "VOD") {
						continue
					}
					// the other side: *PlaylistType
					if d, ok := stripConv(pair[0]).(*ssa.UnOp); ok && d.Op == token.MUL {
						if f, _ := loadedField(d.X); f == ptF {
							return true
						}
					}
				}
				return false
			}
			conds := ifsOnV(fn, isVODTest)
			// the test may be one operand of a `&&` that a switch case evaluates into a phi: dominating facts
			byFact := false
			for _, f := range factsAt(u.Block()) {
				if f.pol && isVODTest(f.cond) {
					byFact = true
				}
			}
			if byFact || len(conds) > 0 && onlyIf(fn, u, conds, true) {
				r.ok(key, c.Pos(u.Pos()), FuncName(fn), what, "guarded by *PlaylistType == VOD")
			} else {
				r.fail(key, c.Pos(u.Pos()), FuncName(fn), what, "the branch is taken for every typed playlist: a still-growing EVENT playlist is joined at its first segment instead of third from last, and with more than six segments the next reload ends with `playback is too late`")
			}
		})
	}
	r.Instances = n
	return r
}

// withDownloaderHelpers: fn plus the methods of the same receiver type it calls (bounded), download* excluded.
func (c *Ctx) withDownloaderHelpers(fn *ssa.Function) []*ssa.Function {
	out := []*ssa.Function{fn}
	for i := 0; i < len(out) && i < 8; i++ {
		allInstrs(out[i], func(in ssa.Instruction) {
			if call, ok := in.(*ssa.Call); ok {
				g := call.Call.StaticCallee()
				if g != nil && g.Blocks != nil && InRootPkg(g) && g.Signature.Recv() != nil && fn.Signature.Recv() != nil && namedOf(g.Signature.Recv().Type()) == namedOf(fn.Signature.Recv().Type()) && !strings.HasPrefix(g.Name(), "download") {
					out = appendUnique(out, g)
				}
			}
		})
	}
	return out
}

func ruleF7g(c *Ctx) *RuleResult {
	r := &RuleResult{Floor: 1, FloorWhat: "additions of _HLS_skip to a request"}
	rt := c.Method("", "clientStreamDownloader", "runTraditional")
	if rt == nil {
		r.undecided("runTraditional not found")
		return r
	}
	n := 0
	for _, fn := range c.clientFuncs() {
		allInstrs(fn, func(in ssa.Instruction) {
			call, ok := in.(*ssa.Call)
			if !ok || !(isMethodNamed(call.Call.StaticCallee(), "net/url", "Values", "Add") || isMethodNamed(call.Call.StaticCallee(), "net/url", "Values", "Set")) {
				return
			}
			if s, ok := constString(call.Call.Args[1]); !ok || s != "_HLS_skip" {
				return
			}
			n++
			key := fmt.Sprintf("%s|skip#%d", FuncName(fn), n)
			what := "the delta-update request is made only when the caller asks for it, and the traditional loop does not"
			// a bool parameter of fn that the addition is control dependent on
			pi := -1
			for i, p := range fn.Params {
				if b, ok := p.Type().Underlying().(*types.Basic); ok && b.Kind() == types.Bool {
					if conds := ifsOn(fn, condIs(p)); len(conds) > 0 && onlyIf(fn, call, conds, true) {
						pi = i
					}
				}
			}
			if pi < 0 {
				// no flag: the addition must not be reachable from the traditional loop
				if c.reach([]*ssa.Function{rt}, func(f *ssa.Function) bool { return !InRootPkg(f) })[fn] {
					r.fail(key, c.Pos(call.Pos()), FuncName(fn), what, "the parameter is added without a caller-supplied flag and the function is reachable from runTraditional: the polling loop indexes the (shifted) delta playlist as if it were complete and skips or repeats segments")
				} else {
					r.ok(key, c.Pos(call.Pos()), FuncName(fn), what, "not reachable from runTraditional")
				}
				return
			}
			bad := ""
			for _, e := range c.callersOf(fn) {
				if e.Site == nil {
					continue
				}
				caller := e.Caller.Func
				if caller != rt && !c.reach([]*ssa.Function{rt}, func(f *ssa.Function) bool { return !InRootPkg(f) })[caller] {
					continue
				}
				if caller.Name() == "runLowLatency" {
					continue
				}
				args := e.Site.Common().Args
				if pi < len(args) {
					if b, ok := constBool(args[pi]); !ok || b {
						bad = "the call at " + c.Pos(e.Site.Pos()) + " in " + FuncName(caller) + " does not pass a constant false"
					}
				}
			}
			if bad == "" {
				r.ok(key, c.Pos(call.Pos()), FuncName(fn), what, "guarded by parameter "+fn.Params[pi].Name()+"; the traditional loop passes false")
			} else {
				r.fail(key, c.Pos(call.Pos()), FuncName(fn), what, bad)
			}
		})
	}
	r.Instances = n
	return r
}

func ruleT3b(c *Ctx) *RuleResult {
	r := &RuleResult{Floor: 10, FloorWhat: "optional attributes printed by the tag encoders"}
	attrs := c.emittedAttrs()
	// per function: field → attribute name it is printed under
	printed := map[*ssa.Function]map[*types.Var]string{}
	for _, ea := range attrs {
		if ea.val == nil {
			continue
		}
		for _, f := range fieldsFeeding(ea.val, 0) {
			if printed[ea.fn] == nil {
				printed[ea.fn] = map[*types.Var]string{}
			}
			if printed[ea.fn][f] == "" {
				printed[ea.fn][f] = ea.name
			}
		}
	}
	// the load of the printed field that feeds the fragment marks where the fragment is built
	var loadOf func(v ssa.Value, depth int) ssa.Instruction
	loadOf = func(v ssa.Value, depth int) ssa.Instruction {
		if depth > 8 || v == nil {
			return nil
		}
		if f, _ := loadedField(v); f != nil {
			if in, ok := v.(ssa.Instruction); ok {
				return in
			}
		}
		switch x := v.(type) {
		case *ssa.UnOp:
			return loadOf(x.X, depth+1)
		case *ssa.Convert:
			return loadOf(x.X, depth+1)
		case *ssa.ChangeType:
			return loadOf(x.X, depth+1)
		case *ssa.Call:
			for _, a := range x.Call.Args {
				if in := loadOf(a, depth+1); in != nil {
					return in
				}
			}
			if x.Call.IsInvoke() {
				return loadOf(x.Call.Value, depth+1)
			}
		case *ssa.BinOp:
			if in := loadOf(x.X, depth+1); in != nil {
				return in
			}
			return loadOf(x.Y, depth+1)
		}
		return nil
	}
	n := 0
	per := map[*ssa.Function]int{}
	seenKey := map[string]bool{}
	for _, ea := range attrs {
		if ea.val == nil {
			continue
		}
		at := loadOf(ea.val, 0)
		if at == nil {
			continue
		}
		own := map[*types.Var]bool{}
		for _, f := range fieldsFeeding(ea.val, 0) {
			own[f] = true
		}
		fn := ea.fn
		if at.Parent() != fn {
			continue
		}
		// emptiness tests (== "" / != "" / == nil / != nil) of ANOTHER field that is printed as its own attribute and that
		// the fragment is control dependent on
		var foreign []string
		optional := false
		for _, b := range fn.Blocks {
			iff, ok := b.Instrs[len(b.Instrs)-1].(*ssa.If)
			if !ok {
				continue
			}
			ci := condIf{If: iff, Pol: true}
			v := iff.Cond
			for {
				if u, ok := v.(*ssa.UnOp); ok && u.Op == token.NOT {
					v = u.X
					ci.Pol = !ci.Pol
					continue
				}
				break
			}
			bo, ok := v.(*ssa.BinOp)
			if !ok || (bo.Op != token.NEQ && bo.Op != token.EQL) {
				continue
			}
			empty := false
			if k, isK := bo.Y.(*ssa.Const); isK {
				if k.IsNil() {
					empty = true
				} else if sv, isS := constString(k); isS && sv == "" {
					empty = true
				}
			}
			if !empty {
				continue
			}
			f, _ := loadedField(bo.X)
			if f == nil {
				continue
			}
			present := bo.Op == token.NEQ // outcome meaning "field is set"
			if !onlyIf(fn, at, []condIf{ci}, present) {
				continue
			}
			if own[f] {
				optional = true
				continue
			}
			if other := printed[fn][f]; other != "" && other != ea.name {
				foreign = append(foreign, c.fieldName(f)+" (printed as "+other+")")
			}
		}
		if !optional && len(foreign) == 0 {
			continue // a mandatory attribute, or one governed by something else than emptiness tests
		}
		per[fn]++
		key := fmt.Sprintf("%s|%s", FuncName(fn), ea.name)
		if seenKey[key] {
			continue
		}
		seenKey[key] = true
		n++
		what := "attribute " + ea.name + " is printed whenever its own field is set"
		if len(foreign) == 0 {
			r.ok(key, c.Pos(posOf(at)), FuncName(fn), what, "nested only under the emptiness test of its own field")
		} else {
			r.fail(key, c.Pos(posOf(at)), FuncName(fn), what, "the fragment is nested under the emptiness test of "+strings.Join(foreign, ", ")+": a value that has this field set and that one empty loses the field on a round trip (the decoder reads the two attributes independently)")
		}
	}
	r.Instances = n
	return r
}

func ruleT7k(c *Ctx) *RuleResult {
	r := &RuleResult{Floor: 1, FloorWhat: "recorded sizes of disk parts"}
	sizeF := c.Field("pkg/storage", "partDisk", "size")
	if sizeF == nil {
		r.undecided("storage.partDisk.size not found")
		return r
	}
	n := 0
	per := map[*ssa.Function]int{}
	for _, fn := range c.Funcs {
		if !storagePkg(fn) {
			continue
		}
		for _, st := range storesToField(c, fn, sizeF) {
			if freshObject(st.Addr) {
				continue
			}
			n++
			per[fn]++
			key := fmt.Sprintf("%s|part-size#%d", FuncName(fn), per[fn])
			what := "the recorded size of a part is the length of its buffer"
			v := stripConv(st.Val)
			okLen := false
			if call, ok := v.(*ssa.Call); ok {
				if b, ok := call.Call.Value.(*ssa.Builtin); ok && b.Name() == "len" {
					if src, ok := call.Call.Args[0].(*ssa.Call); ok && src.Call.StaticCallee() != nil && src.Call.StaticCallee().Name() == "Bytes" {
						okLen = true
					}
				}
			}
			if okLen {
				r.ok(key, c.Pos(st.Pos()), FuncName(fn), what, "len(buffer.Bytes())")
			} else {
				r.fail(key, c.Pos(st.Pos()), FuncName(fn), what, "the size is "+describeVal(v)+": a part whose last operation was a seek back and a rewrite gets a truncated size, the next part's offset lands on its tail and its reader is cut short after Finalize")
			}
		}
	}
	r.Instances = n
	return r
}

func ruleT7j(c *Ctx) *RuleResult {
	r := &RuleResult{Floor: 1, FloorWhat: "uses of a part's bytes in cursor readers"}
	n := 0
	for _, fn := range c.Funcs {
		if !storagePkg(fn) || fn.Signature.Recv() == nil || len(fn.Params) == 0 {
			continue
		}
		rn := namedOf(fn.Signature.Recv().Type())
		if rn == nil {
			continue
		}
		st, ok := rn.Underlying().(*types.Struct)
		if !ok {
			continue
		}
		var posF *types.Var
		for i := 0; i < st.NumFields(); i++ {
			if strings.EqualFold(st.Field(i).Name(), "curPos") || strings.EqualFold(st.Field(i).Name(), "pos") {
				posF = st.Field(i)
			}
		}
		if posF == nil {
			continue
		}
		allInstrs(fn, func(in ssa.Instruction) {
			call, ok := in.(*ssa.Call)
			if !ok || call.Call.StaticCallee() == nil || call.Call.StaticCallee().Name() != "Bytes" || call.Referrers() == nil {
				return
			}
			for _, ref := range *call.Referrers() {
				switch x := ref.(type) {
				case *ssa.Slice:
					n++
					key := fmt.Sprintf("%s|bytes-use#%d", FuncName(fn), n)
					what := "a part's bytes are read from the cursor position"
					if lf, _ := loadedField(stripConv(x.Low)); lf == posF {
						r.ok(key, c.Pos(x.Pos()), FuncName(fn), what, "buf[r."+posF.Name()+":]")
					} else {
						r.fail(key, c.Pos(x.Pos()), FuncName(fn), what, "sliced from "+describeVal(x.Low)+", not from the cursor")
					}
				case *ssa.Call:
					if b, isB := x.Call.Value.(*ssa.Builtin); isB && b.Name() == "len" {
						continue
					}
					n++
					key := fmt.Sprintf("%s|bytes-use#%d", FuncName(fn), n)
					r.fail(key, c.Pos(x.Pos()), FuncName(fn), "a part's bytes are read from the cursor position", "the whole buffer is handed to "+shortInstr(x)+" although the reader may already stand inside this part: after a Read that stopped mid-part the head of the part is delivered twice")
				}
			}
		})
	}
	r.Instances = n
	return r
}

func ruleP3c(c *Ctx) *RuleResult {
	r := &RuleResult{Floor: 1, FloorWhat: "stores to muxerSegmentFMP4.parts"}
	partsF := c.Field("", "muxerSegmentFMP4", "parts")
	segF := c.Field("", "muxerStream", "segments")
	if partsF == nil || segF == nil {
		r.undecided("muxerSegmentFMP4.parts / muxerStream.segments not found")
		return r
	}
	n := 0
	per := map[*ssa.Function]int{}
	for _, fn := range c.Funcs {
		for _, st := range storesToField(c, fn, partsF) {
			n++
			per[fn]++
			key := fmt.Sprintf("%s|parts-store#%d", FuncName(fn), per[fn])
			what := "the part list of a segment that sits in the window is not reassigned"
			_, base := fieldOfAddr(st.Addr)
			fromWindow := false
			if u, ok := stripAsserts(base).(*ssa.UnOp); ok {
				if ia, ok := u.X.(*ssa.IndexAddr); ok {
					if f, _ := loadedField(ia.X); f == segF {
						fromWindow = true
					}
				}
			}
			if ex, ok := base.(*ssa.Extract); ok {
				if ta, ok := ex.Tuple.(*ssa.TypeAssert); ok {
					if u, ok := ta.X.(*ssa.UnOp); ok {
						if ia, ok := u.X.(*ssa.IndexAddr); ok {
							if f, _ := loadedField(ia.X); f == segF {
								fromWindow = true
							}
						}
					}
				}
			}
			if fromWindow {
				r.fail(key, c.Pos(st.Pos()), FuncName(fn), what, "the segment is taken from s.segments: when it later leaves the window the loop that unregisters its part URLs walks an empty list, the URLs keep resolving and the table grows without bound")
			} else {
				r.ok(key, c.Pos(st.Pos()), FuncName(fn), what, "the object is not loaded from the window ("+describeVal(base)+")")
			}
		}
	}
	r.Instances = n
	return r
}

func ruleL3e(c *Ctx) *RuleResult {
	r := &RuleResult{Floor: 0, FloorWhat: "wait-loop predicates of the segment queue other than the queue itself"}
	q := c.NamedType("", "clientSegmentQueue")
	queueF := c.Field("", "clientSegmentQueue", "queue")
	if q == nil || queueF == nil {
		r.undecided("clientSegmentQueue not found")
		return r
	}
	ms := c.Prog.MethodSets.MethodSet(types.NewPointer(q))
	var methods []*ssa.Function
	for i := 0; i < ms.Len(); i++ {
		if f := c.Prog.MethodValue(ms.At(i)); f != nil && f.Blocks != nil {
			methods = append(methods, f)
		}
	}
	// predicate fields per wait channel: non-channel fields of the queue loaded inside a loop that contains a select on the channel
	pred := map[*types.Var]*types.Var{} // predicate field → channel field
	for _, fn := range methods {
		allInstrs(fn, func(in ssa.Instruction) {
			sel, ok := in.(*ssa.Select)
			if !ok {
				return
			}
			for _, st := range sel.States {
				cf := chanFieldOf(st.Chan, q)
				if cf == nil {
					continue
				}
				for _, b := range fn.Blocks {
					if !(reachFromTo(fn, b, sel.Block()) && reachFromTo(fn, sel.Block(), b)) {
						continue
					}
					for _, x := range b.Instrs {
						u, ok := x.(*ssa.UnOp)
						if !ok || u.Op != token.MUL {
							continue
						}
						f, _ := fieldOfAddr(u.X)
						if f == nil || namedOwner(c, f) != q || f == queueF {
							continue
						}
						switch f.Type().Underlying().(type) {
						case *types.Chan:
							continue
						}
						if isSyncType(f.Type(), "Mutex") || isSyncType(f.Type(), "RWMutex") {
							continue
						}
						pred[f] = cf
					}
				}
			}
		})
	}
	n := 0
	for _, fn := range methods {
		if c.calledOnlyOnFresh(fn) {
			continue
		}
		cnt := 0
		allInstrs(fn, func(in ssa.Instruction) {
			st, ok := in.(*ssa.Store)
			if !ok {
				return
			}
			f, _ := fieldOfAddr(st.Addr)
			cf, isPred := pred[f]
			if !isPred {
				return
			}
			n++
			cnt++
			key := fmt.Sprintf("%s|%s#%d", FuncName(fn), f.Name(), cnt)
			what := "a change of " + c.fieldName(f) + ", which a wait loop tests, closes " + c.fieldName(cf) + " before the mutex is released"
			closed := false
			for x := range instrsReachableUntil(fn, st, func(x ssa.Instruction) bool {
				if cc, ok := x.(*ssa.Call); ok && classifySync(&cc.Call) == opUnlock {
					return true
				}
				_, isRet := x.(*ssa.Return)
				return isRet
			}) {
				if call, ok := x.(*ssa.Call); ok {
					if b, ok := call.Call.Value.(*ssa.Builtin); ok && b.Name() == "close" {
						if lf, _ := loadedField(call.Call.Args[0]); lf == cf {
							closed = true
						}
					}
				}
			}
			if closed {
				r.ok(key, c.Pos(st.Pos()), FuncName(fn), what, "close found in the critical section")
			} else {
				r.fail(key, c.Pos(st.Pos()), FuncName(fn), what, "no close of the channel follows in this critical section: a consumer already parked in the wait loop is never woken (the end of the stream is never reported)")
			}
		})
	}
	r.Instances = n
	return r
}
