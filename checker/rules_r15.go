package main

// Fifteenth batch: rules written after the fifteenth round of seeded changes.

import (
	"fmt"
	"go/token"
	"go/types"
	"sort"
	"strings"

	"golang.org/x/tools/go/ssa"
)

func init() {
	registerRule("L2d", "a waiter that chooses its condition variable is woken by every state change: where the receiver of a Cond.Wait in muxer code is a choice between several cond fields, every function that broadcasts one of them broadcasts all of them", ruleL2d)
	registerRule("F22d", "quotient and remainder stay a pair: in the split multiply-and-divide helpers (x/d and x%d of the same operands) neither half is adjusted on its own before the two are recombined", ruleF22d)
}

// ---------------------------------------------------------------------------

func condFieldsOf(v ssa.Value, depth int, out map[*types.Var]bool) bool {
	return condFieldsOf0(v, depth, out, map[ssa.Value]bool{})
}

func condFieldsOf0(v ssa.Value, depth int, out map[*types.Var]bool, seen map[ssa.Value]bool) bool {
	if depth > 8 {
		return false
	}
	v = stripConv(v)
	if seen[v] {
		return true // a loop-carried φ: contributes nothing new
	}
	seen[v] = true
	isCond := func(t types.Type) bool {
		if p, ok := t.(*types.Pointer); ok {
			t = p.Elem()
		}
		return typeIs(t, "sync", "Cond")
	}
	if f, _ := loadedField(v); f != nil && isCond(f.Type()) {
		out[f] = true
		return true
	}
	if phi, ok := v.(*ssa.Phi); ok {
		for _, e := range phi.Edges {
			if !condFieldsOf0(e, depth+1, out, seen) {
				return false
			}
		}
		return len(phi.Edges) > 0
	}
	return false
}

func ruleL2d(c *Ctx) *RuleResult {
	r := &RuleResult{Floor: 2, FloorWhat: "Cond.Wait sites of the muxer"}
	type bsite struct {
		fn *ssa.Function
		f  *types.Var
		in ssa.Instruction
	}
	var bsites []bsite
	type wsite struct {
		fn   *ssa.Function
		call ssa.CallInstruction
		set  map[*types.Var]bool
	}
	var waits []wsite
	for _, fn := range c.Funcs {
		if !InRootPkg(fn) || fn.Blocks == nil || isClientFunc(enclosingNamed(fn)) {
			continue
		}
		allInstrs(fn, func(in ssa.Instruction) {
			ci, ok := in.(ssa.CallInstruction)
			if !ok {
				return
			}
			switch classifySync(ci.Common()) {
			case opWait:
				set := map[*types.Var]bool{}
				if len(ci.Common().Args) > 0 && condFieldsOf(ci.Common().Args[0], 0, set) {
					waits = append(waits, wsite{fn, ci, set})
				} else {
					waits = append(waits, wsite{fn, ci, nil})
				}
			case opBroadcast, opSignal:
				set := map[*types.Var]bool{}
				if len(ci.Common().Args) > 0 && condFieldsOf(ci.Common().Args[0], 0, set) {
					for f := range set {
						bsites = append(bsites, bsite{enclosingNamed(fn), f, in})
					}
				}
			}
		})
	}
	// a cond field that only ever receives a copy of another cond field is that field
	rootCache := map[*types.Var]*types.Var{}
	var rootOfCond func(f *types.Var, d int) *types.Var
	rootOfCond = func(f *types.Var, d int) *types.Var {
		if r, ok := rootCache[f]; ok {
			return r
		}
		rootCache[f] = f
		if d > 4 {
			return f
		}
		var src *types.Var
		for _, fn := range c.Funcs {
			if !InRootPkg(fn) || fn.Blocks == nil {
				continue
			}
			for _, st := range storesToField(c, fn, f) {
				g, _ := loadedField(stripConv(st.Val))
				if g == nil || g == f {
					return f
				}
				if src != nil && src != g {
					return f
				}
				src = g
			}
		}
		if src != nil {
			rootCache[f] = rootOfCond(src, d+1)
		}
		return rootCache[f]
	}
	for i := range bsites {
		bsites[i].f = rootOfCond(bsites[i].f, 0)
	}
	for i := range waits {
		if waits[i].set == nil {
			continue
		}
		ns := map[*types.Var]bool{}
		for f := range waits[i].set {
			ns[rootOfCond(f, 0)] = true
		}
		waits[i].set = ns
	}
	n := 0
	for _, w := range waits {
		n++
		key := fmt.Sprintf("%s|wait#%d", FuncName(w.fn), n)
		what := "whatever condition variable a request sleeps on, every change of the state it waits for wakes it"
		if len(w.set) <= 1 {
			r.ok(key, c.Pos(w.call.Pos()), FuncName(w.fn), what, "one fixed condition variable (decided by L2/L3)")
			continue
		}
		var names []string
		for f := range w.set {
			names = append(names, c.fieldName(f))
		}
		sort.Strings(names)
		// group broadcasts by function
		per := map[*ssa.Function]map[*types.Var]bool{}
		pos := map[*ssa.Function]string{}
		for _, b := range bsites {
			if !w.set[b.f] {
				continue
			}
			if per[b.fn] == nil {
				per[b.fn] = map[*types.Var]bool{}
			}
			per[b.fn][b.f] = true
			pos[b.fn] = c.Pos(b.in.Pos())
		}
		bad := ""
		var fns []*ssa.Function
		for fn := range per {
			fns = append(fns, fn)
		}
		sortFuncs(fns)
		for _, fn := range fns {
			for f := range w.set {
				if !per[fn][f] {
					bad = FuncName(fn) + " (" + pos[fn] + ") does not broadcast " + c.fieldName(f)
				}
			}
		}
		if bad == "" {
			r.ok(key, c.Pos(w.call.Pos()), FuncName(w.fn), what, "the wait chooses between "+strings.Join(names, ", ")+"; every broadcasting function broadcasts all of them")
		} else {
			r.fail(key, c.Pos(w.call.Pos()), FuncName(w.fn), what, "the wait chooses between "+strings.Join(names, ", ")+" but "+bad+": a request that chose that one sleeps through the change it is waiting for (the choice made before the loop is stale after the next rotation)")
		}
	}
	r.Instances = n
	return r
}

// ---------------------------------------------------------------------------

func ruleF22d(c *Ctx) *RuleResult {
	r := &RuleResult{Floor: 2, FloorWhat: "quotient/remainder pairs in the time arithmetic"}
	n := 0
	for _, fn := range c.Funcs {
		if !InRootPkg(fn) || fn.Blocks == nil {
			continue
		}
		var quos, rems []*ssa.BinOp
		allInstrs(fn, func(in ssa.Instruction) {
			if bo, ok := in.(*ssa.BinOp); ok {
				if b, isB := bo.X.Type().Underlying().(*types.Basic); isB && b.Info()&types.IsInteger != 0 {
					switch bo.Op {
					case token.QUO:
						quos = append(quos, bo)
					case token.REM:
						rems = append(rems, bo)
					}
				}
			}
		})
		for _, q := range quos {
			for _, m := range rems {
				if q.X != m.X || q.Y != m.Y {
					continue
				}
				// a remainder that is only compared (`if x%d != 0 { q++ }`: rounding up) is not recombined with the quotient
				valueUse := false
				for _, ref := range *m.Referrers() {
					switch x := ref.(type) {
					case *ssa.BinOp:
						switch x.Op {
						case token.EQL, token.NEQ, token.LSS, token.LEQ, token.GTR, token.GEQ:
						default:
							valueUse = true
						}
					case *ssa.If, *ssa.DebugRef:
					default:
						valueUse = true
					}
				}
				if !valueUse {
					continue
				}
				n++
				key := fmt.Sprintf("%s|pair#%d", FuncName(fn), n)
				what := "x == (x/d)*d + x%d is what makes the split product exact: the two halves are recombined as computed"
				adj := func(v *ssa.BinOp) string {
					for _, ref := range *v.Referrers() {
						switch x := ref.(type) {
						case *ssa.Phi:
							return "merged with another value at " + c.Pos(x.Pos())
						case *ssa.BinOp:
							if (x.Op == token.ADD || x.Op == token.SUB) && (x.X == ssa.Value(v) && x.Y == v.Y || x.Y == ssa.Value(v) && x.X == v.Y) {
								return "shifted by the divisor at " + c.Pos(x.Pos())
							}
							if x.Op == token.ADD || x.Op == token.SUB {
								if k, isK := constInt(x.Y); isK && (k == 1 || k == -1) && x.X == ssa.Value(v) {
									return "shifted by one at " + c.Pos(x.Pos())
								}
							}
						}
					}
					return ""
				}
				aq, am := adj(q), adj(m)
				switch {
				case aq == "" && am == "":
					r.ok(key, c.Pos(q.Pos()), FuncName(fn), what, "both used as computed")
				case aq != "" && am != "":
					r.ok(key, c.Pos(q.Pos()), FuncName(fn), what, "both halves are adjusted (floor division): the identity is kept")
				case am != "":
					r.fail(key, c.Pos(m.Pos()), FuncName(fn), what, "the remainder is "+am+" but the quotient is not: for a negative timestamp that is not a whole multiple of the divisor the result is off by one whole unit (one second)")
				default:
					r.fail(key, c.Pos(q.Pos()), FuncName(fn), what, "the quotient is "+aq+" but the remainder is not: the result is off by one whole unit")
				}
			}
		}
	}
	r.Instances = n
	return r
}

// ---------------------------------------------------------------------------
// second half of the fifteenth batch

func init() {
	registerRule("T6k", "the first-random-access latch only closes: every store to muxerTrack.firstRandomAccessReceived stores the constant true (a cleared latch silently drops every unit up to the next key frame)", ruleT6k)
	registerRule("F7w", "the end of the stream is noticed on every way out: in the function that advances curSegmentID no path leads from that store to a return of a nil error without reading the playlist's Endlist flag", ruleF7w)
	registerRule("K23", "a deferred call of a download function only releases: no function deferred in client code reads from a response body (io.Copy, io.ReadAll, Read) — the error already decided would wait for a body that may never end", ruleK23)
	registerRule("F57", "a whole segment carries its own date: where a segmentData is built from the result of downloadSegment, its dateTime is the DateTime field of the very segment whose URI was downloaded, read directly", ruleF57)
	registerRule("F6b", "the payload is the caller's: the access unit handed to fmp4's Fill* functions by the segmenter's writers is the writer's own payload parameter, not a rebuilt list", ruleF6b)
	registerRule("F8e", "the MPEG-TS join covers every track: joinTrackProcessors pushes the end marker to the iteration variable of a range over the trackProcessors map", ruleF8e)
	registerRule("T34", "a byte range is printed with the start it has: in the encoders of pkg/playlist the Start of a primitives.ByteRange is the element's own ByteRangeStart field, read directly", ruleT34)
	registerRule("F7x", "the download mode is chosen once: runTraditional and runLowLatency are called by the downloader's run only (a fallback from one to the other restarts from the first playlist of the session)", ruleF7x)
	registerRule("K5c", "a failed step is fatal: where client code tests the error of one of its initialize… or download… functions, every return dominated by the failing side returns that error (or another one), and the failing side does not lead back to the same call", ruleK5c)
	registerRule("T35", "a decoder keeps every value of a free-form attribute: in the unmarshal functions of pkg/playlist the store of a string into a string field is not control dependent on a comparison of that same string with a constant", ruleT35)
}

func ruleT6k(c *Ctx) *RuleResult {
	r := &RuleResult{Floor: 3, FloorWhat: "stores to the first-random-access latch"}
	f := c.Field("", "muxerTrack", "firstRandomAccessReceived")
	if f == nil {
		r.undecided("muxerTrack.firstRandomAccessReceived not found")
		return r
	}
	n := 0
	for _, fn := range c.Funcs {
		if !InRootPkg(fn) || fn.Blocks == nil {
			continue
		}
		for _, st := range storesToField(c, fn, f) {
			n++
			key := fmt.Sprintf("%s|latch#%d", FuncName(fn), n)
			what := "once the first random-access unit was seen, later units are never skipped again"
			if b, ok := constBool(st.Val); ok && b {
				r.ok(key, c.Pos(st.Pos()), FuncName(fn), what, "stores true")
			} else {
				r.fail(key, c.Pos(st.Pos()), FuncName(fn), what, "the latch is re-opened here: every unit written until the next random-access one is dropped while Write returns nil")
			}
		}
	}
	r.Instances = n
	return r
}

func ruleF7w(c *Ctx) *RuleResult {
	r := &RuleResult{Floor: 1, FloorWhat: "stores of curSegmentID"}
	f := c.Field("", "clientStreamDownloader", "curSegmentID")
	if f == nil {
		r.undecided("clientStreamDownloader.curSegmentID not found")
		return r
	}
	readsEndlist := func(g *ssa.Function) bool {
		if g == nil || g.Blocks == nil {
			return false
		}
		found := false
		allInstrs(g, func(x ssa.Instruction) {
			if u, ok := x.(*ssa.UnOp); ok && u.Op == token.MUL {
				if ff, _ := fieldOfAddr(u.X); ff != nil && ff.Name() == "Endlist" {
					found = true
				}
			}
		})
		return found
	}
	isEndlistRead := func(x ssa.Instruction) bool {
		if u, ok := x.(*ssa.UnOp); ok && u.Op == token.MUL {
			ff, _ := fieldOfAddr(u.X)
			return ff != nil && ff.Name() == "Endlist"
		}
		// a phase of the same routine that looks at the flag on behalf of its caller
		if call, ok := x.(*ssa.Call); ok {
			if g := call.Call.StaticCallee(); g != nil && InLib(g) && readsEndlist(g) {
				return true
			}
		}
		return false
	}
	// escapes: from instruction `from` in fn a nil-error return is reachable without an Endlist read
	escapes := func(fn *ssa.Function, from ssa.Instruction) string {
		bad := ""
		// coming round to the same site again (the download loop) without having looked is an escape too
		if _, isCall := from.(ssa.CallInstruction); isCall {
			if pathAvoidingRaw(fn, from, func(x ssa.Instruction) bool { return x != from && isEndlistRead(x) }, func(x ssa.Instruction) bool { return x == from }) {
				bad = c.Pos(from.Pos()) + " (the next iteration)"
			}
		}
		for _, b := range fn.Blocks {
			ret, ok := b.Instrs[len(b.Instrs)-1].(*ssa.Return)
			if !ok || b == fn.Recover || isErrorReturn(fn, ret) {
				continue
			}
			if pathAvoidingRaw(fn, from, isEndlistRead, func(x ssa.Instruction) bool { return x == ssa.Instruction(ret) }) {
				bad = c.Pos(posOf(ret))
			}
		}
		return bad
	}
	n := 0
	for _, fn := range c.clientFuncs() {
		if fn.Blocks == nil {
			continue
		}
		for _, st := range storesToField(c, fn, f) {
			if k, isK := st.Val.(*ssa.Const); isK && k.IsNil() {
				continue
			}
			n++
			key := fmt.Sprintf("%s|advance#%d", FuncName(fn), n)
			what := "after the last segment of an ENDLIST playlist the end-of-stream marker follows, whatever the segment was"
			bad := escapes(fn, st)
			if bad != "" {
				// the store sits in a phase (`pickNextSegment`): judge the rest of the routine at its call sites
				callers := c.callersOf(fn)
				if len(callers) > 0 {
					bad2 := ""
					for _, e := range callers {
						if e.Site == nil || e.Caller.Func.Blocks == nil {
							bad2 = bad
							continue
						}
						if w := escapes(e.Caller.Func, e.Site); w != "" {
							bad2 = w
						}
					}
					bad = bad2
				}
			}
			if bad == "" {
				r.ok(key, c.Pos(st.Pos()), FuncName(fn), what, "every nil return after the advance has read Endlist")
			} else {
				r.fail(key, c.Pos(st.Pos()), FuncName(fn), what, "the return at "+bad+" is reached after the advance without looking at Endlist: when that segment is the last one of an ended playlist the client reloads, finds no successor and ends with an error instead of ErrClientEOS")
			}
		}
	}
	r.Instances = n
	return r
}

func ruleK23(c *Ctx) *RuleResult {
	r := &RuleResult{Floor: 3, FloorWhat: "deferred calls in client code"}
	n := 0
	reads := func(g *ssa.Function) string {
		if g == nil {
			return ""
		}
		switch {
		case isFuncNamed(g, "io", "Copy"), isFuncNamed(g, "io", "CopyN"), isFuncNamed(g, "io", "CopyBuffer"), isFuncNamed(g, "io", "ReadAll"), isFuncNamed(g, "io", "ReadFull"), isFuncNamed(g, "io/ioutil", "ReadAll"):
			return g.Pkg.Pkg.Name() + "." + g.Name()
		}
		return ""
	}
	var bodyReads func(g *ssa.Function, d int) string
	bodyReads = func(g *ssa.Function, d int) string {
		if g == nil || g.Blocks == nil || d > 2 {
			return ""
		}
		out := ""
		allInstrs(g, func(in ssa.Instruction) {
			ci, ok := in.(ssa.CallInstruction)
			if !ok {
				return
			}
			com := ci.Common()
			if w := reads(com.StaticCallee()); w != "" {
				out = w
				return
			}
			if com.IsInvoke() && com.Method.Name() == "Read" {
				out = "Read"
				return
			}
			if h := com.StaticCallee(); h != nil && InLib(h) {
				if w := bodyReads(h, d+1); w != "" {
					out = w
				}
			}
		})
		return out
	}
	for _, fn := range c.clientFuncs() {
		if fn.Blocks == nil {
			continue
		}
		cnt := 0
		allInstrs(fn, func(in ssa.Instruction) {
			df, ok := in.(*ssa.Defer)
			if !ok {
				return
			}
			n++
			cnt++
			key := fmt.Sprintf("%s|defer#%d", FuncName(fn), cnt)
			what := "what a download function defers cannot block on the peer"
			w := ""
			if g := df.Call.StaticCallee(); g != nil {
				if w = reads(g); w == "" && InLib(g) {
					w = bodyReads(g, 0)
				}
			} else if mc, isMC := df.Call.Value.(*ssa.MakeClosure); isMC {
				w = bodyReads(mc.Fn.(*ssa.Function), 0)
			}
			if w == "" {
				r.ok(key, c.Pos(df.Pos()), FuncName(fn), what, "no read")
			} else {
				r.fail(key, c.Pos(df.Pos()), FuncName(fn), what, "the deferred call reads ("+w+"): on the error-status path the function has already decided to fail, but the error is delivered only after a body that a hostile or stalled server never finishes — Wait never yields")
			}
		})
	}
	r.Instances = n
	return r
}

func ruleF57(c *Ctx) *RuleResult {
	r := &RuleResult{Floor: 1, FloorWhat: "segmentData values built from downloadSegment"}
	dl := c.Method("", "clientStreamDownloader", "downloadSegment")
	dtF := c.Field("", "segmentData", "dateTime")
	plF := c.Field("", "segmentData", "payload")
	if dl == nil || dtF == nil || plF == nil {
		r.undecided("downloadSegment / segmentData.dateTime / payload not found")
		return r
	}
	n := 0
	for _, cl := range c.compositeLiterals("segmentData") {
		pv, ok := cl.fields[plF]
		if !ok {
			continue
		}
		var call *ssa.Call
		switch x := canon(pv).(type) {
		case *ssa.Extract:
			call, _ = x.Tuple.(*ssa.Call)
		case *ssa.Call:
			call = x
		}
		if call == nil || call.Call.StaticCallee() != dl {
			continue
		}
		n++
		key := fmt.Sprintf("%s|segment-date#%d", FuncName(cl.fn), n)
		what := "AbsoluteTime of a unit is anchored at the PROGRAM-DATE-TIME of the unit's own segment, or is unavailable"
		var uriBase ssa.Value
		for _, a := range call.Call.Args {
			if f, b := loadedField(stripConv(a)); f != nil && f.Name() == "URI" {
				uriBase = b
			}
		}
		dv, has := cl.fields[dtF]
		if !has {
			r.ok(key, c.Pos(cl.alloc.Pos()), FuncName(cl.fn), what, "no date")
			continue
		}
		f, b := loadedField(canon(dv))
		switch {
		case f == nil || f.Name() != "DateTime":
			r.fail(key, c.Pos(cl.alloc.Pos()), FuncName(cl.fn), what, "the date is computed ("+describeVal(canon(dv))+") instead of being the segment's own DateTime: a date derived from a neighbour is wrong whenever wall clock and timestamps are not in lock-step")
		case uriBase != nil && canon(b) != canon(uriBase) && accessPath(canon(b)) != accessPath(canon(uriBase)):
			r.fail(key, c.Pos(cl.alloc.Pos()), FuncName(cl.fn), what, "the DateTime of `"+accessPath(canon(b))+"` is attached to the bytes of `"+accessPath(canon(uriBase))+"`")
		default:
			r.ok(key, c.Pos(cl.alloc.Pos()), FuncName(cl.fn), what, "DateTime of the downloaded segment")
		}
	}
	r.Instances = n
	return r
}

func ruleF6b(c *Ctx) *RuleResult {
	r := &RuleResult{Floor: 2, FloorWhat: "Fill* calls of the segmenter"}
	seg := c.NamedType("", "muxerSegmenter")
	if seg == nil {
		r.undecided("muxerSegmenter not found")
		return r
	}
	n := 0
	for _, fn := range c.Funcs {
		if fn.Signature.Recv() == nil || namedOf(fn.Signature.Recv().Type()) != seg || fn.Blocks == nil {
			continue
		}
		cnt := 0
		allInstrs(fn, func(in ssa.Instruction) {
			call, ok := in.(*ssa.Call)
			if !ok {
				return
			}
			g := call.Call.StaticCallee()
			if g == nil || !strings.HasPrefix(g.Name(), "Fill") || g.Signature.Recv() == nil || !strings.Contains(g.Pkg.Pkg.Path(), "/formats/fmp4") {
				return
			}
			for _, a := range call.Call.Args {
				sl, isSl := a.Type().Underlying().(*types.Slice)
				if !isSl {
					continue
				}
				if _, inner := sl.Elem().Underlying().(*types.Slice); !inner {
					continue
				}
				n++
				cnt++
				key := fmt.Sprintf("%s|%s payload#%d", FuncName(fn), g.Name(), cnt)
				what := "every delivered access unit is byte-identical to the one written"
				if _, isP := canon(a).(*ssa.Parameter); isP {
					r.ok(key, c.Pos(call.Pos()), FuncName(fn), what, "the writer's own parameter")
				} else {
					r.fail(key, c.Pos(call.Pos()), FuncName(fn), what, "the list handed to "+g.Name()+" is "+describeVal(canon(a))+", not the parameter the caller passed: units are filtered or rebuilt on their way into the sample")
				}
			}
		})
	}
	r.Instances = n
	return r
}

func ruleF8e(c *Ctx) *RuleResult {
	r := &RuleResult{Floor: 1, FloorWhat: "MPEG-TS joins"}
	fn := c.Method("", "clientStreamProcessorMPEGTS", "joinTrackProcessors")
	tp := c.Field("", "clientStreamProcessorMPEGTS", "trackProcessors")
	if fn == nil || tp == nil {
		r.undecided("clientStreamProcessorMPEGTS.joinTrackProcessors / trackProcessors not found")
		return r
	}
	r.Instances = 1
	ranges := 0
	pushes, pushesInRange := 0, 0
	allInstrs(fn, func(in ssa.Instruction) {
		switch x := in.(type) {
		case *ssa.Range:
			if f, _ := loadedField(x.X); f == tp {
				ranges++
			}
		case *ssa.Call:
			if g := x.Call.StaticCallee(); g != nil && g.Name() == "push" {
				pushes++
				// the receiver comes out of a Next on a range over the map
				if ex, ok := canon(x.Call.Args[0]).(*ssa.Extract); ok {
					if nx, ok := ex.Tuple.(*ssa.Next); ok {
						if rg, ok := nx.Iter.(*ssa.Range); ok {
							if f, _ := loadedField(rg.X); f == tp {
								pushesInRange++
							}
						}
					}
				}
			}
		}
	})
	key := "joinTrackProcessors(mpegts)|every-track"
	what := "a segment is released (and the stream ended) only after every track has delivered its units"
	switch {
	case pushes == 0:
		r.undecided("F8e: no push found in the MPEG-TS joinTrackProcessors")
	case pushesInRange == pushes && ranges >= 1:
		// how the completions are counted (a second range, a loop up to len(trackProcessors)) is left to K6/F8c
		r.ok(key, c.Pos(fn.Pos()), FuncName(fn), what, "the end marker is pushed to every entry of trackProcessors")
	case pushesInRange != pushes:
		r.fail(key, c.Pos(fn.Pos()), FuncName(fn), what, "the end marker is pushed to a track processor that is not the iteration variable of a range over trackProcessors: the other tracks are not joined, their last units are cut off when the stream ends")
	default:
		r.fail(key, c.Pos(fn.Pos()), FuncName(fn), what, "the completions are not collected by a range over trackProcessors")
	}
	return r
}

func ruleT34(c *Ctx) *RuleResult {
	r := &RuleResult{Floor: 2, FloorWhat: "byte ranges built by the encoders"}
	n := 0
	for _, fn := range c.Funcs {
		if fn.Blocks == nil || fn.Pkg == nil || fn.Pkg.Pkg.Path() != modPath+"/pkg/playlist" {
			continue
		}
		if !strings.Contains(strings.ToLower(fn.Name()), "marshal") || strings.Contains(strings.ToLower(fn.Name()), "unmarshal") {
			continue
		}
		allInstrs(fn, func(in ssa.Instruction) {
			st, ok := in.(*ssa.Store)
			if !ok {
				return
			}
			f, base := fieldOfAddr(st.Addr)
			if f == nil || f.Name() != "Start" {
				return
			}
			if nt := namedOf(base.Type()); nt == nil || nt.Obj().Name() != "ByteRange" {
				return
			}
			n++
			key := fmt.Sprintf("%s|byterange-start#%d", FuncName(fn), n)
			what := "BYTERANGE is printed with `@start` exactly when the element has a start"
			if sf, _ := loadedField(canon(st.Val)); sf != nil && sf.Name() == "ByteRangeStart" {
				r.ok(key, c.Pos(st.Pos()), FuncName(fn), what, "the element's ByteRangeStart")
			} else {
				r.fail(key, c.Pos(st.Pos()), FuncName(fn), what, "the start handed to the printer is "+describeVal(canon(st.Val))+": an element whose start is dropped (or replaced) on some path decodes back without it — Unmarshal(Marshal(p)) != p")
			}
		})
	}
	r.Instances = n
	return r
}

func ruleF7x(c *Ctx) *RuleResult {
	r := &RuleResult{Floor: 2, FloorWhat: "callers of the two download loops"}
	run := c.Method("", "clientStreamDownloader", "run")
	n := 0
	for _, name := range []string{"runTraditional", "runLowLatency"} {
		fn := c.Method("", "clientStreamDownloader", name)
		if fn == nil {
			r.undecided("clientStreamDownloader.%s not found", name)
			continue
		}
		for _, e := range c.callersOf(fn) {
			n++
			key := fmt.Sprintf("%s|caller#%d", name, n)
			what := "the sequence of downloaded segments is continuous: a loop is entered once, with the first playlist of the session"
			caller := enclosingNamed(e.Caller.Func)
			if caller == run {
				r.ok(key, c.Pos(e.Site.Pos()), FuncName(e.Caller.Func), what, "called by run")
			} else {
				r.fail(key, c.Pos(e.Site.Pos()), FuncName(e.Caller.Func), what, name+" is entered from "+FuncName(e.Caller.Func)+": it starts again from firstPlaylist with no current segment id, i.e. at the start position of a playlist that is outdated by then — a jump back and a replay")
			}
		}
	}
	r.Instances = n
	return r
}

func ruleK5c(c *Ctx) *RuleResult {
	r := &RuleResult{Floor: 2, FloorWhat: "tested results of initialize functions"}
	n := 0
	for _, fn := range c.clientFuncs() {
		if fn.Blocks == nil {
			continue
		}
		cnt := 0
		allInstrs(fn, func(in ssa.Instruction) {
			call, ok := in.(*ssa.Call)
			if !ok {
				return
			}
			g := call.Call.StaticCallee()
			if g == nil || !InLib(g) || !(strings.HasPrefix(g.Name(), "initialize") || strings.HasPrefix(g.Name(), "download")) || g.Signature.Results().Len() == 0 {
				return
			}
			nres := g.Signature.Results().Len()
			if !types.Identical(g.Signature.Results().At(nres-1).Type(), types.Universe.Lookup("error").Type()) {
				return
			}
			if fn.Signature.Results().Len() == 0 {
				return
			}
			// the error value: the call itself, or the last component of its tuple
			var errV ssa.Value = call
			if nres > 1 {
				errV = nil
				for _, ref := range *call.Referrers() {
					if ex, isEx := ref.(*ssa.Extract); isEx && ex.Index == nres-1 {
						errV = ex
					}
				}
				if errV == nil {
					return
				}
			}
			conds := ifsOnV(fn, func(v ssa.Value) bool {
				bo, ok := v.(*ssa.BinOp)
				if !ok || (bo.Op != token.NEQ && bo.Op != token.EQL) {
					return false
				}
				k, isK := bo.Y.(*ssa.Const)
				return isK && k.IsNil() && bo.X == errV
			})
			for _, ci := range conds {
				n++
				cnt++
				key := fmt.Sprintf("%s|%s failed#%d", FuncName(fn), g.Name(), cnt)
				what := "a processor whose initialisation failed is not used again"
				bo := ci.Val.(*ssa.BinOp)
				failEdge := ci.edgeWhen(bo.Op == token.NEQ)
				// blocks reachable from the failing side
				start := failEdge.to
				if start < 0 {
					r.ok(key, c.Pos(call.Pos()), FuncName(fn), what, "tested through a merged condition (not followed)")
					continue
				}
				seen := reachableBlocks(fn, start, nil, nil)
				// the failing side must not flow back into the success side: only judge returns dominated by the failing successor
				bad := ""
				for _, b := range fn.Blocks {
					if !seen[b.Index] || !fn.Blocks[start].Dominates(b) {
						continue
					}
					if ret, ok := b.Instrs[len(b.Instrs)-1].(*ssa.Return); ok && !isErrorReturn(fn, ret) {
						if rv := retVal(ret, len(ret.Results)-1); rv != errV {
							bad = c.Pos(posOf(ret))
						}
					}
				}
				// the failing side must not come round to the same call again (a retry hides the failure)
				if bad == "" && seen[call.Block().Index] && fn.Blocks[start].Dominates(fn.Blocks[start]) {
					if reachableBlocks(fn, start, nil, nil)[call.Block().Index] {
						bad = c.Pos(call.Pos()) + " (the same call, again)"
					}
				}
				if bad == "" {
					r.ok(key, c.Pos(call.Pos()), FuncName(fn), what, "the failing side returns the error")
				} else {
					r.fail(key, c.Pos(call.Pos()), FuncName(fn), what, "on the failing side "+bad+" is reached without an error being returned: the failure is hidden from Wait (retried or swallowed); for an initialisation, the half-initialised processor (fields assigned before the failing step) is taken for an initialised one by the next segment — a nil dereference inside a client goroutine")
				}
			}
		})
	}
	r.Instances = n
	return r
}

func ruleT35(c *Ctx) *RuleResult {
	r := &RuleResult{Floor: 10, FloorWhat: "string stores of the playlist decoders"}
	n := 0
	for _, fn := range c.Funcs {
		if fn.Blocks == nil || fn.Pkg == nil || fn.Pkg.Pkg.Path() != modPath+"/pkg/playlist" {
			continue
		}
		if !strings.Contains(strings.ToLower(fn.Name()), "unmarshal") {
			continue
		}
		cnt := 0
		allInstrs(fn, func(in ssa.Instruction) {
			st, ok := in.(*ssa.Store)
			if !ok {
				return
			}
			f, _ := fieldOfAddr(st.Addr)
			if f == nil {
				return
			}
			b, isB := st.Val.Type().Underlying().(*types.Basic)
			if !isB || b.Info()&types.IsString == 0 {
				return
			}
			if _, isK := st.Val.(*ssa.Const); isK {
				return
			}
			// only free-form strings: a named string type with declared constants is an enumeration
			if nt, isNamed := f.Type().(*types.Named); isNamed && nt.Obj().Pkg() != nil {
				return
			}
			n++
			cnt++
			key := fmt.Sprintf("%s|string %s#%d", FuncName(fn), f.Name(), cnt)
			what := "every value of a free-form attribute survives decoding"
			bad := ""
			for _, fa := range factsAt(st.Block()) {
				bo, ok := fa.cond.(*ssa.BinOp)
				if !ok || (bo.Op != token.EQL && bo.Op != token.NEQ) {
					continue
				}
				// the dispatch on the line itself (`line == "#EXT-X-GAP"`) and tests against the zero value are not value filters
				if k, isK := constString(bo.Y); isK && k != "" && !strings.HasPrefix(k, "#") && sameValueLoose(bo.X, st.Val) {
					bad = bo.String()
				}
				if k, isK := constString(bo.X); isK && k != "" && !strings.HasPrefix(k, "#") && sameValueLoose(bo.Y, st.Val) {
					bad = bo.String()
				}
			}
			if bad == "" {
				r.ok(key, c.Pos(st.Pos()), FuncName(fn), what, "stored whatever its value")
			} else {
				r.fail(key, c.Pos(st.Pos()), FuncName(fn), what, "the store depends on `"+bad+"`: one particular value of the attribute is dropped by the decoder although the encoder prints it — Unmarshal(Marshal(p)) != p for that value")
			}
		})
	}
	r.Instances = n
	return r
}

// ---------------------------------------------------------------------------

func init() {
	registerRule("P3j", "a discarded open segment takes its part paths with it: where writer code closes the segment of the open-segment slot (outside the stream's own close), either no implementation with published parts can reach that point (the guarding error comes from a finalize that always returns nil for it) or the function unregisters the paths of the segment's parts", ruleP3j)
}

func ruleP3j(c *Ctx) *RuleResult {
	r := &RuleResult{Floor: 1, FloorWhat: "closes of the open segment outside muxerStream.close"}
	slot := c.Field("", "muxerStream", "nextSegment")
	segI := c.NamedType("", "muxerSegment")
	streamClose := c.Method("", "muxerStream", "close")
	unreg := c.pathTableFn("unregister")
	if slot == nil || segI == nil {
		r.undecided("muxerStream.nextSegment / muxerSegment not found")
		return r
	}
	iface, _ := segI.Underlying().(*types.Interface)
	if iface == nil {
		r.undecided("muxerSegment is not an interface")
		return r
	}
	impls := c.implementers("", iface)
	hasParts := func(t *types.Named) bool {
		st, _ := t.Underlying().(*types.Struct)
		if st == nil {
			return false
		}
		for i := 0; i < st.NumFields(); i++ {
			if st.Field(i).Name() == "parts" {
				return true
			}
		}
		return false
	}
	finalizeCanFail := func(t *types.Named) bool {
		fn := c.Method("", t.Obj().Name(), "finalize")
		if fn == nil || fn.Blocks == nil {
			return true
		}
		for _, b := range fn.Blocks {
			if ret, ok := b.Instrs[len(b.Instrs)-1].(*ssa.Return); ok && len(ret.Results) > 0 {
				if k, isK := retVal(ret, len(ret.Results)-1).(*ssa.Const); !isK || !k.IsNil() {
					return true
				}
			}
		}
		return false
	}
	fromSlot := func(v ssa.Value) bool {
		v = stripAsserts(canon(v))
		f, _ := loadedField(v)
		return f == slot
	}
	n := 0
	for _, fn := range c.Funcs {
		if !InRootPkg(fn) || fn.Blocks == nil || fn == streamClose || isClientFunc(enclosingNamed(fn)) {
			continue
		}
		cnt := 0
		allInstrs(fn, func(in ssa.Instruction) {
			call, ok := in.(*ssa.Call)
			if !ok {
				return
			}
			var recv ssa.Value
			switch {
			case call.Call.IsInvoke() && call.Call.Method.Name() == "close":
				recv = call.Call.Value
			case call.Call.StaticCallee() != nil && call.Call.StaticCallee().Name() == "close" && call.Call.StaticCallee().Signature.Recv() != nil && len(call.Call.Args) > 0:
				recv = call.Call.Args[0]
			default:
				return
			}
			if !fromSlot(recv) {
				return
			}
			n++
			cnt++
			key := fmt.Sprintf("%s|close-open-segment#%d", FuncName(fn), cnt)
			what := "no URI outlives the object it serves: part paths published for an open segment are unregistered when that segment is thrown away"
			// which implementations can be here?
			feasible := impls
			for _, fa := range factsAt(call.Block()) {
				bo, isBo := fa.cond.(*ssa.BinOp)
				if !isBo || !((bo.Op == token.NEQ && fa.pol) || (bo.Op == token.EQL && !fa.pol)) {
					continue
				}
				if k, isK := bo.Y.(*ssa.Const); !isK || !k.IsNil() {
					continue
				}
				fc, isCall := bo.X.(*ssa.Call)
				if !isCall || !fc.Call.IsInvoke() || fc.Call.Method.Name() != "finalize" || canon(fc.Call.Value) != canon(recv) {
					continue
				}
				feasible = nil
				for _, t := range impls {
					if finalizeCanFail(t) {
						feasible = append(feasible, t)
					}
				}
			}
			var withParts []string
			for _, t := range feasible {
				if hasParts(t) {
					withParts = append(withParts, t.Obj().Name())
				}
			}
			if len(withParts) == 0 {
				r.ok(key, c.Pos(call.Pos()), FuncName(fn), what, "reached only by implementations that publish no parts")
				return
			}
			unregisters := false
			allInstrs(fn, func(x ssa.Instruction) {
				if uc, ok := x.(*ssa.Call); ok && unreg != nil && uc.Call.StaticCallee() == unreg {
					for _, a := range uc.Call.Args {
						if f, b := loadedField(stripConv(a)); f != nil && f.Name() == "path" {
							if nt := namedOf(b.Type()); nt != nil && nt.Obj().Name() == "muxerPart" {
								unregisters = true
							}
						}
					}
				}
			})
			if unregisters {
				r.ok(key, c.Pos(call.Pos()), FuncName(fn), what, "the function unregisters part paths")
			} else {
				r.fail(key, c.Pos(call.Pos()), FuncName(fn), what, "the open segment (possibly a "+strings.Join(withParts, " / ")+" with published parts) is closed here and no part path is unregistered: its part URIs keep resolving for ever, the path table grows with every discarded segment")
			}
		})
	}
	r.Instances = n
	return r
}

// ---------------------------------------------------------------------------

func init() {
	registerRule("P10", "the creation of the first segments is all or nothing: in the function that calls (*muxerStream).createFirstSegment for every stream, the failing side of that call reaches its return only after emptying the open slots of the streams already handled (a call whose callee stores nil into the open-segment slot, in a loop) — otherwise the next rotation meets a stream without an open part", ruleP10)
}

func ruleP10(c *Ctx) *RuleResult {
	r := &RuleResult{Floor: 1, FloorWhat: "fan-outs of createFirstSegment"}
	inner := c.Method("", "muxerStream", "createFirstSegment")
	slot := c.Field("", "muxerStream", "nextSegment")
	if inner == nil || slot == nil {
		r.undecided("(*muxerStream).createFirstSegment / muxerStream.nextSegment not found")
		return r
	}
	emptiesSlot := func(g *ssa.Function) bool {
		if g == nil || g.Blocks == nil {
			return false
		}
		for _, st := range storesToField(c, g, slot) {
			if k, isK := st.Val.(*ssa.Const); isK && k.IsNil() {
				return true
			}
		}
		return false
	}
	n := 0
	for _, e := range c.callersOf(inner) {
		fn := e.Caller.Func
		call, ok := e.Site.(*ssa.Call)
		if !ok || fn.Blocks == nil {
			continue
		}
		n++
		key := fmt.Sprintf("%s|all-or-nothing#%d", FuncName(fn), n)
		what := "after a failed creation of the first segments no stream is left with an open segment while another has none"
		conds := ifsOnV(fn, func(v ssa.Value) bool {
			bo, ok := v.(*ssa.BinOp)
			if !ok || (bo.Op != token.NEQ && bo.Op != token.EQL) {
				return false
			}
			k, isK := bo.Y.(*ssa.Const)
			return isK && k.IsNil() && bo.X == ssa.Value(call)
		})
		if len(conds) == 0 {
			r.undecided("P10: the result of createFirstSegment is not tested by a branch in %s", FuncName(fn))
			continue
		}
		// single stream (no loop): nothing to roll back
		inLoop := instrReaches(call, call)
		if !inLoop {
			r.ok(key, c.Pos(call.Pos()), FuncName(fn), what, "called once, not per stream")
			continue
		}
		okAll := true
		for _, ci := range conds {
			bo := ci.Val.(*ssa.BinOp)
			start := ci.edgeWhen(bo.Op == token.NEQ).to
			// from the failing successor: every path to a return passes a call that empties the slot
			blocked := map[int]bool{}
			for _, b := range fn.Blocks {
				for _, in := range b.Instrs {
					if cc, ok := in.(*ssa.Call); ok && emptiesSlot(cc.Call.StaticCallee()) {
						blocked[b.Index] = true
					}
					if st, ok := in.(*ssa.Store); ok {
						if f, _ := fieldOfAddr(st.Addr); f == slot {
							if k, isK := st.Val.(*ssa.Const); isK && k.IsNil() {
								blocked[b.Index] = true
							}
						}
					}
				}
			}
			// the roll-back sits on the failing side (it is a loop over the streams already handled, so a path with zero
			// iterations around it exists and is fine)
			has := false
			for bi := range blocked {
				if bi == start || fn.Blocks[start].Dominates(fn.Blocks[bi]) {
					has = true
				}
			}
			if !has {
				okAll = false
			}
		}
		if okAll {
			r.ok(key, c.Pos(call.Pos()), FuncName(fn), what, "the failing side empties the slots of the streams already handled before it returns")
		} else {
			r.fail(key, c.Pos(call.Pos()), FuncName(fn), what, "the failing side returns with the streams handled so far left open (finding 23): the leading stream keeps its segment, so createFirstSegment is never called again, and the next rotation dereferences the nil open part of the stream that failed — a panic inside Write with the muxer mutex held")
		}
	}
	r.Instances = n
	return r
}

// ---------------------------------------------------------------------------

func init() {
	registerRule("P6c", "an open segment is moved or closed, never just forgotten: where muxer code stores nil into the open-segment slot, the function has first read the slot into a value that it hands on (a call on or with it — close, finalize —, a store, an append, a return)", ruleP6c)
}

func ruleP6c(c *Ctx) *RuleResult {
	r := &RuleResult{Floor: 1, FloorWhat: "nil stores into the open-segment slot"}
	slot := c.Field("", "muxerStream", "nextSegment")
	if slot == nil {
		r.undecided("muxerStream.nextSegment not found")
		return r
	}
	var handedOn func(v ssa.Value, d int) bool
	handedOn = func(v ssa.Value, d int) bool {
		if d > 3 || v.Referrers() == nil {
			return false
		}
		for _, ref := range *v.Referrers() {
			switch x := ref.(type) {
			case ssa.CallInstruction:
				return true
			case *ssa.Store:
				if x.Val == v {
					return true
				}
			case *ssa.Return:
				return true
			case *ssa.TypeAssert, *ssa.ChangeInterface, *ssa.MakeInterface, *ssa.Phi, *ssa.Extract:
				if handedOn(x.(ssa.Value), d+1) {
					return true
				}
			}
		}
		return false
	}
	n := 0
	for _, fn := range c.Funcs {
		if !InRootPkg(fn) || fn.Blocks == nil || isClientFunc(enclosingNamed(fn)) {
			continue
		}
		for _, st := range storesToField(c, fn, slot) {
			k, isK := st.Val.(*ssa.Const)
			if !isK || !k.IsNil() {
				continue
			}
			n++
			key := fmt.Sprintf("%s|empty-slot#%d", FuncName(fn), n)
			what := "every file the muxer created is released: the segment that leaves the open slot is still owned by somebody who closes it"
			ok := false
			allInstrs(fn, func(in ssa.Instruction) {
				u, isU := in.(*ssa.UnOp)
				if !isU || u.Op != token.MUL {
					return
				}
				if f, _ := fieldOfAddr(u.X); f != slot {
					return
				}
				if !(instrReaches(u, st) || (u.Block() == st.Block() && instrIndex(u) < instrIndex(st))) {
					return
				}
				if handedOn(u, 0) {
					ok = true
				}
			})
			if ok {
				r.ok(key, c.Pos(st.Pos()), FuncName(fn), what, "the slot's segment is read and handed on before the slot is emptied")
			} else {
				r.fail(key, c.Pos(st.Pos()), FuncName(fn), what, "the slot is emptied without its segment having been read into anything: the segment (and the file it created in Directory) is unreachable from here on — nothing closes it, not even Close")
			}
		}
	}
	r.Instances = n
	return r
}
