package main

import (
	"go/types"
	"sort"
	"strings"

	"golang.org/x/tools/go/ssa"
)

// Roles are the thread roles used as reachability roots (DESIGN 2.1).
type Roles struct {
	W        []*ssa.Function // Muxer.Write*, Muxer.Close (one goroutine)
	R        []*ssa.Function // Muxer.Handle + every registered handler (unboundedly many goroutines)
	Handlers []*ssa.Function // functions passed to registerPath
	INIT     []*ssa.Function // Muxer.Start
	CL       []*ssa.Function // Client.run + run of every pool runnable + the goroutine body of pool.add
	API      []*ssa.Function // other exported Client methods
	Runnable []*ssa.Function // run methods of implementers of clientRoutinePoolRunnable

	RegisterSites []ssa.CallInstruction // calls of (*muxerServer).registerPath
	problems      []string
}

func (c *Ctx) roles() *Roles {
	if v, ok := c.cache["roles"]; ok {
		return v.(*Roles)
	}
	r := &Roles{}
	c.cache["roles"] = r
	mux := c.NamedType("", "Muxer")
	if mux == nil {
		r.problems = append(r.problems, "type Muxer not found")
		return r
	}
	ms := c.Prog.MethodSets.MethodSet(types.NewPointer(mux))
	for i := 0; i < ms.Len(); i++ {
		fn := c.Prog.MethodValue(ms.At(i))
		if fn == nil || fn.Blocks == nil || !fn.Object().Exported() {
			continue
		}
		switch {
		case strings.HasPrefix(fn.Name(), "Write"), fn.Name() == "Close":
			r.W = append(r.W, fn)
		case fn.Name() == "Handle":
			r.R = append(r.R, fn)
		case fn.Name() == "Start":
			r.INIT = append(r.INIT, fn)
		default:
			r.problems = append(r.problems, "exported Muxer method "+fn.Name()+" has no thread role")
		}
	}
	reg := c.pathTableFn("register")
	if reg == nil {
		r.problems = append(r.problems, "(*muxerServer).registerPath not found")
	} else {
		for _, fn := range c.Funcs {
			allInstrs(fn, func(in ssa.Instruction) {
				if staticCallee(in) != reg {
					return
				}
				ci := in.(ssa.CallInstruction)
				r.RegisterSites = append(r.RegisterSites, ci)
				args := ci.Common().Args
				cb := stripConv(args[len(args)-1])
				switch x := cb.(type) {
				case *ssa.MakeClosure:
					r.Handlers = append(r.Handlers, x.Fn.(*ssa.Function))
				case *ssa.Function:
					r.Handlers = append(r.Handlers, x)
				default:
					r.problems = append(r.problems, "registerPath at "+c.Pos(in.Pos())+" receives a handler that is not a closure/function literal")
				}
			})
		}
	}
	r.R = append(r.R, r.Handlers...)

	// client
	cl := c.NamedType("", "Client")
	if cl == nil {
		r.problems = append(r.problems, "type Client not found")
		return r
	}
	if run := c.Method("", "Client", "run"); run != nil {
		r.CL = append(r.CL, run)
	} else {
		r.problems = append(r.problems, "(*Client).run not found")
	}
	ms = c.Prog.MethodSets.MethodSet(types.NewPointer(cl))
	for i := 0; i < ms.Len(); i++ {
		fn := c.Prog.MethodValue(ms.At(i))
		if fn != nil && fn.Blocks != nil && fn.Object().Exported() {
			r.API = append(r.API, fn)
		}
	}
	runnable := c.NamedType("", "clientRoutinePoolRunnable")
	if runnable == nil {
		r.problems = append(r.problems, "interface clientRoutinePoolRunnable not found")
	} else {
		iface := runnable.Underlying().(*types.Interface)
		sc := c.Pkg("").Scope()
		for _, n := range sc.Names() {
			tn, ok := sc.Lookup(n).(*types.TypeName)
			if !ok || tn.IsAlias() {
				continue
			}
			if _, isIface := tn.Type().Underlying().(*types.Interface); isIface {
				continue
			}
			pt := types.NewPointer(tn.Type())
			if types.Implements(pt, iface) {
				sel := c.Prog.MethodSets.MethodSet(pt).Lookup(c.Pkg(""), "run")
				if sel != nil {
					if fn := c.Prog.MethodValue(sel); fn != nil && fn.Blocks != nil {
						r.Runnable = append(r.Runnable, fn)
					}
				}
			}
		}
		r.CL = append(r.CL, r.Runnable...)
	}
	if add := c.Method("", "clientRoutinePool", "add"); add != nil {
		r.CL = append(r.CL, goBodies(c, add)...)
	} else {
		r.problems = append(r.problems, "(*clientRoutinePool).add not found")
	}
	for _, l := range [][]*ssa.Function{r.W, r.R, r.Handlers, r.CL, r.API, r.Runnable} {
		sort.Slice(l, func(i, j int) bool { return l[i].String() < l[j].String() })
	}
	return r
}

// reachLib is reach() restricted to library functions (edges into other modules are not followed,
// except that callbacks registered on them are roots of their own where modelled).
func (c *Ctx) reachRole(roots []*ssa.Function) map[*ssa.Function]bool {
	return c.reach(roots, nil)
}

func (c *Ctx) roleSets() (w, r, cl map[*ssa.Function]bool) {
	if v, ok := c.cache["rolesets"]; ok {
		x := v.([3]map[*ssa.Function]bool)
		return x[0], x[1], x[2]
	}
	ro := c.roles()
	w = c.reachRole(ro.W)
	r = c.reachRole(ro.R)
	cl = c.reachRole(ro.CL)
	c.cache["rolesets"] = [3]map[*ssa.Function]bool{w, r, cl}
	return
}

func init() {
	registerRule("CG0", "call-graph completeness: every function value created in library code has a caller; the handler, generator, runnable and reader-callback families resolve",
		func(c *Ctx) *RuleResult {
			r := &RuleResult{Floor: 20, FloorWhat: "function values created in library code"}
			ro := c.roles()
			for _, p := range ro.problems {
				r.undecided("%s", p)
			}
			for _, fn := range c.Funcs {
				allInstrs(fn, func(in ssa.Instruction) {
					var target *ssa.Function
					switch x := in.(type) {
					case *ssa.MakeClosure:
						target = x.Fn.(*ssa.Function)
					default:
						// capture-free function literals are plain *ssa.Function operands
						for _, op := range in.Operands(nil) {
							if f, ok := (*op).(*ssa.Function); ok && f.Parent() != nil {
								if ci, isCall := in.(ssa.CallInstruction); isCall && ci.Common().Value == f {
									continue
								}
								target = f
							}
						}
						if target == nil {
							return
						}
					}
					key := FuncName(fn) + "|" + FuncName(target)
					n := c.CG.Nodes[target]
					if n == nil || len(n.In) == 0 {
						r.fail(key, c.Pos(in.Pos()), FuncName(fn), "function value has at least one resolved call site in the call graph",
							"no incoming call edge: a dynamic call is unresolved, every reachability-based rule would be unsound")
						return
					}
					r.ok(key, c.Pos(in.Pos()), FuncName(fn), "function value has at least one resolved call site", "callers: "+callerNames(c, target))
				})
			}
			// the six handler roots must be invoked from muxerServer.handle
			h := c.Method("", "muxerServer", "handle")
			if h == nil {
				r.undecided("(*muxerServer).handle not found")
				return r
			}
			reached := c.reach([]*ssa.Function{h}, nil)
			for _, hd := range ro.Handlers {
				key := "handler|" + FuncName(hd)
				if reached[hd] {
					r.ok(key, c.Pos(hd.Pos()), FuncName(hd), "registered handler is reachable from (*muxerServer).handle", "edge present")
				} else {
					r.fail(key, c.Pos(hd.Pos()), FuncName(hd), "registered handler is reachable from (*muxerServer).handle", "no call-graph path")
				}
			}
			if len(ro.Handlers) < 6 {
				r.undecided("only %d handlers registered (floor 6)", len(ro.Handlers))
			}
			if len(ro.Runnable) < 6 {
				r.undecided("only %d pool runnables found (floor 6)", len(ro.Runnable))
			}
			if len(ro.W) < 7 {
				r.undecided("only %d writer entry points (floor 7: 6 Write* + Close)", len(ro.W))
			}
			// runnables reachable from the goroutine body of add
			if add := c.Method("", "clientRoutinePool", "add"); add != nil && len(goBodies(c, add)) >= 1 {
				rr := c.reach(goBodies(c, add), nil)
				for _, run := range ro.Runnable {
					key := "runnable|" + FuncName(run)
					if rr[run] {
						r.ok(key, c.Pos(run.Pos()), FuncName(run), "run method is invoked by the pool goroutine", "edge present")
					} else {
						r.fail(key, c.Pos(run.Pos()), FuncName(run), "run method is invoked by the pool goroutine", "no edge from clientRoutinePool.add$1")
					}
				}
			} else {
				r.undecided("clientRoutinePool.add starts no goroutine")
			}
			return r
		})
}

func callerNames(c *Ctx, fn *ssa.Function) string {
	seen := map[string]bool{}
	for _, e := range c.callersOf(fn) {
		seen[FuncName(e.Caller.Func)] = true
	}
	return strings.Join(sortedKeys(seen), ", ")
}

// goBodies returns the functions started by the go statements of fn.
func goBodies(c *Ctx, fn *ssa.Function) []*ssa.Function {
	var out []*ssa.Function
	allInstrs(fn, func(in ssa.Instruction) {
		if g, ok := in.(*ssa.Go); ok {
			for _, f := range c.calleesOf(g) {
				out = append(out, f)
			}
		}
	})
	return out
}

// pathTableFn finds the method of muxerServer that registers ("register") or removes ("unregister") a path handler:
// by its name, or — after a renaming — as the one method of the type that stores a parameter into a map / deletes
// from a map.
func (c *Ctx) pathTableFn(kind string) *ssa.Function {
	name := map[string]string{"register": "registerPath", "unregister": "unregisterPath", "lookup": "getPathHandler"}[kind]
	if m := c.Method("", "muxerServer", name); m != nil {
		return m
	}
	var found []*ssa.Function
	for _, fn := range c.Funcs {
		if !InRootPkg(fn) || fn.Parent() != nil || fn.Blocks == nil || fn.Signature.Recv() == nil || !typeIs(fn.Signature.Recv().Type(), modPath, "muxerServer") {
			continue
		}
		hit := false
		allInstrs(fn, func(in ssa.Instruction) {
			switch x := in.(type) {
			case *ssa.MapUpdate:
				if _, isParam := x.Value.(*ssa.Parameter); isParam && kind == "register" {
					hit = true
				}
			case *ssa.Call:
				if bi, ok := x.Call.Value.(*ssa.Builtin); ok && bi.Name() == "delete" && kind == "unregister" {
					hit = true
				}
			case *ssa.Lookup:
				// the getter: a map lookup whose result is returned (the request entry point returns nothing)
				if kind == "lookup" && fn.Signature.Results().Len() == 1 {
					hit = true
				}
			}
		})
		if hit {
			found = append(found, fn)
		}
	}
	if len(found) == 1 {
		return found[0]
	}
	return nil
}
