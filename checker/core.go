package main

import (
	"encoding/json"
	"fmt"
	"os"
	"path/filepath"
	"sort"
	"strings"
)

// Obl is one obligation: an instance of a rule at a specific construct.
type Obl struct {
	Rule string   `json:"rule"`
	Key  string   `json:"key"`  // rule|function|object — never a line number
	Pos  string   `json:"pos"`  // file:line (for the reader only)
	Func string   `json:"func"` // enclosing function
	What string   `json:"what"` // what is required here
	OK   bool     `json:"ok"`
	Why  string   `json:"why"`            // how it was discharged / why it fails
	Path []string `json:"path,omitempty"` // offending path / call chain for path rules
}

// RuleResult is the outcome of one rule over the whole program.
type RuleResult struct {
	Rule      string
	Desc      string
	Obls      []Obl
	Undecided []string // reasons that prevent a verdict (exit 2)
	Floor     int      // minimum number of instances confirmed by hand
	FloorWhat string
	Instances int      // measured instance count compared with Floor (defaults to len(Obls))
	Analysed  []string // functions / sites looked at
	Notes     []string // informational (never affects the verdict)
}

func (r *RuleResult) add(o Obl) {
	o.Rule = r.Rule
	if !strings.HasPrefix(o.Key, r.Rule+"|") {
		o.Key = r.Rule + "|" + o.Key
	}
	r.Obls = append(r.Obls, o)
}

func (r *RuleResult) ok(key, pos, fn, what, why string) {
	r.add(Obl{Key: key, Pos: pos, Func: fn, What: what, OK: true, Why: why})
}

func (r *RuleResult) fail(key, pos, fn, what, why string, path ...string) {
	r.add(Obl{Key: key, Pos: pos, Func: fn, What: what, OK: false, Why: why, Path: path})
}

func (r *RuleResult) undecided(format string, a ...interface{}) {
	r.Undecided = append(r.Undecided, fmt.Sprintf(format, a...))
}

func (r *RuleResult) analysed(s string) {
	for _, a := range r.Analysed {
		if a == s {
			return
		}
	}
	r.Analysed = append(r.Analysed, s)
}

// RuleFunc computes a rule.
type RuleFunc func(c *Ctx) *RuleResult

type ruleEntry struct {
	Name string
	Desc string
	Fn   RuleFunc
}

var ruleRegistry = map[string]*ruleEntry{}

func registerRule(name, desc string, fn RuleFunc) {
	ruleRegistry[name] = &ruleEntry{Name: name, Desc: desc, Fn: fn}
}

// runRule runs (and caches) a rule; a panic inside a rule is "undecided".
func (c *Ctx) runRule(name string) (res *RuleResult) {
	if v, ok := c.cache["rule:"+name]; ok {
		return v.(*RuleResult)
	}
	e := ruleRegistry[name]
	if e == nil {
		res = &RuleResult{Rule: name}
		res.undecided("rule %s is not implemented", name)
		return res
	}
	defer func() {
		if p := recover(); p != nil {
			res = &RuleResult{Rule: name, Desc: e.Desc}
			res.undecided("internal panic in rule %s: %v", name, p)
			if os.Getenv("HLSVERIF_DEBUG") != "" {
				panic(p)
			}
		}
		c.cache["rule:"+name] = res
	}()
	res = e.Fn(c)
	res.Rule = name
	for i := range res.Obls {
		res.Obls[i].Rule = name
		k := strings.TrimPrefix(res.Obls[i].Key, "|")
		if !strings.HasPrefix(k, name+"|") {
			k = name + "|" + k
		}
		res.Obls[i].Key = k
	}
	// string-shape rules read concatenation trees; text assembled through strings.Builder / bytes.Buffer is not
	// modelled, so a failing obligation in such a function (or in a function that prints its result) is no verdict
	if stringShapeRules[name] {
		un := c.unmodelledStringFuncs()
		kept := res.Obls[:0]
		for _, o := range res.Obls {
			if !o.OK && un[o.Func] != "" {
				res.undecided("%s: %s builds its text with %s, which the string-shape rules do not model: no verdict for %s", name, o.Func, un[o.Func], o.Key)
				continue
			}
			kept = append(kept, o)
		}
		res.Obls = kept
	}
	if res.Desc == "" {
		res.Desc = e.Desc
	}
	if res.Instances == 0 {
		res.Instances = len(res.Obls)
	}
	if res.Instances < res.Floor {
		res.undecided("rule %s found %d instances (%s), below the floor of %d confirmed by hand: the anchored mechanism disappeared or the rule lost its anchor",
			name, res.Instances, res.FloorWhat, res.Floor)
	}
	sort.SliceStable(res.Obls, func(i, j int) bool { return res.Obls[i].Key < res.Obls[j].Key })
	// duplicate keys would make known-finding matching ambiguous: disambiguate deterministically
	seen := map[string]int{}
	for i := range res.Obls {
		k := res.Obls[i].Key
		seen[k]++
		if seen[k] > 1 {
			res.Obls[i].Key = fmt.Sprintf("%s#%d", k, seen[k])
		}
	}
	return res
}

// ---------------------------------------------------------------------------
// known findings

type KnownFinding struct {
	Property string `json:"property"`
	Key      string `json:"key"`
	Status   string `json:"status"` // known | fixed
	Commit   string `json:"commit,omitempty"`
	What     string `json:"what"`
}

func loadKnownFindings(verifDir string) ([]KnownFinding, error) {
	b, err := os.ReadFile(filepath.Join(verifDir, "known_findings.json"))
	if err != nil {
		if os.IsNotExist(err) {
			return nil, nil
		}
		return nil, err
	}
	var doc struct {
		Findings []KnownFinding `json:"findings"`
	}
	if err := json.Unmarshal(b, &doc); err != nil {
		return nil, err
	}
	return doc.Findings, nil
}

// ---------------------------------------------------------------------------
// property specs

type PropSpec struct {
	ID          string
	Title       string
	Rules       []string
	Decided     string // clauses decided (necessary conditions)
	NotDecided  string // clauses explicitly out of reach
	Assumptions []string
	DesignRef   string
}

var propRegistry = map[string]*PropSpec{}

func registerProp(p *PropSpec) { propRegistry[p.ID] = p }

var commonTrustedBase = []string{
	"Go type checker (go/types) and SSA builder (golang.org/x/tools/go/ssa v0.29.0)",
	"VTA call graph over the whole program (callgraph/vta seeded with CHA); dynamic-call families asserted by rule CG0",
	"documented semantics of sync.Mutex/RWMutex/Cond, channels, context, net/http request contexts, strings/strconv guards",
	"mediacommon and go-astits are opaque callees that do not retain/mutate arguments beyond their documented behaviour",
	"API usage contract: one goroutine calls Start, then Write*, then Close; any number of goroutines call Handle after Start returned",
}

var stringShapeRules = map[string]bool{"S1": true, "S2": true, "S3": true, "S4": true, "S5": true, "T1": true, "T2": true, "T3": true, "F9": true, "F4": true, "P5": true}
