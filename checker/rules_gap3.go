package main

// Third gap batch: the muxer's writer path (C01/C02/C03) and the client's pipeline (C10–C13, C20).

import (
	"fmt"
	"go/token"
	"go/types"
	"sort"
	"strings"

	"golang.org/x/tools/go/ssa"
)

func init() {
	registerRule("F41", "a sample's duration is the look-ahead difference: the only store to PartSample.Duration in the segmenter targets the swapped-out sample and stores (dts of the sample now waiting in fmp4NextSample) - (dts of that swapped-out sample)", ruleF41)
	registerRule("F42", "write before cut, cut before write: in fmp4WriteSample the hand-over of the sample to the open part dominates every rotation call; in the MPEG-TS branches the segment written to is loaded from the open slot after every rotation / first-segment call on the path", ruleF42)
	registerRule("F43", "the MPEG-TS writer follows the open segment: every function that stores an MPEG-TS segment into the open slot also points the switchable writer at that segment's buffered writer, on every path to its return", ruleF43)
	registerRule("F44", "flush before freeze: muxerSegmentMPEGTS.finalize flushes the buffered writer before it finalizes the storage", ruleF44)
	registerRule("F45", "a fragment's base time is its first sample's: the only store to muxerTrack.fmp4StartDTS is in muxerPart.writeSample, under `fmp4Samples == nil`, of the dts of the sample being appended, before the append", ruleF45)
	registerRule("F46", "the start offset is added once, first: in fmp4WriteSample the `+= start offset` is applied to the dts of the sample parameter and dominates the negative-time test and the look-ahead swap", ruleF46)
	registerRule("F47", "the VP9 sync flag is the random-access flag: IsNonSyncSample of the sample built in writeVP9 is the negation of the value passed as random-access argument", ruleF47)
}

func ruleF41(c *Ctx) *RuleResult {
	r := &RuleResult{Floor: 1, FloorWhat: "stores to PartSample.Duration in the segmenter"}
	durF := c.fieldByQualifiedName("github.com/bluenviron/mediacommon/v2/pkg/formats/fmp4", "PartSample", "Duration")
	nextF := c.Field("", "muxerTrack", "fmp4NextSample")
	dtsF := c.Field("", "fmp4AugmentedSample", "dts")
	if durF == nil || nextF == nil || dtsF == nil {
		r.undecided("fmp4.PartSample.Duration / muxerTrack.fmp4NextSample / fmp4AugmentedSample.dts not found")
		return r
	}
	n := 0
	for _, fn := range c.Funcs {
		if !InRootPkg(fn) || isClientFunc(enclosingNamed(fn)) {
			continue
		}
		allInstrs(fn, func(in ssa.Instruction) {
			st, ok := in.(*ssa.Store)
			if !ok {
				return
			}
			f, base := fieldOfAddr(st.Addr)
			if f != durF {
				return
			}
			n++
			key := fmt.Sprintf("%s|duration#%d", FuncName(fn), n)
			what := "Duration of the emitted sample = dts(look-ahead sample) - dts(emitted sample)"
			// base is &X.PartSample … find the augmented sample object X
			obj := base
			if fa, ok := base.(*ssa.FieldAddr); ok {
				obj = fa.X
			}
			sub, ok := stripConv(st.Val).(*ssa.BinOp)
			if !ok || sub.Op != token.SUB {
				r.fail(key, c.Pos(st.Pos()), FuncName(fn), what, "the stored value is "+describeVal(st.Val)+", not a difference of two decode times")
				return
			}
			fx, bx := loadedField(sub.X)
			fy, by := loadedField(sub.Y)
			bad := ""
			if fx != dtsF || fy != dtsF {
				bad = "the operands are not the dts fields of two samples"
			} else {
				if nf, _ := loadedField(bx); nf != nextF {
					bad = "the minuend is not the dts of the sample waiting in fmp4NextSample"
				}
				if canon(by) != canon(obj) {
					bad = "the subtrahend is not the dts of the sample that receives the duration"
				}
			}
			if bad == "" {
				r.ok(key, c.Pos(st.Pos()), FuncName(fn), what, "next.dts - this.dts")
			} else {
				r.fail(key, c.Pos(st.Pos()), FuncName(fn), what, bad+": durations are the only carrier of per-sample decode times inside a fragment (reversed operands wrap in uint32, a difference taken on the wrong pair is zero)")
			}
		})
	}
	if n == 0 {
		r.undecided("F41: no store to PartSample.Duration in the muxer (the construct this rule is anchored on was not found: no verdict)")
	}
	r.Instances = n
	return r
}

func ruleF42(c *Ctx) *RuleResult {
	r := &RuleResult{Floor: 3, FloorWhat: "unit hand-overs next to rotations"}
	n := 0
	slotF := c.Field("", "muxerStream", "nextSegment")
	// the segmenter reaches the Muxer through an interface: by method name on an invoke, or statically
	rotName := func(call *ssa.Call) string {
		name := ""
		if call.Call.IsInvoke() {
			name = call.Call.Method.Name()
		} else if g := call.Call.StaticCallee(); g != nil && g.Signature.Recv() != nil && typeIs(g.Signature.Recv().Type(), modPath, "Muxer") {
			name = g.Name()
		}
		switch name {
		case "rotateSegments", "rotateParts", "createFirstSegment":
			return name
		}
		return ""
	}
	// (a) fMP4: writeSample dominates the rotations (createFirstSegment legitimately precedes)
	if fn := c.Method("", "muxerSegmenter", "fmp4WriteSample"); fn != nil {
		ws := c.Method("", "muxerPart", "writeSample")
		var wcall *ssa.Call
		allInstrs(fn, func(in ssa.Instruction) {
			if call, ok := in.(*ssa.Call); ok && call.Call.StaticCallee() == ws && ws != nil {
				wcall = call
			}
		})
		if wcall == nil {
			r.undecided("F42: fmp4WriteSample does not call muxerPart.writeSample: form not known to the rule")
		} else {
			allInstrs(fn, func(in ssa.Instruction) {
				call, ok := in.(*ssa.Call)
				if !ok {
					return
				}
				rn := rotName(call)
				if rn == "" || rn == "createFirstSegment" {
					return
				}
				n++
				key := fmt.Sprintf("fmp4WriteSample|write-before-%s#%d", rn, n)
				what := "the sample is handed to the open part before the segment / part is rotated"
				if instrDominates(wcall, call) {
					r.ok(key, c.Pos(call.Pos()), FuncName(fn), what, "writeSample dominates the rotation")
				} else {
					r.fail(key, c.Pos(call.Pos()), FuncName(fn), what, "the rotation can run before the sample was written: the last unit of a segment lands in the next one, which then starts with a unit that is not a random-access point")
				}
			})
		}
	} else {
		r.undecided("muxerSegmenter.fmp4WriteSample not found")
	}
	// (b) MPEG-TS: the receiver of the segment's write method is loaded from the slot after the rotation calls
	for _, fn := range c.Funcs {
		if !InRootPkg(fn) || fn.Signature.Recv() == nil || !typeIs(fn.Signature.Recv().Type(), modPath, "muxerSegmenter") {
			continue
		}
		allInstrs(fn, func(in ssa.Instruction) {
			call, ok := in.(*ssa.Call)
			if !ok {
				return
			}
			g := call.Call.StaticCallee()
			if g == nil || g.Signature.Recv() == nil || !typeIs(g.Signature.Recv().Type(), modPath, "muxerSegmentMPEGTS") || !strings.HasPrefix(g.Name(), "write") {
				return
			}
			n++
			key := fmt.Sprintf("%s|%s-after-cut", FuncName(fn), g.Name())
			what := "the segment written to is loaded from the open slot after every rotation on the path"
			recv := stripAsserts(call.Call.Args[0])
			ld, ok := recv.(*ssa.UnOp)
			if f, _ := loadedField(recv); !ok || f != slotF {
				r.undecided("F42: in %s the receiver of %s is not a load of the open slot (%s): form not known to the rule", FuncName(fn), g.Name(), describeVal(recv))
				return
			}
			bad := false
			allInstrs(fn, func(x ssa.Instruction) {
				rc, ok := x.(*ssa.Call)
				if !ok || rotName(rc) == "" {
					return
				}
				if instrReaches(ld, rc) && instrReaches(rc, call) {
					bad = true
				}
			})
			if bad {
				r.fail(key, c.Pos(call.Pos()), FuncName(fn), what, "the slot is read before a rotation that can run before the write: the key frame that triggers the cut is written into the segment being closed (already published in RAM)")
			} else {
				r.ok(key, c.Pos(call.Pos()), FuncName(fn), what, "loaded after the rotations")
			}
		})
	}
	r.Instances = n
	return r
}

func ruleF43(c *Ctx) *RuleResult {
	r := &RuleResult{Floor: 1, FloorWhat: "stores of an MPEG-TS segment into the open slot"}
	slotF := c.Field("", "muxerStream", "nextSegment")
	wF := c.Field("", "switchableWriter", "w")
	bwF := c.Field("", "muxerSegmentMPEGTS", "bw")
	if slotF == nil || wF == nil || bwF == nil {
		r.undecided("muxerStream.nextSegment / switchableWriter.w / muxerSegmentMPEGTS.bw not found")
		return r
	}
	n := 0
	for _, fn := range c.Funcs {
		if !InRootPkg(fn) {
			continue
		}
		allInstrs(fn, func(in ssa.Instruction) {
			st, ok := in.(*ssa.Store)
			if !ok {
				return
			}
			if f, _ := fieldOfAddr(st.Addr); f != slotF {
				return
			}
			seg := stripAsserts(st.Val)
			if mi, ok := st.Val.(*ssa.MakeInterface); ok {
				seg = mi.X
			}
			if !typeIs(seg.Type(), modPath, "muxerSegmentMPEGTS") {
				return
			}
			n++
			key := fmt.Sprintf("%s|writer-switch#%d", FuncName(fn), n)
			what := "after the segment is stored in the slot the switchable writer points at its bw on every path to a success return"
			isSwitch := func(x ssa.Instruction) bool {
				s2, ok := x.(*ssa.Store)
				if !ok {
					return false
				}
				if f, _ := fieldOfAddr(s2.Addr); f != wF {
					return false
				}
				v := s2.Val
				if mi, ok := v.(*ssa.MakeInterface); ok {
					v = mi.X
				}
				bf, bb := loadedField(v)
				return bf == bwF && canon(bb) == canon(seg)
			}
			// the switch may precede the slot store (same block): then it dominates it
			domBefore := false
			allInstrs(fn, func(x ssa.Instruction) {
				if isSwitch(x) && instrDominates(x, st) {
					domBefore = true
				}
			})
			if domBefore {
				r.ok(key, c.Pos(st.Pos()), FuncName(fn), what, "switched before the slot is filled")
				return
			}
			isOKRet := func(x ssa.Instruction) bool {
				ret, ok := x.(*ssa.Return)
				if !ok {
					return false
				}
				if len(ret.Results) == 0 {
					return true
				}
				k, isC := retVal(ret, len(ret.Results)-1).(*ssa.Const)
				return isC && k.IsNil()
			}
			if path := pathAvoiding(c, fn, st, isSwitch, isOKRet); path != nil {
				r.fail(key, c.Pos(st.Pos()), FuncName(fn), what, "a success return is reachable without `switchableWriter.w = seg.bw`: the shared MPEG-TS writer keeps writing into the previous segment's buffer", path...)
			} else {
				r.ok(key, c.Pos(st.Pos()), FuncName(fn), what, "switched on every path")
			}
		})
	}
	r.Instances = n
	return r
}

func ruleF44(c *Ctx) *RuleResult {
	r := &RuleResult{Floor: 1, FloorWhat: "finalize of MPEG-TS segments"}
	fn := c.Method("", "muxerSegmentMPEGTS", "finalize")
	if fn == nil {
		r.undecided("muxerSegmentMPEGTS.finalize not found")
		return r
	}
	var flush, fin ssa.Instruction
	allInstrs(fn, func(in ssa.Instruction) {
		call, ok := in.(*ssa.Call)
		if !ok {
			return
		}
		if g := call.Call.StaticCallee(); g != nil && g.Name() == "Flush" {
			flush = call
		}
		if call.Call.IsInvoke() && call.Call.Method.Name() == "Finalize" {
			fin = call
		}
	})
	key := "muxerSegmentMPEGTS.finalize|flush-first"
	what := "bw.Flush() dominates storage.Finalize()"
	switch {
	case flush == nil || fin == nil:
		r.undecided("F44: Flush or Finalize call not found in muxerSegmentMPEGTS.finalize (the construct this rule is anchored on was not found: no verdict)")
	case instrDominates(flush, fin):
		r.ok(key, c.Pos(fin.Pos()), FuncName(fn), what, "flushed first")
	default:
		r.fail(key, c.Pos(fin.Pos()), FuncName(fn), what, "the storage is finalized before the buffered writer is flushed: with disk storage the file is already closed and the tail of the segment is lost")
	}
	r.Instances = 1
	return r
}

func ruleF45(c *Ctx) *RuleResult {
	r := &RuleResult{Floor: 1, FloorWhat: "stores to muxerTrack.fmp4StartDTS"}
	sdF := c.Field("", "muxerTrack", "fmp4StartDTS")
	smF := c.Field("", "muxerTrack", "fmp4Samples")
	dtsF := c.Field("", "fmp4AugmentedSample", "dts")
	ws := c.Method("", "muxerPart", "writeSample")
	if sdF == nil || smF == nil || dtsF == nil || ws == nil {
		r.undecided("muxerTrack.fmp4StartDTS / fmp4Samples / fmp4AugmentedSample.dts / muxerPart.writeSample not found")
		return r
	}
	n := 0
	for _, fn := range c.Funcs {
		if !InRootPkg(fn) {
			continue
		}
		allInstrs(fn, func(in ssa.Instruction) {
			st, ok := in.(*ssa.Store)
			if !ok {
				return
			}
			if f, _ := fieldOfAddr(st.Addr); f != sdF {
				return
			}
			n++
			key := fmt.Sprintf("%s|base-time#%d", FuncName(fn), n)
			what := "the base time of a fragment is stored once, from the first sample appended to the empty list"
			bad := ""
			if fn != ws {
				bad = "stored outside muxerPart.writeSample"
			}
			if bad == "" {
				conds := ifsOnV(fn, func(v ssa.Value) bool {
					bo, ok := v.(*ssa.BinOp)
					if !ok || bo.Op != token.EQL {
						return false
					}
					k, isC := bo.Y.(*ssa.Const)
					f, _ := loadedField(bo.X)
					return isC && k.IsNil() && f == smF
				})
				if len(conds) == 0 || !onlyIf(fn, st, conds, true) {
					bad = "the store is not control dependent on `fmp4Samples == nil`: the base time becomes that of the last sample (or is never set)"
				}
			}
			if bad == "" {
				f, base := loadedField(stripConv(st.Val))
				if f != dtsF {
					bad = "the value is not the dts of a sample"
				} else if _, isParam := rootOf(base).(*ssa.Parameter); !isParam {
					bad = "the value is not the dts of the sample parameter"
				}
			}
			if bad == "" {
				// before the append
				allInstrs(fn, func(x ssa.Instruction) {
					if s2, ok := x.(*ssa.Store); ok {
						if f2, _ := fieldOfAddr(s2.Addr); f2 == smF {
							if _, isNil := s2.Val.(*ssa.Const); !isNil && instrReaches(s2, st) {
								bad = "the list is appended to before the base time is stored (the emptiness test then never holds)"
							}
						}
					}
				})
			}
			if bad == "" {
				r.ok(key, c.Pos(st.Pos()), FuncName(fn), what, "under fmp4Samples == nil, sample.dts, before the append")
			} else {
				r.fail(key, c.Pos(st.Pos()), FuncName(fn), what, bad)
			}
		})
	}
	r.Instances = n
	return r
}

func ruleF46(c *Ctx) *RuleResult {
	r := &RuleResult{Floor: 1, FloorWhat: "start-offset additions"}
	fn := c.Method("", "muxerSegmenter", "fmp4WriteSample")
	dtsF := c.Field("", "fmp4AugmentedSample", "dts")
	nextF := c.Field("", "muxerTrack", "fmp4NextSample")
	if fn == nil || dtsF == nil || nextF == nil {
		r.undecided("fmp4WriteSample / fmp4AugmentedSample.dts / muxerTrack.fmp4NextSample not found")
		return r
	}
	n := 0
	var shift *ssa.Store
	allInstrs(fn, func(in ssa.Instruction) {
		st, ok := in.(*ssa.Store)
		if !ok {
			return
		}
		f, base := fieldOfAddr(st.Addr)
		if f != dtsF {
			return
		}
		if add, ok := st.Val.(*ssa.BinOp); ok && add.Op == token.ADD {
			n++
			key := fmt.Sprintf("fmp4WriteSample|offset#%d", n)
			what := "the start offset is added to the dts of the sample parameter"
			if _, isParam := base.(*ssa.Parameter); isParam {
				shift = st
				r.ok(key, c.Pos(st.Pos()), FuncName(fn), what, "parameter.dts += offset")
			} else {
				r.fail(key, c.Pos(st.Pos()), FuncName(fn), what, "the shift is applied to "+describeVal(base)+", not to the incoming sample: durations mix shifted and unshifted decode times")
			}
		}
	})
	if shift == nil {
		if n == 0 {
			r.undecided("F46: no `dts += offset` store in fmp4WriteSample (the construct this rule is anchored on was not found: no verdict)")
		}
		r.Instances = n
		return r
	}
	// dominates the `< 0` test and the swap
	n++
	key := "fmp4WriteSample|offset-first"
	what := "the shift dominates the negative-time test and the look-ahead swap"
	bad := ""
	allInstrs(fn, func(in ssa.Instruction) {
		switch x := in.(type) {
		case *ssa.BinOp:
			if x.Op == token.LSS {
				if f, _ := loadedField(x.X); f == dtsF {
					if k, isC := constInt(x.Y); isC && k == 0 && !instrDominates(shift, x) {
						bad = "the `< 0` test is evaluated before the shift"
					}
				}
			}
		case *ssa.Store:
			if f, _ := fieldOfAddr(x.Addr); f == nextF && !instrDominates(shift, x) {
				bad = "the sample is swapped into fmp4NextSample before the shift"
			}
		}
	})
	if bad == "" {
		r.ok(key, c.Pos(shift.Pos()), FuncName(fn), what, "first")
	} else {
		r.fail(key, c.Pos(shift.Pos()), FuncName(fn), what, bad)
	}
	r.Instances = n
	return r
}

func ruleF47(c *Ctx) *RuleResult {
	r := &RuleResult{Floor: 1, FloorWhat: "IsNonSyncSample stores"}
	nsF := c.fieldByQualifiedName("github.com/bluenviron/mediacommon/v2/pkg/formats/fmp4", "PartSample", "IsNonSyncSample")
	si := c.segmenter()
	if nsF == nil || len(si.problems) > 0 {
		r.undecided("fmp4.PartSample.IsNonSyncSample or the segmenter's flags not found")
		return r
	}
	n := 0
	for _, fn := range si.video {
		ra, _ := si.flagsIn(fn)
		allInstrs(fn, func(in ssa.Instruction) {
			st, ok := in.(*ssa.Store)
			if !ok {
				return
			}
			if f, _ := fieldOfAddr(st.Addr); f != nsF {
				return
			}
			n++
			key := fmt.Sprintf("%s|sync-flag#%d", FuncName(fn), n)
			what := "IsNonSyncSample is the negation of the random-access flag handed to fmp4WriteSample"
			u, ok := st.Val.(*ssa.UnOp)
			if ok && u.Op == token.NOT && ra != nil && u.X == ra {
				r.ok(key, c.Pos(st.Pos()), FuncName(fn), what, "!randomAccess")
			} else {
				r.fail(key, c.Pos(st.Pos()), FuncName(fn), what, "stored "+describeVal(st.Val)+": key frames are flagged as non-sync samples (or the reverse), parts are advertised INDEPENDENT wrongly")
			}
		})
	}
	if n == 0 {
		r.undecided("F47: no video writer stores PartSample.IsNonSyncSample itself (the codec library's Fill* sets it): no verdict")
	}
	r.Instances = n
	return r
}

var _ = sort.Strings
var _ types.Type

func init() {
	registerRule("F38", "a queue entry is one segment: where the downloader pushes a segmentData, the payload is the result of a download call in the same function whose URI / range arguments are fields of one object, and the date-time of the entry comes from that same object (or from the playlist whose preload hint was fetched)", ruleF38)
	registerRule("F7l", "the end marker comes last and ends the downloader: push(nil) is dominated by the push of the downloaded payload, and every path from it waits for cancellation and returns a non-nil error", ruleF7l)
	registerRule("F7m", "one writer of the position: clientStreamDownloader.curSegmentID is stored only in fillSegmentQueue, never nil, and the store dominates the download of the segment", ruleF7m)
	registerRule("L3g", "pull hands out the head it removes: the value returned by clientSegmentQueue.pull is queue[0] read under the lock on the non-empty outcome of the length test, and the queue is then re-sliced from 1", ruleL3g)
	registerRule("K11", "cancellation results are honoured: at every call of pull the segment is used only where ok was tested true, and a false result of waitUntilSizeIsBelow leads to a return", ruleK11)
	registerRule("K15", "one-shot channels are closed at one place: each of the client's signalling channels that is closed (not replaced) has exactly one close site", ruleK15)
	registerRule("K14", "the leading stream can release its own absolute-time wait: every call of setLeadingNTPReceived depends on nothing but isLeading / isLeadingTrack / the once-per-segment flag, never on the presence of a date-time", ruleK14)
}

func ruleF38(c *Ctx) *RuleResult {
	r := &RuleResult{Floor: 2, FloorWhat: "pushes of downloaded data"}
	payF := c.Field("", "segmentData", "payload")
	dtF := c.Field("", "segmentData", "dateTime")
	if payF == nil || dtF == nil {
		r.undecided("segmentData.payload / dateTime not found")
		return r
	}
	n := 0
	for _, cl := range c.compositeLiterals("segmentData") {
		pv, hasP := cl.fields[payF]
		if !hasP {
			continue
		}
		n++
		fn := cl.fn
		key := fmt.Sprintf("%s|entry#%d", FuncName(fn), n)
		what := "payload and date-time of the entry belong to the same downloaded object"
		// payload: Extract #0 of a download call
		ex, ok := pv.(*ssa.Extract)
		var dl *ssa.Call
		if ok {
			dl, _ = ex.Tuple.(*ssa.Call)
		}
		if dl == nil || dl.Call.StaticCallee() == nil || !strings.HasPrefix(dl.Call.StaticCallee().Name(), "download") {
			r.fail(key, c.Pos(cl.alloc.Pos()), FuncName(fn), what, "the payload is "+describeVal(pv)+", not the result of a download call of this function")
			continue
		}
		// the objects the download arguments are fields of
		objs := map[string]bool{}
		for _, a := range dl.Call.Args[1:] {
			if f, base := loadedField(stripConv(a)); f != nil {
				objs[accessPathOrVal(base)] = true
			} else if _, isParam := a.(*ssa.Parameter); !isParam {
				if _, isCtx := a.Type().Underlying().(*types.Interface); !isCtx {
					objs[accessPathOrVal(a)] = true
				}
			}
		}
		bad := ""
		if len(objs) > 1 {
			var l []string
			for o := range objs {
				l = append(l, o)
			}
			sort.Strings(l)
			bad = "the download arguments come from different objects (" + strings.Join(l, ", ") + ")"
		}
		if dv, ok := cl.fields[dtF]; ok && bad == "" {
			// a field of the same object, or a call on the playlist the hint belongs to
			if f, base := loadedField(stripConv(dv)); f != nil {
				if !objs[accessPathOrVal(base)] {
					bad = "the date-time is read from " + describeVal(base) + ", another object than the one that was downloaded"
				}
			} else if call, ok := dv.(*ssa.Call); ok {
				okArg := false
				for _, a := range call.Call.Args {
					for o := range objs {
						// the hint is a field of the playlist handed to the helper
						if strings.HasPrefix(o, accessPathOrVal(a)) || accessPathOrVal(a) == o {
							okArg = true
						}
					}
				}
				if !okArg {
					bad = "the date-time is computed from " + describeVal(call.Call.Args[0]) + ", not from the playlist whose hint was downloaded"
				}
			}
		}
		if bad == "" {
			r.ok(key, c.Pos(cl.alloc.Pos()), FuncName(fn), what, "one object")
		} else {
			r.fail(key, c.Pos(cl.alloc.Pos()), FuncName(fn), what, bad+": the units of a segment are dated with (or read from) another segment")
		}
	}
	r.Instances = n
	return r
}

func accessPathOrVal(v ssa.Value) string {
	if p := accessPath(v); p != "" {
		return p
	}
	return v.Name()
}

func ruleF7l(c *Ctx) *RuleResult {
	r := &RuleResult{Floor: 1, FloorWhat: "end-of-stream markers"}
	push := c.Method("", "clientSegmentQueue", "push")
	if push == nil {
		r.undecided("clientSegmentQueue.push not found")
		return r
	}
	n := 0
	for _, fn := range c.clientFuncs() {
		var dataPushes, nilPushes []*ssa.Call
		allInstrs(fn, func(in ssa.Instruction) {
			call, ok := in.(*ssa.Call)
			if !ok || call.Call.StaticCallee() != push {
				return
			}
			if k, isC := call.Call.Args[1].(*ssa.Const); isC && k.IsNil() {
				nilPushes = append(nilPushes, call)
			} else {
				dataPushes = append(dataPushes, call)
			}
		})
		for _, np := range nilPushes {
			n++
			key := fmt.Sprintf("%s|end-marker#%d", FuncName(fn), n)
			what := "the marker follows the data of the same call and the function then waits for cancellation and fails"
			bad := ""
			dom := false
			for _, dp := range dataPushes {
				if instrDominates(dp, np) {
					dom = true
				}
			}
			if !dom {
				bad = "no push of downloaded data dominates the marker: the last segment is never delivered"
			}
			if bad == "" {
				// every path from the marker: a receive from Done() before any return, and the return carries an error
				isDoneRecv := func(x ssa.Instruction) bool {
					u, ok := x.(*ssa.UnOp)
					return ok && u.Op == token.ARROW && isDoneChan(u.X)
				}
				isRet := func(x ssa.Instruction) bool { _, ok := x.(*ssa.Return); return ok }
				if path := pathAvoiding(c, fn, np, isDoneRecv, isRet); path != nil {
					bad = "a return is reachable after the marker without waiting for cancellation: the downloader goes on polling (or ends with a spurious error racing ErrClientEOS)"
				}
				for _, b := range fn.Blocks {
					ret, ok := b.Instrs[len(b.Instrs)-1].(*ssa.Return)
					if !ok || len(ret.Results) == 0 || !instrReaches(np, ret) {
						continue
					}
					if k, isC := retVal(ret, len(ret.Results)-1).(*ssa.Const); isC && k.IsNil() {
						// a nil return reachable from the marker without passing another push is the defect
						if p := pathAvoiding(c, fn, np, func(x ssa.Instruction) bool {
							cc, ok := x.(*ssa.Call)
							return ok && cc.Call.StaticCallee() == push
						}, func(x ssa.Instruction) bool { return x == ssa.Instruction(ret) }); p != nil {
							bad = "the function can return nil after the marker"
						}
					}
				}
			}
			if bad == "" {
				r.ok(key, c.Pos(np.Pos()), FuncName(fn), what, "after the data; then <-ctx.Done() and an error")
			} else {
				r.fail(key, c.Pos(np.Pos()), FuncName(fn), what, bad)
			}
		}
	}
	if n == 0 {
		r.undecided("F7l: no push(nil) in client code (the construct this rule is anchored on was not found: no verdict)")
	}
	r.Instances = n
	return r
}

func ruleF7m(c *Ctx) *RuleResult {
	r := &RuleResult{Floor: 1, FloorWhat: "stores to clientStreamDownloader.curSegmentID"}
	idF := c.Field("", "clientStreamDownloader", "curSegmentID")
	fq := c.Method("", "clientStreamDownloader", "fillSegmentQueue")
	if idF == nil || fq == nil {
		r.undecided("clientStreamDownloader.curSegmentID / fillSegmentQueue not found")
		return r
	}
	helpers := map[*ssa.Function]bool{}
	for _, h := range c.withDownloaderHelpers(fq) {
		helpers[h] = true
	}
	n := 0
	for _, fn := range c.Funcs {
		if !InRootPkg(fn) {
			continue
		}
		allInstrs(fn, func(in ssa.Instruction) {
			st, ok := in.(*ssa.Store)
			if !ok {
				return
			}
			if f, _ := fieldOfAddr(st.Addr); f != idF {
				return
			}
			n++
			key := fmt.Sprintf("%s|position-store#%d", FuncName(fn), n)
			what := "the position is advanced only by fillSegmentQueue, to a non-nil value, before the segment is downloaded"
			bad := ""
			if !helpers[fn] {
				bad = "stored outside fillSegmentQueue: a second writer restarts or skips the sequence"
			} else if k, isC := st.Val.(*ssa.Const); isC && k.IsNil() {
				bad = "reset to nil: the next call starts again from the live edge"
			} else {
				// dominates the download of the segment
				dom := false
				any := false
				allInstrs(fn, func(x ssa.Instruction) {
					if call, ok := x.(*ssa.Call); ok {
						if g := call.Call.StaticCallee(); g != nil && g.Name() == "downloadSegment" {
							any = true
							if instrDominates(st, call) {
								dom = true
							}
						}
					}
				})
				if any && !dom {
					bad = "the store does not dominate the download: on some path a segment is fetched without the position having moved, and is fetched again by the next call"
				}
			}
			if bad == "" {
				r.ok(key, c.Pos(st.Pos()), FuncName(fn), what, "single writer, before the download")
			} else {
				r.fail(key, c.Pos(st.Pos()), FuncName(fn), what, bad)
			}
		})
	}
	r.Instances = n
	return r
}

func ruleL3g(c *Ctx) *RuleResult {
	r := &RuleResult{Floor: 1, FloorWhat: "returns of pull that hand out a segment"}
	fn := c.Method("", "clientSegmentQueue", "pull")
	qF := c.Field("", "clientSegmentQueue", "queue")
	if fn == nil || qF == nil {
		r.undecided("clientSegmentQueue.pull / queue not found")
		return r
	}
	n := 0
	for _, b := range fn.Blocks {
		ret, ok := b.Instrs[len(b.Instrs)-1].(*ssa.Return)
		if !ok || b == fn.Recover || len(ret.Results) != 2 {
			continue
		}
		okv, isC := constBool(retVal(ret, 1))
		if !isC || !okv {
			continue
		}
		n++
		key := fmt.Sprintf("pull|head#%d", n)
		what := "the segment handed out is queue[0], read before the queue is re-sliced from 1"
		v := retVal(ret, 0)
		// the removal may live in a helper that requires the lock: judge the helper's own return
		if call, isCall := v.(*ssa.Call); isCall {
			if g := call.Call.StaticCallee(); g != nil && InRootPkg(g) && g.Blocks != nil && g.Signature.Results().Len() == 1 {
				for _, gb := range g.Blocks {
					if gr, ok := gb.Instrs[len(gb.Instrs)-1].(*ssa.Return); ok && gb != g.Recover {
						v = retVal(gr, 0)
						fn = g
					}
				}
			}
		}
		ld, ok := v.(*ssa.UnOp)
		bad := ""
		var ia *ssa.IndexAddr
		if ok && ld.Op == token.MUL {
			ia, _ = ld.X.(*ssa.IndexAddr)
		}
		if ia == nil {
			bad = "the value returned is " + describeVal(v) + ", not an element of the queue"
		} else {
			if f, _ := loadedField(ia.X); f != qF {
				bad = "the element is not read from the queue"
			} else if k, isK := constInt(ia.Index); !isK || k != 0 {
				bad = "the element is not queue[0] (the newest entry is handed out while the oldest is dropped)"
			}
		}
		if bad == "" {
			// the re-slice store comes after the read
			allInstrs(fn, func(x ssa.Instruction) {
				if st, ok := x.(*ssa.Store); ok {
					if f, _ := fieldOfAddr(st.Addr); f == qF && instrReaches(st, ld) && !instrReaches(ld, st) {
						bad = "the queue is re-sliced before its head is read"
					}
					if f, _ := fieldOfAddr(st.Addr); f == qF {
						if sl, ok := st.Val.(*ssa.Slice); ok {
							if k, isK := constInt(sl.Low); sl.Low == nil || !isK || k != 1 {
								bad = "the queue is not re-sliced from 1"
							}
						}
					}
				}
			})
		}
		if bad == "" {
			r.ok(key, c.Pos(posOf(ret)), FuncName(fn), what, "queue[0], then queue[1:]")
		} else {
			r.fail(key, c.Pos(posOf(ret)), FuncName(fn), what, bad)
		}
	}
	r.Instances = n
	return r
}

func ruleK11(c *Ctx) *RuleResult {
	r := &RuleResult{Floor: 3, FloorWhat: "calls of pull / waitUntilSizeIsBelow"}
	pull := c.Method("", "clientSegmentQueue", "pull")
	wait := c.Method("", "clientSegmentQueue", "waitUntilSizeIsBelow")
	if pull == nil || wait == nil {
		r.undecided("clientSegmentQueue.pull / waitUntilSizeIsBelow not found")
		return r
	}
	n := 0
	for _, fn := range c.clientFuncs() {
		allInstrs(fn, func(in ssa.Instruction) {
			call, ok := in.(*ssa.Call)
			if !ok {
				return
			}
			g := call.Call.StaticCallee()
			if g != pull && g != wait {
				return
			}
			n++
			key := fmt.Sprintf("%s|%s#%d", FuncName(fn), g.Name(), n)
			what := "the boolean result is tested and its false outcome returns"
			var okv ssa.Value
			if g == wait {
				okv = call
			} else {
				for _, ref := range *call.Referrers() {
					if ex, ok := ref.(*ssa.Extract); ok && ex.Index == 1 {
						okv = ex
					}
				}
			}
			if okv == nil || okv.Referrers() == nil || len(*okv.Referrers()) == 0 {
				r.fail(key, c.Pos(call.Pos()), FuncName(fn), what, "the result is discarded: a nil segment from cancellation is taken for the end-of-stream marker (a spurious ErrClientEOS racing `terminated`), or the downloader goes on after Close")
				return
			}
			conds := ifsOn(fn, func(v ssa.Value) bool { return v == okv })
			good := len(conds) > 0
			for _, ci := range conds {
				idx := 1
				if !ci.Pol {
					idx = 0
				}
				fb := ci.If.Block().Succs[idx]
				if _, isRet := fb.Instrs[len(fb.Instrs)-1].(*ssa.Return); !isRet {
					good = false
				}
			}
			if good {
				r.ok(key, c.Pos(call.Pos()), FuncName(fn), what, "tested; false returns")
			} else {
				r.fail(key, c.Pos(call.Pos()), FuncName(fn), what, "the false outcome does not return")
			}
		})
	}
	r.Instances = n
	return r
}

func ruleK15(c *Ctx) *RuleResult {
	r := &RuleResult{Floor: 3, FloorWhat: "one-shot channels of the client"}
	// channels that are closed and never re-made after their initialiser
	type info struct {
		closes []ssa.Instruction
		makes  int
	}
	byField := map[*types.Var]*info{}
	for _, fn := range c.clientFuncs() {
		allInstrs(fn, func(in ssa.Instruction) {
			switch x := in.(type) {
			case *ssa.Call:
				if b, ok := x.Call.Value.(*ssa.Builtin); ok && b.Name() == "close" {
					if f, _ := loadedField(x.Call.Args[0]); f != nil {
						if byField[f] == nil {
							byField[f] = &info{}
						}
						byField[f].closes = append(byField[f].closes, x)
					}
				}
			case *ssa.Store:
				if f, _ := fieldOfAddr(x.Addr); f != nil {
					if _, isMk := x.Val.(*ssa.MakeChan); isMk {
						if byField[f] == nil {
							byField[f] = &info{}
						}
						byField[f].makes++
					}
				}
			}
		})
	}
	var fields []*types.Var
	for f := range byField {
		fields = append(fields, f)
	}
	sort.Slice(fields, func(i, j int) bool { return c.fieldName(fields[i]) < c.fieldName(fields[j]) })
	n := 0
	for _, f := range fields {
		inf := byField[f]
		if len(inf.closes) == 0 || inf.makes > 1 {
			continue // never closed, or a close-and-replace broadcast channel (L3c)
		}
		n++
		key := "close|" + c.fieldName(f)
		what := "the channel is closed at exactly one place"
		if len(inf.closes) == 1 {
			r.ok(key, c.Pos(inf.closes[0].Pos()), FuncName(inf.closes[0].Parent()), what, "one close site")
		} else {
			r.fail(key, c.Pos(inf.closes[1].Pos()), FuncName(inf.closes[1].Parent()), what, fmt.Sprintf("%d close sites: a hostile or merely unusual sequence (two end markers, two leaders) closes a closed channel and panics", len(inf.closes)))
		}
	}
	r.Instances = n
	return r
}

func ruleK14(c *Ctx) *RuleResult {
	r := &RuleResult{Floor: 2, FloorWhat: "calls of setLeadingNTPReceived"}
	n := 0
	for _, fn := range c.clientFuncs() {
		allInstrs(fn, func(in ssa.Instruction) {
			call, ok := in.(*ssa.Call)
			if !ok {
				return
			}
			name := ""
			if g := call.Call.StaticCallee(); g != nil {
				name = g.Name()
			} else if call.Call.IsInvoke() {
				name = call.Call.Method.Name()
			}
			if name != "setLeadingNTPReceived" {
				return
			}
			n++
			key := fmt.Sprintf("%s|ntp-release#%d", FuncName(fn), n)
			what := "the release depends on the leading flags only, never on the presence of a date-time"
			bad := ""
			for e := range controlEdges(fn, call.Block()) {
				iff := fn.Blocks[e.from].Instrs[len(fn.Blocks[e.from].Instrs)-1].(*ssa.If)
				v := iff.Cond
				for {
					if u, ok := v.(*ssa.UnOp); ok && u.Op == token.NOT {
						v = u.X
						continue
					}
					break
				}
				// a nil test of a date-time pointer?
				if bo, ok := v.(*ssa.BinOp); ok && (bo.Op == token.NEQ || bo.Op == token.EQL) {
					if k, isC := bo.Y.(*ssa.Const); isC && k.IsNil() {
						if f, _ := loadedField(bo.X); f != nil && strings.Contains(strings.ToLower(f.Name()), "datetime") {
							bad = "the call is control dependent on `" + f.Name() + " != nil`: a stream without EXT-X-PROGRAM-DATE-TIME never releases the wait and every track blocks in getNTP until Close"
						}
					}
				}
			}
			if bad == "" {
				r.ok(key, c.Pos(call.Pos()), FuncName(fn), what, "no date-time test controls the call")
			} else {
				r.fail(key, c.Pos(call.Pos()), FuncName(fn), what, bad)
			}
		})
	}
	r.Instances = n
	return r
}
