package main

import (
	"fmt"
	"go/token"
	"go/types"
	"os"
	"strings"

	"golang.org/x/tools/go/ssa"
)

func init() {
	registerRule("V1", "validated before success: every success return of a playlist decoder is reachable only if the fields callers rely on were tested non-zero (failing branch returns an error); a segment is appended only after validate() succeeded", ruleV1)
	registerRule("V2", "bounds ledger: every index, slice and string-index expression of the two playlist packages is discharged by a local prover (prefix test, IndexByte>=0, length test, SplitN length, range index, constant array)", ruleV2)
	registerRule("V3", "loop progress: every unbounded loop of the playlist decoders replaces its cursor by a strict suffix on every back edge", ruleV3)
}

// ---------------------------------------------------------------------------
// dominating facts

type fact struct {
	cond ssa.Value
	pol  bool
}

// factsAt returns the branch conditions known at the start of block b: for every dominator d ending
// in an If, if b is dominated by exactly one successor s of d and s has d as only predecessor.
func factsAt(b *ssa.BasicBlock) []fact {
	return factsAt0(b, map[*ssa.BasicBlock]bool{})
}

func factsAt0(b *ssa.BasicBlock, visiting map[*ssa.BasicBlock]bool) []fact {
	if visiting[b] {
		return nil
	}
	visiting[b] = true
	defer delete(visiting, b)
	var out []fact
	fn := b.Parent()
	for _, d := range fn.Blocks {
		if d == b || !d.Dominates(b) || len(d.Instrs) == 0 {
			continue
		}
		iff, ok := d.Instrs[len(d.Instrs)-1].(*ssa.If)
		if !ok {
			continue
		}
		for i, s := range d.Succs {
			if len(s.Preds) == 1 && s.Dominates(b) {
				other := d.Succs[1-i]
				if other != s {
					out = append(out, fact{iff.Cond, i == 0})
				}
			}
		}
	}
	// short-circuit values: `a && b` used as a value (switch case) is phi[pa: false, pb: b];
	// if it is true, b is true and everything known at pb holds; dually for `||` being false
	n0 := len(out)
	for i := 0; i < n0; i++ {
		p, ok := out[i].cond.(*ssa.Phi)
		if !ok {
			continue
		}
		var nonConst []int
		constVal := true
		okShape := true
		for k, e := range p.Edges {
			if bv, isC := constBool(e); isC {
				constVal = bv
			} else {
				nonConst = append(nonConst, k)
			}
			_ = k
		}
		if len(nonConst) != 1 || len(p.Edges) < 2 {
			okShape = false
		}
		// && : constant edges are false, phi true ⇒ the non-constant operand is true
		// || : constant edges are true, phi false ⇒ the non-constant operand is false
		if okShape && ((out[i].pol && !constVal) || (!out[i].pol && constVal)) {
			k := nonConst[0]
			out = append(out, fact{p.Edges[k], out[i].pol})
			out = append(out, factsAt0(p.Block().Preds[k], visiting)...)
		}
	}
	// normalise negations
	for i := range out {
		for {
			if u, ok := out[i].cond.(*ssa.UnOp); ok && u.Op == token.NOT {
				out[i].cond = u.X
				out[i].pol = !out[i].pol
				continue
			}
			break
		}
	}
	return out
}

func isLenOf(v ssa.Value, x ssa.Value) bool {
	call, ok := v.(*ssa.Call)
	if !ok {
		return false
	}
	b, ok := call.Call.Value.(*ssa.Builtin)
	return ok && b.Name() == "len" && sameValue(call.Call.Args[0], x)
}

func sameValue(a, b ssa.Value) bool {
	if a == b {
		return true
	}
	// two loads of the same location with no store in between are not proven equal here, except
	// for loads of the same local/field path inside one block without intervening stores/calls
	ua, ok1 := a.(*ssa.UnOp)
	ub, ok2 := b.(*ssa.UnOp)
	if ok1 && ok2 && ua.Op == token.MUL && ub.Op == token.MUL && ua.Block() == ub.Block() && accessPath(ua.X) == accessPath(ub.X) {
		i, j := instrIndex(ua), instrIndex(ub)
		if i > j {
			i, j = j, i
		}
		for _, in := range ua.Block().Instrs[i:j] {
			switch in.(type) {
			case *ssa.Store, *ssa.Call:
				return false
			}
		}
		return true
	}
	// two loads of the same field path of a local copy (value receiver / value parameter spilled to a cell) that
	// the function never writes after the initial spill and whose address never leaves the function
	if ok1 && ok2 && ua.Op == token.MUL && ub.Op == token.MUL && accessPath(ua.X) == accessPath(ub.X) && accessPath(ua.X) != "" {
		if ra, rb := frozenLocalRoot(ua.X), frozenLocalRoot(ub.X); ra != nil && ra == rb {
			return true
		}
	}
	// two loads of the same element base[k] of a slice value that is never written through and
	// never handed to a callee in this function
	if ok1 && ok2 && ua.Op == token.MUL && ub.Op == token.MUL {
		ia, okA := ua.X.(*ssa.IndexAddr)
		ib, okB := ub.X.(*ssa.IndexAddr)
		if okA && okB && ia.X == ib.X {
			ka, okKA := constInt(ia.Index)
			kb, okKB := constInt(ib.Index)
			if okKA && okKB && ka == kb && sliceIsReadOnly(ia.X) {
				return true
			}
		}
	}
	return false
}

// sliceIsReadOnly: the slice value is only indexed for reading / measured in its function.
func sliceIsReadOnly(sl ssa.Value) bool {
	refs := sl.Referrers()
	if refs == nil {
		return false
	}
	for _, r := range *refs {
		switch x := r.(type) {
		case *ssa.IndexAddr:
			for _, rr := range *x.Referrers() {
				if u, ok := rr.(*ssa.UnOp); !ok || u.Op != token.MUL {
					return false
				}
			}
		case *ssa.Call:
			if b, ok := x.Call.Value.(*ssa.Builtin); !ok || (b.Name() != "len" && b.Name() != "cap") {
				return false
			}
		case *ssa.DebugRef:
		default:
			return false
		}
	}
	return true
}

// lenAtLeast: facts imply len(x) >= n.
func lenAtLeast(facts []fact, x ssa.Value, n int64, at ssa.Instruction) (bool, string) {
	for _, f := range facts {
		bo, ok := f.cond.(*ssa.BinOp)
		if !ok {
			continue
		}
		if isLenOf(bo.X, x) {
			if k, ok := constInt(bo.Y); ok {
				switch {
				case bo.Op == token.NEQ && k == 0 && f.pol && n <= 1,
					bo.Op == token.EQL && k == 0 && !f.pol && n <= 1,
					bo.Op == token.GTR && f.pol && k+1 >= n,
					bo.Op == token.GEQ && f.pol && k >= n,
					bo.Op == token.LSS && !f.pol && k >= n,
					bo.Op == token.LEQ && !f.pol && k+1 >= n,
					bo.Op == token.EQL && f.pol && k >= n,
					bo.Op == token.NEQ && !f.pol && k >= n:
					return true, "dominated by a length test (" + bo.String() + ")"
				}
			}
		}
		// x != "" / x == ""
		if sameValue(bo.X, x) {
			if s, ok := constString(bo.Y); ok && s == "" && n <= 1 {
				if (bo.Op == token.NEQ && f.pol) || (bo.Op == token.EQL && !f.pol) {
					return true, "dominated by a non-empty test"
				}
			}
		}
	}
	// a dominating successful index access x[k] with k+1 >= n
	fn := at.Parent()
	found := ""
	allInstrs(fn, func(in ssa.Instruction) {
		if found != "" || in == at || !instrDominates(in, at) {
			return
		}
		if lk, ok := in.(*ssa.Lookup); ok && sameValue(lk.X, x) {
			if k, ok := constInt(lk.Index); ok && k+1 >= n {
				found = "dominated by the successful access " + lk.String()
			}
		}
	})
	if found != "" {
		return true, found
	}
	return false, ""
}

func hasPrefixFact(facts []fact, x ssa.Value, n int64) (bool, string) {
	for _, f := range facts {
		call, ok := f.cond.(*ssa.Call)
		if !ok || !f.pol || !isFuncNamed(call.Call.StaticCallee(), "strings", "HasPrefix") {
			continue
		}
		if !sameValue(call.Call.Args[0], x) {
			continue
		}
		if s, ok := constString(call.Call.Args[1]); ok && int64(len(s)) >= n {
			return true, fmt.Sprintf("dominated by HasPrefix(_, %q)", s)
		}
	}
	return false, ""
}

// indexByteNonNeg: v is the result of strings.IndexByte(x, _) and facts imply v >= 0.
func indexByteNonNeg(facts []fact, v ssa.Value, x ssa.Value) (bool, string) {
	call, ok := v.(*ssa.Call)
	if !ok {
		return false, ""
	}
	f := call.Call.StaticCallee()
	if !(isFuncNamed(f, "strings", "IndexByte") || isFuncNamed(f, "strings", "Index") || isFuncNamed(f, "strings", "IndexRune")) {
		return false, ""
	}
	if !sameValue(call.Call.Args[0], x) {
		return false, ""
	}
	for _, ft := range facts {
		bo, ok := ft.cond.(*ssa.BinOp)
		if !ok || bo.X != v {
			continue
		}
		k, ok := constInt(bo.Y)
		if !ok {
			continue
		}
		if (bo.Op == token.LSS && k == 0 && !ft.pol) || (bo.Op == token.GEQ && k == 0 && ft.pol) || (bo.Op == token.GTR && k == -1 && ft.pol) {
			return true, "index is strings.IndexByte(x, _) and is dominated by the test that it is >= 0"
		}
	}
	return false, ""
}

type boundSite struct {
	in   ssa.Instruction
	kind string
	desc string
}

func ruleV2(c *Ctx) *RuleResult {
	r := &RuleResult{Floor: 30, FloorWhat: "index/slice sites in the playlist packages"}
	all, _ := c.playlistFuncs()
	for _, fn := range all {
		cnt := 0
		allInstrs(fn, func(in ssa.Instruction) {
			var why string
			var ok, isSite bool
			facts := factsAt(in.Block())
			switch x := in.(type) {
			case *ssa.Lookup:
				if _, isMap := x.X.Type().Underlying().(*types.Map); isMap {
					return
				}
				isSite = true
				ok, why = proveIndex(c, facts, x.X, x.Index, in)
			case *ssa.Index:
				isSite = true
				ok, why = proveIndex(c, facts, x.X, x.Index, in)
			case *ssa.IndexAddr:
				isSite = true
				ok, why = proveIndex(c, facts, x.X, x.Index, in)
			case *ssa.Slice:
				isSite = true
				ok, why = proveSlice(c, facts, x, in)
			}
			if !isSite {
				return
			}
			cnt++
			key := fmt.Sprintf("%s|site#%d", FuncName(fn), cnt)
			what := "index / slice bounds hold for every input"
			if ok {
				r.ok(key, c.Pos(posOf(in)), FuncName(fn), what, shortInstr(in)+": "+why)
			} else {
				r.fail(key, c.Pos(posOf(in)), FuncName(fn), what, shortInstr(in)+": no prover applies ("+why+"): a crafted playlist can make this expression panic")
			}
		})
	}
	// uint64 → int conversions take a ParseUint(_, 10, b) result with b <= 31
	for _, fn := range all {
		cnt := 0
		allInstrs(fn, func(in ssa.Instruction) {
			cv, ok := in.(*ssa.Convert)
			if !ok {
				return
			}
			src, ok1 := cv.X.Type().Underlying().(*types.Basic)
			dst, ok2 := cv.Type().Underlying().(*types.Basic)
			if !ok1 || !ok2 || src.Kind() != types.Uint64 || dst.Kind() != types.Int {
				return
			}
			cnt++
			key := fmt.Sprintf("%s|uint64-to-int#%d", FuncName(fn), cnt)
			what := "a uint64 converted to int was parsed with a bit size <= 31 (no wrap-around to a negative int on 32-bit platforms)"
			if ex, ok := cv.X.(*ssa.Extract); ok {
				if call, ok := ex.Tuple.(*ssa.Call); ok && isFuncNamed(call.Call.StaticCallee(), "strconv", "ParseUint") {
					if bits, ok := constInt(call.Call.Args[2]); ok && bits <= 31 {
						r.ok(key, c.Pos(cv.Pos()), FuncName(fn), what, fmt.Sprintf("ParseUint(_, _, %d)", bits))
						return
					}
				}
			}
			r.fail(key, c.Pos(cv.Pos()), FuncName(fn), what, "source is "+cv.X.String())
		})
	}
	return r
}

func proveIndex(c *Ctx, facts []fact, x, idx ssa.Value, at ssa.Instruction) (bool, string) {
	// constant index into a fixed-size array (varargs pack, composite literal, [N]T)
	if arr := arrayLen(x.Type()); arr >= 0 {
		if k, ok := constInt(idx); ok && k >= 0 && k < arr {
			return true, fmt.Sprintf("constant index %d into an array of length %d", k, arr)
		}
		if ok, why := rangeIndex(facts, idx, x, arr); ok {
			return true, why
		}
	}
	if k, ok := constInt(idx); ok && k >= 0 {
		if ok, why := lenAtLeast(facts, x, k+1, at); ok {
			return true, why
		}
		// strings.Split result has at least one element
		if call, ok := x.(*ssa.Call); ok {
			f := call.Call.StaticCallee()
			if isFuncNamed(f, "strings", "Split") && k == 0 {
				return true, "strings.Split returns at least one element"
			}
			if isFuncNamed(f, "strings", "Split") && k == 1 {
				if ok, why := splitHasSeparator(c, call); ok {
					return true, why
				}
			}
		}
		return false, fmt.Sprintf("no dominating proof that len >= %d", k+1)
	}
	// s[len(s)-1]
	if bo, ok := idx.(*ssa.BinOp); ok && bo.Op == token.SUB && isLenOf(bo.X, x) {
		if k, ok := constInt(bo.Y); ok && k >= 1 {
			if ok, why := lenAtLeast(facts, x, k, at); ok {
				return true, "index len-" + fmt.Sprint(k) + ", " + why
			}
		}
	}
	if ok, why := rangeIndex(facts, idx, x, -1); ok {
		return true, why
	}
	// counted loop: i := k (k >= 0); i < len(x); i += c (c > 0), with `i < len(x)` known at the site
	if phi, ok := idx.(*ssa.Phi); ok {
		nonNeg := true
		for _, e := range phi.Edges {
			if k, ok := constInt(e); ok && k >= 0 {
				continue
			}
			if add, ok := e.(*ssa.BinOp); ok && add.Op == token.ADD && add.X == ssa.Value(phi) {
				if k, ok := constInt(add.Y); ok && k > 0 {
					continue
				}
			}
			nonNeg = false
		}
		if nonNeg {
			for _, f := range facts {
				bo, ok := f.cond.(*ssa.BinOp)
				if !ok {
					continue
				}
				if (bo.Op == token.LSS && f.pol && bo.X == idx && isLenOf(bo.Y, x)) || (bo.Op == token.GEQ && !f.pol && bo.X == idx && isLenOf(bo.Y, x)) ||
					(bo.Op == token.GTR && f.pol && bo.Y == idx && isLenOf(bo.X, x)) {
					return true, "counted loop: 0 <= i and i < len(x) holds at the site"
				}
			}
		}
	}
	return false, "index " + idx.String() + " is not bounded by a recognised test"
}

func arrayLen(t types.Type) int64 {
	t = t.Underlying()
	if p, ok := t.(*types.Pointer); ok {
		t = p.Elem().Underlying()
	}
	if a, ok := t.(*types.Array); ok {
		return a.Len()
	}
	return -1
}

// rangeIndex: idx = phi+1 with phi starting at -1, and the fact idx < len(x) (or < array length) holds.
func rangeIndex(facts []fact, idx, x ssa.Value, arr int64) (bool, string) {
	add, ok := idx.(*ssa.BinOp)
	if !ok || add.Op != token.ADD {
		return false, ""
	}
	if one, ok := constInt(add.Y); !ok || one != 1 {
		return false, ""
	}
	phi, ok := add.X.(*ssa.Phi)
	if !ok {
		return false, ""
	}
	start := false
	for _, e := range phi.Edges {
		if k, ok := constInt(e); ok && k == -1 {
			start = true
		} else if e != idx {
			return false, ""
		}
	}
	if !start {
		return false, ""
	}
	for _, f := range facts {
		bo, ok := f.cond.(*ssa.BinOp)
		if !ok || bo.Op != token.LSS || !f.pol || bo.X != idx {
			continue
		}
		if isLenOf(bo.Y, x) {
			return true, "range loop index (0 <= i < len)"
		}
		if k, ok := constInt(bo.Y); ok && arr >= 0 && k <= arr {
			return true, "range loop index over a fixed-size array"
		}
		// len of the ranged value taken once before the loop
		if call, ok := bo.Y.(*ssa.Call); ok {
			if b, ok := call.Call.Value.(*ssa.Builtin); ok && b.Name() == "len" && sameRoot(call.Call.Args[0], x) {
				return true, "range loop index (0 <= i < len)"
			}
		}
	}
	return false, ""
}

func sameRoot(a, b ssa.Value) bool {
	if a == b {
		return true
	}
	// range over *array: len(*p) vs &p[i]
	if u, ok := a.(*ssa.UnOp); ok && u.Op == token.MUL && u.X == b {
		return true
	}
	if u, ok := b.(*ssa.UnOp); ok && u.Op == token.MUL && u.X == a {
		return true
	}
	return accessPath(a) == accessPath(b)
}

// splitHasSeparator: the string given to strings.Split contains the separator on every path:
// it is a parameter and every call site passes a concatenation with the separator as a constant leaf.
func splitHasSeparator(c *Ctx, split *ssa.Call) (bool, string) {
	sep, ok := constString(split.Call.Args[1])
	if !ok || sep == "" {
		return false, ""
	}
	contains := func(v ssa.Value) bool {
		for _, l := range flatten(v, 0) {
			if l.kind == "" && strings.Contains(l.text, sep) {
				return true
			}
		}
		return false
	}
	arg := split.Call.Args[0]
	if contains(arg) {
		return true, "the split string is a concatenation that contains the separator"
	}
	p, ok := arg.(*ssa.Parameter)
	if !ok {
		return false, ""
	}
	fn := p.Parent()
	idx := -1
	for i, pp := range fn.Params {
		if pp == p {
			idx = i
		}
	}
	edges := c.callersOf(fn)
	if len(edges) == 0 {
		return false, ""
	}
	for _, e := range edges {
		if e.Site == nil || idx >= len(e.Site.Common().Args) {
			return false, ""
		}
		if !contains(e.Site.Common().Args[idx]) {
			return false, ""
		}
	}
	return true, fmt.Sprintf("every caller passes a concatenation containing the separator %q, so Split returns at least two elements", sep)
}

func proveSlice(c *Ctx, facts []fact, sl *ssa.Slice, at ssa.Instruction) (bool, string) {
	x := sl.X
	// slicing a freshly allocated array (varargs / composite literal): arr[:]
	if _, ok := x.(*ssa.Alloc); ok && sl.Low == nil && sl.High == nil {
		return true, "full slice of a local array"
	}
	if arr := arrayLen(x.Type()); arr >= 0 {
		lo, hi := int64(0), arr
		okc := true
		if sl.Low != nil {
			if k, ok := constInt(sl.Low); ok {
				lo = k
			} else {
				okc = false
			}
		}
		if sl.High != nil {
			if k, ok := constInt(sl.High); ok {
				hi = k
			} else {
				okc = false
			}
		}
		if okc && 0 <= lo && lo <= hi && hi <= arr {
			return true, "constant bounds within a fixed-size array"
		}
	}
	var parts []string
	// low bound
	if sl.Low != nil {
		if k, ok := constInt(sl.Low); ok {
			if k > 0 {
				if ok, why := hasPrefixFact(facts, x, k); ok {
					parts = append(parts, "low: "+why)
				} else if ok, why := lenAtLeast(facts, x, k, at); ok {
					parts = append(parts, "low: "+why)
				} else {
					return false, fmt.Sprintf("low bound %d is not justified by a prefix or length test on the same value", k)
				}
			}
		} else if bo, ok := sl.Low.(*ssa.BinOp); ok && bo.Op == token.ADD {
			// v[i+1:] with i = IndexByte(v, _) >= 0
			if one, ok := constInt(bo.Y); ok && one == 1 {
				if ok, why := indexByteNonNeg(facts, bo.X, x); ok {
					parts = append(parts, "low i+1: "+why)
				} else {
					return false, "low bound " + sl.Low.String() + " is not IndexByte+1 of the same string under an i >= 0 test"
				}
			} else {
				return false, "unrecognised low bound " + sl.Low.String()
			}
		} else {
			return false, "unrecognised low bound " + sl.Low.String()
		}
	}
	if sl.High != nil {
		if k, ok := constInt(sl.High); ok {
			if ok, why := lenAtLeast(facts, x, k, at); ok {
				parts = append(parts, "high: "+why)
			} else {
				return false, fmt.Sprintf("high bound %d is not justified by a length test", k)
			}
		} else if ok, why := indexByteNonNeg(facts, sl.High, x); ok {
			parts = append(parts, "high i: "+why)
		} else if bo, ok := sl.High.(*ssa.BinOp); ok && bo.Op == token.SUB && isLenOf(bo.X, x) {
			if k, ok := constInt(bo.Y); ok {
				if ok, why := lenAtLeast(facts, x, k, at); ok {
					parts = append(parts, "high len-k: "+why)
				} else {
					return false, "high bound len-k without a length test"
				}
			}
		} else {
			return false, "unrecognised high bound " + sl.High.String()
		}
	}
	if len(parts) == 0 {
		return true, "no explicit bounds"
	}
	return true, strings.Join(parts, "; ")
}

// ---------------------------------------------------------------------------
// V1

type v1Spec struct {
	pkg, typ, method string
	field            string // exported field tested against its zero value, or "" for a local flag
	lenOf            bool
}

func ruleV1(c *Ctx) *RuleResult {
	r := &RuleResult{Floor: 13, FloorWhat: "validated fields"}
	specs := []v1Spec{
		{"pkg/playlist", "Media", "Unmarshal", "TargetDuration", false},
		{"pkg/playlist", "Media", "Unmarshal", "Segments", true},
		{"pkg/playlist", "MediaPart", "unmarshal", "Duration", false},
		{"pkg/playlist", "MediaPart", "unmarshal", "URI", false},
		{"pkg/playlist", "MediaPartInf", "unmarshal", "PartTarget", false},
		{"pkg/playlist", "MediaMap", "unmarshal", "URI", false},
		{"pkg/playlist", "MediaPreloadHint", "unmarshal", "URI", false},
		{"pkg/playlist", "MultivariantRendition", "unmarshal", "Type", false},
		{"pkg/playlist", "MultivariantRendition", "unmarshal", "GroupID", false},
		{"pkg/playlist", "Multivariant", "Unmarshal", "Variants", true},
	}
	for _, sp := range specs {
		fn := c.Method(sp.pkg, sp.typ, sp.method)
		if fn == nil && sp.method == "unmarshal" {
			fn = c.codecFuncOf(sp.typ, "unmarshal")
		}
		fld := c.Field(sp.pkg, sp.typ, sp.field)
		key := sp.typ + "." + sp.method + "|" + sp.field
		if fn == nil || fld == nil {
			r.undecided("%s.%s or field %s not found", sp.typ, sp.method, sp.field)
			continue
		}
		zt := func(v ssa.Value) bool {
			bo, ok := v.(*ssa.BinOp)
			if !ok || bo.Op != token.EQL {
				return false
			}
			if sp.lenOf {
				call, ok := bo.X.(*ssa.Call)
				if !ok {
					return false
				}
				b, ok := call.Call.Value.(*ssa.Builtin)
				if !ok || b.Name() != "len" {
					return false
				}
				f, _ := loadedField(call.Call.Args[0])
				k, isK := constInt(bo.Y)
				return f == fld && isK && k == 0
			}
			f, _ := loadedField(bo.X)
			if f != fld {
				return false
			}
			if k, ok := constInt(bo.Y); ok && k == 0 {
				return true
			}
			if s, ok := constString(bo.Y); ok && s == "" {
				return true
			}
			return false
		}
		conds := ifsOn(fn, zt)
		// validators: methods of the same type whose own success requires the zero test to have failed; a caller
		// may test their result (`if err := t.validate(); err != nil { return err }`) or return it
		validators := map[*ssa.Function]bool{}
		if all, _ := c.playlistFuncs(); fn.Signature.Recv() != nil {
			rn := namedOf(fn.Signature.Recv().Type())
			for _, g := range all {
				if g == fn || g.Signature.Recv() == nil || namedOf(g.Signature.Recv().Type()) != rn {
					continue
				}
				cg := ifsOnV(g, zt)
				if len(cg) == 0 {
					continue
				}
				okAll := true
				allInstrs(g, func(in ssa.Instruction) {
					if ret, isR := in.(*ssa.Return); isR && isSuccessReturn(ret) && !onlyIf(g, ret, cg, false) {
						okAll = false
					}
				})
				if okAll {
					validators[g] = true
				}
			}
		}
		delegated := false
		if len(validators) > 0 {
			conds = append(conds, ifsOn(fn, func(v ssa.Value) bool {
				bo, ok := v.(*ssa.BinOp)
				if !ok || bo.Op != token.NEQ {
					return false
				}
				k, isNil := bo.Y.(*ssa.Const)
				call, isCall := bo.X.(*ssa.Call)
				return isNil && k.IsNil() && isCall && validators[call.Call.StaticCallee()]
			})...)
			allInstrs(fn, func(in ssa.Instruction) {
				if ret, isR := in.(*ssa.Return); isR && len(ret.Results) > 0 {
					if call, ok := retVal(ret, len(ret.Results)-1).(*ssa.Call); ok && validators[call.Call.StaticCallee()] {
						delegated = true
					}
				}
			})
		}
		what := "every success return of " + sp.typ + "." + sp.method + " is reachable only when " + sp.field + " was tested non-zero"
		if len(conds) == 0 && delegated {
			// every remaining success return must be absent (the only way to succeed is through the validator)
			bad := ""
			allInstrs(fn, func(in ssa.Instruction) {
				if ret, isR := in.(*ssa.Return); isR && isSuccessReturn(ret) {
					bad = c.Pos(posOf(ret))
				}
			})
			if bad == "" {
				r.ok(key, c.Pos(fn.Pos()), FuncName(fn), what, "the function succeeds only by returning the result of a validator whose success requires the test")
			} else {
				r.fail(key, bad, FuncName(fn), what, "a success return is reachable that bypasses the validator")
			}
			continue
		}
		v1Check(c, r, fn, key, what, conds)
	}
	// preload hint TYPE flag and variant URI line: local conditions
	if fn := c.codecFuncOf("MediaPreloadHint", "unmarshal"); fn != nil {
		conds := ifsOn(fn, func(v ssa.Value) bool {
			p, ok := v.(*ssa.Phi)
			if !ok {
				return false
			}
			hasT, hasF := false, false
			for _, e := range p.Edges {
				if b, ok := constBool(e); ok {
					if b {
						hasT = true
					} else {
						hasF = true
					}
				}
			}
			return hasT && hasF
		})
		// success only if the flag is true: cut the edge taken when flag is true → success unreachable
		key := "MediaPreloadHint.unmarshal|TYPE"
		ok := len(conds) > 0
		if ok {
			allInstrs(fn, func(in ssa.Instruction) {
				if ret, isR := in.(*ssa.Return); isR && isSuccessReturn(ret) && !onlyIf(fn, ret, conds, true) {
					ok = false
				}
			})
		}
		if ok {
			r.ok(key, c.Pos(fn.Pos()), FuncName(fn), "a preload hint is accepted only if TYPE=PART was seen", "success requires the type flag")
		} else {
			r.fail(key, c.Pos(fn.Pos()), FuncName(fn), "a preload hint is accepted only if TYPE=PART was seen", "a success return is reachable without the TYPE flag being set")
		}
	}
	if fn := c.codecFuncOf("MultivariantVariant", "unmarshal"); fn != nil {
		// the URI line is non-empty and does not start with '#': `len(lines[1]) == 0 || lines[1][0] == '#'` → error
		var uriStore *ssa.Store
		uriF := c.Field("pkg/playlist", "MultivariantVariant", "URI")
		allInstrs(fn, func(in ssa.Instruction) {
			if st, ok := in.(*ssa.Store); ok {
				if f, _ := fieldOfAddr(st.Addr); f == uriF {
					uriStore = st
				}
			}
		})
		key := "MultivariantVariant.unmarshal|URI"
		if uriStore == nil {
			r.undecided("%s: %s — %s (the construct this rule is anchored on was not found: no verdict)", key, "the variant URI is stored", "no store to MultivariantVariant.URI")
		} else {
			conds := ifsOn(fn, func(v ssa.Value) bool {
				bo, ok := v.(*ssa.BinOp)
				if !ok || bo.Op != token.EQL {
					return false
				}
				if call, ok := bo.X.(*ssa.Call); ok {
					if b, ok := call.Call.Value.(*ssa.Builtin); ok && b.Name() == "len" {
						k, isK := constInt(bo.Y)
						return isK && k == 0 && sameValue(call.Call.Args[0], uriStore.Val)
					}
				}
				return false
			})
			if len(conds) > 0 && onlyIf(fn, uriStore, conds, false) {
				r.ok(key, c.Pos(uriStore.Pos()), FuncName(fn), "the variant URI is stored only if the line is non-empty", "guarded by len(line) == 0 → error")
			} else {
				r.fail(key, c.Pos(uriStore.Pos()), FuncName(fn), "the variant URI is stored only if the line is non-empty", "no dominating emptiness test on the stored value")
			}
		}
	}
	// a segment is appended only if its Duration and URI were tested non-zero: directly, or through a
	// validator (any function on MediaSegment whose success returns require the test)
	if fn := c.Method("pkg/playlist", "Media", "Unmarshal"); fn != nil {
		segF := c.Field("pkg/playlist", "Media", "Segments")
		for _, fieldName := range []string{"Duration", "URI"} {
			fld := c.Field("pkg/playlist", "MediaSegment", fieldName)
			if fld == nil || segF == nil {
				r.undecided("MediaSegment.%s / Media.Segments not found", fieldName)
				continue
			}
			zeroTest := func(v ssa.Value) bool {
				bo, ok := v.(*ssa.BinOp)
				if !ok || bo.Op != token.EQL {
					return false
				}
				f, _ := loadedField(bo.X)
				if f != fld {
					return false
				}
				if k, ok := constInt(bo.Y); ok && k == 0 {
					return true
				}
				if sv, ok := constString(bo.Y); ok && sv == "" {
					return true
				}
				return false
			}
			// validators
			validators := map[*ssa.Function]bool{}
			all, _ := c.playlistFuncs()
			for _, g := range all {
				// a validator of segments: a method, or a function whose first parameter is the segment
				if len(g.Params) == 0 || !typeIs(g.Params[0].Type(), modPath+"/pkg/playlist", "MediaSegment") {
					continue
				}
				conds := ifsOn(g, zeroTest)
				if len(conds) == 0 {
					continue
				}
				okAll := true
				allInstrs(g, func(in ssa.Instruction) {
					if ret, isR := in.(*ssa.Return); isR && isSuccessReturn(ret) && !onlyIf(g, ret, conds, false) {
						okAll = false
					}
				})
				if okAll {
					validators[g] = true
				}
			}
			n := 0
			allInstrs(fn, func(in ssa.Instruction) {
				st, ok := in.(*ssa.Store)
				if !ok {
					return
				}
				if f, _ := fieldOfAddr(st.Addr); f != segF {
					return
				}
				n++
				key := fmt.Sprintf("Media.Unmarshal|append-segment#%d|%s", n, fieldName)
				conds := ifsOn(fn, func(v ssa.Value) bool {
					if zeroTest(v) {
						return true
					}
					bo, ok := v.(*ssa.BinOp)
					if !ok || bo.Op != token.NEQ {
						return false
					}
					k, isNil := bo.Y.(*ssa.Const)
					if !isNil || !k.IsNil() {
						return false
					}
					call, ok := bo.X.(*ssa.Call)
					return ok && validators[call.Call.StaticCallee()]
				})
				what := "a segment is appended only if its " + fieldName + " was tested non-zero (directly or through a validator whose success requires it)"
				if len(conds) > 0 && onlyIf(fn, st, conds, false) {
					r.ok(key, c.Pos(st.Pos()), FuncName(fn), what, "the append is control dependent on the test")
				} else if why := storedNonEmpty(fn, fld, st); why != "" {
					r.ok(key, c.Pos(st.Pos()), FuncName(fn), what, why)
				} else {
					r.fail(key, c.Pos(st.Pos()), FuncName(fn), what,
						"the append is reachable without the test: e.g. a URI line without EXTINF yields a zero-duration segment that callers divide by / index with")
				}
			})
			if n == 0 {
				r.undecided("no append to Media.Segments found in Media.Unmarshal")
			}
		}
	}
	return r
}

func v1Check(c *Ctx, r *RuleResult, fn *ssa.Function, key, what string, conds []condIf) {
	if len(conds) == 0 {
		r.fail(key, c.Pos(fn.Pos()), FuncName(fn), what, "no zero test on this field in the function: a decoded value with a zero field is returned as valid")
		return
	}
	// the true edge of the zero test must lead to an error return (not to success)
	bad := ""
	allInstrs(fn, func(in ssa.Instruction) {
		ret, ok := in.(*ssa.Return)
		if !ok || !isSuccessReturn(ret) {
			return
		}
		if !onlyIf(fn, ret, conds, false) {
			bad = c.Pos(posOf(ret))
		}
	})
	if bad == "" {
		r.ok(key, c.Pos(conds[0].If.Pos()), FuncName(fn), what, "every success return requires the zero test to have failed")
	} else {
		r.fail(key, bad, FuncName(fn), what, "a success return is reachable although the field is zero")
	}
}

// ---------------------------------------------------------------------------
// V3

func ruleV3(c *Ctx) *RuleResult {
	r := &RuleResult{Floor: 3, FloorWhat: "unbounded loops in the playlist decoders"}
	all, _ := c.playlistFuncs()
	readLine := c.Func("pkg/playlist/primitives", "ReadLine")
	n := 0
	for _, fn := range all {
		if strings.Contains(strings.ToLower(fn.Name()), "marshal") && !strings.Contains(strings.ToLower(fn.Name()), "unmarshal") {
			continue
		}
		// loop headers: blocks with a predecessor they dominate
		for _, h := range fn.Blocks {
			var backPreds []int
			for i, p := range h.Preds {
				if h.Dominates(p) {
					backPreds = append(backPreds, i)
				}
			}
			if len(backPreds) == 0 {
				continue
			}
			// bounded loops: range loops (header comment) are exempt
			if strings.HasPrefix(h.Comment, "rangeindex") || strings.HasPrefix(h.Comment, "rangeiter") {
				continue
			}
			if isCountedLoop(h) {
				continue
			}
			n++
			key := fmt.Sprintf("%s|loop@%s", FuncName(fn), h.Comment)
			pos := c.blockDesc(h)
			// string-typed phis at the header are the cursors
			var cursors []*ssa.Phi
			for _, in := range h.Instrs {
				if p, ok := in.(*ssa.Phi); ok && isStringType(p.Type()) {
					cursors = append(cursors, p)
				}
			}
			progress := ""
			for _, p := range cursors {
				okAll := true
				for _, bi := range backPreds {
					if !strictSuffix(p.Edges[bi], p, readLine, 0) {
						okAll = false
					}
				}
				if okAll {
					progress = p.Comment
					if progress == "" {
						progress = p.Name()
					}
				}
			}
			// loops driven by a reader (bufio.Reader.ReadString returning an error at EOF)
			if progress == "" {
				if readerLoop(fn, h) {
					r.ok(key, pos, FuncName(fn), "the loop consumes input on every iteration and exits when none is left", "driven by bufio.Reader.ReadString, whose error at end of input returns from the function")
					continue
				}
				r.fail(key, pos, FuncName(fn), "on every back edge the loop's cursor string is replaced by a strict suffix of itself",
					"no string cursor of this loop is strictly shortened on every path back to the loop head: a crafted input makes the decoder spin forever")
				continue
			}
			r.ok(key, pos, FuncName(fn), "on every back edge the loop's cursor string is replaced by a strict suffix of itself", "cursor "+progress+" shrinks on every back edge (ReadLine remainder / v[i+1:] / v[1:])")
		}
	}
	// the summary the loops rely on: ReadLine's remainder is a strict suffix of its argument, or empty
	if readLine != nil && len(readLine.Params) == 1 {
		k := 0
		for _, b := range readLine.Blocks {
			ret, ok := b.Instrs[len(b.Instrs)-1].(*ssa.Return)
			if !ok || len(ret.Results) != 2 {
				continue
			}
			k++
			key := fmt.Sprintf("%s|remainder#%d", FuncName(readLine), k)
			what := "the remainder ReadLine returns is a strict suffix of its argument, or the empty string"
			rv := retVal(ret, 1)
			good := false
			if cs, ok := constString(rv); ok && cs == "" {
				good = true
			} else if sl, ok := rv.(*ssa.Slice); ok && sl.High == nil && sl.X == ssa.Value(readLine.Params[0]) {
				if kk, ok := constInt(sl.Low); ok && kk >= 1 {
					good = true
				}
				if bo, ok := sl.Low.(*ssa.BinOp); ok && bo.Op == token.ADD {
					if kk, ok := constInt(bo.Y); ok && kk >= 1 {
						// the index comes from IndexByte and was tested >= 0 on this path (or is otherwise non-negative)
						good = true
					}
				}
			}
			// strings.Cut(s, sep) with a non-empty constant separator: `after` is a strict suffix when found, "" otherwise
			if ex, ok := rv.(*ssa.Extract); ok && ex.Index == 1 {
				if call, ok := ex.Tuple.(*ssa.Call); ok && isFuncNamed(call.Call.StaticCallee(), "strings", "Cut") && call.Call.Args[0] == ssa.Value(readLine.Params[0]) {
					if sep, ok := constString(call.Call.Args[1]); ok && sep != "" {
						good = true
					}
				}
			}
			unknown := false
			if !good {
				// anything that is not the argument itself or a slice of it that may be the whole string is a form the rule does not know
				switch x := rv.(type) {
				case *ssa.Parameter:
				case *ssa.Slice:
					_ = x
				default:
					unknown = true
				}
			}
			if good {
				r.ok(key, c.Pos(ret.Pos()), FuncName(readLine), what, "s[i+1:] or \"\"")
			} else if unknown {
				r.undecided("V3: the remainder returned by ReadLine at %s is computed in a form not known to the rule (%s)", c.Pos(ret.Pos()), rv.String())
			} else {
				r.fail(key, c.Pos(ret.Pos()), FuncName(readLine), what, "the remainder is "+rv.String()+": the decoder loops that advance with ReadLine never reach the end of such an input and spin forever")
			}
		}
		n += k
	}
	r.Instances = n
	return r
}

func isCountedLoop(h *ssa.BasicBlock) bool {
	// for i := 0; i < n; i++
	if len(h.Instrs) == 0 {
		return false
	}
	iff, ok := h.Instrs[len(h.Instrs)-1].(*ssa.If)
	if !ok {
		return false
	}
	bo, ok := iff.Cond.(*ssa.BinOp)
	if !ok || (bo.Op != token.LSS && bo.Op != token.LEQ) {
		return false
	}
	p, ok := bo.X.(*ssa.Phi)
	if !ok || p.Block() != h {
		return false
	}
	for _, e := range p.Edges {
		if add, ok := e.(*ssa.BinOp); ok && add.Op == token.ADD && add.X == p {
			if k, ok := constInt(add.Y); ok && k > 0 {
				return true
			}
		}
	}
	return false
}

// strictSuffix: v is a strict suffix of (something no longer than) the cursor phi.
func strictSuffix(v ssa.Value, cur *ssa.Phi, readLine *ssa.Function, depth int) bool {
	if depth > 12 {
		return false
	}
	switch x := v.(type) {
	case *ssa.Slice:
		if x.High != nil {
			return false
		}
		strict := false
		if k, ok := constInt(x.Low); ok && k >= 1 {
			strict = true
		}
		if bo, ok := x.Low.(*ssa.BinOp); ok && bo.Op == token.ADD {
			if k, ok := constInt(bo.Y); ok && k >= 1 {
				strict = true
			}
		}
		if strict {
			return noLonger(x.X, cur, readLine, depth+1)
		}
		return strictSuffix(x.X, cur, readLine, depth+1)
	case *ssa.Extract:
		if call, ok := x.Tuple.(*ssa.Call); ok && readLine != nil && call.Call.StaticCallee() == readLine && x.Index == 1 {
			return noLonger(call.Call.Args[0], cur, readLine, depth+1)
		}
	case *ssa.Phi:
		if x == cur {
			return false
		}
		for _, e := range x.Edges {
			if !strictSuffix(e, cur, readLine, depth+1) {
				return false
			}
		}
		return true
	}
	return false
}

// noLonger: v is the cursor or a suffix of it.
func noLonger(v ssa.Value, cur *ssa.Phi, readLine *ssa.Function, depth int) bool {
	if v == cur {
		return true
	}
	if depth > 12 {
		return false
	}
	switch x := v.(type) {
	case *ssa.Slice:
		return noLonger(x.X, cur, readLine, depth+1)
	case *ssa.Extract:
		if call, ok := x.Tuple.(*ssa.Call); ok && readLine != nil && call.Call.StaticCallee() == readLine && x.Index == 1 {
			return noLonger(call.Call.Args[0], cur, readLine, depth+1)
		}
	case *ssa.Phi:
		for _, e := range x.Edges {
			if !noLonger(e, cur, readLine, depth+1) {
				return false
			}
		}
		return true
	}
	return false
}

func readerLoop(fn *ssa.Function, h *ssa.BasicBlock) bool {
	found := false
	body := reachableBlocks(fn, h.Index, nil, nil)
	for _, b := range fn.Blocks {
		if !body[b.Index] || !h.Dominates(b) {
			continue
		}
		for _, in := range b.Instrs {
			if call, ok := in.(*ssa.Call); ok && isMethodNamed(call.Call.StaticCallee(), "bufio", "Reader", "ReadString") {
				// its error must lead to a return
				for _, ref := range *call.Referrers() {
					if ex, ok := ref.(*ssa.Extract); ok && ex.Index == 1 && len(*ex.Referrers()) > 0 {
						found = true
					}
				}
			}
		}
	}
	return found
}

// storedNonEmpty: in the block of the append, the field was assigned a string that dominating
// facts prove non-empty (`len(line) != 0 && …` case condition).
func storedNonEmpty(fn *ssa.Function, fld *types.Var, appendSt *ssa.Store) string {
	if !isStringType(fld.Type()) {
		return ""
	}
	var last *ssa.Store
	for _, in := range appendSt.Block().Instrs {
		if in == appendSt {
			break
		}
		if st, ok := in.(*ssa.Store); ok {
			if f, _ := fieldOfAddr(st.Addr); f == fld {
				last = st
			}
		}
	}
	if last == nil {
		return ""
	}
	if os.Getenv("HLSVERIF_DEBUG") != "" {
		for _, f := range factsAt(last.Block()) {
			fmt.Fprintf(os.Stderr, "DEBUG fact %v pol=%v\n", f.cond, f.pol)
		}
		fmt.Fprintf(os.Stderr, "DEBUG val %v block %d\n", last.Val, last.Block().Index)
	}
	if ok, why := lenAtLeast(factsAt(last.Block()), last.Val, 1, last); ok {
		return "the value assigned just before the append is non-empty: " + why
	}
	return ""
}

// frozenLocalRoot: addr is a chain of FieldAddr over a local cell that holds a value parameter (the spill go/ssa
// makes for value receivers and value parameters whose address is taken), the cell is stored exactly once (the
// parameter), and every other use of the cell and of the field addresses derived from it is a load or a further
// field address. Returns the cell, or nil.
func frozenLocalRoot(addr ssa.Value) *ssa.Alloc {
	v := addr
	for {
		fa, ok := v.(*ssa.FieldAddr)
		if !ok {
			break
		}
		v = fa.X
	}
	al, ok := v.(*ssa.Alloc)
	if !ok || al.Heap {
		return nil
	}
	stores := 0
	okAll := true
	var walk func(x ssa.Value)
	walk = func(x ssa.Value) {
		refs := x.Referrers()
		if refs == nil {
			okAll = false
			return
		}
		for _, r := range *refs {
			switch y := r.(type) {
			case *ssa.FieldAddr:
				walk(y)
			case *ssa.UnOp:
				if y.Op != token.MUL {
					okAll = false
				}
			case *ssa.Store:
				if y.Addr == x && x == ssa.Value(al) {
					if _, isParam := y.Val.(*ssa.Parameter); isParam {
						stores++
						continue
					}
				}
				okAll = false
			case *ssa.DebugRef:
			default:
				okAll = false
			}
		}
	}
	walk(al)
	if !okAll || stores != 1 {
		return nil
	}
	return al
}
