package main

import (
	"fmt"
	"go/token"
	"go/types"
	"sort"
	"strings"

	"golang.org/x/tools/go/ssa"
)

func init() {
	registerRule("K1", "goroutine ownership: the only go statements are the Client.run goroutine and the pool's add, where wg.Add(1) precedes the go statement and the body defers wg.Done()", ruleK1)
	registerRule("K2", "every blocking channel operation in client code is a select with a context Done() case (or a bare receive from Done()); the only bare send is the single result send", ruleK2)
	registerRule("K3", "every context that reaches a Done() or an HTTP request derives from a cancellable context (pool/client context); every HTTP request is built with NewRequestWithContext and that request is the one sent; no Sleep, no Cond in client code", ruleK3)
	registerRule("K4", "single result: the result channel is buffered, has exactly one send site outside any loop in a function started once; the pool cancels before it joins; runInner closes the pool on every path", ruleK4)
	registerRule("K5", "no error returned by a library or mediacommon function is dropped in client code", ruleK5)
	registerRule("K6", "bounded fan-in: completion channels have the capacity of the track bound, the bound is checked before tracks are used, every work item is acknowledged on every success path, and a producer never has more unacknowledged items than the capacity", ruleK6)
	registerRule("L7", "no blocking operation (channel operation, select, Wait, Sleep, HTTP call) while a client mutex is held", ruleL7)
	registerRule("L4c", "client structs with a mutex: a field accessed under the mutex once is accessed under it always (initialisers on fresh objects exempt); wake-up channels are captured under the lock", ruleL4c)
	registerRule("L3c", "client segment queue: the critical section that grows the queue closes and replaces the push channel, the one that shrinks it closes and replaces the pull channel, before releasing the mutex", ruleL3c)
}

func (c *Ctx) clientFuncs() []*ssa.Function {
	if v, ok := c.cache["clientfuncs"]; ok {
		return v.([]*ssa.Function)
	}
	ro := c.roles()
	set := c.reachRole(append(append([]*ssa.Function{}, ro.CL...), ro.API...))
	var out []*ssa.Function
	for fn := range set {
		if InRootPkg(fn) && fn.Blocks != nil && fn.Synthetic == "" {
			out = append(out, fn)
		}
	}
	sort.Slice(out, func(i, j int) bool { return out[i].String() < out[j].String() })
	c.cache["clientfuncs"] = out
	return out
}

func isContextType(t types.Type) bool { return typeIs(t, "context", "Context") }

// isDoneCall: v is the result of X.Done() with X a context.Context.
func isDoneCall(v ssa.Value) (ssa.Value, bool) {
	call, ok := v.(*ssa.Call)
	if !ok {
		return nil, false
	}
	if call.Call.IsInvoke() && call.Call.Method.Name() == "Done" && isContextType(call.Call.Value.Type()) {
		return call.Call.Value, true
	}
	return nil, false
}

// ---------------------------------------------------------------------------

func ruleK1(c *Ctx) *RuleResult {
	r := &RuleResult{Floor: 2, FloorWhat: "go statements"}
	add := c.Method("", "clientRoutinePool", "add")
	start := c.Method("", "Client", "Start")
	run := c.Method("", "Client", "run")
	if add == nil || start == nil || run == nil {
		r.undecided("Client.Start / Client.run / clientRoutinePool.add not found")
		return r
	}
	n := 0
	for _, fn := range c.Funcs {
		cnt := 0
		allInstrs(fn, func(in ssa.Instruction) {
			g, ok := in.(*ssa.Go)
			if !ok {
				return
			}
			n++
			cnt++
			key := fmt.Sprintf("%s|go#%d", FuncName(fn), cnt)
			pos := c.Pos(g.Pos())
			switch {
			case fn == start:
				if g.Call.StaticCallee() == run {
					r.ok(key, pos, FuncName(fn), "the only goroutine started outside the pool is Client.run (which performs the single result send)", "go c.run()")
				} else {
					r.fail(key, pos, FuncName(fn), "the only goroutine started outside the pool is Client.run", "starts "+g.Call.String())
				}
			case fn == add:
				// wg.Add(1) dominates; body defers wg.Done()
				var addCall ssa.Instruction
				allInstrs(fn, func(x ssa.Instruction) {
					if call, ok := x.(*ssa.Call); ok && isMethodNamed(call.Call.StaticCallee(), "sync", "WaitGroup", "Add") {
						if k, ok := constInt(call.Call.Args[1]); ok && k == 1 {
							addCall = x
						}
					}
				})
				body := g.Call.StaticCallee()
				deferDone := false
				if body != nil && len(body.Blocks) > 0 {
					for _, x := range body.Blocks[0].Instrs {
						if d, ok := x.(*ssa.Defer); ok && isMethodNamed(d.Call.StaticCallee(), "sync", "WaitGroup", "Done") {
							deferDone = true
						}
					}
				}
				switch {
				case addCall == nil || !instrDominates(addCall, g):
					r.fail(key, pos, FuncName(fn), "wg.Add(1) is executed by the spawner before the go statement", "no WaitGroup.Add(1) dominating the go statement: close() can pass wg.Wait() before the routine registered itself")
				case !deferDone:
					r.fail(key, pos, FuncName(fn), "the goroutine body defers wg.Done() in its entry block", "no deferred WaitGroup.Done() at the top of the goroutine body")
				default:
					r.ok(key, pos, FuncName(fn), "wg.Add(1) dominates the go statement and the body defers wg.Done()", "Add at "+c.Pos(addCall.Pos()))
				}
			default:
				r.fail(key, pos, FuncName(fn), "no goroutine is started outside Client.Start and clientRoutinePool.add", "unpooled goroutine: it is not joined by the pool, so it may run after Wait() yielded")
			}
		})
	}
	r.Instances = n
	// Client.run is started exactly once
	nrun := 0
	for _, e := range c.callersOf(run) {
		if e.Site != nil {
			nrun++
		}
	}
	if nrun == 1 {
		r.ok("Client.run|callers", c.Pos(run.Pos()), FuncName(run), "Client.run has exactly one call site (the go statement in Start)", "1 call site")
	} else {
		r.fail("Client.run|callers", c.Pos(run.Pos()), FuncName(run), "Client.run has exactly one call site (the go statement in Start)", fmt.Sprintf("%d call sites", nrun))
	}
	return r
}

// ---------------------------------------------------------------------------

func ruleK2(c *Ctx) *RuleResult {
	r := &RuleResult{Floor: 20, FloorWhat: "blocking channel operations in client code"}
	outErr := c.Field("", "Client", "outErr")
	nb := 0
	for _, fn := range c.clientFuncs() {
		r.analysed(FuncName(fn))
		cs, cr, cb := 0, 0, 0
		allInstrs(fn, func(in ssa.Instruction) {
			switch x := in.(type) {
			case *ssa.Select:
				if !x.Blocking {
					nb++
					return
				}
				cs++
				key := fmt.Sprintf("%s|select#%d", FuncName(fn), cs)
				hasDone := false
				for _, st := range x.States {
					if st.Dir == types.RecvOnly {
						if _, ok := isDoneCall(st.Chan); ok {
							hasDone = true
						}
					}
				}
				if hasDone {
					r.ok(key, c.Pos(posOf(in)), FuncName(fn), "blocking select has a `<-ctx.Done()` case", fmt.Sprintf("%d cases, one receives from Done()", len(x.States)))
				} else {
					r.fail(key, c.Pos(posOf(in)), FuncName(fn), "blocking select has a `<-ctx.Done()` case", "no case receives from a context's Done(): the goroutine cannot be cancelled while blocked here")
				}
			case *ssa.Send:
				cb++
				key := fmt.Sprintf("%s|send#%d", FuncName(fn), cb)
				if f, _ := loadedField(x.Chan); f != nil && f == outErr {
					r.ok(key, c.Pos(posOf(in)), FuncName(fn), "the only bare channel send is the result send on Client.outErr (buffered, rule K4)", "send on Client.outErr")
				} else {
					r.fail(key, c.Pos(posOf(in)), FuncName(fn), "no bare (non-select) channel send in client code", "send on "+accessPath(x.Chan)+" outside a select: blocks without a cancellation case")
				}
			case *ssa.UnOp:
				if x.Op != token.ARROW {
					return
				}
				cr++
				key := fmt.Sprintf("%s|recv#%d", FuncName(fn), cr)
				if _, ok := isDoneCall(x.X); ok {
					r.ok(key, c.Pos(posOf(in)), FuncName(fn), "a bare receive only waits for cancellation", "receives from Done()")
				} else {
					r.fail(key, c.Pos(posOf(in)), FuncName(fn), "no bare (non-select) receive other than from Done()", "receive from "+accessPath(x.X)+" outside a select")
				}
			case *ssa.Range:
				if _, ok := x.X.Type().Underlying().(*types.Chan); ok {
					r.fail(fmt.Sprintf("%s|rangechan", FuncName(fn)), c.Pos(posOf(in)), FuncName(fn), "no range over a channel in client code", "range over channel blocks without cancellation")
				}
			}
		})
	}
	if nb > 0 {
		r.Notes = append(r.Notes, fmt.Sprintf("%d non-blocking selects (with default) exempt", nb))
	}
	return r
}

// ---------------------------------------------------------------------------
// K3: context provenance

type ctxProv struct {
	c       *Ctx
	memo    map[ssa.Value]string // "" = ok
	busy    map[ssa.Value]bool
	origins map[string]bool // root context fields reached ("clientRoutinePool.ctx", "Client.ctx")
}

// bad returns "" when every source of v is a cancellable context, else a reason.
func (p *ctxProv) bad(v ssa.Value, depth int) string {
	if depth > 12 {
		return "provenance too deep"
	}
	if r, ok := p.memo[v]; ok {
		return r
	}
	if p.busy[v] {
		return ""
	}
	p.busy[v] = true
	defer delete(p.busy, v)
	res := p.bad0(v, depth)
	p.memo[v] = res
	return res
}

func (p *ctxProv) bad0(v ssa.Value, depth int) string {
	c := p.c
	switch x := v.(type) {
	case *ssa.Extract:
		if call, ok := x.Tuple.(*ssa.Call); ok && x.Index == 0 {
			f := call.Call.StaticCallee()
			for _, n := range []string{"WithCancel", "WithTimeout", "WithDeadline", "WithCancelCause"} {
				if isFuncNamed(f, "context", n) {
					return ""
				}
			}
		}
		return "context produced by " + x.Tuple.String()
	case *ssa.Call:
		f := x.Call.StaticCallee()
		if isFuncNamed(f, "context", "Background") || isFuncNamed(f, "context", "TODO") {
			return "context." + f.Name() + "() at " + c.Pos(x.Pos()) + " can never be cancelled"
		}
		if isFuncNamed(f, "context", "WithValue") {
			return p.bad(x.Call.Args[0], depth+1)
		}
		return "context returned by " + x.Call.String()
	case *ssa.Parameter:
		fn := x.Parent()
		idx := -1
		for i, pp := range fn.Params {
			if pp == x {
				idx = i
			}
		}
		edges := c.callersOf(fn)
		n := 0
		for _, e := range edges {
			if e.Site == nil || !InLib(e.Caller.Func) {
				continue
			}
			args := e.Site.Common().Args
			var arg ssa.Value
			if e.Site.Common().IsInvoke() {
				if idx >= 1 && idx-1 < len(args) {
					arg = args[idx-1]
				}
			} else if idx < len(args) {
				arg = args[idx]
			}
			if arg == nil {
				continue
			}
			n++
			if why := p.bad(arg, depth+1); why != "" {
				return "argument at " + c.Pos(e.Site.Pos()) + ": " + why
			}
		}
		if n == 0 {
			return "context parameter of " + FuncName(fn) + " has no library caller"
		}
		return ""
	case *ssa.FreeVar:
		// captured variable: find the MakeClosure bindings
		fn := x.Parent()
		idx := -1
		for i, fv := range fn.FreeVars {
			if fv == x {
				idx = i
			}
		}
		if fn.Parent() == nil {
			return "free variable without parent"
		}
		why := "no binding found"
		allInstrs(fn.Parent(), func(in ssa.Instruction) {
			if mc, ok := in.(*ssa.MakeClosure); ok && mc.Fn == fn && idx < len(mc.Bindings) {
				why = p.bad(mc.Bindings[idx], depth+1)
			}
		})
		return why
	case *ssa.Alloc:
		// captured variable cell: every store
		why := ""
		n := 0
		for _, ref := range *x.Referrers() {
			if st, ok := ref.(*ssa.Store); ok && st.Addr == x {
				n++
				if w := p.bad(st.Val, depth+1); w != "" {
					why = w
				}
			}
		}
		if n == 0 {
			return "context variable never assigned"
		}
		return why
	case *ssa.UnOp:
		if x.Op != token.MUL {
			break
		}
		if f, _ := fieldOfAddr(x.X); f != nil {
			// a root context field: every store is a context.With* result
			if p.isRootCtxField(f) {
				if p.origins != nil {
					p.origins[c.fieldName(f)] = true
				}
				return ""
			}
			n := 0
			for _, fn := range c.Funcs {
				var why string
				allInstrs(fn, func(in ssa.Instruction) {
					if st, ok := in.(*ssa.Store); ok {
						if ff, _ := fieldOfAddr(st.Addr); ff == f {
							n++
							if w := p.bad(st.Val, depth+1); w != "" {
								why = "field " + c.fieldName(f) + " stored at " + c.Pos(st.Pos()) + ": " + w
							}
						}
					}
				})
				if why != "" {
					return why
				}
			}
			if n == 0 {
				return "context field " + c.fieldName(f) + " is never assigned"
			}
			return ""
		}
		return p.bad(x.X, depth+1)
	case *ssa.Phi:
		for _, e := range x.Edges {
			if w := p.bad(e, depth+1); w != "" {
				return w
			}
		}
		return ""
	case *ssa.MakeInterface:
		return p.bad(x.X, depth+1)
	case *ssa.ChangeInterface:
		return p.bad(x.X, depth+1)
	}
	return "unrecognised context source " + v.String()
}

// isRootCtxField: every store to the field is the first result of context.WithCancel / WithTimeout / WithDeadline.
func (p *ctxProv) isRootCtxField(f *types.Var) bool {
	n := 0
	ok := true
	for _, fn := range p.c.Funcs {
		for _, st := range storesToField(p.c, fn, f) {
			n++
			ex, isEx := st.Val.(*ssa.Extract)
			if !isEx || ex.Index != 0 {
				ok = false
				continue
			}
			call, isCall := ex.Tuple.(*ssa.Call)
			if !isCall || call.Call.StaticCallee() == nil || call.Call.StaticCallee().Pkg == nil || call.Call.StaticCallee().Pkg.Pkg.Path() != "context" {
				ok = false
			}
		}
	}
	return ok && n > 0
}

func ruleK3(c *Ctx) *RuleResult {
	r := &RuleResult{Floor: 20, FloorWhat: "context uses (Done() calls and HTTP requests) in client code"}
	prov := &ctxProv{c: c, memo: map[ssa.Value]string{}, busy: map[ssa.Value]bool{}}
	nreq := 0
	ro := c.roles()
	var poolRoots []*ssa.Function
	poolRoots = append(poolRoots, ro.Runnable...)
	if add := c.Method("", "clientRoutinePool", "add"); add != nil {
		poolRoots = append(poolRoots, goBodies(c, add)...)
	}
	poolSet := c.reachRole(poolRoots)
	for _, fn := range c.clientFuncs() {
		cd, ch := 0, 0
		allInstrs(fn, func(in ssa.Instruction) {
			call, ok := in.(*ssa.Call)
			if !ok {
				return
			}
			if ctxv, ok := isDoneCall(call); ok {
				cd++
				key := fmt.Sprintf("%s|Done#%d", FuncName(fn), cd)
				why := prov.bad(ctxv, 0)
				if why == "" {
					// which root contexts can reach this use? pool code must wait on the pool context only: the
					// client context is cancelled by Close() alone, not by the first fatal error
					op := &ctxProv{c: c, memo: map[ssa.Value]string{}, busy: map[ssa.Value]bool{}, origins: map[string]bool{}}
					op.bad(ctxv, 0)
					if poolSet[fn] && (len(op.origins) != 1 || !op.origins["clientRoutinePool.ctx"]) {
						why = "in a pool routine the awaited context must be the pool context only, but it can be " + strings.Join(sortedKeys(op.origins), " / ") +
							": that context is not cancelled when another routine fails, so rp.close() waits for this goroutine forever and Wait() never yields"
					}
				}
				if why == "" {
					r.ok(key, c.Pos(call.Pos()), FuncName(fn), "the context whose Done() is awaited derives from a cancellable (pool or client) context on every call path", "all sources are context.WithCancel results; pool routines wait on the pool context")
				} else {
					r.fail(key, c.Pos(call.Pos()), FuncName(fn), "the context whose Done() is awaited derives from a cancellable (pool or client) context on every call path", why)
				}
				return
			}
			f := call.Call.StaticCallee()
			if f == nil || f.Pkg == nil {
				return
			}
			pk := f.Pkg.Pkg.Path()
			switch {
			case pk == "net/http" && (f.Name() == "NewRequest" || f.Name() == "Get" || f.Name() == "Post" || f.Name() == "Head" || f.Name() == "PostForm"):
				ch++
				r.fail(fmt.Sprintf("%s|http#%d", FuncName(fn), ch), c.Pos(call.Pos()), FuncName(fn), "HTTP requests are bound to the pool context (http.NewRequestWithContext)", "uses http."+f.Name()+": the exchange cannot be cancelled by Close")
			case isFuncNamed(f, "net/http", "NewRequestWithContext"):
				ch++
				nreq++
				key := fmt.Sprintf("%s|http#%d", FuncName(fn), ch)
				why := prov.bad(call.Call.Args[0], 0)
				if why == "" {
					op := &ctxProv{c: c, memo: map[ssa.Value]string{}, busy: map[ssa.Value]bool{}, origins: map[string]bool{}}
					op.bad(call.Call.Args[0], 0)
					if poolSet[fn] && (len(op.origins) != 1 || !op.origins["clientRoutinePool.ctx"]) {
						why = "the request context can be " + strings.Join(sortedKeys(op.origins), " / ") + " instead of the pool context"
					}
				}
				if why != "" {
					r.fail(key, c.Pos(call.Pos()), FuncName(fn), "the request context derives from the pool context", why)
				} else {
					r.ok(key, c.Pos(call.Pos()), FuncName(fn), "the request context derives from the pool context", "context argument derives from context.WithCancel")
				}
			case isMethodNamed(f, "net/http", "Client", "Do"):
				ch++
				key := fmt.Sprintf("%s|do#%d", FuncName(fn), ch)
				req := call.Call.Args[1]
				okReq := false
				fromNew := func(v ssa.Value) bool {
					if ex, ok := canon(v).(*ssa.Extract); ok && ex.Index == 0 {
						if mk, ok := ex.Tuple.(*ssa.Call); ok && isFuncNamed(mk.Call.StaticCallee(), "net/http", "NewRequestWithContext") {
							return true
						}
					}
					return false
				}
				if fromNew(req) {
					okReq = true
				} else if p, isParam := req.(*ssa.Parameter); isParam {
					// a helper that sends the request it is given: every call site hands it a NewRequestWithContext result
					pi := -1
					for i, q := range fn.Params {
						if q == p {
							pi = i
						}
					}
					edges := c.callersOf(fn)
					okReq = pi >= 0 && len(edges) > 0
					for _, e := range edges {
						if e.Site == nil || pi >= len(e.Site.Common().Args) || !fromNew(e.Site.Common().Args[pi]) {
							okReq = false
						}
					}
				}
				if okReq {
					r.ok(key, c.Pos(call.Pos()), FuncName(fn), "the request that is sent is the one built by NewRequestWithContext", "direct result of NewRequestWithContext")
				} else {
					r.fail(key, c.Pos(call.Pos()), FuncName(fn), "the request that is sent is the one built by NewRequestWithContext", "request value is "+req.String()+": its context cannot be shown to be the pool context")
				}
			case isMethodNamed(f, "net/http", "Client", "Get"), isMethodNamed(f, "net/http", "Client", "Post"), isMethodNamed(f, "net/http", "Client", "Head"):
				ch++
				r.fail(fmt.Sprintf("%s|http#%d", FuncName(fn), ch), c.Pos(call.Pos()), FuncName(fn), "HTTP requests are bound to the pool context", "uses (*http.Client)."+f.Name())
			case isFuncNamed(f, "time", "Sleep"):
				r.fail(FuncName(fn)+"|sleep", c.Pos(call.Pos()), FuncName(fn), "no time.Sleep in client code", "uncancellable sleep")
			case classifySync(&call.Call) == opWait:
				r.fail(FuncName(fn)+"|condwait", c.Pos(call.Pos()), FuncName(fn), "no sync.Cond in client code", "Cond.Wait cannot be cancelled by a context")
			}
		})
	}
	if nreq < 1 {
		r.undecided("only %d NewRequestWithContext sites found (floor 1)", nreq)
	}
	return r
}

// ---------------------------------------------------------------------------

func inLoop(in ssa.Instruction) bool {
	b := in.Block()
	seen := reachableBlocks(in.Parent(), b.Index, nil, nil)
	for _, s := range b.Succs {
		_ = s
	}
	// b is in a loop iff b is reachable from one of its successors
	for _, s := range b.Succs {
		if reachableBlocks(in.Parent(), s.Index, nil, nil)[b.Index] {
			return true
		}
	}
	_ = seen
	return false
}

func ruleK4(c *Ctx) *RuleResult {
	r := &RuleResult{Floor: 5, FloorWhat: "result-channel obligations"}
	outErr := c.Field("", "Client", "outErr")
	run := c.Method("", "Client", "run")
	runInner := c.Method("", "Client", "runInner")
	poolClose := c.Method("", "clientRoutinePool", "close")
	if outErr == nil || run == nil || poolClose == nil {
		r.undecided("Client.outErr / run / clientRoutinePool.close not found")
		return r
	}
	// capacity
	nstore := 0
	for _, fn := range c.Funcs {
		allInstrs(fn, func(in ssa.Instruction) {
			st, ok := in.(*ssa.Store)
			if !ok {
				return
			}
			if f, _ := fieldOfAddr(st.Addr); f != outErr {
				return
			}
			nstore++
			key := fmt.Sprintf("%s|outErr-make#%d", FuncName(fn), nstore)
			if mk, ok := st.Val.(*ssa.MakeChan); ok {
				if k, ok := constInt(mk.Size); ok && k >= 1 {
					r.ok(key, c.Pos(st.Pos()), FuncName(fn), "the result channel has capacity >= 1, so the single send never blocks", fmt.Sprintf("make(chan error, %d)", k))
					return
				}
			}
			r.fail(key, c.Pos(st.Pos()), FuncName(fn), "the result channel has capacity >= 1, so the single send never blocks", "stored value is "+st.Val.String()+": with no receiver the run goroutine leaks")
		})
	}
	if nstore == 0 {
		r.undecided("no store to Client.outErr found")
	}
	// single send
	var sends []*ssa.Send
	for _, fn := range c.Funcs {
		allInstrs(fn, func(in ssa.Instruction) {
			if s, ok := in.(*ssa.Send); ok {
				if f, _ := loadedField(s.Chan); f == outErr {
					sends = append(sends, s)
				}
			}
			if sel, ok := in.(*ssa.Select); ok {
				for _, st := range sel.States {
					if f, _ := loadedField(st.Chan); f == outErr && st.Dir == types.SendOnly {
						r.fail(FuncName(fn)+"|outErr-select-send", c.Pos(posOf(in)), FuncName(fn), "exactly one send on the result channel", "additional send inside a select")
					}
				}
			}
		})
	}
	// exactly one send per run: one site, or several sites in Client.run no two of which lie on one path
	oneEach := len(sends) >= 1
	for _, a := range sends {
		if a.Parent() != run || inLoop(a) {
			oneEach = false
		}
		for _, b := range sends {
			if a != b && instrReaches(a, b) {
				oneEach = false
			}
		}
	}
	if oneEach {
		// every path of run sends: no return without a send
		bad := pathAvoidingFromBlock(c, run, run.Blocks[0], func(x ssa.Instruction) bool { _, ok := x.(*ssa.Send); return ok }, func(x ssa.Instruction) bool { _, ok := x.(*ssa.Return); return ok })
		if bad != nil {
			oneEach = false
		}
	}
	if oneEach {
		r.ok("Client.run|single-send", c.Pos(sends[0].Pos()), FuncName(run), "exactly one send on the result channel on every path of Client.run, outside any loop", fmt.Sprintf("%d send site(s), mutually exclusive", len(sends)))
	} else {
		r.fail("Client.run|single-send", c.Pos(run.Pos()), FuncName(run), "exactly one send on the result channel on every path of Client.run, outside any loop", fmt.Sprintf("%d send sites, not one per path", len(sends)))
	}
	// join before send: the value sent is the result of a function every return of which follows rp.close(),
	// or a call of rp.close() (not a deferred one: it would run after the send) dominates the send itself
	for i, sd := range sends {
		key := "Client.run|sends-runInner"
		if i > 0 {
			key = fmt.Sprintf("Client.run|sends-runInner#%d", i+1)
		}
		what := "the pool is joined (rp.close() returned) before the result is sent"
		if call, ok := sd.X.(*ssa.Call); ok && call.Call.StaticCallee() != nil && InRootPkg(call.Call.StaticCallee()) {
			if runInner == nil {
				runInner = call.Call.StaticCallee()
			}
			if call.Call.StaticCallee() == runInner {
				r.ok(key, c.Pos(sd.Pos()), FuncName(run), what, "the value sent is the result of "+FuncName(runInner)+", whose returns are checked below")
				continue
			}
		}
		dominated := false
		allInstrs(sd.Parent(), func(x ssa.Instruction) {
			if call, ok := x.(*ssa.Call); ok && call.Call.StaticCallee() == poolClose && instrDominates(x, sd) {
				dominated = true
			}
		})
		if dominated {
			r.ok(key, c.Pos(sd.Pos()), FuncName(sd.Parent()), what, "a call of clientRoutinePool.close dominates the send")
		} else {
			r.fail(key, c.Pos(sd.Pos()), FuncName(sd.Parent()), what, "no completed rp.close() precedes this send (a deferred close runs after it): Wait() yields while pool goroutines are still running and user callbacks still fire")
		}
	}
	// pool close: cancel before wait
	var cancelCall, waitCall ssa.Instruction
	cancelFld := c.Field("", "clientRoutinePool", "ctxCancel")
	allInstrs(poolClose, func(in ssa.Instruction) {
		call, ok := in.(*ssa.Call)
		if !ok {
			return
		}
		if isMethodNamed(call.Call.StaticCallee(), "sync", "WaitGroup", "Wait") {
			waitCall = in
		}
		if f, _ := loadedField(call.Call.Value); f != nil && f == cancelFld {
			cancelCall = in
		}
	})
	switch {
	case cancelCall == nil || waitCall == nil:
		r.fail("clientRoutinePool.close|cancel-join", c.Pos(poolClose.Pos()), FuncName(poolClose), "close() cancels the pool context and then waits for every routine", "cancel or Wait call missing")
	case !instrDominates(cancelCall, waitCall):
		r.fail("clientRoutinePool.close|cancel-join", c.Pos(waitCall.Pos()), FuncName(poolClose), "close() cancels the pool context before it waits", "WaitGroup.Wait is not dominated by the cancel call: routines blocked on the context are never released")
	default:
		// ... and waits on every path: no return before the join
		var bad []string
		if len(poolClose.Blocks) > 0 && len(poolClose.Blocks[0].Instrs) > 0 {
			bad = pathAvoidingFromBlock(c, poolClose, poolClose.Blocks[0], func(x ssa.Instruction) bool { return x == waitCall }, func(x ssa.Instruction) bool { _, ok := x.(*ssa.Return); return ok })
		}
		if bad == nil {
			r.ok("clientRoutinePool.close|cancel-join", c.Pos(waitCall.Pos()), FuncName(poolClose), "close() cancels the pool context and then waits for every routine, on every path", "cancel dominates Wait; no return avoids Wait")
		} else {
			r.fail("clientRoutinePool.close|cancel-join", c.Pos(waitCall.Pos()), FuncName(poolClose), "close() cancels the pool context and then waits for every routine, on every path",
				"a path returns without WaitGroup.Wait (an early return, e.g. an `already cancelled` guard): after Close() the result is yielded while pool goroutines are still running and callbacks still fire", bad...)
		}
	}
	// ctxCancel is the cancel function of the pool context
	ctxFld := c.Field("", "clientRoutinePool", "ctx")
	pairOK := false
	for _, fn := range c.Funcs {
		allInstrs(fn, func(in ssa.Instruction) {
			st, ok := in.(*ssa.Store)
			if !ok {
				return
			}
			if f, _ := fieldOfAddr(st.Addr); f == cancelFld {
				if ex, ok := stripConv(st.Val).(*ssa.Extract); ok && ex.Index == 1 {
					// the sibling Extract#0 must be stored to ctx
					for _, ref := range *ex.Tuple.Referrers() {
						if e0, ok := ref.(*ssa.Extract); ok && e0.Index == 0 {
							for _, rr := range *e0.Referrers() {
								if s2, ok := rr.(*ssa.Store); ok {
									if f2, _ := fieldOfAddr(s2.Addr); f2 == ctxFld {
										pairOK = true
									}
								}
							}
						}
					}
				}
			}
		})
	}
	if pairOK {
		r.ok("clientRoutinePool|ctx-cancel-pair", c.Pos(poolClose.Pos()), "clientRoutinePool", "ctxCancel is the cancel function of the context handed to every routine", "both results of one context.WithCancel call")
	} else {
		r.fail("clientRoutinePool|ctx-cancel-pair", c.Pos(poolClose.Pos()), "clientRoutinePool", "ctxCancel is the cancel function of the context handed to every routine", "ctx and ctxCancel do not come from the same WithCancel call")
	}
	// routines receive the pool context
	if add := c.Method("", "clientRoutinePool", "add"); add != nil && len(goBodies(c, add)) == 1 {
		okArg := false
		allInstrs(goBodies(c, add)[0], func(in ssa.Instruction) {
			if call, ok := in.(*ssa.Call); ok && call.Call.IsInvoke() && call.Call.Method.Name() == "run" {
				if f, _ := loadedField(call.Call.Args[0]); f == ctxFld {
					okArg = true
				}
			}
		})
		if okArg {
			r.ok("clientRoutinePool.add|run-ctx", c.Pos(add.Pos()), FuncName(add), "every routine is run with the pool context", "r.run(rp.ctx)")
		} else {
			r.fail("clientRoutinePool.add|run-ctx", c.Pos(add.Pos()), FuncName(add), "every routine is run with the pool context", "run is not called with the pool's ctx field")
		}
	}
	// runInner: every return is dominated by a call of pool close
	nret := 0
	if runInner == nil {
		return r
	}
	// closesBeforeReturning: every return of g follows rp.close() (directly, or returns the result of such a function)
	var closesBeforeReturning func(g *ssa.Function, depth int) bool
	closesBeforeReturning = func(g *ssa.Function, depth int) bool {
		if g == nil || g.Blocks == nil || depth > 3 {
			return false
		}
		okAll, any := true, false
		allInstrs(g, func(in ssa.Instruction) {
			ret, ok := in.(*ssa.Return)
			if !ok {
				return
			}
			any = true
			dom := false
			allInstrs(g, func(x ssa.Instruction) {
				if call, ok := x.(*ssa.Call); ok && call.Call.StaticCallee() == poolClose && instrDominates(x, ret) {
					dom = true
				}
			})
			if !dom && len(ret.Results) > 0 {
				if call, ok := retVal(ret, len(ret.Results)-1).(*ssa.Call); ok && InRootPkg(call.Call.StaticCallee()) && closesBeforeReturning(call.Call.StaticCallee(), depth+1) {
					dom = true
				}
			}
			if !dom {
				okAll = false
			}
		})
		return okAll && any
	}
	allInstrs(runInner, func(in ssa.Instruction) {
		ret, ok := in.(*ssa.Return)
		if !ok {
			return
		}
		nret++
		key := fmt.Sprintf("(*Client).runInner|return#%d", nret)
		dominated := false
		allInstrs(runInner, func(x ssa.Instruction) {
			if call, ok := x.(*ssa.Call); ok && call.Call.StaticCallee() == poolClose && instrDominates(x, ret) {
				dominated = true
			}
		})
		if !dominated && len(ret.Results) > 0 {
			if call, ok := retVal(ret, len(ret.Results)-1).(*ssa.Call); ok && InRootPkg(call.Call.StaticCallee()) && closesBeforeReturning(call.Call.StaticCallee(), 0) {
				dominated = true
			}
		}
		if dominated {
			r.ok(key, c.Pos(posOf(ret)), FuncName(runInner), "runInner joins the pool (rp.close()) before every return", "a call of clientRoutinePool.close dominates this return")
		} else {
			r.fail(key, c.Pos(posOf(ret)), FuncName(runInner), "runInner joins the pool (rp.close()) before every return", "this return is not dominated by rp.close(): pool goroutines may outlive the result")
		}
	})
	return r
}

// ---------------------------------------------------------------------------

func ruleK5(c *Ctx) *RuleResult {
	r := &RuleResult{Floor: 40, FloorWhat: "error-returning calls in client code"}
	errT := types.Universe.Lookup("error").Type()
	for _, fn := range c.clientFuncs() {
		cnt := map[string]int{}
		allInstrs(fn, func(in ssa.Instruction) {
			call, ok := in.(*ssa.Call)
			if !ok {
				return
			}
			sig := call.Call.Signature()
			res := sig.Results()
			ei := -1
			for i := 0; i < res.Len(); i++ {
				if types.Identical(res.At(i).Type(), errT) {
					ei = i
				}
			}
			if ei < 0 {
				return
			}
			// scope: library functions, function values of the library, mediacommon, net/http, io
			name := ""
			if f := call.Call.StaticCallee(); f != nil {
				if f.Pkg == nil && f.Parent() == nil && f.Object() == nil {
					return
				}
				name = FuncName(f)
				pk := ""
				if f.Pkg != nil {
					pk = f.Pkg.Pkg.Path()
				} else if f.Object() != nil && f.Object().Pkg() != nil {
					pk = f.Object().Pkg().Path()
				}
				if !(isLibPkgPath(pk) || strings.Contains(pk, "mediacommon") || pk == "net/http" || pk == "io" || pk == "net/url" || InLib(f)) {
					return
				}
			} else if call.Call.IsInvoke() {
				name = call.Call.Method.FullName()
			} else {
				name = "func value " + accessPath(call.Call.Value)
			}
			cnt[name]++
			key := fmt.Sprintf("%s|%s#%d", FuncName(fn), shortName(name), cnt[name])
			used := false
			if res.Len() == 1 {
				used = len(*call.Referrers()) > 0
			} else {
				for _, ref := range *call.Referrers() {
					if ex, ok := ref.(*ssa.Extract); ok && ex.Index == ei && len(*ex.Referrers()) > 0 {
						used = true
					}
				}
			}
			if used {
				r.ok(key, c.Pos(call.Pos()), FuncName(fn), "the error result is checked or returned", "error value has uses")
			} else {
				r.fail(key, c.Pos(call.Pos()), FuncName(fn), "the error result is checked or returned", "error result of "+name+" is discarded: a failure would not reach Wait()")
			}
		})
	}
	return r
}

func shortName(s string) string {
	s = strings.ReplaceAll(s, "github.com/bluenviron/mediacommon/v2/pkg/", "mc/")
	s = strings.ReplaceAll(s, modPath, "gohlslib")
	return s
}

// ---------------------------------------------------------------------------

func ruleL7(c *Ctx) *RuleResult {
	r := &RuleResult{Floor: 10, FloorWhat: "Lock sites in client code"}
	li := c.locks()
	la := c.clientLockAnalysis()
	n := 0
	for _, fn := range la.functions() {
		if !InRootPkg(fn) {
			continue
		}
		cnt := 0
		allInstrs(fn, func(in ssa.Instruction) {
			if call, ok := in.(*ssa.Call); ok {
				if op := classifySync(&call.Call); op == opLock || op == opRLock {
					n++
				}
			}
			blocking := ""
			switch x := in.(type) {
			case *ssa.Select:
				if x.Blocking {
					blocking = "blocking select"
				}
			case *ssa.Send:
				blocking = "channel send"
			case *ssa.UnOp:
				if x.Op == token.ARROW {
					blocking = "channel receive"
				}
			case *ssa.Call:
				f := x.Call.StaticCallee()
				switch {
				case classifySync(&x.Call) == opWait:
					blocking = "Cond.Wait"
				case isFuncNamed(f, "time", "Sleep"):
					blocking = "time.Sleep"
				case isMethodNamed(f, "net/http", "Client", "Do"):
					blocking = "HTTP exchange"
				case isMethodNamed(f, "sync", "WaitGroup", "Wait"):
					blocking = "WaitGroup.Wait"
				case isFuncNamed(f, "io", "ReadAll"):
					blocking = "io.ReadAll"
				}
			}
			if blocking == "" {
				return
			}
			_, may, reached := la.heldAt(in)
			if !reached {
				return
			}
			cnt++
			key := fmt.Sprintf("%s|blocking#%d", FuncName(fn), cnt)
			if may == 0 {
				r.ok(key, c.Pos(posOf(in)), FuncName(fn), "no client mutex may be held at a blocking operation", blocking+" with empty may-held set")
			} else {
				r.fail(key, c.Pos(posOf(in)), FuncName(fn), "no client mutex may be held at a blocking operation", blocking+" while "+li.names(may)+" may be held: the other side of the hand-off needs that mutex")
			}
		})
	}
	r.Instances = n
	return r
}

// ---------------------------------------------------------------------------

// mutexStructs: named structs of the root package that contain a mutex field and are used by client code.
func ruleL4c(c *Ctx) *RuleResult {
	r := &RuleResult{Floor: 7, FloorWhat: "fields of client structs with a mutex that are accessed under it"}
	li := c.locks()
	la := c.clientLockAnalysis()
	mux := c.NamedType("", "Muxer")
	n := 0
	for _, cls := range li.classes {
		owner := namedOwner(c, cls.Field)
		if owner == nil || owner == mux || owner.Obj().Pkg().Path() != modPath || owner.Obj().Name() == "muxerServer" {
			continue
		}
		st := owner.Underlying().(*types.Struct)
		fields := map[*types.Var]bool{}
		for i := 0; i < st.NumFields(); i++ {
			if st.Field(i) != cls.Field {
				fields[st.Field(i)] = true
			}
		}
		type acc struct {
			a    fieldAccess
			held bool
			init bool
		}
		per := map[*types.Var][]acc{}
		for _, fn := range la.functions() {
			isInit := c.calledOnlyOnFresh(fn)
			for _, a := range accessesIn(fn) {
				if !fields[a.field] {
					continue
				}
				must, _, reached := la.heldAt(a.instr)
				if !reached {
					continue
				}
				freshBase := freshObject(a.base)
				per[a.field] = append(per[a.field], acc{a, must.hasW(cls), isInit || freshBase})
			}
		}
		var fl []*types.Var
		for f := range per {
			fl = append(fl, f)
		}
		sort.Slice(fl, func(i, j int) bool { return fl[i].Name() < fl[j].Name() })
		for _, f := range fl {
			anyHeld := false
			for _, a := range per[f] {
				if a.held {
					anyHeld = true
				}
			}
			if !anyHeld {
				continue
			}
			n++
			cnt := map[string]int{}
			for _, a := range per[f] {
				cnt[FuncName(a.a.fn)]++
				key := fmt.Sprintf("%s|%s %s#%d", c.fieldName(f), a.a.kind, FuncName(a.a.fn), cnt[FuncName(a.a.fn)])
				what := c.fieldName(f) + " is accessed only while holding " + cls.Name + " (it is accessed under it elsewhere)"
				switch {
				case a.held:
					r.ok(key, c.Pos(posOf(a.a.instr)), FuncName(a.a.fn), what, "holds "+cls.Name)
				case a.init:
					r.ok(key, c.Pos(posOf(a.a.instr)), FuncName(a.a.fn), what, "initialiser: the object is fresh (not yet shared) at every call site")
				default:
					extra := ""
					if _, isChan := f.Type().Underlying().(*types.Chan); isChan {
						extra = ": the wake-up channel must be captured in the critical section that evaluated the predicate, otherwise a concurrent close-and-replace makes the waiter miss the wake-up"
					}
					r.fail(key, c.Pos(posOf(a.a.instr)), FuncName(a.a.fn), what, "accessed without "+cls.Name+extra)
				}
			}
		}
	}
	r.Instances = n
	return r
}

func namedOwner(c *Ctx, f *types.Var) *types.Named {
	for _, path := range libPkgs {
		sc := c.Pkgs[path].Types.Scope()
		for _, nm := range sc.Names() {
			tn, ok := sc.Lookup(nm).(*types.TypeName)
			if !ok {
				continue
			}
			st, ok := tn.Type().Underlying().(*types.Struct)
			if !ok {
				continue
			}
			for i := 0; i < st.NumFields(); i++ {
				if st.Field(i) == f {
					n, _ := tn.Type().(*types.Named)
					return n
				}
			}
		}
	}
	return nil
}

// calledOnlyOnFresh: fn is a method every call of which has a receiver allocated in the caller.
func (c *Ctx) calledOnlyOnFresh(fn *ssa.Function) bool {
	if fn.Signature.Recv() == nil {
		return false
	}
	edges := c.callersOf(fn)
	if len(edges) == 0 {
		return false
	}
	for _, e := range edges {
		if e.Site == nil {
			return false
		}
		args := e.Site.Common().Args
		if e.Site.Common().IsInvoke() || len(args) == 0 {
			return false
		}
		if freshObject(args[0]) {
			continue
		}
		// `x.f = &T{}; x.f.initialize()`: the receiver is a load of a location that the same block
		// just stored a fresh allocation into
		if !loadOfJustStoredAlloc(args[0], e.Site) {
			return false
		}
	}
	return true
}

func loadOfJustStoredAlloc(v ssa.Value, at ssa.Instruction) bool {
	u, ok := v.(*ssa.UnOp)
	if !ok || u.Op != token.MUL {
		return false
	}
	want := accessPath(u.X)
	b := at.Block()
	idx := instrIndex(at)
	for i := idx - 1; i >= 0; i-- {
		switch x := b.Instrs[i].(type) {
		case *ssa.Store:
			if accessPath(x.Addr) == want {
				_, fresh := stripConv(x.Val).(*ssa.Alloc)
				return fresh
			}
		case *ssa.Call:
			return false
		}
	}
	return false
}

// ---------------------------------------------------------------------------

func ruleL3c(c *Ctx) *RuleResult {
	r := &RuleResult{Floor: 2, FloorWhat: "queue mutations"}
	q := c.NamedType("", "clientSegmentQueue")
	if q == nil {
		r.undecided("clientSegmentQueue not found")
		return r
	}
	li := c.locks()
	queueF := c.Field("", "clientSegmentQueue", "queue")
	var cls *lockClass
	for _, k := range li.classes {
		if namedOwner(c, k.Field) == q {
			cls = k
		}
	}
	if queueF == nil || cls == nil {
		r.undecided("clientSegmentQueue.queue / mutex not found")
		return r
	}
	// waiters: a select receiving from a channel field of the queue inside a loop whose condition compares len(queue)
	// direction: waiting while len == 0 (or < k) needs growth; waiting while len > n needs shrinkage
	type waiter struct {
		fn      *ssa.Function
		chanFld *types.Var
		grow    bool
	}
	var waiters []waiter
	ms := c.Prog.MethodSets.MethodSet(types.NewPointer(q))
	var methods []*ssa.Function
	for i := 0; i < ms.Len(); i++ {
		if f := c.Prog.MethodValue(ms.At(i)); f != nil && f.Blocks != nil {
			methods = append(methods, f)
		}
	}
	for _, fn := range methods {
		allInstrs(fn, func(in ssa.Instruction) {
			sel, ok := in.(*ssa.Select)
			if !ok {
				return
			}
			for _, st := range sel.States {
				cf := chanFieldOf(st.Chan, q)
				if cf == nil {
					continue
				}
				// find the loop condition on len(queue) in this function
				for _, b := range fn.Blocks {
					if len(b.Instrs) == 0 {
						continue
					}
					iff, ok := b.Instrs[len(b.Instrs)-1].(*ssa.If)
					if !ok {
						continue
					}
					bo, ok := iff.Cond.(*ssa.BinOp)
					if !ok {
						continue
					}
					if !isLenOfField(bo.X, queueF) {
						continue
					}
					// true edge leads to the select (keeps waiting)
					seenT := reachableBlocks(fn, b.Succs[0].Index, nil, map[int]bool{b.Index: true})
					if !seenT[sel.Block().Index] {
						continue
					}
					switch bo.Op {
					case token.EQL, token.LSS, token.LEQ:
						waiters = append(waiters, waiter{fn, cf, true})
					case token.GTR, token.GEQ:
						waiters = append(waiters, waiter{fn, cf, false})
					}
				}
			}
		})
	}
	if len(waiters) < 2 {
		r.undecided("expected 2 waiters on the segment queue (pull, waitUntilSizeIsBelow), found %d", len(waiters))
		return r
	}
	var growCh, shrinkCh *types.Var
	for _, w := range waiters {
		if w.grow {
			growCh = w.chanFld
		} else {
			shrinkCh = w.chanFld
		}
		r.Notes = append(r.Notes, fmt.Sprintf("waiter %s waits on %s for the queue to %s", FuncName(w.fn), c.fieldName(w.chanFld), map[bool]string{true: "grow", false: "shrink"}[w.grow]))
	}
	// mutations
	for _, fn := range methods {
		cnt := 0
		allInstrs(fn, func(in ssa.Instruction) {
			st, ok := in.(*ssa.Store)
			if !ok {
				return
			}
			if f, _ := fieldOfAddr(st.Addr); f != queueF {
				return
			}
			cnt++
			var need *types.Var
			kind := ""
			switch v := st.Val.(type) {
			case *ssa.Call:
				if b, ok := v.Call.Value.(*ssa.Builtin); ok && b.Name() == "append" {
					need, kind = growCh, "grows"
				}
			case *ssa.Slice:
				need, kind = shrinkCh, "shrinks"
			}
			key := fmt.Sprintf("%s|queue-store#%d", FuncName(fn), cnt)
			if need == nil {
				r.fail(key, c.Pos(st.Pos()), FuncName(fn), "the queue is only changed by append (push) or by re-slicing from the head (pull)", "stored value "+st.Val.String()+" is neither: FIFO order is no longer evident")
				return
			}
			what := "the critical section that " + kind + " the queue closes " + c.fieldName(need) + " and replaces it with a fresh channel before releasing the mutex"
			// after the store, before Unlock: close(load need) and store make(chan) to need
			sec := instrsReachableUntil(fn, st, func(x ssa.Instruction) bool {
				if cc, ok := x.(*ssa.Call); ok && classifySync(&cc.Call) == opUnlock {
					return true
				}
				return false
			})
			var closeI, replI ssa.Instruction
			for x := range sec {
				if cc, ok := x.(*ssa.Call); ok {
					if b, ok := cc.Call.Value.(*ssa.Builtin); ok && b.Name() == "close" {
						if f, _ := loadedField(cc.Call.Args[0]); f == need {
							closeI = x
						}
					}
				}
				if s2, ok := x.(*ssa.Store); ok {
					if f, _ := fieldOfAddr(s2.Addr); f == need {
						if _, ok := s2.Val.(*ssa.MakeChan); ok {
							replI = x
						}
					}
				}
			}
			switch {
			case closeI == nil:
				r.fail(key, c.Pos(st.Pos()), FuncName(fn), what, "no close("+c.fieldName(need)+") between the store and the Unlock: the waiter is never woken")
			case replI == nil || !instrDominates(closeI, replI):
				r.fail(key, c.Pos(st.Pos()), FuncName(fn), what, "the closed channel is not replaced by a fresh one afterwards: the next close panics / later waiters spin")
			default:
				// for shrink the close must be unconditional; for grow it may be conditional on the queue having been empty
				if kind == "shrinks" && !postDominatesUntilUnlock(fn, st, closeI) {
					r.fail(key, c.Pos(st.Pos()), FuncName(fn), what, "close is not executed on every path from the store to the Unlock")
					return
				}
				r.ok(key, c.Pos(st.Pos()), FuncName(fn), what, "close at "+c.Pos(closeI.Pos())+", replaced at "+c.Pos(replI.Pos()))
			}
		})
	}
	return r
}

func chanFieldOf(v ssa.Value, owner *types.Named) *types.Var {
	// direct load of a field, or a local that was loaded from the field
	if f, _ := loadedField(v); f != nil {
		if _, ok := f.Type().Underlying().(*types.Chan); ok {
			return f
		}
	}
	return nil
}

func isLenOfField(v ssa.Value, f *types.Var) bool {
	call, ok := v.(*ssa.Call)
	if !ok {
		return false
	}
	b, ok := call.Call.Value.(*ssa.Builtin)
	if !ok || b.Name() != "len" {
		return false
	}
	lf, _ := loadedField(call.Call.Args[0])
	return lf == f
}

// postDominatesUntilUnlock: every path from `from` to an Unlock passes `must`.
func postDominatesUntilUnlock(fn *ssa.Function, from, must ssa.Instruction) bool {
	found := false
	var c *Ctx
	_ = c
	path := pathAvoidingRaw(fn, from, func(x ssa.Instruction) bool { return x == must }, func(x ssa.Instruction) bool {
		if cc, ok := x.(*ssa.Call); ok && classifySync(&cc.Call) == opUnlock {
			return true
		}
		return false
	})
	found = path
	return !found
}

// pathAvoidingRaw: true if a goal instruction is reachable from `from` without passing a barrier.
func pathAvoidingRaw(fn *ssa.Function, from ssa.Instruction, barrier, goal func(ssa.Instruction) bool) bool {
	scan := func(instrs []ssa.Instruction) (hit, blocked bool) {
		for _, x := range instrs {
			if barrier(x) {
				return false, true
			}
			if goal(x) {
				return true, false
			}
		}
		return false, false
	}
	sb := from.Block()
	hit, blocked := scan(sb.Instrs[instrIndex(from)+1:])
	if hit {
		return true
	}
	if blocked {
		return false
	}
	seen := map[int]bool{}
	var q []int
	for _, s := range sb.Succs {
		q = append(q, s.Index)
	}
	for len(q) > 0 {
		i := q[0]
		q = q[1:]
		if seen[i] {
			continue
		}
		seen[i] = true
		hit, blocked := scan(fn.Blocks[i].Instrs)
		if hit {
			return true
		}
		if blocked {
			continue
		}
		for _, s := range fn.Blocks[i].Succs {
			q = append(q, s.Index)
		}
	}
	return false
}
