package main

// Thirteenth batch: rules written after the thirteenth round of seeded changes.

import (
	"fmt"
	"go/token"
	"go/types"
	"strings"

	"golang.org/x/tools/go/ssa"
)

func init() {
	registerRule("F2c", "a listed segment has had its init decision: in muxerStream.rotateSegments no path leads from the append of the closed segment to a return without passing the test that decides the regeneration of the init file (a fallible step in between would skip it)", ruleF2c)
	registerRule("G7n", "rejection comes before service: in a blocking-reload wait loop no path from the loop head reaches the generated playlist without passing the range test whose failing side answers 400", ruleG7n)
	registerRule("F7u", "the next iteration walks the playlist just downloaded: in runTraditional the loop-carried playlist is, on the back edge, the result of downloadPlaylist itself (not a choice between the old and the new one)", ruleF7u)
	registerRule("F7v", "start is start and length is length: every call of downloadSegment passes a ...Start field (or nil) for the start parameter and a ...Length field (or nil) for the length parameter", ruleF7v)
	registerRule("K2c", "no uncancellable join in a routine: sync.WaitGroup.Wait is called in client code only by the routine pool's close()", ruleK2c)
	registerRule("K4c", "the outcome channel is never closed: no close() of Client.outErr (a closed channel yields a second, nil, outcome to every later Wait)", ruleK4c)
	registerRule("G11o", "peak and mean share their unit: bandwidth() converts no duration with Milliseconds() / Microseconds() (truncation makes the mean exceed the peak)", ruleG11o)
}

func ruleF2c(c *Ctx) *RuleResult {
	r := &RuleResult{Floor: 1, FloorWhat: "appends of a closed segment"}
	fn := c.Method("", "muxerStream", "rotateSegments")
	segF := c.Field("", "muxerStream", "segments")
	presentF := c.Field("", "muxerStream", "initFilePresent")
	variantF := c.Field("", "muxerStream", "variant")
	if fn == nil || segF == nil || presentF == nil {
		r.undecided("muxerStream.rotateSegments / segments / initFilePresent not found")
		return r
	}
	isDecision := func(x ssa.Instruction) bool {
		iff, ok := x.(*ssa.If)
		if !ok {
			return false
		}
		hit := false
		var walk func(v ssa.Value, d int)
		walk = func(v ssa.Value, d int) {
			if v == nil || d > 4 || hit {
				return
			}
			if f, _ := loadedField(v); f == presentF {
				hit = true
				return
			}
			switch y := v.(type) {
			case *ssa.UnOp:
				walk(y.X, d+1)
			case *ssa.BinOp:
				walk(y.X, d+1)
				walk(y.Y, d+1)
			case *ssa.Call:
				if y.Call.IsInvoke() && strings.Contains(y.Call.Method.Name(), "ForcedRotation") {
					hit = true
				}
				if g := y.Call.StaticCallee(); g != nil && strings.Contains(g.Name(), "ForcedRotation") {
					hit = true
				}
			case *ssa.Phi:
				for _, e := range y.Edges {
					walk(e, d+1)
				}
			}
		}
		walk(iff.Cond, 0)
		return hit
	}
	// the MPEG-TS variant has no init file: its side of a variant test is not a path of interest
	isRet := func(x ssa.Instruction) bool { _, ok := x.(*ssa.Return); return ok }
	n := 0
	for _, st := range storesToField(c, fn, segF) {
		// appends only (the drop of the window head re-slices)
		isAppend := false
		if call, ok := st.Val.(*ssa.Call); ok {
			if bi, ok := call.Call.Value.(*ssa.Builtin); ok && bi.Name() == "append" {
				isAppend = true
			}
		}
		if !isAppend {
			continue
		}
		n++
		key := fmt.Sprintf("rotateSegments|init-decision#%d", n)
		what := "once the closed segment is listed, the init file is regenerated if it has to be, whatever fails afterwards"
		// cut the MPEG-TS side of variant tests so that only fMP4 paths count
		cut := map[edge]bool{}
		if variantF != nil {
			for _, ci := range ifsOnV(fn, func(v ssa.Value) bool {
				bo, ok := v.(*ssa.BinOp)
				if !ok || (bo.Op != token.EQL && bo.Op != token.NEQ) {
					return false
				}
				f, _ := loadedField(bo.X)
				k, isK := bo.Y.(*ssa.Const)
				return f == variantF && isK && k.Value != nil && strings.Contains(constName(c, bo.Y.Type(), k.Value), "MPEGTS")
			}) {
				cut[ci.edgeWhen(ci.Val.(*ssa.BinOp).Op == token.EQL)] = true
			}
		}
		path := pathAvoidingCut(c, fn, st, cut, isDecision, isRet)
		if path == nil {
			r.ok(key, c.Pos(st.Pos()), FuncName(fn), what, "every path to a return passes the regeneration test")
		} else {
			r.fail(key, c.Pos(st.Pos()), FuncName(fn), what, "a return is reachable after the append without the regeneration test: if the step in between fails (the file of the next segment cannot be created) the segment with the new parameters stays listed under the old init file", path...)
		}
	}
	r.Instances = n
	return r
}

func ruleG7n(c *Ctx) *RuleResult {
	r := &RuleResult{Floor: 1, FloorWhat: "blocking-reload wait loops with a range test"}
	n := 0
	for _, wl := range c.waitLoops() {
		fn := wl.fn
		if fn == nil || !InRootPkg(fn) || wl.head == nil || isClientFunc(enclosingNamed(fn)) {
			continue
		}
		// the 400 block inside the loop
		var t400 *ssa.BasicBlock
		cand := map[*ssa.BasicBlock]bool{}
		for b := range wl.body {
			cand[b] = true
			for _, s := range b.Succs {
				cand[s] = true // the rejecting block leaves the loop
			}
		}
		for b := range cand {
			for _, in := range b.Instrs {
				if ci, ok := in.(ssa.CallInstruction); ok && ci.Common().IsInvoke() && ci.Common().Method.Name() == "WriteHeader" && len(ci.Common().Args) == 1 {
					if k, isK := constInt(ci.Common().Args[0]); isK && k == 400 {
						t400 = b
					}
				}
			}
		}
		if t400 == nil {
			continue
		}
		n++
		key := fmt.Sprintf("%s|range-first#%d", FuncName(fn), n)
		what := "an out-of-range _HLS_msn is rejected before it can be taken for servable"
		// the chain of pure comparison blocks that leads to the 400 block
		// the blocks of the range test: those that branch to the 400 block directly (`a || b` gives two)
		R := map[*ssa.BasicBlock]bool{}
		for b := range wl.body {
			if _, ok := b.Instrs[len(b.Instrs)-1].(*ssa.If); !ok {
				continue
			}
			for _, s := range b.Succs {
				if s == t400 {
					R[b] = true
				}
			}
		}
		inR := func(x ssa.Instruction) bool { return R[x.Block()] }
		isSuccess := func(x ssa.Instruction) bool {
			ci, ok := x.(ssa.CallInstruction)
			if !ok {
				return false
			}
			com := ci.Common()
			if g := com.StaticCallee(); g != nil && strings.HasPrefix(g.Name(), "generate") && InRootPkg(g) {
				return true
			}
			if com.StaticCallee() == nil && !com.IsInvoke() {
				if _, isBi := com.Value.(*ssa.Builtin); !isBi {
					return true
				}
			}
			return false
		}
		path := pathAvoidingFromBlock(c, fn, wl.head, inR, isSuccess)
		if path == nil {
			r.ok(key, c.Pos(wl.wait.Pos()), FuncName(fn), what, "every path from the loop head to the generator passes the range test")
		} else {
			r.fail(key, c.Pos(wl.wait.Pos()), FuncName(fn), what, "the playlist generator is reachable from the loop head without the range test: `_HLS_msn` of a segment that has left the window (and no `_HLS_part`) satisfies `msn < nextSegmentID` and is answered 200 with a playlist that no longer contains it", path...)
		}
	}
	r.Instances = n
	return r
}

func ruleF7u(c *Ctx) *RuleResult {
	r := &RuleResult{Floor: 1, FloorWhat: "playlist reloads of the traditional loop"}
	fn := c.Method("", "clientStreamDownloader", "runTraditional")
	dl := c.Method("", "clientStreamDownloader", "downloadPlaylist")
	if fn == nil || dl == nil {
		r.undecided("clientStreamDownloader.runTraditional / downloadPlaylist not found")
		return r
	}
	n := 0
	allInstrs(fn, func(in ssa.Instruction) {
		call, ok := in.(*ssa.Call)
		if !ok || call.Call.StaticCallee() != dl || !inLoopBlock(fn, call.Block()) {
			return
		}
		n++
		key := fmt.Sprintf("runTraditional|reload-used#%d", n)
		what := "the playlist downloaded at the end of an iteration is the one the next iteration reads"
		var res ssa.Value
		for _, ref := range *call.Referrers() {
			if ex, ok := ref.(*ssa.Extract); ok && ex.Index == 0 {
				res = ex
			}
		}
		if res == nil {
			r.fail(key, c.Pos(call.Pos()), FuncName(fn), what, "the result of the reload is dropped")
			return
		}
		// some φ at a loop head takes the result directly on a back edge
		direct, viaChoice := false, false
		for _, ref := range *res.Referrers() {
			phi, ok := ref.(*ssa.Phi)
			if !ok {
				continue
			}
			if inLoopBlock(fn, phi.Block()) {
				// is this φ itself merged again before the loop head (a choice between old and new)?
				isChoice := false
				for _, e := range phi.Edges {
					if e == ssa.Value(phi) {
						isChoice = true // a back edge that keeps the previous playlist
					}
				}
				for _, e := range phi.Edges {
					if p2, ok := e.(*ssa.Phi); ok && p2 != phi {
						for _, e2 := range p2.Edges {
							if e2 == ssa.Value(phi) {
								isChoice = true // phi feeds the head φ p2 and p2 (the old value) feeds phi: old-or-new
							}
						}
					}
				}
				if isChoice {
					viaChoice = true
				} else {
					direct = true
				}
			}
		}
		switch {
		case viaChoice:
			r.fail(key, c.Pos(call.Pos()), FuncName(fn), what, "the loop keeps the previous playlist on some condition: a reload that differs only by EXT-X-ENDLIST is discarded, the client never sees the end of the stream")
		case direct:
			r.ok(key, c.Pos(call.Pos()), FuncName(fn), what, "the result flows to the loop head")
		default:
			r.undecided("F7u: the use of the reloaded playlist in runTraditional has a form the rule does not know")
		}
	})
	r.Instances = n
	return r
}

func ruleF7v(c *Ctx) *RuleResult {
	r := &RuleResult{Floor: 2, FloorWhat: "calls of downloadSegment"}
	fn := c.Method("", "clientStreamDownloader", "downloadSegment")
	if fn == nil {
		r.undecided("clientStreamDownloader.downloadSegment not found")
		return r
	}
	si, li := -1, -1
	for i, p := range fn.Params {
		switch strings.ToLower(p.Name()) {
		case "start":
			si = i
		case "length":
			li = i
		}
	}
	if si < 0 || li < 0 {
		r.undecided("F7v: the start / length parameters of downloadSegment were not recognised by name")
		return r
	}
	n := 0
	for _, e := range c.callersOf(fn) {
		if e.Site == nil {
			continue
		}
		n++
		key := fmt.Sprintf("%s|range-args#%d", FuncName(e.Caller.Func), n)
		what := "the byte-range start goes to `start`, the length to `length`"
		args := e.Site.Common().Args
		bad := ""
		check := func(a ssa.Value, want string) {
			if k, isK := a.(*ssa.Const); isK && k.IsNil() {
				return
			}
			if f, _ := loadedField(a); f != nil {
				if !strings.Contains(f.Name(), want) {
					bad = "the " + strings.ToLower(want) + " parameter receives " + f.Name()
				}
				return
			}
			if p, isP := a.(*ssa.Parameter); isP {
				if !strings.Contains(strings.ToLower(p.Name()), strings.ToLower(want)) {
					bad = "the " + strings.ToLower(want) + " parameter receives " + p.Name()
				}
			}
		}
		check(args[si], "Start")
		check(args[li], "Length")
		if bad == "" {
			r.ok(key, c.Pos(e.Site.Pos()), FuncName(e.Caller.Func), what, "matching fields")
		} else {
			r.fail(key, c.Pos(e.Site.Pos()), FuncName(e.Caller.Func), what, bad+": `n@o` is requested as bytes=n-(n+o-1)")
		}
	}
	r.Instances = n
	return r
}

func ruleK2c(c *Ctx) *RuleResult {
	r := &RuleResult{Floor: 1, FloorWhat: "WaitGroup joins in client code"}
	n := 0
	for _, fn := range c.clientFuncs() {
		allInstrs(fn, func(in ssa.Instruction) {
			call, ok := in.(*ssa.Call)
			if !ok || !isMethodNamed(call.Call.StaticCallee(), "sync", "WaitGroup", "Wait") {
				return
			}
			n++
			key := fmt.Sprintf("%s|join#%d", FuncName(fn), n)
			what := "a routine never waits for other routines without listening to its context"
			top := enclosingNamed(fn)
			if top != nil && top.Name() == "close" && top.Signature.Recv() != nil && strings.Contains(top.Signature.Recv().Type().String(), "clientRoutinePool") {
				r.ok(key, c.Pos(call.Pos()), FuncName(fn), what, "the pool's close(), after cancelling")
			} else {
				r.fail(key, c.Pos(call.Pos()), FuncName(fn), what, "WaitGroup.Wait cannot be cancelled: a counterpart that left early (cancelled pacing sleep, undecodable sample) never calls Done, the routine blocks for ever and the pool cannot be joined")
			}
		})
	}
	r.Instances = n
	return r
}

func ruleK4c(c *Ctx) *RuleResult {
	r := &RuleResult{Floor: 1, FloorWhat: "uses of Client.outErr"}
	f := c.Field("", "Client", "outErr")
	if f == nil {
		r.undecided("Client.outErr not found")
		return r
	}
	n := 0
	bad := ""
	for _, fn := range c.clientFuncs() {
		allInstrs(fn, func(in ssa.Instruction) {
			for _, op := range in.Operands(nil) {
				if lf, _ := loadedField(*op); lf == f {
					n++
				}
			}
			var com *ssa.CallCommon
			switch x := in.(type) {
			case *ssa.Call:
				com = &x.Call
			case *ssa.Defer:
				com = &x.Call
			case *ssa.Go:
				com = &x.Call
			}
			if com == nil {
				return
			}
			if bi, ok := com.Value.(*ssa.Builtin); ok && bi.Name() == "close" {
				if lf, _ := loadedField(com.Args[0]); lf == f {
					bad = c.Pos(in.Pos())
				}
			}
		})
	}
	key := "Client.outErr|never-closed"
	what := "Wait yields exactly one outcome"
	if bad == "" {
		r.ok(key, "-", "Client", what, "no close of the channel")
	} else {
		r.fail(key, bad, "Client", what, "the channel is closed: after the real outcome every further receive from Wait() returns (nil, false) at once")
	}
	r.Instances = n
	return r
}

func ruleG11o(c *Ctx) *RuleResult {
	r := &RuleResult{Floor: 1, FloorWhat: "bandwidth computations"}
	fn := c.Func("", "bandwidth")
	if fn == nil {
		r.undecided("bandwidth() not found")
		return r
	}
	r.Instances = 1
	bad := ""
	allInstrs(fn, func(in ssa.Instruction) {
		if call, ok := in.(*ssa.Call); ok {
			g := call.Call.StaticCallee()
			if g != nil && g.Signature.Recv() != nil && typeIs(g.Signature.Recv().Type(), "time", "Duration") {
				switch g.Name() {
				case "Milliseconds", "Microseconds", "Round", "Truncate":
					bad = "Duration." + g.Name() + " at " + c.Pos(call.Pos())
				}
			}
		}
	})
	key := "bandwidth|one-unit"
	what := "the mean is computed from the same (nanosecond) durations as the peak"
	if bad == "" {
		r.ok(key, c.Pos(fn.Pos()), FuncName(fn), what, "no truncating conversion")
	} else {
		r.fail(key, c.Pos(fn.Pos()), FuncName(fn), what, "the summed duration passes through "+bad+": truncation inflates the mean, which exceeds the peak for a single listed segment")
	}
	return r
}

var _ = types.Typ

// ---------------------------------------------------------------------------

func init() {
	registerRule("T5c", "parameter sets are copied under their own name: in the codec conversion tables a field that exists under the same name on both sides is filled from that field (PPS from PPS, not from SPS)", ruleT5c)
	registerRule("F39b", "absolute times are not accumulated: in the fMP4 track processor every time.Time.Add that produces a sample's NTP starts from the entry's own ntp field (offset computed from dts - entry.dts), never from a loop-carried time", ruleF39b)
}

func ruleT5c(c *Ctx) *RuleResult {
	r := &RuleResult{Floor: 10, FloorWhat: "field copies of the codec conversion tables"}
	n := 0
	for _, name := range []string{"FromFMP4", "ToFMP4", "FromMPEGTS", "ToMPEGTS"} {
		fn := c.Func("pkg/codecs", name)
		if fn == nil {
			r.undecided("codecs.%s not found", name)
			continue
		}
		k := 0
		allInstrs(fn, func(in ssa.Instruction) {
			st, ok := in.(*ssa.Store)
			if !ok {
				return
			}
			fa, ok := st.Addr.(*ssa.FieldAddr)
			if !ok {
				return
			}
			dstStruct := derefStruct(fa.X.Type())
			if dstStruct == nil {
				return
			}
			dst := dstStruct.Field(fa.Field)
			srcF, base := loadedField(stripConv(st.Val))
			if srcF == nil || base == nil {
				return
			}
			srcStruct := derefStruct(base.Type())
			if srcStruct == nil {
				return
			}
			// does the source struct have a field with the destination's name?
			same := false
			for i := 0; i < srcStruct.NumFields(); i++ {
				if srcStruct.Field(i).Name() == dst.Name() {
					same = true
				}
			}
			if !same {
				return
			}
			n++
			k++
			key := fmt.Sprintf("codecs.%s|%s#%d", name, dst.Name(), k)
			what := "a field both codec types have is copied from the field of the same name"
			if srcF.Name() == dst.Name() {
				r.ok(key, c.Pos(st.Pos()), FuncName(fn), what, dst.Name()+" ← "+srcF.Name())
			} else {
				r.fail(key, c.Pos(st.Pos()), FuncName(fn), what, dst.Name()+" is filled from "+srcF.Name()+": the track reported by the client (or the init segment the muxer writes) carries the wrong parameter set")
			}
		})
	}
	r.Instances = n
	return r
}

func ruleF39b(c *Ctx) *RuleResult {
	r := &RuleResult{Floor: 1, FloorWhat: "NTP computations of the fMP4 track processor"}
	fn := c.Method("", "clientTrackProcessorFMP4", "process")
	ntpF := c.Field("", "procEntryFMP4", "ntp")
	if fn == nil || ntpF == nil {
		r.undecided("clientTrackProcessorFMP4.process / procEntryFMP4.ntp not found")
		return r
	}
	n := 0
	allInstrs(fn, func(in ssa.Instruction) {
		call, ok := in.(*ssa.Call)
		if !ok || !isMethodNamed(call.Call.StaticCallee(), "time", "Time", "Add") {
			return
		}
		n++
		key := fmt.Sprintf("process|ntp-from-entry#%d", n)
		what := "a sample's absolute time is the entry's time plus one rounded offset"
		recv := stripConv(call.Call.Args[0])
		okSrc := false
		if u, ok := recv.(*ssa.UnOp); ok && u.Op == token.MUL {
			if f, _ := loadedField(u.X); f == ntpF {
				okSrc = true
			}
		}
		if okSrc {
			r.ok(key, c.Pos(call.Pos()), FuncName(fn), what, "starts from entry.ntp")
		} else {
			r.fail(key, c.Pos(call.Pos()), FuncName(fn), what, "the sum starts from "+describeVal(recv)+", a running value: each sample adds a separately truncated duration, the error accumulates over the fragment and tracks with different timescales drift apart")
		}
	})
	r.Instances = n
	return r
}
