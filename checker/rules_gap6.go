package main

// Sixth gap batch.

import (
	"fmt"
	"go/token"
	"go/types"
	"sort"
	"strings"

	"golang.org/x/tools/go/ssa"
)

func init() {
	registerRule("K17", "a stage ends silently only when cancelled: in the run() of every pool runnable (and in the loops it returns from) a `return nil` is control dependent on a receive from ctx.Done() or on the false result of a cancellable wait; every other exit returns an error", ruleK17)
	registerRule("F7q", "one download per throttle: the functions between runTraditional and downloadSegment call downloadSegment and push a downloaded payload outside every loop", ruleF7q)
	registerRule("K18", "one leading stream: in clientPrimaryDownloader.run exactly one stream literal per playlist kind is created with isLeading true, outside every loop; the literals created in the rendition loop are not leading", ruleK18)
	registerRule("G11h", "the video set is one set: the codec types isVideo accepts are the types for which populateMultivariantPlaylist stores a RESOLUTION and the types the segmenter writes through a video writer", ruleG11h)
	registerRule("P6b", "created means owned: after a segment's initialize() succeeded, every path of the creating function to a return stores the segment into the open slot or closes it", ruleP6b)
	registerRule("V4j", "request code asserts the open slot only where it was seen non-nil: every single-value type assertion on the value of muxerStream.nextSegment in request code is control dependent on that slot's nil test (or on the part predicate / content gate that implies it)", ruleV4j)
	registerRule("T22", "a key tag is omitted only for an equal key: in Media.Marshal the key tag is printed when the segment has a key and it differs (Equal) from the key last printed, and the key last printed is updated where the tag is printed", ruleT22)
	registerRule("T25", "integers are decimal on both sides: every ParseUint / ParseInt / FormatUint / FormatInt of the playlist packages uses base 10, and a parse result narrowed to int was parsed with at most 31 bits", ruleT25)
	registerRule("T7s", "the mirror writes into the part's own buffer: the RAM side of the writer handed out by partDisk.Writer is the buffer field of the receiver, the field partDisk.Reader and the size computations read", ruleT7s)
}

func ruleK17(c *Ctx) *RuleResult {
	r := &RuleResult{Floor: 2, FloorWhat: "nil returns of pool stages"}
	n := 0
	// run methods of types passed to rp.add: every method named run with (ctx) error signature in client code
	for _, fn := range c.clientFuncs() {
		if fn.Parent() != nil || fn.Name() != "run" || fn.Signature.Recv() == nil {
			continue
		}
		res := fn.Signature.Results()
		if res.Len() != 1 || !isErrorType(res.At(0).Type()) {
			continue
		}
		k := 0
		for _, b := range fn.Blocks {
			ret, ok := b.Instrs[len(b.Instrs)-1].(*ssa.Return)
			if !ok || b == fn.Recover {
				continue
			}
			kk, isC := retVal(ret, 0).(*ssa.Const)
			if !isC || !kk.IsNil() {
				continue
			}
			n++
			k++
			key := fmt.Sprintf("%s|nil-return#%d", FuncName(fn), k)
			what := "the stage returns nil only after its context was cancelled"
			// the block is the Done() arm of a select, or follows a receive from Done(), or a !ok of a wait
			okCancel := false
			for e := range controlEdges(fn, b) {
				iff := fn.Blocks[e.from].Instrs[len(fn.Blocks[e.from].Instrs)-1].(*ssa.If)
				// select arm: index == k where state k is Done()
				if bo, ok := iff.Cond.(*ssa.BinOp); ok && bo.Op == token.EQL {
					if ex, ok := bo.X.(*ssa.Extract); ok {
						if sel, ok := ex.Tuple.(*ssa.Select); ok {
							if idx, isK := constInt(bo.Y); isK && int(idx) < len(sel.States) && isDoneChan(sel.States[idx].Chan) {
								okCancel = true
							}
						}
					}
				}
				// `if !ok` of a cancellable library wait: the edge on which ok is false
				v := iff.Cond
				neg := false
				for {
					if u, ok := v.(*ssa.UnOp); ok && u.Op == token.NOT {
						v = u.X
						neg = !neg
						continue
					}
					break
				}
				condTrue := fn.Blocks[e.from].Succs[0].Index == e.to
				okFalse := condTrue == neg
				if ex, ok := v.(*ssa.Extract); ok && okFalse {
					if call, ok := ex.Tuple.(*ssa.Call); ok && callTakesContext(call) {
						okCancel = true
					}
				}
				if call, ok := v.(*ssa.Call); ok && okFalse && callTakesContext(call) {
					okCancel = true
				}
			}
			// a bare `<-ctx.Done()` in a dominating position
			allInstrs(fn, func(x ssa.Instruction) {
				if u, ok := x.(*ssa.UnOp); ok && u.Op == token.ARROW && isDoneChan(u.X) && instrDominates(u, ret) {
					okCancel = true
				}
			})
			if okCancel {
				r.ok(key, c.Pos(posOf(ret)), FuncName(fn), what, "after cancellation")
			} else {
				r.fail(key, c.Pos(posOf(ret)), FuncName(fn), what, "a nil return that does not follow a cancellation: the routine ends without reporting anything, nothing cancels the pool and Wait never yields")
			}
		}
	}
	r.Instances = n
	return r
}

func callTakesContext(call *ssa.Call) bool {
	for _, a := range call.Call.Args {
		if typeIs(a.Type(), "context", "Context") {
			return true
		}
	}
	return false
}

func ruleF7q(c *Ctx) *RuleResult {
	r := &RuleResult{Floor: 2, FloorWhat: "downloads and pushes below runTraditional"}
	fq := c.Method("", "clientStreamDownloader", "runTraditional")
	push := c.Method("", "clientSegmentQueue", "push")
	if fq == nil || push == nil {
		r.undecided("runTraditional / clientSegmentQueue.push not found")
		return r
	}
	n := 0
	// the same-receiver functions below runTraditional (whose own loop is the throttled one)
	helpers := []*ssa.Function{fq}
	for i := 0; i < len(helpers) && i < 10; i++ {
		allInstrs(helpers[i], func(in ssa.Instruction) {
			if call, ok := in.(*ssa.Call); ok {
				g := call.Call.StaticCallee()
				if g != nil && g.Blocks != nil && InRootPkg(g) && g.Signature.Recv() != nil && namedOf(g.Signature.Recv().Type()) == namedOf(fq.Signature.Recv().Type()) &&
					g.Name() != "downloadSegment" && g.Name() != "downloadPlaylist" {
					helpers = appendUnique(helpers, g)
				}
			}
		})
	}
	// helpers that download or queue, directly or through another helper
	does := map[*ssa.Function]bool{}
	for changed := true; changed; {
		changed = false
		for _, h := range helpers[1:] {
			if does[h] {
				continue
			}
			allInstrs(h, func(in ssa.Instruction) {
				if call, ok := in.(*ssa.Call); ok {
					if g := call.Call.StaticCallee(); g != nil && (g.Name() == "downloadSegment" || g == push || does[g]) && !does[h] {
						does[h] = true
						changed = true
					}
				}
			})
		}
	}
	for _, fn := range helpers[1:] {
		allInstrs(fn, func(in ssa.Instruction) {
			call, ok := in.(*ssa.Call)
			if !ok {
				return
			}
			g := call.Call.StaticCallee()
			if g == nil {
				return
			}
			if does[g] && inLoopBlock(fn, call.Block()) {
				n++
				r.fail(fmt.Sprintf("%s|%s#%d", FuncName(fn), g.Name(), n), c.Pos(call.Pos()), FuncName(fn), "one segment is downloaded and queued per call (the throttle sits between the calls)",
					"the downloading helper is called in a loop: several segments are fetched and queued without passing the throttle")
				return
			}
			isDL := g.Name() == "downloadSegment"
			isPush := g == push
			if isPush {
				if k, isC := call.Call.Args[1].(*ssa.Const); isC && k.IsNil() {
					return
				}
			}
			if !isDL && !isPush {
				return
			}
			n++
			key := fmt.Sprintf("%s|%s#%d", FuncName(fn), g.Name(), n)
			what := "one segment is downloaded and queued per call (the throttle sits between the calls)"
			if inLoopBlock(fn, call.Block()) {
				r.fail(key, c.Pos(call.Pos()), FuncName(fn), what, "the call sits in a loop: several segments are fetched and queued without passing the throttle, the backlog is not bounded by two")
			} else {
				r.ok(key, c.Pos(call.Pos()), FuncName(fn), what, "outside every loop")
			}
		})
	}
	r.Instances = n
	return r
}

func ruleK18(c *Ctx) *RuleResult {
	r := &RuleResult{Floor: 1, FloorWhat: "stream literals of the primary downloader"}
	leadF := c.Field("", "clientStreamDownloader", "isLeading")
	if leadF == nil {
		r.undecided("clientStreamDownloader.isLeading not found")
		return r
	}
	n := 0
	for _, cl := range c.compositeLiterals("clientStreamDownloader") {
		v, has := cl.fields[leadF]
		n++
		key := fmt.Sprintf("%s|stream-literal#%d", FuncName(cl.fn), n)
		what := "a literal created in a loop is not leading; a leading literal is created outside every loop"
		lead, isC := false, false
		if has {
			lead, isC = constBool(v)
		} else {
			isC = true
		}
		inLoop := inLoopBlock(cl.fn, cl.alloc.Block())
		switch {
		case !isC:
			// a parameter of a construction helper: judged at the call sites
			p, isParam := v.(*ssa.Parameter)
			if !isParam {
				r.undecided("K18: isLeading of a stream literal in %s is neither a constant nor a parameter: form not known to the rule", FuncName(cl.fn))
				continue
			}
			idx := -1
			for i, pp := range cl.fn.Params {
				if pp == p {
					idx = i
				}
			}
			bad := ""
			for _, e := range c.callersOf(cl.fn) {
				if e.Site == nil || idx < 0 {
					continue
				}
				b, isK := constBool(e.Site.Common().Args[idx])
				if !isK {
					bad = "a call site passes a computed isLeading"
				} else if b && inLoopBlock(e.Caller.Func, e.Site.Block()) {
					bad = "a leading stream is created inside a loop"
				}
			}
			if bad == "" {
				r.ok(key, c.Pos(cl.alloc.Pos()), FuncName(cl.fn), what, "through a helper; leading only outside loops")
			} else {
				r.fail(key, c.Pos(cl.alloc.Pos()), FuncName(cl.fn), what, bad+": two streams install a time origin and close the ready channel twice")
			}
		case lead && inLoop:
			r.fail(key, c.Pos(cl.alloc.Pos()), FuncName(cl.fn), what, "a leading stream is created inside a loop: two streams install a time origin and close the ready channel twice")
		default:
			r.ok(key, c.Pos(cl.alloc.Pos()), FuncName(cl.fn), what, fmt.Sprintf("isLeading=%v, in loop=%v", lead, inLoop))
		}
	}
	r.Instances = n
	return r
}

func ruleG11h(c *Ctx) *RuleResult {
	r := &RuleResult{Floor: 1, FloorWhat: "video type sets"}
	iv := c.Func("", "isVideo")
	pop := c.Method("", "muxerStream", "populateMultivariantPlaylist")
	resF := c.Field("pkg/playlist", "MultivariantVariant", "Resolution")
	if iv == nil || pop == nil || resF == nil {
		r.undecided("isVideo / populateMultivariantPlaylist / MultivariantVariant.Resolution not found")
		return r
	}
	// (a) types isVideo returns true for
	setA := map[string]bool{}
	allInstrs(iv, func(in ssa.Instruction) {
		if ta, ok := in.(*ssa.TypeAssert); ok && ta.CommaOk {
			setA[types.TypeString(ta.AssertedType, func(p *types.Package) string { return p.Name() })] = true
		}
	})
	// (b) types under which Resolution is stored
	setB := map[string]bool{}
	allInstrs(pop, func(in ssa.Instruction) {
		st, ok := in.(*ssa.Store)
		if !ok {
			return
		}
		if f, _ := fieldOfAddr(st.Addr); f != resF {
			return
		}
		for e := range controlEdges(pop, st.Block()) {
			iff := pop.Blocks[e.from].Instrs[len(pop.Blocks[e.from].Instrs)-1].(*ssa.If)
			if ex, ok := iff.Cond.(*ssa.Extract); ok && ex.Index == 1 {
				if ta, ok := ex.Tuple.(*ssa.TypeAssert); ok && pop.Blocks[e.from].Succs[1].Index == e.to {
					// cutting the FALSE edge does not make the store unreachable; we want the asserted type whose TRUE edge leads here
					_ = ta
				}
				if ta, ok := ex.Tuple.(*ssa.TypeAssert); ok && pop.Blocks[e.from].Succs[0].Index == e.to {
					setB[types.TypeString(ta.AssertedType, func(p *types.Package) string { return p.Name() })] = true
				}
			}
		}
	})
	// (c) codec types of the tracks the video writers of the segmenter assert
	setC := map[string]bool{}
	si := c.segmenter()
	for _, fn := range si.video {
		allInstrs(fn, func(in ssa.Instruction) {
			if ta, ok := in.(*ssa.TypeAssert); ok && !ta.CommaOk {
				s := types.TypeString(ta.AssertedType, func(p *types.Package) string { return p.Name() })
				if strings.HasPrefix(s, "*codecs.") {
					setC[s] = true
				}
			}
		})
	}
	keys := func(m map[string]bool) string {
		var l []string
		for k := range m {
			l = append(l, k)
		}
		sort.Strings(l)
		return strings.Join(l, " ")
	}
	key := "isVideo|agreement"
	what := "isVideo, the RESOLUTION cases and the video writers name the same codec types"
	a, b, cc := keys(setA), keys(setB), keys(setC)
	switch {
	case a == "" || b == "" || cc == "":
		r.undecided("G11h: one of the three type sets is empty (isVideo: [%s], RESOLUTION: [%s], writers: [%s]): form not known to the rule", a, b, cc)
	case a == b && b == cc:
		r.ok(key, c.Pos(iv.Pos()), FuncName(iv), what, a)
	default:
		r.fail(key, c.Pos(iv.Pos()), FuncName(iv), what, "isVideo: ["+a+"], RESOLUTION: ["+b+"], video writers: ["+cc+"]: a video track is treated as an audio rendition (or the reverse) in one place")
	}
	r.Instances = 1
	return r
}

func ruleP6b(c *Ctx) *RuleResult {
	r := &RuleResult{Floor: 2, FloorWhat: "successful initialisations of segments"}
	slotF := c.Field("", "muxerStream", "nextSegment")
	if slotF == nil {
		r.undecided("muxerStream.nextSegment not found")
		return r
	}
	n := 0
	for _, fn := range c.Funcs {
		if !InRootPkg(fn) {
			continue
		}
		allInstrs(fn, func(in ssa.Instruction) {
			call, ok := in.(*ssa.Call)
			if !ok {
				return
			}
			g := call.Call.StaticCallee()
			if g == nil || g.Name() != "initialize" || g.Signature.Recv() == nil {
				return
			}
			tn := ""
			if nt := namedOf(g.Signature.Recv().Type()); nt != nil {
				tn = nt.Obj().Name()
			}
			if tn != "muxerSegmentFMP4" && tn != "muxerSegmentMPEGTS" {
				return
			}
			n++
			key := fmt.Sprintf("%s|%s-owned#%d", FuncName(fn), tn, n)
			what := "after initialize() succeeded the segment is stored into the open slot or closed on every path to a return"
			seg := call.Call.Args[0]
			// success edge of `err != nil`
			cut := map[edge]bool{}
			for _, ref := range *call.Referrers() {
				bo, ok := ref.(*ssa.BinOp)
				if !ok || (bo.Op != token.NEQ && bo.Op != token.EQL) {
					continue
				}
				for _, r2 := range *bo.Referrers() {
					if iff, ok := r2.(*ssa.If); ok {
						idx := 0 // NEQ: true edge = failure
						if bo.Op == token.EQL {
							idx = 1
						}
						cut[edge{iff.Block().Index, iff.Block().Succs[idx].Index}] = true
					}
				}
			}
			isSettle := func(x ssa.Instruction) bool {
				switch y := x.(type) {
				case *ssa.Store:
					if f, _ := fieldOfAddr(y.Addr); f == slotF {
						v := y.Val
						if mi, ok := v.(*ssa.MakeInterface); ok {
							v = mi.X
						}
						return canon(v) == canon(seg)
					}
				case *ssa.Call:
					if gg := y.Call.StaticCallee(); gg != nil && gg.Name() == "close" && len(y.Call.Args) > 0 && canon(y.Call.Args[0]) == canon(seg) {
						return true
					}
				}
				return false
			}
			isRet := func(x ssa.Instruction) bool { _, ok := x.(*ssa.Return); return ok }
			if path := pathAvoidingCut(c, fn, call, cut, isSettle, isRet); path != nil {
				r.fail(key, c.Pos(call.Pos()), FuncName(fn), what, "a return is reachable with the freshly created segment neither in the slot nor closed: its file stays in Directory for ever (nothing knows it)", path...)
			} else {
				r.ok(key, c.Pos(call.Pos()), FuncName(fn), what, "owned on every path")
			}
		})
	}
	r.Instances = n
	return r
}

func ruleV4j(c *Ctx) *RuleResult {
	r := &RuleResult{Floor: 1, FloorWhat: "assertions of the open slot in request code"}
	slotF := c.Field("", "muxerStream", "nextSegment")
	if slotF == nil {
		r.undecided("muxerStream.nextSegment not found")
		return r
	}
	ro := c.roles()
	rset := c.reachRole(ro.R)
	wset := c.reachRole(ro.W)
	n := 0
	var fns []*ssa.Function
	for fn := range rset {
		if InRootPkg(fn) && !wset[fn] {
			fns = append(fns, fn)
		}
	}
	sort.Slice(fns, func(i, j int) bool { return fns[i].String() < fns[j].String() })
	for _, fn := range fns {
		k := 0
		allInstrs(fn, func(in ssa.Instruction) {
			ta, ok := in.(*ssa.TypeAssert)
			if !ok || ta.CommaOk {
				return
			}
			if f, _ := loadedField(ta.X); f != slotF {
				return
			}
			n++
			k++
			key := fmt.Sprintf("%s|slot-assert#%d", FuncName(fn), k)
			what := "the single-value assertion of the open slot is reachable only where the slot was tested non-nil"
			cut := map[edge]bool{}
			for _, b := range fn.Blocks {
				if len(b.Instrs) == 0 {
					continue
				}
				iff, ok := b.Instrs[len(b.Instrs)-1].(*ssa.If)
				if !ok {
					continue
				}
				bo, ok := iff.Cond.(*ssa.BinOp)
				if !ok || (bo.Op != token.NEQ && bo.Op != token.EQL) {
					continue
				}
				if kk, isC := bo.Y.(*ssa.Const); !isC || !kk.IsNil() {
					continue
				}
				if f, _ := loadedField(bo.X); f != slotF {
					continue
				}
				idx := 0
				if bo.Op == token.EQL {
					idx = 1
				}
				cut[edge{b.Index, b.Succs[idx].Index}] = true
			}
			if len(cut) > 0 && !reachableBlocks(fn, 0, cut, nil)[ta.Block().Index] {
				r.ok(key, c.Pos(ta.Pos()), FuncName(fn), what, "behind `nextSegment != nil`")
			} else {
				r.fail(key, c.Pos(ta.Pos()), FuncName(fn), what, "reachable without a nil test of the slot in this function: after a failed rotation the slot is empty and the request panics (interface conversion: nil)")
			}
		})
	}
	r.Instances = n
	return r
}

func ruleT22(c *Ctx) *RuleResult {
	r := &RuleResult{Floor: 1, FloorWhat: "key tag emissions"}
	fn := c.Method("pkg/playlist", "Media", "Marshal")
	keyF := c.Field("pkg/playlist", "MediaSegment", "Key")
	eq := c.Method("pkg/playlist", "MediaKey", "Equal")
	km := c.codecFuncOf("MediaKey", "marshal")
	if fn == nil || keyF == nil || eq == nil || km == nil {
		r.undecided("Media.Marshal / MediaSegment.Key / MediaKey.Equal / marshal not found")
		return r
	}
	n := 0
	for _, fn := range c.withLocalHelpers(fn) {
		allInstrs(fn, func(in ssa.Instruction) {
			call, ok := in.(*ssa.Call)
			if !ok || call.Call.StaticCallee() != km {
				return
			}
			n++
			key := fmt.Sprintf("Media.Marshal|key-tag#%d", n)
			what := "the key tag is printed iff the segment's key differs from the key last printed"
			bad := ""
			// reachable only through "Equal returned false" or "there is no previous key"
			var eqCall *ssa.Call
			cut := map[edge]bool{}
			for _, b := range fn.Blocks {
				if len(b.Instrs) == 0 {
					continue
				}
				iff, ok := b.Instrs[len(b.Instrs)-1].(*ssa.If)
				if !ok {
					continue
				}
				v := iff.Cond
				neg := false
				for {
					if u, ok := v.(*ssa.UnOp); ok && u.Op == token.NOT {
						v = u.X
						neg = !neg
						continue
					}
					break
				}
				if phi, ok := v.(*ssa.Phi); ok {
					// `changed := prev == nil || !key.Equal(prev); if changed {…}`: the test of a short-circuit value
					for _, e := range phi.Edges {
						neg2 := false
						for {
							if u, ok := e.(*ssa.UnOp); ok && u.Op == token.NOT {
								e = u.X
								neg2 = !neg2
								continue
							}
							break
						}
						if cc, ok := e.(*ssa.Call); ok && cc.Call.StaticCallee() == eq {
							eqCall = cc
							// Equal false: the edge value is neg2, the condition is neg2 xor neg
							idx := 1
							if neg2 != neg {
								idx = 0
							}
							cut[edge{b.Index, b.Succs[idx].Index}] = true
						}
					}
				}
				if cc, ok := v.(*ssa.Call); ok && cc.Call.StaticCallee() == eq {
					eqCall = cc
					idx := 1 // Equal false → succ[1]
					if neg {
						idx = 0
					}
					cut[edge{b.Index, b.Succs[idx].Index}] = true
				}
				if bo, ok := v.(*ssa.BinOp); ok && (bo.Op == token.EQL || bo.Op == token.NEQ) {
					if k, isC := bo.Y.(*ssa.Const); isC && k.IsNil() {
						if _, isPhi := bo.X.(*ssa.Phi); isPhi && typeIs(bo.X.Type(), modPath+"/pkg/playlist", "MediaKey") {
							idx := 0
							if (bo.Op == token.NEQ) != neg {
								idx = 1
							}
							cut[edge{b.Index, b.Succs[idx].Index}] = true
						}
					}
				}
			}
			if eqCall != nil && reachableBlocks(fn, 0, cut, nil)[call.Block().Index] {
				eqCall = nil
			}
			if eqCall == nil {
				bad = "the emission is not controlled by a MediaKey.Equal test: a changed key is never printed (or every segment repeats the tag)"
			} else {
				f0, _ := loadedField(eqCall.Call.Args[0])
				f1, _ := loadedField(eqCall.Call.Args[1])
				_, p1 := eqCall.Call.Args[1].(*ssa.Phi)
				_, p0 := eqCall.Call.Args[0].(*ssa.Phi)
				if !((f0 == keyF && p1) || (f1 == keyF && p0)) {
					bad = "Equal does not compare the segment's key with the loop-carried previous key"
				} else {
					// the previous key is updated with the segment's key on the emitting path
					var prev *ssa.Phi
					if p1 {
						prev = eqCall.Call.Args[1].(*ssa.Phi)
					} else {
						prev = eqCall.Call.Args[0].(*ssa.Phi)
					}
					upd := false
					seenP := map[*ssa.Phi]bool{}
					var walk func(p *ssa.Phi)
					walk = func(p *ssa.Phi) {
						if seenP[p] {
							return
						}
						seenP[p] = true
						for i, e := range p.Edges {
							if f, _ := loadedField(e); f == keyF {
								pb := p.Block().Preds[i]
								if pb == call.Block() || call.Block().Dominates(pb) {
									upd = true
								}
							}
							if p2, ok := e.(*ssa.Phi); ok {
								walk(p2)
							}
						}
					}
					walk(prev)
					if !upd {
						bad = "the previous key is not updated on the path that prints the tag"
					}
				}
			}
			if bad == "" {
				r.ok(key, c.Pos(call.Pos()), FuncName(fn), what, "guarded by !seg.Key.Equal(prevKey); prevKey updated")
			} else {
				r.fail(key, c.Pos(call.Pos()), FuncName(fn), what, bad)
			}
		})
	}
	r.Instances = n
	return r
}

func ruleT25(c *Ctx) *RuleResult {
	r := &RuleResult{Floor: 20, FloorWhat: "integer conversions in the playlist packages"}
	n := 0
	var fns []*ssa.Function
	for _, fn := range c.Funcs {
		if inPlaylistPkgs(fn) {
			fns = append(fns, fn)
		}
	}
	sort.Slice(fns, func(i, j int) bool { return fns[i].String() < fns[j].String() })
	for _, fn := range fns {
		k := 0
		allInstrs(fn, func(in ssa.Instruction) {
			call, ok := in.(*ssa.Call)
			if !ok {
				return
			}
			g := call.Call.StaticCallee()
			if g == nil || g.Pkg == nil || g.Pkg.Pkg.Path() != "strconv" {
				return
			}
			var baseArg ssa.Value
			isParse := false
			switch g.Name() {
			case "ParseUint", "ParseInt":
				baseArg = call.Call.Args[1]
				isParse = true
			case "FormatUint", "FormatInt":
				baseArg = call.Call.Args[1]
			default:
				return
			}
			n++
			k++
			key := fmt.Sprintf("%s|%s#%d", FuncName(fn), g.Name(), k)
			what := "base 10; a value narrowed to int is parsed with at most 31 bits"
			bad := ""
			if b, isK := constInt(baseArg); !isK || b != 10 {
				bad = "the base is not the constant 10"
			}
			if bad == "" && isParse {
				bits, _ := constInt(call.Call.Args[2])
				// narrowed to int?
				narrowed := false
				for _, ref := range *call.Referrers() {
					if ex, ok := ref.(*ssa.Extract); ok && ex.Index == 0 {
						var follow func(v ssa.Value, d int)
						follow = func(v ssa.Value, d int) {
							if d > 4 || v.Referrers() == nil {
								return
							}
							for _, r2 := range *v.Referrers() {
								switch x := r2.(type) {
								case *ssa.Convert:
									if b, ok := x.Type().Underlying().(*types.Basic); ok && b.Kind() == types.Int {
										narrowed = true
									}
								case *ssa.Phi:
									follow(x, d+1)
								case *ssa.Store:
									if al, ok := x.Addr.(*ssa.Alloc); ok {
										for _, r3 := range *al.Referrers() {
											if u, ok := r3.(*ssa.UnOp); ok && u.Op == token.MUL {
												follow(u, d+1)
											}
										}
									}
								}
							}
						}
						follow(ex, 0)
					}
				}
				if narrowed && (bits > 31 || bits == 0) {
					bad = fmt.Sprintf("parsed with %d bits and then narrowed to int: a large value wraps, Marshal prints a negative number and the output does not decode again", bits)
				}
			}
			if bad == "" {
				r.ok(key, c.Pos(call.Pos()), FuncName(fn), what, "ok")
			} else {
				r.fail(key, c.Pos(call.Pos()), FuncName(fn), what, bad)
			}
		})
	}
	r.Instances = n
	return r
}

func ruleT7s(c *Ctx) *RuleResult {
	r := &RuleResult{Floor: 1, FloorWhat: "mirror writers"}
	fn := c.Method("pkg/storage", "partDisk", "Writer")
	bufF := c.Field("pkg/storage", "partDisk", "buffer")
	if fn == nil || bufF == nil {
		r.undecided("storage.partDisk.Writer / buffer not found")
		return r
	}
	n := 0
	for _, tn := range []string{"doubleWriter"} {
		nt := c.NamedType("pkg/storage", tn)
		if nt == nil {
			continue
		}
		allInstrs(fn, func(in ssa.Instruction) {
			al, ok := in.(*ssa.Alloc)
			if !ok || !typeIs(al.Type(), modPath+"/pkg/storage", tn) {
				return
			}
			n++
			key := "partDisk.Writer|ram-side"
			what := "one side of the mirror is the receiver's own buffer"
			own := false
			for _, ref := range *al.Referrers() {
				fa, ok := ref.(*ssa.FieldAddr)
				if !ok {
					continue
				}
				for _, r2 := range *fa.Referrers() {
					if st, ok := r2.(*ssa.Store); ok {
						v := st.Val
						if mi, ok := v.(*ssa.MakeInterface); ok {
							v = mi.X
						}
						if f, base := loadedField(v); f == bufF && isRecvValue(fn, base) {
							own = true
						}
					}
				}
			}
			if own {
				r.ok(key, c.Pos(al.Pos()), FuncName(fn), what, "w2: p.buffer")
			} else {
				r.fail(key, c.Pos(al.Pos()), FuncName(fn), what, "neither side of the mirror is p.buffer: the sizes and offsets computed from the buffer stay 0 and every part collapses onto offset 0")
			}
		})
	}
	if n == 0 {
		r.undecided("T7s: partDisk.Writer does not build a doubleWriter (the construct this rule is anchored on was not found: no verdict)")
	}
	r.Instances = n
	return r
}
