package main

import (
	"fmt"
	"go/token"
	"go/types"
	"sort"
	"strings"

	"golang.org/x/tools/go/ssa"
)

func init() {
	registerRule("T1", "playlist field coverage: every exported field of every playlist struct is stored by the decoder and loaded by the encoder", ruleT1)
	registerRule("T2", "tag/field agreement: for every tag, the fields the decoder fills under that tag are the fields the encoder prints under it", ruleT2)
	registerRule("T3", "attribute agreement: per tag struct, the attribute names the encoder emits are the names the decoder recognises, and each name is bound to the same field on both sides", ruleT3)
}

func (c *Ctx) reachLibFrom(roots ...*ssa.Function) []*ssa.Function {
	set := c.reach(roots, func(f *ssa.Function) bool { return !InLib(f) })
	var out []*ssa.Function
	for f := range set {
		if f.Blocks != nil {
			out = append(out, f)
		}
	}
	sort.Slice(out, func(i, j int) bool { return out[i].String() < out[j].String() })
	return out
}

func (c *Ctx) playlistCodecFuncs() (dec, enc []*ssa.Function, problems []string) {
	var droots, eroots []*ssa.Function
	for _, t := range []string{"Media", "Multivariant"} {
		u := c.Method("pkg/playlist", t, "Unmarshal")
		m := c.Method("pkg/playlist", t, "Marshal")
		if u == nil || m == nil {
			problems = append(problems, t+".Unmarshal/Marshal not found")
			continue
		}
		droots = append(droots, u)
		eroots = append(eroots, m)
	}
	dec = c.reachLibFrom(droots...)
	enc = c.reachLibFrom(eroots...)
	return
}

func ruleT1(c *Ctx) *RuleResult {
	r := &RuleResult{Floor: 70, FloorWhat: "exported fields of playlist structs"}
	dec, enc, probs := c.playlistCodecFuncs()
	for _, p := range probs {
		r.undecided("%s", p)
	}
	stored := map[*types.Var]string{}
	loaded := map[*types.Var]string{}
	for _, fn := range dec {
		for _, a := range accessesIn(fn) {
			if a.write && stored[a.field] == "" {
				stored[a.field] = c.Pos(posOf(a.instr))
			}
		}
	}
	for _, fn := range enc {
		if fn.Name() != "marshal" && fn.Name() != "Marshal" && !c.isMarshalFunc(enclosingNamed(fn)) {
			continue // e.g. MediaKey.Equal reads every key field without printing it
		}
		for _, a := range accessesIn(fn) {
			if !a.write && loaded[a.field] == "" {
				loaded[a.field] = c.Pos(posOf(a.instr))
			}
		}
	}
	sc := c.Pkg("pkg/playlist").Scope()
	n := 0
	for _, name := range sc.Names() {
		tn, ok := sc.Lookup(name).(*types.TypeName)
		if !ok || tn.IsAlias() || !tn.Exported() {
			continue
		}
		st, ok := tn.Type().Underlying().(*types.Struct)
		if !ok {
			continue
		}
		for i := 0; i < st.NumFields(); i++ {
			f := st.Field(i)
			if !f.Exported() {
				continue
			}
			n++
			fname := tn.Name() + "." + f.Name()
			if pos := stored[f]; pos != "" {
				r.ok(fname+"|decoded", pos, "", "the decoder stores this field", "stored at "+pos)
			} else {
				r.fail(fname+"|decoded", c.Pos(f.Pos()), "", "the decoder stores this field", "no store to "+fname+" in any function reachable from Media.Unmarshal / Multivariant.Unmarshal: the field is lost on decode")
			}
			if pos := loaded[f]; pos != "" {
				r.ok(fname+"|encoded", pos, "", "the encoder reads this field", "loaded at "+pos)
			} else {
				r.fail(fname+"|encoded", c.Pos(f.Pos()), "", "the encoder reads this field", "no marshal function reachable from Media.Marshal / Multivariant.Marshal loads "+fname+": the field is never printed")
			}
		}
	}
	r.Instances = n
	return r
}

// ---------------------------------------------------------------------------
// T2

// tagOf extracts "#EXT…" from a literal such as "#EXT-X-VERSION:" or "…\n#EXT-X-VERSION:".
func lastTagIn(s string) string {
	ms := reTag.FindAllStringSubmatch(s, -1)
	if len(ms) == 0 {
		return ""
	}
	return ms[len(ms)-1][1]
}

// decoderTagFields: for each If on HasPrefix(line, K) / line == K in a decoder function, the
// playlist fields stored in the blocks dominated by the true successor (through callees that
// take the address of the stored object are not followed: the field that receives the new
// object is what counts).
func (c *Ctx) decoderTagFields(fn *ssa.Function) map[string]map[*types.Var]bool {
	out := map[string]map[*types.Var]bool{}
	for _, b := range fn.Blocks {
		if len(b.Instrs) == 0 {
			continue
		}
		iff, ok := b.Instrs[len(b.Instrs)-1].(*ssa.If)
		if !ok {
			continue
		}
		lit := ""
		switch x := iff.Cond.(type) {
		case *ssa.Call:
			if isFuncNamed(x.Call.StaticCallee(), "strings", "HasPrefix") {
				lit, _ = constString(x.Call.Args[1])
			}
		case *ssa.BinOp:
			if x.Op == token.EQL {
				if s, ok := constString(x.Y); ok {
					lit = s
				}
			}
		}
		if !strings.HasPrefix(lit, "#EXT") {
			continue
		}
		tag := lastTagIn(lit)
		if out[tag] == nil {
			out[tag] = map[*types.Var]bool{}
		}
		tb := b.Succs[0]
		for _, d := range fn.Blocks {
			if !tb.Dominates(d) {
				continue
			}
			for _, in := range d.Instrs {
				if st, ok := in.(*ssa.Store); ok {
					if f, base := fieldOfAddr(st.Addr); f != nil && isPlaylistField(c, f) {
						// only fields of the playlist object itself or of the current segment
						_ = base
						out[tag][f] = true
					}
				}
				// a case body moved into a helper of the playlist package (not an attribute-list decoder of a
				// tag struct, which T3 covers): the fields the helper stores belong to this tag
				if call, ok := in.(*ssa.Call); ok {
					for f := range c.tagHelperStores(call.Call.StaticCallee(), 0) {
						out[tag][f] = true
					}
				}
			}
		}
	}
	return out
}

func (c *Ctx) tagHelperStores(g *ssa.Function, depth int) map[*types.Var]bool {
	out := map[*types.Var]bool{}
	if g == nil || depth > 3 || g.Blocks == nil || g.Pkg == nil || g.Pkg.Pkg.Path() != modPath+"/pkg/playlist" {
		return out
	}
	if len(c.decoderAttrFields(g)) > 0 {
		return out
	}
	tagDecoder := false
	allInstrs(g, func(in ssa.Instruction) {
		if call, ok := in.(*ssa.Call); ok && isFuncNamed(call.Call.StaticCallee(), "strings", "HasPrefix") && len(call.Call.Args) == 2 {
			if lit, ok := constString(call.Call.Args[1]); ok && strings.HasPrefix(lit, "#EXT") {
				tagDecoder = true
			}
		}
	})
	if tagDecoder {
		return out
	}
	allInstrs(g, func(in ssa.Instruction) {
		if st, ok := in.(*ssa.Store); ok {
			if f, _ := fieldOfAddr(st.Addr); f != nil && isPlaylistField(c, f) {
				out[f] = true
			}
		}
		if call, ok := in.(*ssa.Call); ok {
			for f := range c.tagHelperStores(call.Call.StaticCallee(), depth+1) {
				out[f] = true
			}
		}
	})
	return out
}

func isPlaylistField(c *Ctx, f *types.Var) bool {
	if f.Pkg() == nil || f.Pkg().Path() != modPath+"/pkg/playlist" || !f.Exported() {
		return false
	}
	// EXT-X-KEY applies to the segments that follow it: the decoder binds the current key to a
	// segment when it reads EXTINF, the encoder prints it before the first segment that carries it.
	// The tag/field correspondence is deliberately not one-to-one for this field (T1 still covers it).
	if c.fieldName(f) == "MediaSegment.Key" {
		return false
	}
	return true
}

// encoderTagFields: walk the leaves of every concatenation of fn in order; fields loaded after
// a tag literal (up to the next tag literal) belong to that tag. A call to X.marshal() on a value
// loaded from field F attributes F to the tag X.marshal starts with.
func (c *Ctx) encoderTagFields(fn *ssa.Function) map[string]map[*types.Var]bool {
	out := map[string]map[*types.Var]bool{}
	add := func(tag string, f *types.Var) {
		if tag == "" || f == nil || !isPlaylistField(c, f) {
			return
		}
		if out[tag] == nil {
			out[tag] = map[*types.Var]bool{}
		}
		out[tag][f] = true
	}
	for _, rt := range stringRoots(fn) {
		cur := ""
		for _, l := range flatten(rt, 0) {
			if l.kind == "" {
				if t := lastTagIn(l.text); t != "" {
					cur = t
					if out[cur] == nil {
						out[cur] = map[*types.Var]bool{}
					}
				}
				continue
			}
			if strings.HasPrefix(l.kind, "call:") {
				call := l.val.(*ssa.Call)
				g := call.Call.StaticCallee()
				if g != nil && (g.Name() == "marshal" || (c.isMarshalFunc(g) && g.Name() != "Marshal" && len(g.Params) == 1)) && len(call.Call.Args) > 0 {
					// receiver loaded from a field → that field carries the callee's tag
					t := firstTagOf(g)
					for _, f := range fieldsFeeding(call.Call.Args[0], 0) {
						add(t, f)
					}
					continue
				}
			}
			if l.kind == "acc" {
				continue
			}
			for _, f := range fieldsFeeding(l.val, 0) {
				add(cur, f)
			}
		}
	}
	// bare tags guarded by a bool field: `if m.Endlist { ret += "#EXT-X-ENDLIST\n" }`
	for _, b := range fn.Blocks {
		if len(b.Instrs) == 0 {
			continue
		}
		iff, ok := b.Instrs[len(b.Instrs)-1].(*ssa.If)
		if !ok {
			continue
		}
		f, _ := loadedField(stripNot(iff.Cond))
		var nilCmp *types.Var
		if bo, ok := iff.Cond.(*ssa.BinOp); ok && (bo.Op == token.NEQ || bo.Op == token.EQL) {
			if k, ok := bo.Y.(*ssa.Const); ok && k.IsNil() {
				nilCmp, _ = loadedField(bo.X)
			}
		}
		for _, cand := range []*types.Var{f, nilCmp} {
			if cand == nil {
				continue
			}
			for _, in := range b.Succs[0].Instrs {
				if bo, ok := in.(*ssa.BinOp); ok && bo.Op == token.ADD {
					for _, l := range flattenLocal(bo) {
						if l.kind == "" {
							if t := lastTagIn(l.text); t != "" {
								add(t, cand)
							}
						}
					}
				}
			}
		}
	}
	return out
}

func firstTagOf(fn *ssa.Function) string {
	tag := ""
	allInstrs(fn, func(in ssa.Instruction) {
		for _, op := range in.Operands(nil) {
			if s, ok := constString(*op); ok && tag == "" {
				if t := lastTagIn(s); t != "" {
					tag = t
				}
			}
		}
	})
	return tag
}

// fieldsFeeding: struct fields whose loads flow into v through conversions, calls and arithmetic.
func fieldsFeeding(v ssa.Value, depth int) []*types.Var {
	if depth > 8 {
		return nil
	}
	if f, _ := loadedField(v); f != nil {
		// pointer field then deref: *(*m.AllowCache): inner load handled below
		return []*types.Var{f}
	}
	var out []*types.Var
	switch x := v.(type) {
	case *ssa.UnOp:
		out = append(out, fieldsFeeding(x.X, depth+1)...)
	case *ssa.Convert:
		out = append(out, fieldsFeeding(x.X, depth+1)...)
	case *ssa.ChangeType:
		out = append(out, fieldsFeeding(x.X, depth+1)...)
	case *ssa.Call:
		for _, a := range x.Call.Args {
			out = append(out, fieldsFeeding(a, depth+1)...)
		}
		if x.Call.IsInvoke() {
			out = append(out, fieldsFeeding(x.Call.Value, depth+1)...)
		}
	case *ssa.BinOp:
		out = append(out, fieldsFeeding(x.X, depth+1)...)
		out = append(out, fieldsFeeding(x.Y, depth+1)...)
	case *ssa.Phi:
		for _, e := range x.Edges {
			if e != v {
				out = append(out, fieldsFeeding(e, depth+1)...)
			}
		}
	case *ssa.Alloc:
		// composite literal (e.g. primitives.ByteRange{Length: *s.ByteRangeLength, Start: s.ByteRangeStart})
		for _, ref := range *x.Referrers() {
			if fa, ok := ref.(*ssa.FieldAddr); ok {
				for _, rr := range *fa.Referrers() {
					if st, ok := rr.(*ssa.Store); ok {
						out = append(out, fieldsFeeding(st.Val, depth+1)...)
					}
				}
			}
		}
	case *ssa.MakeInterface:
		out = append(out, fieldsFeeding(x.X, depth+1)...)
	}
	return out
}

func ruleT2(c *Ctx) *RuleResult {
	r := &RuleResult{Floor: 20, FloorWhat: "tags handled by both decoder and encoder"}
	pairs := []struct{ typ, dec string }{{"Media", "Unmarshal"}, {"Multivariant", "Unmarshal"}}
	n := 0
	for _, p := range pairs {
		d := c.Method("pkg/playlist", p.typ, p.dec)
		e := c.Method("pkg/playlist", p.typ, "Marshal")
		if d == nil || e == nil {
			r.undecided("%s codec not found", p.typ)
			continue
		}
		merge := func(dst, src map[string]map[*types.Var]bool) {
			for k, fs := range src {
				if dst[k] == nil {
					dst[k] = map[*types.Var]bool{}
				}
				for f := range fs {
					dst[k][f] = true
				}
			}
		}
		dm := map[string]map[*types.Var]bool{}
		for _, h := range c.withLocalHelpers(d) {
			merge(dm, c.decoderTagFields(h))
		}
		em := map[string]map[*types.Var]bool{}
		for _, h := range c.withLocalHelpers(e) {
			merge(em, c.encoderTagFields(h))
		}
		// the segment-level tags are printed by MediaSegment.marshal / variants by their own marshal
		extra := map[string]string{"Media": "MediaSegment", "Multivariant": ""}
		if x := extra[p.typ]; x != "" {
			if sm := c.codecFuncOf(x, "marshal"); sm != nil {
				for t, fs := range c.encoderTagFields(sm) {
					if em[t] == nil {
						em[t] = map[*types.Var]bool{}
					}
					for f := range fs {
						em[t][f] = true
					}
				}
			}
		}
		var tags []string
		for t := range dm {
			tags = append(tags, t)
		}
		sort.Strings(tags)
		for _, t := range tags {
			df := dm[t]
			ef, encHas := em[t]
			key := p.typ + "|#" + t
			if !encHas {
				// decoded but never printed: T1 reports the fields; here only note
				r.Notes = append(r.Notes, fmt.Sprintf("%s: tag #%s is decoded but has no encoder literal in %s.Marshal", p.typ, t, p.typ))
				continue
			}
			n++
			// compare on the fields of the playlist / segment objects (the decoder also fills helper locals)
			dn, en := c.fieldSetNames(df), c.fieldSetNames(ef)
			missing := []string{}
			for f := range df {
				if !ef[f] && len(ef) > 0 {
					missing = append(missing, c.fieldName(f))
				}
			}
			wrong := []string{}
			for f := range ef {
				if !df[f] {
					wrong = append(wrong, c.fieldName(f))
				}
			}
			sort.Strings(missing)
			sort.Strings(wrong)
			if len(wrong) == 0 && (len(missing) == 0 || len(ef) == 0) {
				r.ok(key, c.Pos(e.Pos()), FuncName(e), "the fields printed under #"+t+" are the fields the decoder fills under it", "decoder: ["+dn+"] encoder: ["+en+"]")
			} else {
				r.fail(key, c.Pos(e.Pos()), FuncName(e), "the fields printed under #"+t+" are the fields the decoder fills under it",
					fmt.Sprintf("decoder fills [%s]; encoder prints [%s] (printed but not decoded there: %v; decoded but not printed there: %v)", dn, en, wrong, missing))
			}
		}
	}
	r.Instances = n
	return r
}

// ---------------------------------------------------------------------------
// T3

// decoderAttrFields: in an unmarshal(v string) method: for each comparison key == "NAME", the
// fields stored in blocks dominated by the true successor.
func (c *Ctx) decoderAttrFields(fn *ssa.Function) map[string]map[*types.Var]bool {
	out := map[string]map[*types.Var]bool{}
	for _, b := range fn.Blocks {
		if len(b.Instrs) == 0 {
			continue
		}
		iff, ok := b.Instrs[len(b.Instrs)-1].(*ssa.If)
		if !ok {
			continue
		}
		bo, ok := iff.Cond.(*ssa.BinOp)
		if !ok || (bo.Op != token.EQL && bo.Op != token.NEQ) {
			continue
		}
		name, ok := constString(bo.Y)
		if !ok || name == "" || strings.ToUpper(name) != name {
			continue
		}
		// the left side must be the range key over the attribute map
		if ex, isExtract := bo.X.(*ssa.Extract); !isExtract || (bo.Op == token.NEQ && ex.Index != 1) {
			continue
		}
		if out[name] == nil {
			out[name] = map[*types.Var]bool{}
		}
		tb := b.Succs[0]
		if bo.Op == token.NEQ {
			// `if key != "NAME" { continue }`: the attribute is handled where the test fails
			tb = b.Succs[1]
			if len(tb.Preds) != 1 {
				continue
			}
		}
		for _, d := range fn.Blocks {
			if !tb.Dominates(d) {
				continue
			}
			for _, in := range d.Instrs {
				if st, ok := in.(*ssa.Store); ok {
					if f, _ := fieldOfAddr(st.Addr); f != nil && isPlaylistField(c, f) {
						out[name][f] = true
					}
				}
			}
		}
	}
	return out
}

func ruleT3(c *Ctx) *RuleResult {
	r := &RuleResult{Floor: 10, FloorWhat: "tag structs with marshal/unmarshal"}
	sc := c.Pkg("pkg/playlist").Scope()
	attrs := c.emittedAttrs()
	n := 0
	for _, name := range sc.Names() {
		tn, ok := sc.Lookup(name).(*types.TypeName)
		if !ok || tn.IsAlias() {
			continue
		}
		if _, ok := tn.Type().Underlying().(*types.Struct); !ok {
			continue
		}
		u := c.codecFuncOf(tn.Name(), "unmarshal")
		m := c.codecFuncOf(tn.Name(), "marshal")
		if u == nil || m == nil {
			continue
		}
		n++
		dm := map[string]map[*types.Var]bool{}
		for _, h := range c.withLocalHelpers(u) {
			for k, fs := range c.decoderAttrFields(h) {
				if dm[k] == nil {
					dm[k] = map[*types.Var]bool{}
				}
				for f := range fs {
					dm[k][f] = true
				}
			}
		}
		em := map[string]map[*types.Var]bool{}
		for _, ea := range attrs {
			if ea.fn != m {
				continue
			}
			if em[ea.name] == nil {
				em[ea.name] = map[*types.Var]bool{}
			}
			if ea.val != nil {
				for _, f := range fieldsFeeding(ea.val, 0) {
					if isPlaylistField(c, f) {
						em[ea.name][f] = true
					}
				}
			}
		}
		// attributes whose presence is governed by a bool field: `if t.Default { ret += ",DEFAULT=YES" }`
		for _, b := range m.Blocks {
			if len(b.Instrs) == 0 {
				continue
			}
			iff, ok := b.Instrs[len(b.Instrs)-1].(*ssa.If)
			if !ok {
				continue
			}
			f, _ := loadedField(stripNot(iff.Cond))
			if f == nil {
				continue
			}
			for _, in := range b.Succs[0].Instrs {
				if bo, ok := in.(*ssa.BinOp); ok && bo.Op == token.ADD {
					t := template(flattenLocal(bo))
					for _, mm := range reAttr.FindAllStringSubmatch(t, -1) {
						if em[mm[1]] != nil && len(em[mm[1]]) == 0 {
							em[mm[1]][f] = true
						}
					}
				}
				if st, ok := in.(*ssa.Store); ok { // append(attrs, "KEY=YES")
					if s, ok := constString(st.Val); ok {
						for _, mm := range reAttr.FindAllStringSubmatch(s, -1) {
							if em[mm[1]] != nil && len(em[mm[1]]) == 0 {
								em[mm[1]][f] = true
							}
						}
					}
				}
			}
		}
		all := map[string]bool{}
		for k := range dm {
			all[k] = true
		}
		for k := range em {
			all[k] = true
		}
		for _, an := range sortedKeys(all) {
			key := tn.Name() + "|" + an
			df, dok := dm[an]
			ef, eok := em[an]
			switch {
			case !dok:
				r.fail(key, c.Pos(m.Pos()), FuncName(m), "every attribute the encoder emits is recognised by the decoder", "attribute "+an+" is emitted by "+tn.Name()+".marshal but "+tn.Name()+".unmarshal never compares a key with it: the value is dropped on decode")
			case !eok:
				r.fail(key, c.Pos(u.Pos()), FuncName(u), "every attribute the decoder recognises is emitted by the encoder", "attribute "+an+" is decoded but never emitted by "+tn.Name()+".marshal")
			default:
				// field binding: if both sides name fields, they must be the same
				if len(df) > 0 && len(ef) > 0 {
					same := true
					for f := range ef {
						if !df[f] {
							same = false
						}
					}
					if !same {
						r.fail(key, c.Pos(m.Pos()), FuncName(m), "attribute "+an+" is bound to the same field in encoder and decoder",
							"decoder stores ["+c.fieldSetNames(df)+"], encoder prints ["+c.fieldSetNames(ef)+"]")
						continue
					}
				}
				r.ok(key, c.Pos(m.Pos()), FuncName(m), "attribute "+an+" is emitted and recognised, bound to the same field", "decoder ["+c.fieldSetNames(df)+"] encoder ["+c.fieldSetNames(ef)+"]")
			}
		}
	}
	r.Instances = n
	return r
}

// flattenLocal flattens a concatenation but does not descend into operands defined in another
// block (they are the text accumulated so far).
func flattenLocal(bo *ssa.BinOp) []leaf {
	var rec func(v ssa.Value) []leaf
	rec = func(v ssa.Value) []leaf {
		if b, ok := v.(*ssa.BinOp); ok && b.Op == token.ADD && isStringType(b.Type()) {
			if b.Block() != bo.Block() {
				return []leaf{{kind: "acc", val: v}}
			}
			return append(rec(b.X), rec(b.Y)...)
		}
		return flatten(v, 0)
	}
	return append(rec(bo.X), rec(bo.Y)...)
}
