package main

import (
	"fmt"
	"go/token"
	"go/types"
	"sort"
	"strings"

	"golang.org/x/tools/go/ssa"
)

func init() {
	registerRule("T4", "codec tables: type switches over the library's codec set are exhaustive or end in an error; every codec with a Write entry point is covered by ToFMP4, codecparams.Marshal, FromFMP4 and the client's payload-decoder switch; the MPEG-TS accept sets agree; every CODECS prefix the muxer can emit is accepted by the client", ruleT4)
	registerRule("T5", "conversion coverage: ToFMP4 reads and FromFMP4 writes every field of every codec struct; rendition name, language and default flag are carried muxer → playlist → client track", ruleT5)
	registerRule("T7", "storage siblings: both File back ends refuse Reader() unless a field that only Finalize sets has its finalised value; Size() is only written by Finalize; the mirror writer forwards Write and Seek with identical arguments to both writers and propagates both errors", ruleT7)
}

// implementers of an interface among the named types of a library package.
func (c *Ctx) implementers(pkgSuffix string, iface *types.Interface) []*types.Named {
	var out []*types.Named
	sc := c.Pkg(pkgSuffix).Scope()
	for _, n := range sc.Names() {
		tn, ok := sc.Lookup(n).(*types.TypeName)
		if !ok || tn.IsAlias() {
			continue
		}
		if _, isI := tn.Type().Underlying().(*types.Interface); isI {
			continue
		}
		if types.Implements(types.NewPointer(tn.Type()), iface) || types.Implements(tn.Type(), iface) {
			out = append(out, tn.Type().(*types.Named))
		}
	}
	return out
}

// typeSwitches groups the comma-ok / switch type assertions of fn by the asserted value.
type tswitch struct {
	fn     *ssa.Function
	x      ssa.Value
	cases  map[string]*ssa.TypeAssert // asserted type name → assertion
	oks    []condIf                   // the Ifs on the ok results
	single []*ssa.TypeAssert          // single-value assertions (panic on mismatch)
}

func typeSwitches(fn *ssa.Function, ifacePkg, ifaceName string) []*tswitch {
	return typeSwitches0(fn, ifacePkg, ifaceName, true)
}

func typeSwitches0(fn *ssa.Function, ifacePkg, ifaceName string, mergePaths bool) []*tswitch {
	groups := map[ssa.Value]*tswitch{}
	var order []ssa.Value
	allInstrs(fn, func(in ssa.Instruction) {
		ta, ok := in.(*ssa.TypeAssert)
		if !ok || !typeIs(ta.X.Type(), ifacePkg, ifaceName) {
			return
		}
		key := ta.X
		// loads of the same location are the same switch subject
		for k := range groups {
			if mergePaths && accessPath(k) == accessPath(ta.X) {
				key = k
			}
		}
		g := groups[key]
		if g == nil {
			g = &tswitch{fn: fn, x: key, cases: map[string]*ssa.TypeAssert{}}
			groups[key] = g
			order = append(order, key)
		}
		n := namedOf(ta.AssertedType)
		name := ta.AssertedType.String()
		if n != nil {
			name = n.Obj().Name()
		}
		if !ta.CommaOk {
			g.single = append(g.single, ta)
			return
		}
		g.cases[name] = ta
		for _, ref := range *ta.Referrers() {
			if ex, ok := ref.(*ssa.Extract); ok && ex.Index == 1 {
				g.oks = append(g.oks, ifsOn(fn, func(v ssa.Value) bool { return v == ex })...)
			}
		}
	})
	var out []*tswitch
	for _, k := range order {
		out = append(out, groups[k])
	}
	return out
}

func caseNames(g *tswitch) []string {
	var out []string
	for n := range g.cases {
		out = append(out, n)
	}
	sort.Strings(out)
	return out
}

func ruleT4(c *Ctx) *RuleResult {
	r := &RuleResult{Floor: 12, FloorWhat: "codec table obligations"}
	codecIface := c.NamedType("pkg/codecs", "Codec")
	if codecIface == nil {
		r.undecided("codecs.Codec not found")
		return r
	}
	impls := c.implementers("pkg/codecs", codecIface.Underlying().(*types.Interface))
	var implNames []string
	for _, t := range impls {
		implNames = append(implNames, t.Obj().Name())
	}
	sort.Strings(implNames)
	if len(implNames) < 6 {
		r.undecided("only %d implementers of codecs.Codec found (floor 6)", len(implNames))
	}
	// (a) switches over codecs.Codec whose fall-through yields a nil interface / func / empty string
	for _, fn := range c.Funcs {
		for i, g := range typeSwitches0(fn, modPath+"/pkg/codecs", "Codec", false) {
			if len(g.cases) < 2 {
				continue
			}
			key := fmt.Sprintf("%s|switch#%d", FuncName(fn), i+1)
			if fn == c.Func("pkg/codecs", "ToMPEGTS") {
				r.ok(key, c.Pos(fn.Pos()), FuncName(fn), "a switch over the library's codec set whose fall-through produces a nil converter is exhaustive or ends in an error",
					"partial by design: only reached for tracks that Muxer.Start accepted for the MPEG-TS variant; the accept set is compared with these cases by the mpegts-set obligations")
				continue
			}
			missing := []string{}
			for _, n := range implNames {
				if g.cases[n] == nil {
					missing = append(missing, n)
				}
			}
			// what does the no-match path do?
			cut := map[edge]bool{}
			for _, ci := range g.oks {
				b := ci.If.Block()
				idx := 0
				if !ci.Pol {
					idx = 1
				}
				cut[edge{b.Index, b.Succs[idx].Index}] = true
			}
			seen := reachableBlocks(fn, 0, cut, nil)
			noMatchSuccess := false
			allInstrs(fn, func(in ssa.Instruction) {
				if ret, ok := in.(*ssa.Return); ok && seen[ret.Block().Index] && isSuccessReturn(ret) {
					noMatchSuccess = true
				}
			})
			sensitive := false // result is an interface / func / string, or a func field is assigned in the cases
			res := fn.Signature.Results()
			for k := 0; k < res.Len(); k++ {
				switch res.At(k).Type().Underlying().(type) {
				case *types.Interface, *types.Signature:
					if !types.Identical(res.At(k).Type(), types.Universe.Lookup("error").Type()) {
						sensitive = true
					}
				}
				if isStringType(res.At(k).Type()) {
					sensitive = true
				}
			}
			allInstrs(fn, func(in ssa.Instruction) {
				if st, ok := in.(*ssa.Store); ok {
					if f, _ := fieldOfAddr(st.Addr); f != nil {
						if _, isSig := f.Type().Underlying().(*types.Signature); isSig {
							sensitive = true
						}
					}
				}
			})
			what := "a switch over the library's codec set whose fall-through produces a nil converter / decoder / empty string is exhaustive or ends in an error"
			switch {
			case !sensitive:
				r.ok(key, c.Pos(fn.Pos()), FuncName(fn), what, "fall-through is benign (no interface, func or string result); cases: "+strings.Join(caseNames(g), ","))
			case len(missing) == 0 && !noMatchSuccess:
				r.ok(key, c.Pos(fn.Pos()), FuncName(fn), what, "exhaustive over "+strings.Join(implNames, ",")+" and the fall-through returns an error")
			case len(missing) == 0:
				r.ok(key, c.Pos(fn.Pos()), FuncName(fn), what, "exhaustive over "+strings.Join(implNames, ","))
			case !noMatchSuccess:
				r.ok(key, c.Pos(fn.Pos()), FuncName(fn), what, "not exhaustive (missing "+strings.Join(missing, ",")+") but the fall-through returns an error")
			default:
				r.fail(key, c.Pos(fn.Pos()), FuncName(fn), what, "missing cases "+strings.Join(missing, ",")+" fall through to a success return: a nil converter/decoder or an empty CODECS entry is produced silently")
			}
		}
	}
	// the client's payload-decoder switch must end in an error even when exhaustive (the codec may be nil: FromFMP4
	// returns nil for fMP4 codecs the library does not model)
	if ini := c.Method("", "clientTrackProcessorFMP4", "initialize"); ini != nil {
		gs := typeSwitches(ini, modPath+"/pkg/codecs", "Codec")
		key := "clientTrackProcessorFMP4.initialize|nil-codec"
		if len(gs) == 0 {
			r.undecided("%s: %s — %s (the construct this rule is anchored on was not found: no verdict)", key, "the payload-decoder switch exists", "no type switch over codecs.Codec")
		} else {
			g := gs[0]
			cut := map[edge]bool{}
			for _, ci := range g.oks {
				b := ci.If.Block()
				idx := 0
				if !ci.Pol {
					idx = 1
				}
				cut[edge{b.Index, b.Succs[idx].Index}] = true
			}
			seen := reachableBlocks(ini, 0, cut, nil)
			bad := false
			allInstrs(ini, func(in ssa.Instruction) {
				if ret, ok := in.(*ssa.Return); ok && seen[ret.Block().Index] && isSuccessReturn(ret) {
					bad = true
				}
			})
			if bad {
				r.fail(key, c.Pos(ini.Pos()), FuncName(ini), "a track whose codec matched no case (including the nil codec FromFMP4 yields for unmodelled fMP4 codecs) makes initialize fail",
					"the fall-through returns nil with decodePayload unset: the first sample calls a nil function")
			} else {
				r.ok(key, c.Pos(ini.Pos()), FuncName(ini), "a track whose codec matched no case makes initialize fail", "fall-through returns an error")
			}
		}
	}
	// (b) write entry points covered
	written := map[string]bool{}
	isImpl := map[string]bool{}
	for _, n := range implNames {
		isImpl[n] = true
	}
	for _, w := range c.roles().W {
		if strings.HasPrefix(w.Name(), "Write") {
			n := strings.TrimPrefix(w.Name(), "Write")
			if isImpl[n] {
				written[n] = true
			} else {
				r.undecided("Muxer.%s has no codec type named %s in pkg/codecs", w.Name(), n)
			}
		}
	}
	tables := []struct {
		name string
		fn   *ssa.Function
		mode string // "case": has a case for the codec; "alloc": constructs the codec
	}{
		{"codecs.ToFMP4", c.Func("pkg/codecs", "ToFMP4"), "case"},
		{"codecparams.Marshal", c.Func("pkg/codecparams", "Marshal"), "case"},
		{"codecs.FromFMP4", c.Func("pkg/codecs", "FromFMP4"), "alloc"},
		{"clientTrackProcessorFMP4.initialize", c.Method("", "clientTrackProcessorFMP4", "initialize"), "case"},
	}
	for _, t := range tables {
		if t.fn == nil {
			r.undecided("%s not found", t.name)
			continue
		}
		have := map[string]bool{}
		if t.mode == "case" {
			for _, g := range typeSwitches(t.fn, modPath+"/pkg/codecs", "Codec") {
				for n := range g.cases {
					have[n] = true
				}
			}
		} else {
			for _, f := range withSamePkgCallees(t.fn) {
				allInstrs(f, func(in ssa.Instruction) {
					if al, ok := in.(*ssa.Alloc); ok {
						if n := namedOf(al.Type()); n != nil && n.Obj().Pkg() != nil && n.Obj().Pkg().Path() == modPath+"/pkg/codecs" {
							have[n.Obj().Name()] = true
						}
					}
				})
			}
		}
		for _, w := range sortedKeys(written) {
			key := t.name + "|" + w
			if have[w] {
				r.ok(key, c.Pos(t.fn.Pos()), FuncName(t.fn), "every codec that has a Muxer.Write entry point is handled by "+t.name, "has "+w)
			} else {
				r.fail(key, c.Pos(t.fn.Pos()), FuncName(t.fn), "every codec that has a Muxer.Write entry point is handled by "+t.name, w+" can be written to the muxer but is not handled here")
			}
		}
	}
	if len(written) < 6 {
		r.undecided("only %d codecs with a Write entry point found (floor 6)", len(written))
	}
	// (c) MPEG-TS accept sets
	mp := "github.com/bluenviron/mediacommon/v2/pkg/formats/mpegts"
	sets := map[string][]string{}
	if start := c.Method("", "Muxer", "Start"); start != nil {
		var s []string
		for _, g := range typeSwitches(start, modPath+"/pkg/codecs", "Codec") {
			s = append(s, caseNames(g)...)
		}
		sort.Strings(s)
		sets["Muxer.Start (MPEG-TS branch)"] = s
	}
	if f := c.Func("pkg/codecs", "ToMPEGTS"); f != nil {
		for _, g := range typeSwitches(f, modPath+"/pkg/codecs", "Codec") {
			sets["codecs.ToMPEGTS"] = caseNames(g)
		}
	}
	if f := c.Func("pkg/codecs", "FromMPEGTS"); f != nil {
		var s []string
		allInstrs(f, func(in ssa.Instruction) {
			if al, ok := in.(*ssa.Alloc); ok {
				if n := namedOf(al.Type()); n != nil && n.Obj().Pkg() != nil && n.Obj().Pkg().Path() == modPath+"/pkg/codecs" {
					s = append(s, n.Obj().Name())
				}
			}
		})
		sort.Strings(s)
		sets["codecs.FromMPEGTS (constructed)"] = s
	}
	var ref []string
	var refName string
	var names []string
	for n := range sets {
		names = append(names, n)
	}
	sort.Strings(names)
	for _, n := range names {
		if ref == nil {
			ref, refName = sets[n], n
			continue
		}
		key := "mpegts-set|" + n
		if strings.Join(sets[n], ",") == strings.Join(ref, ",") {
			r.ok(key, "-", "", "the MPEG-TS codec sets agree", n+" = "+refName+" = {"+strings.Join(ref, ",")+"}")
		} else {
			r.fail(key, "-", "", "the MPEG-TS codec sets agree", n+" = {"+strings.Join(sets[n], ",")+"} but "+refName+" = {"+strings.Join(ref, ",")+"}")
		}
	}
	// reader side: FromMPEGTS cases = the client's supported-track filter
	fromCases, filterCases := []string{}, []string{}
	if f := c.Func("pkg/codecs", "FromMPEGTS"); f != nil {
		for _, g := range typeSwitches(f, mp, "Codec") {
			fromCases = caseNames(g)
		}
	}
	if f := c.Method("", "clientStreamProcessorMPEGTS", "initializeReader"); f != nil {
		for _, g := range typeSwitches(f, mp, "Codec") {
			filterCases = caseNames(g)
		}
	}
	if len(fromCases) > 0 && strings.Join(fromCases, ",") == strings.Join(filterCases, ",") {
		r.ok("mpegts-set|client-filter", "-", "", "the client's MPEG-TS track filter accepts exactly the codecs FromMPEGTS converts", "{"+strings.Join(fromCases, ",")+"}")
	} else {
		r.fail("mpegts-set|client-filter", "-", "", "the client's MPEG-TS track filter accepts exactly the codecs FromMPEGTS converts", "filter {"+strings.Join(filterCases, ",")+"} vs FromMPEGTS {"+strings.Join(fromCases, ",")+"}: a track with a nil codec is exposed")
	}
	// (d) CODECS prefixes
	if m, cs := c.Func("pkg/codecparams", "Marshal"), c.Func("", "checkSupport"); m != nil && cs != nil {
		var prefixes []string
		allInstrs(m, func(in ssa.Instruction) {
			if ret, ok := in.(*ssa.Return); ok {
				lm := leftmostConst(retVal(ret, 0), 0)
				if lm != "" && lm != cyc {
					prefixes = append(prefixes, lm)
				}
			}
		})
		var acceptP, acceptE []string
		// the filter may keep its prefixes in a package-level table and test them in a helper
		csFns := []*ssa.Function{cs}
		allInstrs(cs, func(in ssa.Instruction) {
			if call, ok := in.(*ssa.Call); ok {
				if g := call.Call.StaticCallee(); g != nil && InRootPkg(g) && g.Blocks != nil {
					csFns = appendUnique(csFns, g)
				}
			}
		})
		globals := map[*ssa.Global]bool{}
		for _, g := range csFns {
			allInstrs(g, func(in ssa.Instruction) {
				for _, op := range in.Operands(nil) {
					if gl, ok := (*op).(*ssa.Global); ok && gl.Pkg != nil && gl.Pkg.Pkg.Path() == modPath {
						globals[gl] = true
					}
				}
			})
		}
		for gl := range globals {
			initFn := gl.Pkg.Func("init")
			if initFn == nil {
				continue
			}
			// constants that init() stores into the table: elements of the global array itself, or of the backing
			// array of the slice stored into the global
			backing := map[ssa.Value]bool{gl: true}
			allInstrs(initFn, func(x ssa.Instruction) {
				if st, ok := x.(*ssa.Store); ok && st.Addr == ssa.Value(gl) {
					if sl, ok := st.Val.(*ssa.Slice); ok {
						backing[sl.X] = true
					}
				}
			})
			allInstrs(initFn, func(x ssa.Instruction) {
				st, ok := x.(*ssa.Store)
				if !ok {
					return
				}
				if ia, ok := st.Addr.(*ssa.IndexAddr); ok && backing[ia.X] {
					if str, ok := constString(st.Val); ok && str != "" {
						acceptP = append(acceptP, str)
					}
				}
			})
		}
		for _, csf := range csFns {
			allInstrs(csf, func(in ssa.Instruction) {
				if call, ok := in.(*ssa.Call); ok && isFuncNamed(call.Call.StaticCallee(), "strings", "HasPrefix") {
					if s, ok := constString(call.Call.Args[1]); ok {
						acceptP = append(acceptP, s)
					}
				}
				if bo, ok := in.(*ssa.BinOp); ok && (bo.Op == token.NEQ || bo.Op == token.EQL) {
					if s, ok := constString(bo.Y); ok && s != "" {
						acceptE = append(acceptE, s)
					}
				}
			})
		}
		seenP := map[string]bool{}
		for _, p := range prefixes {
			if seenP[p] {
				continue
			}
			seenP[p] = true
			key := "codecs-prefix|" + p
			ok := false
			for _, a := range acceptP {
				if strings.HasPrefix(p, a) {
					ok = true
				}
			}
			for _, a := range acceptE {
				if p == a {
					ok = true
				}
			}
			if ok {
				r.ok(key, c.Pos(cs.Pos()), FuncName(cs), "every CODECS string the muxer can advertise is accepted by the client's variant filter", fmt.Sprintf("%q accepted", p))
			} else {
				r.fail(key, c.Pos(cs.Pos()), FuncName(cs), "every CODECS string the muxer can advertise is accepted by the client's variant filter", fmt.Sprintf("%q is produced by codecparams.Marshal but rejected by checkSupport: the client reports \"no variants with supported codecs\" for its own muxer", p))
			}
		}
		if len(seenP) < 6 {
			r.undecided("only %d CODECS prefixes extracted from codecparams.Marshal (floor 6)", len(seenP))
		}
	}
	return r
}

// ---------------------------------------------------------------------------

func ruleT5(c *Ctx) *RuleResult {
	r := &RuleResult{Floor: 15, FloorWhat: "codec fields and rendition attributes"}
	to := c.Func("pkg/codecs", "ToFMP4")
	from := c.Func("pkg/codecs", "FromFMP4")
	if to == nil || from == nil {
		r.undecided("ToFMP4 / FromFMP4 not found")
		return r
	}
	loaded := map[*types.Var]bool{}
	stored := map[*types.Var]bool{}
	// a case body may be a helper of the same package (`return vp9FromFMP4(src)`)
	for _, f := range withSamePkgCallees(to) {
		for _, a := range accessesIn(f) {
			if !a.write {
				loaded[a.field] = true
			}
		}
	}
	for _, f := range withSamePkgCallees(from) {
		for _, a := range accessesIn(f) {
			if a.write {
				stored[a.field] = true
			}
		}
	}
	codecIface := c.NamedType("pkg/codecs", "Codec")
	for _, t := range c.implementers("pkg/codecs", codecIface.Underlying().(*types.Interface)) {
		st, ok := t.Underlying().(*types.Struct)
		if !ok {
			continue
		}
		for i := 0; i < st.NumFields(); i++ {
			f := st.Field(i)
			name := t.Obj().Name() + "." + f.Name()
			if loaded[f] {
				r.ok(name+"|ToFMP4", c.Pos(f.Pos()), "", "ToFMP4 reads this codec parameter", "loaded")
			} else {
				r.fail(name+"|ToFMP4", c.Pos(f.Pos()), "", "ToFMP4 reads this codec parameter", "never read: the init segment does not carry it")
			}
			if stored[f] {
				r.ok(name+"|FromFMP4", c.Pos(f.Pos()), "", "FromFMP4 writes this codec parameter", "stored")
			} else {
				r.fail(name+"|FromFMP4", c.Pos(f.Pos()), "", "FromFMP4 writes this codec parameter", "never written: the client reports a track that differs from the muxer's")
			}
		}
	}
	// rendition attributes: muxer side
	if pm := c.Method("", "muxerStream", "populateMultivariantPlaylist"); pm != nil {
		for _, p := range []struct{ dst, src string }{{"Name", "name"}, {"Language", "language"}, {"Default", "isDefault"}} {
			dst := c.Field("pkg/playlist", "MultivariantRendition", p.dst)
			src := c.Field("", "muxerStream", p.src)
			key := "rendition-muxer|" + p.dst
			ok := false
			for _, st := range storesToField(c, pm, dst) {
				if f, _ := loadedField(st.Val); f == src {
					ok = true
				}
			}
			if ok {
				r.ok(key, c.Pos(pm.Pos()), FuncName(pm), "the rendition's "+p.dst+" is the stream's "+p.src, "assigned")
			} else {
				r.fail(key, c.Pos(pm.Pos()), FuncName(pm), "the rendition's "+p.dst+" is the stream's "+p.src, "not assigned from it")
			}
		}
	}
	// client side: Track{Name, Language, IsDefault} come from the rendition (through small closures)
	if run := c.Method("", "clientStreamProcessorFMP4", "run"); run != nil {
		for _, p := range []struct{ dst, src string }{{"Name", "Name"}, {"Language", "Language"}, {"IsDefault", "Default"}} {
			dst := c.Field("", "Track", p.dst)
			src := c.Field("pkg/playlist", "MultivariantRendition", p.src)
			key := "rendition-client|" + p.dst
			ok := false
			for _, st := range storesToField(c, run, dst) {
				v := st.Val
				if call, isCall := v.(*ssa.Call); isCall {
					if g := call.Call.StaticCallee(); g != nil && g.Parent() == run {
						allInstrs(g, func(in ssa.Instruction) {
							if ret, isRet := in.(*ssa.Return); isRet {
								if f, _ := loadedField(retVal(ret, 0)); f == src {
									ok = true
								}
							}
						})
					}
				}
				if f, _ := loadedField(v); f == src {
					ok = true
				}
			}
			if ok {
				r.ok(key, c.Pos(run.Pos()), FuncName(run), "the client track's "+p.dst+" is the rendition's "+p.src, "assigned")
			} else {
				r.fail(key, c.Pos(run.Pos()), FuncName(run), "the client track's "+p.dst+" is the rendition's "+p.src, "not assigned from it")
			}
		}
	}
	return r
}

// ---------------------------------------------------------------------------

func ruleT7(c *Ctx) *RuleResult {
	r := &RuleResult{Floor: 6, FloorWhat: "storage sibling obligations"}
	fileIface := c.NamedType("pkg/storage", "File")
	if fileIface == nil {
		r.undecided("storage.File not found")
		return r
	}
	impls := c.implementers("pkg/storage", fileIface.Underlying().(*types.Interface))
	if len(impls) < 2 {
		r.undecided("expected 2 implementations of storage.File, found %d", len(impls))
	}
	for _, t := range impls {
		tn := t.Obj().Name()
		reader := c.Method("pkg/storage", tn, "Reader")
		fin := c.Method("pkg/storage", tn, "Finalize")
		if reader == nil || fin == nil {
			r.undecided("%s.Reader / Finalize not found", tn)
			continue
		}
		st := t.Underlying().(*types.Struct)
		// gate field: an If in Reader on a field of the receiver such that success requires one outcome
		var gate *types.Var
		for i := 0; i < st.NumFields(); i++ {
			f := st.Field(i)
			conds := ifsOnV(reader, func(v ssa.Value) bool {
				if lf, _ := loadedField(v); lf == f {
					return true
				}
				if bo, ok := v.(*ssa.BinOp); ok {
					if lf, _ := loadedField(bo.X); lf == f {
						return true
					}
				}
				return false
			})
			if len(conds) == 0 {
				continue
			}
			// success returns are reachable for only one outcome of the test
			for _, want := range []bool{true, false} {
				okAll := true
				nSucc := 0
				allInstrs(reader, func(in ssa.Instruction) {
					if ret, ok := in.(*ssa.Return); ok && isSuccessReturnLoose(ret) {
						nSucc++
						if !onlyIf(reader, ret, conds, want) {
							okAll = false
						}
					}
				})
				if okAll && nSucc > 0 {
					gate = f
				}
			}
		}
		key := tn + ".Reader|gated"
		if gate == nil {
			r.fail(key, c.Pos(reader.Pos()), FuncName(reader), "Reader() succeeds only if a finalisation flag has its finalised value", "no receiver field gates the success returns: the file can be read while it is still being written")
			continue
		}
		// every store to the gate outside the constructor literal is in Finalize
		okStores := true
		where := ""
		for _, fn := range c.Funcs {
			for _, s := range storesToField(c, fn, gate) {
				if freshObject(s.Addr) {
					continue
				}
				if fn != fin && !finPhase(c, fin, fn) {
					okStores = false
					where = FuncName(fn)
				}
			}
		}
		if okStores {
			r.ok(key, c.Pos(reader.Pos()), FuncName(reader), "Reader() succeeds only if a flag that only Finalize sets has its finalised value", "gate field "+tn+"."+gate.Name())
		} else {
			r.fail(key, c.Pos(reader.Pos()), FuncName(reader), "the finalisation flag is only set by Finalize", tn+"."+gate.Name()+" is also stored in "+where)
		}
		// Size
		if size := c.Method("pkg/storage", tn, "Size"); size != nil {
			var sf *types.Var
			allInstrs(size, func(in ssa.Instruction) {
				if ret, ok := in.(*ssa.Return); ok {
					sf, _ = loadedField(retVal(ret, 0))
				}
			})
			key := tn + ".Size|finalize-only"
			if sf == nil {
				r.fail(key, c.Pos(size.Pos()), FuncName(size), "Size() returns a field", "result is not a field load")
			} else {
				okS := true
				for _, fn := range c.Funcs {
					for _, s := range storesToField(c, fn, sf) {
						if !freshObject(s.Addr) && fn != fin && !finPhase(c, fin, fn) {
							okS = false
						}
					}
				}
				if okS {
					r.ok(key, c.Pos(size.Pos()), FuncName(size), "the size reported for a file is only written by Finalize", tn+"."+sf.Name())
				} else {
					r.fail(key, c.Pos(size.Pos()), FuncName(size), "the size reported for a file is only written by Finalize", tn+"."+sf.Name()+" is written elsewhere")
				}
			}
		}
	}
	// mirror writer
	for _, m := range []string{"Write", "Seek"} {
		fn := c.Method("pkg/storage", "doubleWriter", m)
		if fn == nil {
			r.undecided("doubleWriter.%s not found", m)
			continue
		}
		var calls []*ssa.Call
		allInstrs(fn, func(in ssa.Instruction) {
			if call, ok := in.(*ssa.Call); ok && call.Call.IsInvoke() && call.Call.Method.Name() == m {
				calls = append(calls, call)
			}
		})
		key := "doubleWriter." + m + "|mirrors"
		if len(calls) != 2 {
			r.fail(key, c.Pos(fn.Pos()), FuncName(fn), "the operation is forwarded to both writers", fmt.Sprintf("%d forwarded calls", len(calls)))
			continue
		}
		f1, _ := loadedField(calls[0].Call.Value)
		f2, _ := loadedField(calls[1].Call.Value)
		sameArgs := len(calls[0].Call.Args) == len(calls[1].Call.Args)
		for i := range calls[0].Call.Args {
			if sameArgs && (calls[0].Call.Args[i] != calls[1].Call.Args[i] || !isParam(calls[0].Call.Args[i])) {
				sameArgs = false
			}
		}
		// first error checked, second result returned
		firstErrChecked := false
		for _, ref := range *calls[0].Referrers() {
			if ex, ok := ref.(*ssa.Extract); ok && ex.Index == 1 && len(*ex.Referrers()) > 0 {
				firstErrChecked = true
			}
		}
		secondReturned := false
		allInstrs(fn, func(in ssa.Instruction) {
			if ret, ok := in.(*ssa.Return); ok {
				for _, rv := range ret.Results {
					if ex, ok := rv.(*ssa.Extract); ok && ex.Tuple == calls[1] {
						secondReturned = true
					}
				}
			}
		})
		switch {
		case f1 == nil || f2 == nil || f1 == f2:
			r.fail(key, c.Pos(fn.Pos()), FuncName(fn), "the operation is forwarded to both writers", "both calls target the same writer")
		case !sameArgs:
			r.fail(key, c.Pos(fn.Pos()), FuncName(fn), "both writers receive the caller's arguments unchanged", "arguments differ between the two forwarded calls")
		case !firstErrChecked || !secondReturned:
			r.fail(key, c.Pos(fn.Pos()), FuncName(fn), "both errors are propagated", fmt.Sprintf("first error checked: %v, second result returned: %v", firstErrChecked, secondReturned))
		default:
			r.ok(key, c.Pos(fn.Pos()), FuncName(fn), "the operation is forwarded to both writers with identical arguments and both errors are propagated", "w1 then w2")
		}
	}
	return r
}

func isParam(v ssa.Value) bool {
	_, ok := v.(*ssa.Parameter)
	return ok
}

// isSuccessReturnLoose: like isSuccessReturn, but a non-constant error result (e.g. `return os.Open(...)`) counts
// as a (possible) success.
func isSuccessReturnLoose(ret *ssa.Return) bool {
	sig := ret.Parent().Signature
	res := sig.Results()
	for i := 0; i < res.Len(); i++ {
		if types.Identical(res.At(i).Type(), types.Universe.Lookup("error").Type()) {
			v := retVal(ret, i)
			if k, ok := v.(*ssa.Const); ok {
				return k.IsNil()
			}
			if _, isCall := v.(*ssa.Call); isCall {
				// fmt.Errorf(...) is an error; anything else may be nil
				if call := v.(*ssa.Call); isFuncNamed(call.Call.StaticCallee(), "fmt", "Errorf") || isFuncNamed(call.Call.StaticCallee(), "errors", "New") {
					return false
				}
			}
			return true
		}
	}
	return true
}

// finPhase: fn is a phase of fin — a method of the same receiver that is called from fin (or from another phase) and
// from nowhere else.
func finPhase(c *Ctx, fin, fn *ssa.Function) bool {
	set := map[*ssa.Function]bool{fin: true}
	for _, g := range sameRecvCallees(fin) {
		set[g] = true
	}
	if !set[fn] {
		return false
	}
	for changed := true; changed; {
		changed = false
		for g := range set {
			if g == fin {
				continue
			}
			for _, e := range c.callersOf(g) {
				if !set[e.Caller.Func] {
					delete(set, g)
					changed = true
					break
				}
			}
		}
	}
	return set[fn]
}

// withSamePkgCallees: fn and the functions of its own package that it calls statically (one level).
func withSamePkgCallees(fn *ssa.Function) []*ssa.Function {
	out := []*ssa.Function{fn}
	seen := map[*ssa.Function]bool{fn: true}
	allInstrs(fn, func(in ssa.Instruction) {
		if ci, ok := in.(ssa.CallInstruction); ok {
			g := ci.Common().StaticCallee()
			if g != nil && !seen[g] && g.Blocks != nil && g.Pkg != nil && fn.Pkg != nil && g.Pkg == fn.Pkg {
				seen[g] = true
				out = append(out, g)
			}
		}
	})
	return out
}
