package main

// Fourteenth batch: rules written after the fourteenth round of seeded changes.

import (
	"fmt"
	"go/constant"
	"go/token"
	"go/types"
	"strings"

	"golang.org/x/tools/go/ssa"
)

func init() {
	registerRule("T7v", "Remove unlinks, now: the Remove of every disk-backed storage File calls os.Remove on every path to its return (no flag, no deferral to Finalize or to the last reader)", ruleT7v)
	registerRule("F54", "the fMP4 time origin is the leading track's own first base time: the value stored into clientTimeConvFMP4.leadingBaseTime is the BaseTime field of a part track, read directly, and that part track is the one looked up with the leading track id", ruleF54)
	registerRule("F55", "wall-clock anchoring works on converted time: every timestamp handed to setNTP / getNTP of a leading time converter is a result of that converter's convert()", ruleF55)
	registerRule("F56", "one unwrap: the client's time converters apply no bit mask, remainder or shift to a timestamp (33-bit roll-over is handled once, inside mediacommon's TimeDecoder)", ruleF56)
	registerRule("G11p", "avc1.PPCCLL copies the SPS: the H264 branch of codecparams.Marshal either hex-encodes bytes 1..3 of the SPS as they are, or reads every constraint_set flag of the parsed SPS", ruleG11p)
	registerRule("T32", "quoted attribute values are taken verbatim: in Attributes.Unmarshal the value stored for a quoted attribute is a substring of the input, no function is applied to it", ruleT32)
	registerRule("T33", "a decoded flag is set by its own tag only: in the Unmarshal methods of the playlist package no constant is stored into a field of the playlist outside the case of a tag", ruleT33)
	registerRule("F29b", "date and time of one unit: where the segmenter hands a segment function the ntp field of a sample, the instant handed with it is computed from the dts field of the same sample", ruleF29b)
	registerRule("V4n", "an accessor that may return nil is tested: the result of a root-package function that returns the comma-ok assertion of an open slot (nil when the slot is empty or of another type) is dereferenced in request code only behind a nil test", ruleV4n)
	registerRule("F8d", "a fragment is held until it was played: in the fMP4 stream processor's processSegment no path leads from a push to a track processor to a possibly successful return without passing joinTrackProcessors", ruleF8d)
}

// ---------------------------------------------------------------------------

func ruleT7v(c *Ctx) *RuleResult {
	r := &RuleResult{Floor: 1, FloorWhat: "Remove methods of disk-backed storage files"}
	fileT := c.NamedType("pkg/storage", "File")
	if fileT == nil {
		r.undecided("storage.File not found")
		return r
	}
	iface, _ := fileT.Underlying().(*types.Interface)
	if iface == nil {
		r.undecided("storage.File is not an interface")
		return r
	}
	n := 0
	for _, t := range c.implementers("pkg/storage", iface) {
		st, _ := t.Underlying().(*types.Struct)
		if st == nil {
			continue
		}
		// disk-backed: the object remembers a path that some function of the package hands to os.Create
		diskBacked := false
		for _, fn := range c.Funcs {
			if fn.Blocks == nil || fn.Pkg == nil || fn.Pkg.Pkg.Path() != modPath+"/pkg/storage" {
				continue
			}
			creates := false
			allInstrs(fn, func(in ssa.Instruction) {
				if ci, ok := in.(ssa.CallInstruction); ok {
					g := ci.Common().StaticCallee()
					if isFuncNamed(g, "os", "Create") || isFuncNamed(g, "os", "OpenFile") {
						creates = true
					}
				}
			})
			if !creates {
				continue
			}
			allInstrs(fn, func(in ssa.Instruction) {
				if al, ok := in.(*ssa.Alloc); ok && namedOf(al.Type()) == t {
					diskBacked = true
				}
			})
		}
		if !diskBacked {
			continue
		}
		fn := c.Method("pkg/storage", t.Obj().Name(), "Remove")
		if fn == nil || fn.Blocks == nil {
			r.undecided("%s.Remove not found", t.Obj().Name())
			continue
		}
		n++
		key := FuncName(fn) + "|unlinks-on-every-path"
		what := "when Remove returns the file is gone from the directory"
		blocked := map[int]bool{}
		for _, b := range fn.Blocks {
			for _, in := range b.Instrs {
				if ci, ok := in.(ssa.CallInstruction); ok {
					if _, isDefer := in.(*ssa.Defer); isDefer {
						continue
					}
					if isFuncNamed(ci.Common().StaticCallee(), "os", "Remove") {
						blocked[b.Index] = true
					}
				}
			}
		}
		if len(blocked) == 0 {
			r.fail(key, c.Pos(fn.Pos()), FuncName(fn), what, "Remove does not call os.Remove at all")
			continue
		}
		seen := reachableBlocks(fn, 0, nil, blocked)
		bad := ""
		if blocked[0] {
			seen = make([]bool, len(fn.Blocks))
		}
		for _, b := range fn.Blocks {
			if !seen[b.Index] {
				continue
			}
			if ret, ok := b.Instrs[len(b.Instrs)-1].(*ssa.Return); ok {
				bad = c.Pos(posOf(ret))
			}
		}
		if bad == "" {
			r.ok(key, c.Pos(fn.Pos()), FuncName(fn), what, "every path to a return passes os.Remove")
		} else {
			r.fail(key, c.Pos(fn.Pos()), FuncName(fn), what, "the return at "+bad+" is reachable without os.Remove: the file stays in the directory after Remove (after Close, after the segment left the window) until some later event that may never come")
		}
	}
	r.Instances = n
	return r
}

// ---------------------------------------------------------------------------

func ruleF54(c *Ctx) *RuleResult {
	r := &RuleResult{Floor: 1, FloorWhat: "stores of the fMP4 time origin"}
	f := c.Field("", "clientTimeConvFMP4", "leadingBaseTime")
	lead := c.Field("", "clientStreamProcessorFMP4", "leadingTrackID")
	if f == nil {
		r.undecided("clientTimeConvFMP4.leadingBaseTime not found")
		return r
	}
	n := 0
	for _, fn := range c.Funcs {
		if !InRootPkg(fn) || fn.Blocks == nil {
			continue
		}
		for _, st := range storesToField(c, fn, f) {
			n++
			key := fmt.Sprintf("%s|origin#%d", FuncName(fn), n)
			what := "delivered times are container times minus the first DTS of the leading track"
			v := stripConv(st.Val)
			bf, base := loadedField(v)
			if bf == nil || bf.Name() != "BaseTime" {
				r.fail(key, c.Pos(st.Pos()), FuncName(fn), what, "the origin is computed ("+describeVal(v)+") instead of being the leading part track's BaseTime: whenever another track of the first fragment starts earlier (or later) every delivered DTS/PTS is shifted and units before the origin are not dropped")
				continue
			}
			// the part track is the leading one
			okLead := false
			why := ""
			switch b := base.(type) {
			case *ssa.Parameter:
				idx := -1
				for i, p := range fn.Params {
					if p == b {
						idx = i
					}
				}
				callers := c.callersOf(fn)
				okLead = len(callers) > 0
				for _, e := range callers {
					if e.Site == nil || idx >= len(e.Site.Common().Args) {
						okLead = false
						continue
					}
					if !isLeadingLookup(e.Site.Common().Args[idx], lead) {
						okLead = false
						why = "the caller at " + c.Pos(e.Site.Pos()) + " passes a part track that is not the result of the look-up by leading track id"
					}
				}
			default:
				okLead = isLeadingLookup(base, lead)
			}
			if okLead {
				r.ok(key, c.Pos(st.Pos()), FuncName(fn), what, "BaseTime of the part track found by leading track id")
			} else {
				// which part track it is cannot be told from this form: no verdict (never reported as a violation)
				if why == "" {
					why = "the part track whose BaseTime is taken is not recognisably the result of the look-up by leading track id"
				}
				r.undecided("F54: %s at %s: %s", FuncName(fn), c.Pos(st.Pos()), why)
			}
		}
	}
	r.Instances = n
	return r
}

// isLeadingLookup: v is the result of a call to a function that returns a part track only behind the test
// `partTrack.ID == <leading track id>` (the id being an argument that loads the leadingTrackID field, or that field
// read by the function itself).
func isLeadingLookup(v ssa.Value, lead *types.Var) bool {
	v = canon(v)
	call, ok := v.(*ssa.Call)
	if !ok {
		return false
	}
	g := call.Call.StaticCallee()
	if g == nil || g.Blocks == nil || !InRootPkg(g) {
		return false
	}
	isLead := func(x ssa.Value) bool {
		x = stripConv(x)
		if f, _ := loadedField(x); f != nil && f == lead {
			return true
		}
		if p, isP := x.(*ssa.Parameter); isP {
			for i, q := range g.Params {
				if q == p && i < len(call.Call.Args) {
					if f, _ := loadedField(stripConv(call.Call.Args[i])); f != nil && f == lead {
						return true
					}
				}
			}
		}
		return false
	}
	isID := func(x ssa.Value) bool {
		f, _ := loadedField(stripConv(x))
		return f != nil && f.Name() == "ID"
	}
	conds := ifsOnV(g, func(x ssa.Value) bool {
		bo, ok := x.(*ssa.BinOp)
		if !ok || bo.Op != token.EQL {
			return false
		}
		return (isID(bo.X) && isLead(bo.Y)) || (isID(bo.Y) && isLead(bo.X))
	})
	if len(conds) == 0 {
		return false
	}
	nonNil := 0
	for _, b := range g.Blocks {
		ret, ok := b.Instrs[len(b.Instrs)-1].(*ssa.Return)
		if !ok || len(ret.Results) == 0 {
			continue
		}
		if k, isK := retVal(ret, 0).(*ssa.Const); isK && k.IsNil() {
			continue
		}
		nonNil++
		if !onlyIf(g, ret, conds, true) {
			return false
		}
	}
	return nonNil > 0
}

// ---------------------------------------------------------------------------

func ruleF55(c *Ctx) *RuleResult {
	r := &RuleResult{Floor: 4, FloorWhat: "timestamps handed to setNTP / getNTP"}
	n := 0
	ntpFns := map[*ssa.Function]bool{}
	convFns := map[*ssa.Function]bool{}
	for _, tn := range []string{"clientTimeConvFMP4", "clientTimeConvMPEGTS"} {
		for _, mn := range []string{"setNTP", "getNTP"} {
			if m := c.Method("", tn, mn); m != nil {
				ntpFns[m] = true
			} else {
				r.undecided("F55: %s.%s not found", tn, mn)
			}
		}
		if m := c.Method("", tn, "convert"); m != nil {
			convFns[m] = true
		} else {
			r.undecided("F55: %s.convert not found", tn)
		}
	}
	for _, fn := range c.clientFuncs() {
		if fn.Blocks == nil {
			continue
		}
		cnt := 0
		allInstrs(fn, func(in ssa.Instruction) {
			call, ok := in.(*ssa.Call)
			if !ok {
				return
			}
			g := call.Call.StaticCallee()
			if g == nil || g.Signature.Recv() == nil || !ntpFns[g] {
				return
			}
			recv := namedOf(g.Signature.Recv().Type())
			if recv == nil {
				return
			}
			// the first int64 parameter is the timestamp
			for i, p := range g.Params {
				b, isB := p.Type().Underlying().(*types.Basic)
				if i == 0 || !isB || b.Kind() != types.Int64 {
					continue
				}
				n++
				cnt++
				key := fmt.Sprintf("%s|%s timestamp#%d", FuncName(fn), g.Name(), cnt)
				what := "the distance to the PROGRAM-DATE-TIME anchor is measured on unwrapped, origin-relative time"
				arg := call.Call.Args[i]
				if isConvertResult(arg, recv, convFns, 0) {
					r.ok(key, c.Pos(call.Pos()), FuncName(fn), what, "a result of "+recv.Obj().Name()+"'s converter")
				} else {
					r.fail(key, c.Pos(call.Pos()), FuncName(fn), what, "the argument ("+describeVal(canon(arg))+") is not a result of convert(): a raw container timestamp reaches the wall-clock arithmetic, AbsoluteTime jumps by the origin offset or by 2^33 ticks at a roll-over")
				}
				break
			}
		})
	}
	r.Instances = n
	return r
}

func isConvertResult(v ssa.Value, recv *types.Named, convFns map[*ssa.Function]bool, depth int) bool {
	if depth > 4 {
		return false
	}
	v = canon(v)
	switch x := v.(type) {
	case *ssa.Call:
		g := x.Call.StaticCallee()
		return g != nil && convFns[g] && g.Signature.Recv() != nil && namedOf(g.Signature.Recv().Type()) == recv
	case *ssa.Phi:
		for _, e := range x.Edges {
			if !isConvertResult(e, recv, convFns, depth+1) {
				return false
			}
		}
		return len(x.Edges) > 0
	}
	return false
}

// ---------------------------------------------------------------------------

func ruleF56(c *Ctx) *RuleResult {
	r := &RuleResult{Floor: 3, FloorWhat: "integer operations in the client's time converters"}
	n := 0
	for _, fn := range c.clientFuncs() {
		if fn.Blocks == nil || fn.Signature.Recv() == nil {
			continue
		}
		recv := namedOf(fn.Signature.Recv().Type())
		if recv == nil || !strings.HasPrefix(recv.Obj().Name(), "clientTimeConv") {
			continue
		}
		cnt := 0
		allInstrs(fn, func(in ssa.Instruction) {
			bo, ok := in.(*ssa.BinOp)
			if !ok {
				return
			}
			b, isB := bo.X.Type().Underlying().(*types.Basic)
			if !isB || b.Info()&types.IsInteger == 0 {
				return
			}
			switch bo.Op {
			case token.EQL, token.NEQ, token.LSS, token.LEQ, token.GTR, token.GEQ:
				return
			}
			n++
			cnt++
			key := fmt.Sprintf("%s|int-op#%d", FuncName(fn), cnt)
			what := "timestamps that went through convert() are plain signed distances"
			switch bo.Op {
			case token.AND, token.AND_NOT, token.REM, token.SHL, token.SHR, token.OR, token.XOR:
				r.fail(key, c.Pos(bo.Pos()), FuncName(fn), what, "`"+bo.Op.String()+"` applied to a timestamp: a negative distance (a unit that precedes the anchor, e.g. audio lagging the first key frame of a segment) becomes a huge positive one — AbsoluteTime is off by 2^33 ticks")
			default:
				r.ok(key, c.Pos(bo.Pos()), FuncName(fn), what, "`"+bo.Op.String()+"`")
			}
		})
	}
	r.Instances = n
	return r
}

// ---------------------------------------------------------------------------

func ruleG11p(c *Ctx) *RuleResult {
	r := &RuleResult{Floor: 1, FloorWhat: "H264 branches of codecparams.Marshal"}
	fn := c.Func("pkg/codecparams", "Marshal")
	if fn == nil {
		r.undecided("codecparams.Marshal not found")
		return r
	}
	spsF := c.Field("pkg/codecs", "H264", "SPS")
	if spsF == nil {
		r.undecided("codecs.H264.SPS not found")
		return r
	}
	// functions reachable from Marshal inside the package
	var fns []*ssa.Function
	seen := map[*ssa.Function]bool{}
	var visit func(f *ssa.Function)
	visit = func(f *ssa.Function) {
		if f == nil || seen[f] || f.Blocks == nil || f.Pkg == nil || f.Pkg.Pkg.Path() != modPath+"/pkg/codecparams" {
			return
		}
		seen[f] = true
		fns = append(fns, f)
		allInstrs(f, func(in ssa.Instruction) {
			if ci, ok := in.(ssa.CallInstruction); ok {
				visit(ci.Common().StaticCallee())
			}
		})
		for _, a := range f.AnonFuncs {
			visit(a)
		}
	}
	visit(fn)
	// (a) raw form: a slice SPS[1:4] (constant bounds) flows into the string
	raw := false
	parsedFlags := map[string]bool{}
	usesParsed := false
	for _, f := range fns {
		allInstrs(f, func(in ssa.Instruction) {
			switch x := in.(type) {
			case *ssa.Slice:
				if lf, _ := loadedField(x.X); lf == spsF {
					lo, okLo := constInt(x.Low)
					hi, okHi := constInt(x.High)
					if x.Low != nil && x.High != nil && okLo && okHi && lo == 1 && hi == 4 {
						raw = true
					}
				}
			case *ssa.FieldAddr:
				st := derefStruct(x.X.Type())
				if st == nil {
					return
				}
				nt := namedOf(x.X.Type())
				if nt == nil || nt.Obj().Pkg() == nil || !strings.HasSuffix(nt.Obj().Pkg().Path(), "/codecs/h264") || nt.Obj().Name() != "SPS" {
					return
				}
				usesParsed = true
				name := st.Field(x.Field).Name()
				if strings.HasPrefix(name, "ConstraintSet") {
					parsedFlags[name] = true
				}
			}
		})
	}
	r.Instances = 1
	key := "Marshal|avc1-constraint-byte"
	what := "the CODECS entry of an H264 track carries profile_idc, the whole constraint byte and level_idc of its current SPS"
	switch {
	case raw && !usesParsed:
		r.ok(key, c.Pos(fn.Pos()), FuncName(fn), what, "hex of SPS[1:4]")
	case usesParsed:
		// every ConstraintSet*Flag of the parsed type must be read
		var missing []string
		for _, f := range fns {
			_ = f
		}
		var spsT *types.Struct
		for _, f := range fns {
			allInstrs(f, func(in ssa.Instruction) {
				if fa, ok := in.(*ssa.FieldAddr); ok {
					if nt := namedOf(fa.X.Type()); nt != nil && nt.Obj().Name() == "SPS" && nt.Obj().Pkg() != nil && strings.HasSuffix(nt.Obj().Pkg().Path(), "/codecs/h264") {
						spsT = derefStruct(fa.X.Type())
					}
				}
			})
		}
		if spsT != nil {
			for i := 0; i < spsT.NumFields(); i++ {
				nm := spsT.Field(i).Name()
				if strings.HasPrefix(nm, "ConstraintSet") && !parsedFlags[nm] {
					missing = append(missing, nm)
				}
			}
		}
		if len(missing) == 0 && raw {
			r.ok(key, c.Pos(fn.Pos()), FuncName(fn), what, "raw bytes and parsed fields, all flags read")
		} else if len(missing) == 0 {
			r.ok(key, c.Pos(fn.Pos()), FuncName(fn), what, "rebuilt from the parsed SPS, every constraint_set flag read")
		} else {
			r.fail(key, c.Pos(fn.Pos()), FuncName(fn), what, "the string is rebuilt from the parsed SPS but "+strings.Join(missing, ", ")+" are never read: an SPS that sets them (Constrained High, Progressive High) is announced with a constraint byte that is not its own")
		}
	default:
		r.fail(key, c.Pos(fn.Pos()), FuncName(fn), what, "neither SPS[1:4] nor the parsed constraint flags reach the avc1 string")
	}
	return r
}

// ---------------------------------------------------------------------------

func ruleT32(c *Ctx) *RuleResult {
	r := &RuleResult{Floor: 1, FloorWhat: "stores of attribute values"}
	fn := c.Method("pkg/playlist/primitives", "Attributes", "Unmarshal")
	if fn == nil {
		r.undecided("primitives.Attributes.Unmarshal not found")
		return r
	}
	isQuoteFact := func(b *ssa.BasicBlock) bool {
		for _, f := range factsAt(b) {
			bo, ok := f.cond.(*ssa.BinOp)
			if !ok {
				continue
			}
			k, isK := constInt(bo.Y)
			if !isK || k != '"' {
				continue
			}
			if (bo.Op == token.EQL && f.pol) || (bo.Op == token.NEQ && !f.pol) {
				return true
			}
		}
		return false
	}
	n := 0
	allInstrs(fn, func(in ssa.Instruction) {
		mu, ok := in.(*ssa.MapUpdate)
		if !ok {
			return
		}
		n++
		key := fmt.Sprintf("Attributes.Unmarshal|value#%d", n)
		what := "what was printed between the quotes is what is decoded"
		transformed := ""
		quotedLeaf := false
		seen := map[ssa.Value]bool{}
		var walk func(v ssa.Value, via string, d int)
		walk = func(v ssa.Value, via string, d int) {
			if v == nil || d > 8 || seen[v] {
				return
			}
			seen[v] = true
			switch x := v.(type) {
			case *ssa.Phi:
				for _, e := range x.Edges {
					walk(e, via, d+1)
				}
			case *ssa.Call:
				name := "a function value"
				if g := x.Call.StaticCallee(); g != nil {
					name = FuncName(g)
				}
				for _, a := range x.Call.Args {
					if b, isB := a.Type().Underlying().(*types.Basic); isB && b.Info()&types.IsString != 0 {
						walk(a, name, d+1)
					}
				}
			case *ssa.Slice:
				if isQuoteFact(x.Block()) {
					quotedLeaf = true
					if via != "" {
						transformed = via
					}
				}
			case *ssa.UnOp:
				if al, ok := x.X.(*ssa.Alloc); ok && x.Op == token.MUL {
					for _, ref := range *al.Referrers() {
						if st, ok := ref.(*ssa.Store); ok && st.Addr == ssa.Value(al) {
							walk(st.Val, via, d+1)
						}
					}
				}
			}
		}
		walk(mu.Value, "", 0)
		if transformed != "" {
			r.fail(key, c.Pos(mu.Pos()), FuncName(fn), what, "a quoted value passes through "+transformed+" before it is stored: NAME=\"English \" or a URI ending in a tab decodes to a different string, Unmarshal(Marshal(p)) != p")
		} else if quotedLeaf {
			r.ok(key, c.Pos(mu.Pos()), FuncName(fn), what, "the substring between the quotes, stored as it is")
		} else {
			r.ok(key, c.Pos(mu.Pos()), FuncName(fn), what, "an unquoted value")
		}
	})
	r.Instances = n
	return r
}

// ---------------------------------------------------------------------------

func ruleT33(c *Ctx) *RuleResult {
	r := &RuleResult{Floor: 2, FloorWhat: "constant stores into playlist fields by the decoders"}
	n := 0
	for _, tn := range []string{"Media", "Multivariant"} {
		fn := c.Method("pkg/playlist", tn, "Unmarshal")
		if fn == nil {
			r.undecided("playlist.%s.Unmarshal not found", tn)
			continue
		}
		if len(fn.Params) == 0 {
			continue
		}
		recv := fn.Params[0]
		tagFact := func(b *ssa.BasicBlock) bool {
			for _, f := range factsAt(b) {
				if !f.pol {
					continue
				}
				switch x := f.cond.(type) {
				case *ssa.Call:
					g := x.Call.StaticCallee()
					if isFuncNamed(g, "strings", "HasPrefix") && len(x.Call.Args) == 2 {
						if s, ok := constString(x.Call.Args[1]); ok && strings.HasPrefix(s, "#") {
							return true
						}
					}
				case *ssa.BinOp:
					if x.Op == token.EQL {
						if s, ok := constString(x.Y); ok && strings.HasPrefix(s, "#") {
							return true
						}
						if s, ok := constString(x.X); ok && strings.HasPrefix(s, "#") {
							return true
						}
					}
				}
			}
			return false
		}
		cnt := 0
		allInstrs(fn, func(in ssa.Instruction) {
			st, ok := in.(*ssa.Store)
			if !ok {
				return
			}
			f, base := fieldOfAddr(st.Addr)
			if f == nil || base != ssa.Value(recv) {
				return
			}
			k, isK := st.Val.(*ssa.Const)
			if !isK || k.IsNil() || k.Value == nil {
				return
			}
			if k.Value.Kind() == constant.Bool && !constant.BoolVal(k.Value) {
				return // resetting to the zero value
			}
			n++
			cnt++
			key := fmt.Sprintf("%s.Unmarshal|const %s#%d", tn, f.Name(), cnt)
			what := "a field has the value its own tag gave it (absent tag: zero value), so that Marshal prints it back iff it was there"
			if tagFact(st.Block()) {
				r.ok(key, c.Pos(st.Pos()), FuncName(fn), what, "inside the case of a tag")
			} else {
				r.fail(key, c.Pos(st.Pos()), FuncName(fn), what, "the constant "+k.Value.String()+" is stored into "+f.Name()+" outside every tag case: the decoder invents a value that the text did not contain, Marshal(Unmarshal(text)) prints a tag that text did not have")
			}
		})
	}
	r.Instances = n
	return r
}

// ---------------------------------------------------------------------------

// findNamedFieldLoad looks for a load of a field called name in the expression v (through conversions, calls and arithmetic).
func findNamedFieldLoad(v ssa.Value, name string, depth int) ssa.Value {
	if v == nil || depth > 5 {
		return nil
	}
	v = stripConv(v)
	if f, base := loadedField(v); f != nil && f.Name() == name {
		return base
	}
	switch x := v.(type) {
	case *ssa.Call:
		for _, a := range x.Call.Args {
			if b := findNamedFieldLoad(a, name, depth+1); b != nil {
				return b
			}
		}
	case *ssa.BinOp:
		if b := findNamedFieldLoad(x.X, name, depth+1); b != nil {
			return b
		}
		return findNamedFieldLoad(x.Y, name, depth+1)
	case *ssa.UnOp:
		if x.Op != token.MUL {
			return findNamedFieldLoad(x.X, name, depth+1)
		}
	}
	return nil
}

func ruleF29b(c *Ctx) *RuleResult {
	r := &RuleResult{Floor: 2, FloorWhat: "segment functions called with the ntp of a sample"}
	seg := c.NamedType("", "muxerSegmenter")
	if seg == nil {
		r.undecided("muxerSegmenter not found")
		return r
	}
	n := 0
	for _, fn := range c.Funcs {
		if fn.Signature.Recv() == nil || namedOf(fn.Signature.Recv().Type()) != seg {
			continue
		}
		cnt := 0
		allInstrs(fn, func(in ssa.Instruction) {
			call, ok := in.(*ssa.Call)
			if !ok || !call.Call.IsInvoke() || (call.Call.Method.Name() != "rotateSegments" && call.Call.Method.Name() != "createFirstSegment") {
				return
			}
			var ntpBase, dtsBase ssa.Value
			var dtsArg ssa.Value
			for _, a := range call.Call.Args {
				switch {
				case typeIs(a.Type(), "time", "Time"):
					if f, b := loadedField(canon(a)); f != nil && f.Name() == "ntp" {
						ntpBase = b
					}
				case typeIs(a.Type(), "time", "Duration"):
					dtsArg = a
					dtsBase = findNamedFieldLoad(canon(a), "dts", 0)
				}
			}
			if ntpBase == nil || dtsArg == nil {
				return
			}
			n++
			cnt++
			key := fmt.Sprintf("%s|%s same-unit#%d", FuncName(fn), call.Call.Method.Name(), cnt)
			what := "the date-time and the start instant of the new segment belong to the same unit (the one that opens it)"
			if dtsBase == nil {
				r.ok(key, c.Pos(call.Pos()), FuncName(fn), what, "the instant is not read from a sample field (decided by F1/F29)")
				return
			}
			pa, pb := accessPath(canon(ntpBase)), accessPath(canon(dtsBase))
			samePath := pa != "" && pa == pb
			if samePath && canon(ntpBase) != canon(dtsBase) {
				// two loads of one access path denote one object only if no store to the loaded field separates them
				la, okA := canon(ntpBase).(*ssa.UnOp)
				lb, okB := canon(dtsBase).(*ssa.UnOp)
				if okA && okB {
					if ff, _ := fieldOfAddr(la.X); ff != nil {
						for _, st := range storesToField(c, fn, ff) {
							if instrReaches(st, la) != instrReaches(st, lb) {
								samePath = false
								pb += " (re-read after the store at " + c.Pos(st.Pos()) + ")"
							}
						}
					}
				}
			}
			if canon(ntpBase) == canon(dtsBase) || samePath {
				r.ok(key, c.Pos(call.Pos()), FuncName(fn), what, "both read from "+pa)
			} else {
				r.fail(key, c.Pos(call.Pos()), FuncName(fn), what, "the instant is the dts of `"+pb+"` but the date-time is the ntp of `"+pa+"`: the segment is dated with the wall clock of another unit (the last one of the closing segment)")
			}
		})
	}
	r.Instances = n
	return r
}

// ---------------------------------------------------------------------------

// slotAccessors: root-package functions whose result is the comma-ok assertion of an open slot.
func (c *Ctx) slotAccessors() map[*ssa.Function]*types.Var {
	if v, ok := c.cache["slotAccessors"]; ok {
		return v.(map[*ssa.Function]*types.Var)
	}
	out := map[*ssa.Function]*types.Var{}
	c.cache["slotAccessors"] = out
	slots, _ := c.slotFields()
	for _, fn := range c.Funcs {
		if !InRootPkg(fn) || fn.Blocks == nil || fn.Signature.Results().Len() != 1 {
			continue
		}
		if _, isPtr := fn.Signature.Results().At(0).Type().(*types.Pointer); !isPtr {
			continue
		}
		for _, b := range fn.Blocks {
			ret, ok := b.Instrs[len(b.Instrs)-1].(*ssa.Return)
			if !ok || len(ret.Results) != 1 {
				continue
			}
			v := ret.Results[0]
			if ex, ok := v.(*ssa.Extract); ok && ex.Index == 0 {
				if ta, ok := ex.Tuple.(*ssa.TypeAssert); ok && ta.CommaOk {
					if f, _ := loadedField(ta.X); f != nil && slots[f] {
						out[fn] = f
					}
				}
			}
		}
	}
	return out
}

func ruleV4n(c *Ctx) *RuleResult {
	r := &RuleResult{Floor: 0, FloorWhat: "results of nil-returning slot accessors in request code"}
	acc := c.slotAccessors()
	ro := c.roles()
	rset := c.reachRole(ro.R)
	n := 0
	var rfns []*ssa.Function
	for fn := range rset {
		if InRootPkg(fn) && fn.Blocks != nil {
			rfns = append(rfns, fn)
		}
	}
	sortFuncs(rfns)
	for _, fn := range rfns {
		cnt := 0
		allInstrs(fn, func(in ssa.Instruction) {
			call, ok := in.(*ssa.Call)
			if !ok {
				return
			}
			g := call.Call.StaticCallee()
			f, isAcc := acc[g]
			if !isAcc {
				return
			}
			for _, ref := range *call.Referrers() {
				var pos token.Pos
				switch x := ref.(type) {
				case *ssa.FieldAddr:
					if x.X != ssa.Value(call) {
						continue
					}
					pos = x.Pos()
				case *ssa.Call:
					if x.Call.IsInvoke() || len(x.Call.Args) == 0 || x.Call.Args[0] != ssa.Value(call) || x.Call.StaticCallee() == nil || x.Call.StaticCallee().Signature.Recv() == nil {
						continue
					}
					pos = x.Pos()
				default:
					continue
				}
				n++
				cnt++
				key := fmt.Sprintf("%s|deref %s()#%d", FuncName(fn), g.Name(), cnt)
				what := "request code dereferences the open " + c.fieldName(f) + " only where it is known to exist (it is missing after a failed rotation)"
				if nonNilFact(factsAt(ref.Block()), call) {
					r.ok(key, c.Pos(pos), FuncName(fn), what, "behind a nil test of the result")
				} else {
					r.fail(key, c.Pos(pos), FuncName(fn), what, FuncName(g)+" returns nil when the slot is empty and its result is dereferenced without a test: a request that arrives between a failed rotation and the next write panics inside Handle")
				}
			}
		})
	}
	r.Instances = n
	return r
}

// ---------------------------------------------------------------------------

func ruleF8d(c *Ctx) *RuleResult {
	r := &RuleResult{Floor: 1, FloorWhat: "pushes of the fMP4 processSegment"}
	fn := c.Method("", "clientStreamProcessorFMP4", "processSegment")
	join := c.Method("", "clientStreamProcessorFMP4", "joinTrackProcessors")
	if fn == nil {
		r.undecided("clientStreamProcessorFMP4.processSegment not found")
		return r
	}
	isJoin := func(x ssa.Instruction) bool {
		call, ok := x.(*ssa.Call)
		if !ok {
			return false
		}
		if join != nil && call.Call.StaticCallee() == join {
			return true
		}
		// an inlined join: a receive from the completion channel
		return false
	}
	n := 0
	allInstrs(fn, func(in ssa.Instruction) {
		call, ok := in.(*ssa.Call)
		if !ok {
			return
		}
		g := call.Call.StaticCallee()
		if g == nil || g.Name() != "push" || g.Signature.Recv() == nil || !strings.Contains(FuncName(g), "clientTrackProcessor") {
			return
		}
		n++
		key := fmt.Sprintf("processSegment(fmp4)|joined-after-push#%d", n)
		what := "the segment is released only after its samples were handed to the application"
		if join == nil {
			r.undecided("F8d: clientStreamProcessorFMP4.joinTrackProcessors not found")
			return
		}
		bad := ""
		for _, b := range fn.Blocks {
			ret, ok := b.Instrs[len(b.Instrs)-1].(*ssa.Return)
			if !ok || b == fn.Recover || isErrorReturn(fn, ret) {
				continue
			}
			if pathAvoidingRaw(fn, call, isJoin, func(x ssa.Instruction) bool { return x == ssa.Instruction(ret) }) {
				bad = c.Pos(posOf(ret))
			}
		}
		if bad == "" {
			r.ok(key, c.Pos(call.Pos()), FuncName(fn), what, "every possibly successful return after the push passes joinTrackProcessors")
		} else {
			r.fail(key, c.Pos(call.Pos()), FuncName(fn), what, "the return at "+bad+" is reachable from this push without the join: the processor pulls the next segment while this one is still being played, the downloader's throttle is released one segment early (more than two segments waiting behind the one in process)")
		}
	})
	r.Instances = n
	return r
}
