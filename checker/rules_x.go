package main

// Rules added after the second round of seeded changes (DESIGN section 10).

import (
	"fmt"
	"go/token"
	"go/types"
	"strings"

	"golang.org/x/tools/go/ssa"
)

func init() {
	registerRule("G7b", "roll-over continues: after rewriting (segment, part) to (segment+1, 0) the predicate keeps scanning the remaining complete segments (a path leads back to the loop head)", ruleG7b)
	registerRule("F10", "multi-unit audio writes: Opus packets of one call are stamped cumulatively (loop-carried sum of the packet durations); MPEG-4 access units by index times the constant frame length", ruleF10)
	registerRule("F11", "absolute-time state: every field setNTP stores is read by getNTP (no write-only state in the time converters)", ruleF11)
	registerRule("F12", "leading-track index domain: the index returned by the MPEG-TS leading-track picker is compared with the index of a range over the same track list", ruleF12)
	registerRule("G4b", "the other streams copy the leading stream's target durations only after the leading stream itself was rotated in the same critical section", ruleG4b)
	registerRule("G10", "PART-TARGET covers every listed part: partTargetDuration() scans the whole segment window it is given (and is given the stream's window and the open segment's parts)", ruleG10)
	registerRule("F13", "CODECS is computed from the track's current parameters when the multivariant playlist is rendered (no cached string)", ruleF13)
	registerRule("G11", "exactly one DEFAULT rendition: the automatic `first rendition is default` fallback is taken only when no track was marked by the user", ruleG11)
}

func ruleG7b(c *Ctx) *RuleResult {
	r := &RuleResult{Floor: 1, FloorWhat: "roll-over sites"}
	fn := c.Method("", "muxerStream", "hasPart")
	if fn == nil {
		r.undecided("hasPart not found")
		return r
	}
	n := 0
	allInstrs(fn, func(in ssa.Instruction) {
		bo, ok := in.(*ssa.BinOp)
		if !ok || bo.Op != token.ADD {
			return
		}
		if k, ok := constInt(bo.Y); !ok || k != 1 || !derivesFromParam(bo.X, fn.Params[1], 0) {
			return
		}
		n++
		key := fmt.Sprintf("hasPart|rollover-continues#%d", n)
		// the enclosing range loop: a header that dominates the rewrite and is reachable from it
		back := false
		for _, h := range fn.Blocks {
			if h != bo.Block() && h.Dominates(bo.Block()) && strings.HasPrefix(h.Comment, "rangeindex.loop") && reachFromTo(fn, bo.Block(), h) {
				back = true
			}
		}
		if back {
			r.ok(key, c.Pos(posOf(bo)), FuncName(fn), "after the roll-over the scan over the complete segments continues", "a path leads from the rewrite back to the loop head")
		} else {
			r.fail(key, c.Pos(posOf(bo)), FuncName(fn), "after the roll-over the scan over the complete segments continues",
				"the rewrite leaves the loop: a request for a part past the end of segment M is never matched against a complete segment M+1 and stays blocked although the playlist already satisfies it")
		}
	})
	r.Instances = n
	return r
}

func ruleF10(c *Ctx) *RuleResult {
	r := &RuleResult{Floor: 2, FloorWhat: "multi-unit audio writers"}
	si := c.segmenter()
	for _, p := range si.problems {
		r.undecided("%s", p)
	}
	if len(si.problems) > 0 {
		return r
	}
	dtsF := c.Field("", "fmp4AugmentedSample", "dts")
	for _, fn := range si.audio {
		// the dts stored into the sample literal inside the loop
		var dts ssa.Value
		for _, st := range storesToField(c, fn, dtsF) {
			dts = st.Val
		}
		key := FuncName(fn) + "|per-unit-dts"
		if dts == nil {
			r.undecided("%s: %s — %s (the construct this rule is anchored on was not found: no verdict)", key, "each unit of a multi-unit write gets its own decode time", "no dts assignment found")
			continue
		}
		usesPacketDuration := false
		allInstrs(fn, func(in ssa.Instruction) {
			if call, ok := in.(*ssa.Call); ok && call.Call.StaticCallee() != nil && strings.HasPrefix(call.Call.StaticCallee().Name(), "PacketDuration") {
				usesPacketDuration = true
			}
		})
		if usesPacketDuration {
			// variable-length units: dts must be a loop phi whose back edge adds this iteration's duration
			phi, ok := dts.(*ssa.Phi)
			okShape := false
			if ok {
				for _, e := range phi.Edges {
					if add, ok := e.(*ssa.BinOp); ok && add.Op == token.ADD && add.X == phi {
						if call, ok := add.Y.(*ssa.Call); ok && call.Call.StaticCallee() != nil && strings.HasPrefix(call.Call.StaticCallee().Name(), "PacketDuration") {
							// ... of the packet of THIS iteration: the argument is the element at the range index
							if u, ok := call.Call.Args[0].(*ssa.UnOp); ok {
								if ia, ok := u.X.(*ssa.IndexAddr); ok && isRangeIdx(ia.Index) && phi.Block().Dominates(call.Block()) {
									okShape = true
								}
							}
						}
					}
				}
			}
			if okShape {
				r.ok(key, c.Pos(fn.Pos()), FuncName(fn), "packets of different durations are stamped with the running sum of the preceding durations", "dts = φ(pts, dts + PacketDuration(packet))")
			} else {
				r.fail(key, c.Pos(fn.Pos()), FuncName(fn), "packets of different durations are stamped with the running sum of the preceding durations",
					"the decode time is "+dts.String()+", not a loop-carried sum: with packets of unequal duration in one call the units overlap or go backwards")
			}
			continue
		}
		// constant-length units: pts + i * const * clockRate / sampleRate
		okShape := false
		if add, ok := dts.(*ssa.BinOp); ok && add.Op == token.ADD {
			if _, isParam := add.X.(*ssa.Parameter); isParam {
				if ok2, _ := rangeIndexOver(findRangeIndex(add.Y, 0)); ok2 {
					okShape = true
				}
			}
		}
		if okShape {
			r.ok(key, c.Pos(fn.Pos()), FuncName(fn), "constant-length access units are stamped pts + index x frame length", "index of the range over the units")
		} else {
			r.fail(key, c.Pos(fn.Pos()), FuncName(fn), "constant-length access units are stamped pts + index x frame length", "the decode time is "+dts.String())
		}
	}
	r.Instances = len(si.audio)
	return r
}

// findRangeIndex digs the range index out of an arithmetic expression.
func findRangeIndex(v ssa.Value, depth int) ssa.Value {
	if depth > 6 {
		return v
	}
	if ok, _ := rangeIndexOver(v); ok {
		return v
	}
	switch x := v.(type) {
	case *ssa.BinOp:
		if r := findRangeIndex(x.X, depth+1); r != x.X || isRangeIdx(x.X) {
			if isRangeIdx(r) {
				return r
			}
		}
		if r := findRangeIndex(x.Y, depth+1); isRangeIdx(r) {
			return r
		}
	case *ssa.Convert:
		return findRangeIndex(x.X, depth+1)
	case *ssa.Extract:
		return findRangeIndex(x.Tuple, depth+1)
	case *ssa.Call:
		// an offset computed by a helper of the library from the index
		if g := x.Call.StaticCallee(); g != nil && InLib(g) {
			for _, a := range x.Call.Args {
				if r := findRangeIndex(a, depth+1); isRangeIdx(r) {
					return r
				}
			}
		}
	}
	return v
}

func isRangeIdx(v ssa.Value) bool { ok, _ := rangeIndexOver(v); return ok }

func ruleF11(c *Ctx) *RuleResult {
	r := &RuleResult{Floor: 2, FloorWhat: "time converters"}
	for _, t := range []string{"clientTimeConvFMP4", "clientTimeConvMPEGTS"} {
		set := c.Method("", t, "setNTP")
		get := c.Method("", t, "getNTP")
		if set == nil || get == nil {
			r.undecided("%s.setNTP / getNTP not found", t)
			continue
		}
		read := map[*types.Var]bool{}
		for _, g := range append([]*ssa.Function{get}, sameRecvCallees(get)...) {
			for _, a := range accessesIn(g) {
				if !a.write {
					read[a.field] = true
				}
			}
		}
		for _, a := range accessesIn(set) {
			if !a.write {
				continue
			}
			key := t + "|" + a.field.Name()
			if read[a.field] {
				r.ok(key, c.Pos(posOf(a.instr)), FuncName(set), "what setNTP records is used by getNTP", a.field.Name()+" is read")
			} else {
				r.fail(key, c.Pos(posOf(a.instr)), FuncName(set), "what setNTP records is used by getNTP",
					t+"."+a.field.Name()+" is stored but getNTP never reads it: the absolute time of tracks with another clock rate / origin is computed without it")
			}
		}
	}
	return r
}

func ruleF12(c *Ctx) *RuleResult {
	r := &RuleResult{Floor: 1, FloorWhat: "leading-track comparisons"}
	fn := c.Method("", "clientStreamProcessorMPEGTS", "initializeReader")
	pick := c.Func("", "mpegtsPickLeadingTrack")
	if fn == nil || pick == nil {
		r.undecided("initializeReader / mpegtsPickLeadingTrack not found")
		return r
	}
	var call *ssa.Call
	allInstrs(fn, func(in ssa.Instruction) {
		if cc, ok := in.(*ssa.Call); ok && cc.Call.StaticCallee() == pick {
			call = cc
		}
	})
	if call == nil {
		r.undecided("%s: %s — %s (the construct this rule is anchored on was not found: no verdict)", "initializeReader|pick", "the leading track is picked by mpegtsPickLeadingTrack", "no call found")
		return r
	}
	n := 0
	for _, ref := range *call.Referrers() {
		bo, ok := ref.(*ssa.BinOp)
		if !ok || bo.Op != token.EQL {
			continue
		}
		other := bo.X
		if other == call {
			other = bo.Y
		}
		n++
		key := fmt.Sprintf("initializeReader|leading-index#%d", n)
		okIdx, ranged := rangeIndexOver(other)
		switch {
		case !okIdx:
			r.fail(key, c.Pos(bo.Pos()), FuncName(fn), "the picked index is compared with a range index", "compared with "+other.String())
		case ranged != call.Call.Args[0] && accessPath(ranged) != accessPath(call.Call.Args[0]):
			r.fail(key, c.Pos(bo.Pos()), FuncName(fn), "the picked index and the loop index refer to the same track list",
				"picked from "+call.Call.Args[0].Name()+" but compared with the index of a range over "+ranged.Name()+": when an unsupported stream precedes the video stream another (or no) track becomes the time origin")
		default:
			r.ok(key, c.Pos(bo.Pos()), FuncName(fn), "the picked index and the loop index refer to the same track list", "same slice")
		}
	}
	if n == 0 {
		r.undecided("%s: %s — %s (the construct this rule is anchored on was not found: no verdict)", "initializeReader|leading-index", "the picked index is compared with a range index", "no comparison found")
	}
	r.Instances = n
	return r
}

func ruleG4b(c *Ctx) *RuleResult {
	r := &RuleResult{Floor: 3, FloorWhat: "copies of the leading stream's target durations"}
	leadF := c.Field("", "Muxer", "leadingStream")
	n := 0
	for _, name := range []string{"rotateSegmentsInner", "rotatePartsInner"} {
		fn := c.Method("", "Muxer", name)
		if fn == nil {
			fn = c.muxerFanOut(strings.TrimSuffix(name, "Inner"))
		}
		if fn == nil {
			r.undecided("Muxer.%s not found", name)
			continue
		}
		// the rotation of the leading stream itself
		var leadCall ssa.Instruction
		allInstrs(fn, func(in ssa.Instruction) {
			if call, ok := in.(*ssa.Call); ok && call.Call.StaticCallee() != nil && strings.HasPrefix(call.Call.StaticCallee().Name(), "rotate") {
				if f, _ := loadedField(call.Call.Args[0]); f == leadF {
					leadCall = in
				}
			}
		})
		for _, tf := range []string{"targetDuration", "partTargetDuration"} {
			f := c.Field("", "muxerStream", tf)
			for _, st := range storesToField(c, fn, f) {
				n++
				key := fmt.Sprintf("%s|copy %s#%d", FuncName(fn), tf, n)
				// the value copied is the leading stream's: a load of the same field through Muxer.leadingStream
				if sf, base := loadedField(stripConv(st.Val)); sf == f && base != nil {
					bf, _ := loadedField(stripConv(base))
					skey := fmt.Sprintf("%s|source %s#%d", FuncName(fn), tf, n)
					swhat := "the value copied is the one of m.leadingStream"
					switch {
					case bf == leadF:
						r.ok(skey, c.Pos(st.Pos()), FuncName(fn), swhat, "read through Muxer.leadingStream")
					case bf != nil:
						r.fail(skey, c.Pos(st.Pos()), FuncName(fn), swhat, "the value is read through "+c.fieldName(bf)+": a stream chosen by position is the leading one only when the video track is listed first; otherwise the rendition copies its own, never computed, target duration (0)")
					default:
						if _, isIdx := stripConv(base).(*ssa.UnOp); isIdx {
							if ia, ok := stripConv(base).(*ssa.UnOp).X.(*ssa.IndexAddr); ok {
								if xf, _ := loadedField(ia.X); xf != nil {
									r.fail(skey, c.Pos(st.Pos()), FuncName(fn), swhat, "the value is read from an element of "+c.fieldName(xf)+" chosen by position: that is the leading stream only when the video track is listed first; otherwise the rendition announces a target duration of 0")
								}
							}
						}
					}
				}
				if leadCall != nil && instrDominates(leadCall, st) {
					r.ok(key, c.Pos(st.Pos()), FuncName(fn), "the copy happens after the leading stream was rotated", "dominated by the rotation of m.leadingStream")
				} else {
					r.fail(key, c.Pos(st.Pos()), FuncName(fn), "the copy happens after the leading stream was rotated",
						"no rotation of m.leadingStream dominates the copy: a stream listed before the leading one announces the previous target duration, smaller than the segment it just listed")
				}
			}
		}
	}
	r.Instances = n
	return r
}

func ruleG10(c *Ctx) *RuleResult {
	r := &RuleResult{Floor: 2, FloorWhat: "scan and call site of partTargetDuration"}
	fn := c.Func("", "partTargetDuration")
	if fn == nil {
		r.undecided("partTargetDuration not found")
		return r
	}
	// every range loop over a slice in the function ranges over a parameter itself
	n := 0
	for _, h := range fn.Blocks {
		if len(h.Instrs) == 0 {
			continue
		}
		iff, ok := h.Instrs[len(h.Instrs)-1].(*ssa.If)
		if !ok {
			continue
		}
		bo, ok := iff.Cond.(*ssa.BinOp)
		if !ok || bo.Op != token.LSS {
			continue
		}
		okIdx, ranged := rangeIndexOver(bo.X)
		if !okIdx {
			continue
		}
		// outer loops only (inner loop over seg.parts ranges over a field)
		if f, _ := loadedField(ranged); f != nil {
			continue
		}
		n++
		key := fmt.Sprintf("partTargetDuration|scan#%d", n)
		if _, isParam := ranged.(*ssa.Parameter); isParam {
			r.ok(key, c.blockDesc(h), FuncName(fn), "the scan covers the whole slice it was given", "range over parameter "+ranged.Name())
		} else {
			r.fail(key, c.blockDesc(h), FuncName(fn), "the scan covers the whole slice it was given", "ranges over "+ranged.String()+", a part of the window: a listed part longer than the announced PART-TARGET becomes possible")
		}
	}
	if n < 2 {
		r.fail("partTargetDuration|scans", c.Pos(fn.Pos()), FuncName(fn), "both the complete segments and the open segment's parts are scanned", fmt.Sprintf("%d outer loops", n))
	}
	// call site
	segF := c.Field("", "muxerStream", "segments")
	partsF := c.Field("", "muxerSegmentFMP4", "parts")
	for _, e := range c.callersOf(fn) {
		if e.Site == nil {
			continue
		}
		args := e.Site.Common().Args
		f0, _ := loadedField(args[0])
		f1, _ := loadedField(args[1])
		key := FuncName(e.Caller.Func) + "|partTargetDuration-args"
		if f0 == segF && f1 == partsF {
			r.ok(key, c.Pos(e.Site.Pos()), FuncName(e.Caller.Func), "PART-TARGET is computed over the stream's window and the open segment's parts", "s.segments, nextSegment.parts")
		} else {
			r.fail(key, c.Pos(e.Site.Pos()), FuncName(e.Caller.Func), "PART-TARGET is computed over the stream's window and the open segment's parts", "arguments are "+args[0].String()+", "+args[1].String())
		}
	}
	r.Instances = n
	return r
}

func ruleF13(c *Ctx) *RuleResult {
	r := &RuleResult{Floor: 1, FloorWhat: "CODECS entries"}
	fn := c.Method("", "muxerStream", "populateMultivariantPlaylist")
	marshal := c.Func("pkg/codecparams", "Marshal")
	codecsF := c.Field("pkg/playlist", "MultivariantVariant", "Codecs")
	codecF := c.Field("", "Track", "Codec")
	if fn == nil || marshal == nil || codecsF == nil {
		r.undecided("populateMultivariantPlaylist / codecparams.Marshal / Codecs not found")
		return r
	}
	n := 0
	for _, st := range storesToField(c, fn, codecsF) {
		call, ok := st.Val.(*ssa.Call)
		if !ok {
			continue
		}
		if b, ok := call.Call.Value.(*ssa.Builtin); !ok || b.Name() != "append" {
			continue
		}
		// appended element
		var elem ssa.Value
		if sl, ok := call.Call.Args[1].(*ssa.Slice); ok {
			if al, ok := sl.X.(*ssa.Alloc); ok {
				for _, ref := range *al.Referrers() {
					if ia, ok := ref.(*ssa.IndexAddr); ok {
						for _, rr := range *ia.Referrers() {
							if s2, ok := rr.(*ssa.Store); ok {
								elem = s2.Val
							}
						}
					}
				}
			}
		}
		n++
		key := fmt.Sprintf("populateMultivariantPlaylist|codecs-entry#%d", n)
		mc, ok := elem.(*ssa.Call)
		if ok && mc.Call.StaticCallee() == marshal {
			if f, _ := loadedField(mc.Call.Args[0]); f == codecF {
				r.ok(key, c.Pos(st.Pos()), FuncName(fn), "the CODECS entry is codecparams.Marshal(track.Codec) evaluated while rendering", "direct call on the track's codec")
				continue
			}
		}
		what := "<nil>"
		if elem != nil {
			what = elem.String()
		}
		r.fail(key, c.Pos(st.Pos()), FuncName(fn), "the CODECS entry is codecparams.Marshal(track.Codec) evaluated while rendering", "entry is "+what+": a cached or precomputed string goes stale when codec parameters change in-band")
	}
	if n == 0 {
		r.undecided("%s: %s — %s (the construct this rule is anchored on was not found: no verdict)", "populateMultivariantPlaylist|codecs-entry", "a CODECS entry is appended per track", "no append to Codecs found")
	}
	r.Instances = n
	return r
}

func ruleG11(c *Ctx) *RuleResult {
	r := &RuleResult{Floor: 1, FloorWhat: "default-rendition assignments"}
	start := c.Method("", "Muxer", "Start")
	isDef := c.Field("", "muxerStream", "isDefault")
	userDef := c.Field("", "Track", "IsDefault")
	if start == nil || isDef == nil || userDef == nil {
		r.undecided("Muxer.Start / muxerStream.isDefault / Track.IsDefault not found")
		return r
	}
	// hasDefaultAudio: the bool phi that becomes true in the loop that rejects multiple user defaults
	var hasDefault ssa.Value
	allInstrs(start, func(in ssa.Instruction) {
		if phi, ok := in.(*ssa.Phi); ok && phi.Comment == "hasDefaultAudio" && hasDefault == nil {
			hasDefault = phi
		}
	})
	n := 0
	for _, st := range storesToField(c, start, isDef) {
		type leafEdge struct {
			phi  *ssa.Phi
			pred *ssa.BasicBlock
		}
		var leaves []leafEdge
		seenPhi := map[*ssa.Phi]bool{}
		var walk func(v ssa.Value)
		walk = func(v ssa.Value) {
			phi, ok := v.(*ssa.Phi)
			if !ok || seenPhi[phi] {
				return
			}
			seenPhi[phi] = true
			for i, e := range phi.Edges {
				if b, isConst := constBool(e); isConst && b {
					leaves = append(leaves, leafEdge{phi, phi.Block().Preds[i]})
				} else {
					walk(e)
				}
			}
		}
		walk(st.Val)
		for _, le := range leaves {
			phi := le.phi
			n++
			key := fmt.Sprintf("Muxer.Start|auto-default#%d", n)
			pred := le.pred
			last := pred.Instrs[len(pred.Instrs)-1]
			// the automatic default must only be chosen when no user default exists: every If on a value derived
			// from hasDefaultAudio must have been false
			conds := ifsOnV(start, func(v ssa.Value) bool { return hasDefault != nil && derivesFromPhi(v, hasDefault, 0) })
			// and must not depend on this track's own IsDefault flag
			usesUser := false
			for _, ci := range ifsOn(start, func(v ssa.Value) bool {
				f, _ := loadedField(v)
				return f == userDef
			}) {
				if !onlyIf(start, last, []condIf{ci}, true) && !onlyIf(start, last, []condIf{ci}, false) {
					continue
				}
				if ci.If.Block().Dominates(pred) && pred != ci.If.Block() {
					// only a problem if the edge is reachable through the `IsDefault == true` side in the rendition loop
					if rendLoop(ci.If.Block(), phi.Block()) {
						usesUser = true
					}
				}
			}
			switch {
			case len(conds) == 0 || !onlyIf(start, last, conds, false):
				r.fail(key, c.Pos(st.Pos()), FuncName(start), "the automatic `first rendition is DEFAULT` choice is made only when the user marked no track", "the choice is reachable when a user-marked default exists: two renditions carry DEFAULT=YES")
			case usesUser:
				r.fail(key, c.Pos(st.Pos()), FuncName(start), "the automatic choice does not depend on the track's own IsDefault flag", "depends on track.IsDefault")
			default:
				r.ok(key, c.Pos(st.Pos()), FuncName(start), "the automatic `first rendition is DEFAULT` choice is made only when the user marked no track", "control dependent on hasDefaultAudio == false")
			}
		}
	}
	if n == 0 {
		r.undecided("%s: %s — %s (the construct this rule is anchored on was not found: no verdict)", "Muxer.Start|auto-default", "a default rendition is chosen automatically when the user marked none", "no constant-true assignment to isDefault found")
	}
	r.Instances = n
	return r
}

func derivesFromPhi(v ssa.Value, phi ssa.Value, depth int) bool {
	if v == phi {
		return true
	}
	if depth > 4 {
		return false
	}
	if p, ok := v.(*ssa.Phi); ok {
		for _, e := range p.Edges {
			if e != v && derivesFromPhi(e, phi, depth+1) {
				return true
			}
		}
	}
	return false
}

func rendLoop(a, b *ssa.BasicBlock) bool {
	// both blocks lie in the same loop body: b reachable from a and a reachable from b
	fn := a.Parent()
	return reachFromTo(fn, a, b) && reachFromTo(fn, b, a)
}

// ---------------------------------------------------------------------------

func init() {
	registerRule("T7b", "disk part window: the reader of a disk part starts at the part's offset and is limited to the part's size, both handed through unmodified; partDisk.Reader passes (path, offset, size) of the same part", ruleT7b)
	registerRule("P3b", "preload-hint delegation: after waiting, the placeholder handler serves the handler registered under the very path it was registered for", ruleP3b)
}

func ruleT7b(c *Ctx) *RuleResult {
	r := &RuleResult{Floor: 3, FloorWhat: "disk part window obligations"}
	fn := c.Func("pkg/storage", "newDiskPartReader")
	if fn == nil {
		r.undecided("newDiskPartReader not found")
		return r
	}
	var offP, sizeP *ssa.Parameter
	for _, p := range fn.Params {
		switch p.Name() {
		case "offset":
			offP = p
		case "size":
			sizeP = p
		}
	}
	if offP == nil || sizeP == nil {
		// fall back to position: (path string, offset uint64, size uint64)
		var u []*ssa.Parameter
		for _, p := range fn.Params {
			if b, ok := p.Type().Underlying().(*types.Basic); ok && b.Kind() == types.Uint64 {
				u = append(u, p)
			}
		}
		if len(u) == 2 {
			offP, sizeP = u[0], u[1]
		}
	}
	if offP == nil || sizeP == nil {
		r.undecided("newDiskPartReader: offset/size parameters not identified")
		return r
	}
	var startV, lenV ssa.Value
	allInstrs(fn, func(in ssa.Instruction) {
		switch x := in.(type) {
		case *ssa.Call:
			f := x.Call.StaticCallee()
			switch {
			case isMethodNamed(f, "os", "File", "Seek"):
				startV = x.Call.Args[1]
			case isFuncNamed(f, "io", "NewSectionReader"):
				startV, lenV = x.Call.Args[1], x.Call.Args[2]
			}
		case *ssa.Store:
			if f, _ := fieldOfAddr(x.Addr); f != nil && f.Name() == "N" && typeIs(x.Addr.(*ssa.FieldAddr).X.Type(), "io", "LimitedReader") {
				lenV = x.Val
			}
		}
	})
	chk := func(key string, v ssa.Value, want *ssa.Parameter, what string) {
		switch {
		case v == nil:
			r.undecided("%s: %s — %s (the construct this rule is anchored on was not found: no verdict)", key, what, "no such argument found")
		case stripConv(v) == want:
			r.ok(key, c.Pos(fn.Pos()), FuncName(fn), what, "the parameter "+want.Name()+" (converted only)")
		default:
			r.fail(key, c.Pos(fn.Pos()), FuncName(fn), what, "value is "+v.String()+": the window of the part is wrong, a part served from disk returns other parts' bytes (or loses its own)")
		}
	}
	chk("newDiskPartReader|start", startV, offP, "the disk reader starts at the part's offset")
	chk("newDiskPartReader|length", lenV, sizeP, "the disk reader is limited to the part's size")
	// call site
	for _, e := range c.callersOf(fn) {
		if e.Site == nil {
			continue
		}
		args := e.Site.Common().Args
		key := FuncName(e.Caller.Func) + "|disk-reader-args"
		f1, b1 := loadedField(args[1])
		f2, b2 := loadedField(args[2])
		if f1 != nil && f2 != nil && f1.Name() == "offset" && f2.Name() == "size" && accessPath(b1) == accessPath(b2) {
			r.ok(key, c.Pos(e.Site.Pos()), FuncName(e.Caller.Func), "the reader is opened with the offset and size of the same part", "p.offset, p.size")
		} else {
			r.fail(key, c.Pos(e.Site.Pos()), FuncName(e.Caller.Func), "the reader is opened with the offset and size of the same part", "arguments are "+args[1].String()+", "+args[2].String())
		}
	}
	return r
}

func ruleP3b(c *Ctx) *RuleResult {
	r := &RuleResult{Floor: 1, FloorWhat: "placeholder handlers"}
	ro := c.roles()
	get := c.pathTableFn("lookup")
	if get == nil {
		r.undecided("getPathHandler not found")
		return r
	}
	n := 0
	for _, site := range ro.RegisterSites {
		args := site.Common().Args
		mc, ok := stripConv(args[len(args)-1]).(*ssa.MakeClosure)
		if !ok {
			continue
		}
		h := mc.Fn.(*ssa.Function)
		// a placeholder: a handler that looks another handler up
		var lookup *ssa.Call
		allInstrs(h, func(in ssa.Instruction) {
			if call, ok := in.(*ssa.Call); ok && call.Call.StaticCallee() == get {
				lookup = call
			}
		})
		if lookup == nil {
			continue
		}
		n++
		key := FuncName(h) + "|delegates-to-own-path"
		reg := canon(site.Common().Args[1])
		// the looked-up path inside the closure: a free variable bound to the same value
		lp := lookup.Call.Args[1]
		same := false
		if u, ok := lp.(*ssa.UnOp); ok {
			if fv, ok := u.X.(*ssa.FreeVar); ok {
				for i, f := range h.FreeVars {
					if f == fv && i < len(mc.Bindings) {
						b := mc.Bindings[i]
						// binding is the cell; the registered path is a load of the same cell
						if ru, ok := site.Common().Args[1].(*ssa.UnOp); ok && ru.X == b {
							same = true
						}
						if canonOfCell(b) == reg {
							same = true
						}
					}
				}
			}
		}
		if fv, ok := lp.(*ssa.FreeVar); ok {
			for i, f := range h.FreeVars {
				if f == fv && i < len(mc.Bindings) && canon(mc.Bindings[i]) == reg {
					same = true
				}
			}
		}
		if same {
			r.ok(key, c.Pos(lookup.Pos()), FuncName(h), "the placeholder delegates to the handler registered under the path it was itself registered for", "captured path")
		} else {
			r.fail(key, c.Pos(lookup.Pos()), FuncName(h), "the placeholder delegates to the handler registered under the path it was itself registered for",
				"the looked-up path is "+lp.String()+", recomputed from state that may have advanced while the request was blocked: the request for part N can be answered with another part's bytes")
		}
	}
	r.Instances = n
	return r
}

// canonOfCell: the single value stored into a local cell.
func canonOfCell(cell ssa.Value) ssa.Value {
	al, ok := cell.(*ssa.Alloc)
	if !ok {
		return nil
	}
	var stored ssa.Value
	n := 0
	for _, ref := range *al.Referrers() {
		if st, ok := ref.(*ssa.Store); ok && st.Addr == al {
			n++
			stored = st.Val
		}
	}
	if n != 1 {
		return nil
	}
	return canon(stored)
}

// ---------------------------------------------------------------------------
// V4d: optional pointers

func init() {
	registerRule("V4d", "optional values: every dereference of a pointer to a basic value (the library's convention for optional fields and arguments: *uint64, *int, *string, *time.Time, *time.Duration, *float64, *bool) in client code, request-handler code and the playlist package is dominated by a non-nil test of the same value, or the pointer is the address of a local", ruleV4d)
}

func isOptionalPtr(t types.Type) bool {
	p, ok := t.Underlying().(*types.Pointer)
	if !ok {
		return false
	}
	switch e := p.Elem().Underlying().(type) {
	case *types.Basic:
		return true
	case *types.Struct:
		_ = e
		return typeIs(p.Elem(), "time", "Time")
	}
	return false
}

func nonNilFact(facts []fact, v ssa.Value) bool {
	for _, f := range facts {
		bo, ok := f.cond.(*ssa.BinOp)
		if !ok {
			continue
		}
		k, isNil := bo.Y.(*ssa.Const)
		if !isNil || !k.IsNil() || !sameValueLoose(bo.X, v) {
			continue
		}
		if (bo.Op == token.NEQ && f.pol) || (bo.Op == token.EQL && !f.pol) {
			return true
		}
	}
	return false
}

func nonNilValue(v ssa.Value, at ssa.Instruction, depth int) bool {
	if depth > 6 {
		return false
	}
	switch x := v.(type) {
	case *ssa.Alloc, *ssa.FieldAddr, *ssa.IndexAddr, *ssa.Global:
		return true
	case *ssa.Phi:
		for i, e := range x.Edges {
			pred := x.Block().Preds[i]
			if nonNilOnEdge(e, pred, x.Block()) {
				continue
			}
			var last ssa.Instruction
			if len(pred.Instrs) > 0 {
				last = pred.Instrs[len(pred.Instrs)-1]
			}
			if !nonNilValue(e, last, depth+1) {
				return false
			}
		}
		return true
	}
	if at != nil && nonNilFact(factsAt(at.Block()), v) {
		return true
	}
	return false
}

// nonNilOnEdge: the edge pred→blk is only taken when v != nil.
func nonNilOnEdge(v ssa.Value, pred, blk *ssa.BasicBlock) bool {
	if len(pred.Instrs) == 0 {
		return false
	}
	iff, ok := pred.Instrs[len(pred.Instrs)-1].(*ssa.If)
	if !ok || pred.Succs[0] == pred.Succs[1] {
		return false
	}
	bo, ok := iff.Cond.(*ssa.BinOp)
	if !ok || !sameValueLoose(bo.X, v) {
		return false
	}
	k, isNil := bo.Y.(*ssa.Const)
	if !isNil || !k.IsNil() {
		return false
	}
	takenWhenTrue := pred.Succs[0] == blk
	return (bo.Op == token.NEQ && takenWhenTrue) || (bo.Op == token.EQL && !takenWhenTrue)
}

func ruleV4d(c *Ctx) *RuleResult {
	r := &RuleResult{Floor: 15, FloorWhat: "dereferences of optional pointers"}
	set := map[*ssa.Function]bool{}
	for _, fn := range c.clientFuncs() {
		set[fn] = true
	}
	ro := c.roles()
	for fn := range c.reachRole(ro.R) {
		if InRootPkg(fn) && fn.Blocks != nil && fn.Synthetic == "" {
			set[fn] = true
		}
	}
	all, _ := c.playlistFuncs()
	for _, fn := range all {
		set[fn] = true
	}
	var fns []*ssa.Function
	for fn := range set {
		fns = append(fns, fn)
	}
	sortFuncs(fns)
	n := 0
	for _, fn := range fns {
		cnt := 0
		allInstrs(fn, func(in ssa.Instruction) {
			u, ok := in.(*ssa.UnOp)
			if !ok || u.Op != token.MUL || !isOptionalPtr(u.X.Type()) {
				return
			}
			// loads of local cells / fields are not optional-pointer dereferences
			switch u.X.(type) {
			case *ssa.Alloc, *ssa.FieldAddr, *ssa.IndexAddr, *ssa.Global, *ssa.FreeVar:
				return
			}
			n++
			cnt++
			key := fmt.Sprintf("%s|deref#%d", FuncName(fn), cnt)
			what := "an optional (pointer-typed) value is dereferenced only where it is known to be non-nil"
			if nonNilValue(u.X, u, 0) {
				r.ok(key, c.Pos(posOf(u)), FuncName(fn), what, "dominated by a non-nil test of "+u.X.Name()+" (or it is an address)")
			} else {
				r.fail(key, c.Pos(posOf(u)), FuncName(fn), what, "*"+u.X.String()+" is reachable with a nil pointer: an input that leaves the optional value unset makes this goroutine panic")
			}
		})
	}
	r.Instances = n
	return r
}

// ---------------------------------------------------------------------------

func init() {
	registerRule("F14", "per-segment state of the MPEG-TS client: every flag that the per-sample callbacks raise once per segment (leading track seen, date-time applied) is reset by processSegment before the segment is read", ruleF14)
}

func ruleF14(c *Ctx) *RuleResult {
	r := &RuleResult{Floor: 2, FloorWhat: "once-per-segment flags"}
	t := c.NamedType("", "clientStreamProcessorMPEGTS")
	ps := c.Method("", "clientStreamProcessorMPEGTS", "processSegment")
	ir := c.Method("", "clientStreamProcessorMPEGTS", "initializeReader")
	if t == nil || ps == nil || ir == nil {
		r.undecided("clientStreamProcessorMPEGTS.processSegment / initializeReader not found")
		return r
	}
	// flags raised inside the callbacks
	raised := map[*types.Var]bool{}
	for _, fn := range withAnon(ir)[1:] {
		allInstrs(fn, func(in ssa.Instruction) {
			if st, ok := in.(*ssa.Store); ok {
				if b, isB := constBool(st.Val); isB && b {
					if f, _ := fieldOfAddr(st.Addr); f != nil && namedOwner(c, f) == t {
						raised[f] = true
					}
				}
			}
		})
	}
	// the read loop: the call of (*mpegts.Reader).Read
	var read ssa.Instruction
	allInstrs(ps, func(in ssa.Instruction) {
		if call, ok := in.(*ssa.Call); ok && call.Call.StaticCallee() != nil && call.Call.StaticCallee().Name() == "Read" && read == nil {
			read = in
		}
	})
	if read == nil {
		r.undecided("processSegment: call of reader.Read not found")
		return r
	}
	n := 0
	for f := range raised {
		n++
		key := "processSegment|reset " + f.Name()
		ok := false
		for _, st := range storesToField(c, ps, f) {
			if b, isB := constBool(st.Val); isB && !b && instrDominates(st, read) {
				ok = true
			}
		}
		if ok {
			r.ok(key, c.Pos(ps.Pos()), FuncName(ps), "the once-per-segment flag "+f.Name()+" is cleared before each segment is read", "store of false dominates reader.Read()")
		} else {
			r.fail(key, c.Pos(ps.Pos()), FuncName(ps), "the once-per-segment flag "+f.Name()+" is cleared before each segment is read",
				"no reset: what the callback does once per segment (apply EXT-X-PROGRAM-DATE-TIME / notice the leading track) happens for the first segment only")
		}
	}
	r.Instances = n
	return r
}

// ---------------------------------------------------------------------------

func init() {
	registerRule("F15", "entry consistency: in the media-playlist generators the duration, URI, date-time (and for parts the independent flag) of one playlist entry are taken from one and the same segment / part object", ruleF15)
	registerRule("T7c", "disk offsets: a new disk part starts where the previous one ends (previous offset + previous size, the size being fixed just before); the final size is the end of the last part", ruleT7c)
}

// sourceObject: the muxer object a playlist value was taken from: base of a field load, receiver of a getter call,
// base of the URI expression.
func sourceObject(v ssa.Value, depth int) ssa.Value {
	if depth > 8 || v == nil {
		return nil
	}
	switch x := v.(type) {
	case *ssa.Call:
		if x.Call.IsInvoke() {
			return canon(x.Call.Value)
		}
		if f := x.Call.StaticCallee(); f != nil && f.Signature.Recv() != nil && len(x.Call.Args) > 0 {
			return canon(x.Call.Args[0])
		}
	case *ssa.UnOp:
		if _, b := fieldOfAddr(x.X); b != nil {
			return canon(b)
		}
	case *ssa.FieldAddr: // &seg.startNTP
		return canon(x.X)
	case *ssa.Phi:
		if b := uriBase(x, 0); b != nil && b != v {
			return sourceObject(b, depth+1)
		}
	case *ssa.BinOp:
		if b := uriBase(x, 0); b != nil {
			return sourceObject(b, depth+1)
		}
	}
	return nil
}

func ruleF15(c *Ctx) *RuleResult {
	r := &RuleResult{Floor: 4, FloorWhat: "playlist entries built by the generators"}
	n := 0
	for _, name := range []string{"generateMediaPlaylistFMP4", "generateMediaPlaylistMPEGTS"} {
		fn := c.Method("", "muxerStream", name)
		if fn == nil {
			r.undecided("%s not found", name)
			continue
		}
		// entries: allocations of playlist.MediaSegment / playlist.MediaPart
		cnt := 0
		allInstrs(fn, func(in ssa.Instruction) {
			al, ok := in.(*ssa.Alloc)
			if !ok {
				return
			}
			nt := namedOf(al.Type())
			if nt == nil || nt.Obj().Pkg() == nil || nt.Obj().Pkg().Path() != modPath+"/pkg/playlist" {
				return
			}
			if nt.Obj().Name() != "MediaSegment" && nt.Obj().Name() != "MediaPart" {
				return
			}
			srcs := map[string]ssa.Value{}
			for _, ref := range *al.Referrers() {
				fa, ok := ref.(*ssa.FieldAddr)
				if !ok {
					continue
				}
				fname := derefStruct(al.Type()).Field(fa.Field).Name()
				for _, rr := range *fa.Referrers() {
					if st, ok := rr.(*ssa.Store); ok {
						if _, isConst := st.Val.(*ssa.Const); isConst {
							continue
						}
						if so := sourceObject(st.Val, 0); so != nil {
							srcs[fname] = so
						}
					}
				}
			}
			if len(srcs) < 2 {
				// gap entries: the duration is the one stored in the gap itself
				if nt.Obj().Name() == "MediaSegment" {
					gapDur := c.Field("", "muxerGap", "duration")
					for _, ref := range *al.Referrers() {
						fa, ok := ref.(*ssa.FieldAddr)
						if !ok || derefStruct(al.Type()).Field(fa.Field).Name() != "Duration" {
							continue
						}
						for _, rr := range *fa.Referrers() {
							st, ok := rr.(*ssa.Store)
							if !ok {
								continue
							}
							isGap := false
							for _, r2 := range *al.Referrers() {
								if fa2, ok := r2.(*ssa.FieldAddr); ok && derefStruct(al.Type()).Field(fa2.Field).Name() == "Gap" {
									for _, r3 := range *fa2.Referrers() {
										if s3, ok := r3.(*ssa.Store); ok {
											if b, isB := constBool(s3.Val); isB && b {
												isGap = true
											}
										}
									}
								}
							}
							if !isGap {
								continue
							}
							n++
							cnt++
							key := fmt.Sprintf("%s|gap-entry#%d", name, cnt)
							if f, _ := loadedField(st.Val); f == gapDur && gapDur != nil {
								r.ok(key, c.Pos(st.Pos()), FuncName(fn), "a gap entry is listed with the duration stored in the gap", "gap.duration")
							} else {
								r.fail(key, c.Pos(st.Pos()), FuncName(fn), "a gap entry is listed with the duration stored in the gap", "duration is "+st.Val.String()+": the same media sequence number changes its duration between two playlists")
							}
						}
					}
				}
				return
			}
			cnt++
			n++
			key := fmt.Sprintf("%s|%s-entry#%d", name, nt.Obj().Name(), cnt)
			var first ssa.Value
			same := true
			var parts []string
			for _, k := range []string{"Duration", "URI", "DateTime", "Independent"} {
				so, ok := srcs[k]
				if !ok {
					continue
				}
				parts = append(parts, k+"←"+so.Name())
				if first == nil {
					first = so
				} else if so != first {
					same = false
				}
			}
			if same {
				r.ok(key, c.Pos(al.Pos()), FuncName(fn), "all values of one playlist entry come from the same object", strings.Join(parts, ", "))
			} else {
				r.fail(key, c.Pos(al.Pos()), FuncName(fn), "all values of one playlist entry come from the same object", strings.Join(parts, ", ")+": the entry advertises one object's URI with another object's duration / date-time")
			}
		})
	}
	r.Instances = n
	return r
}

func ruleT7c(c *Ctx) *RuleResult {
	r := &RuleResult{Floor: 2, FloorWhat: "offset computations of the disk backend"}
	np := c.Method("pkg/storage", "fileDisk", "NewPart")
	fin := c.Method("pkg/storage", "fileDisk", "Finalize")
	mk := c.Func("pkg/storage", "newPartDisk")
	offF := c.Field("pkg/storage", "partDisk", "offset")
	sizeF := c.Field("pkg/storage", "partDisk", "size")
	finalF := c.Field("pkg/storage", "fileDisk", "finalSize")
	if np == nil || fin == nil || mk == nil || offF == nil || sizeF == nil || finalF == nil {
		r.undecided("fileDisk.NewPart / Finalize / newPartDisk / offset / size / finalSize not found")
		return r
	}
	isEnd := func(v ssa.Value) (ssa.Value, bool) {
		add, ok := v.(*ssa.BinOp)
		if !ok || add.Op != token.ADD {
			return nil, false
		}
		f1, b1 := loadedField(add.X)
		f2, b2 := loadedField(add.Y)
		if f1 == offF && f2 == sizeF && b1 == b2 {
			return b1, true
		}
		return nil, false
	}
	// a helper of the package that fixes the last part's size and returns its end: every non-constant return is an
	// end value, and the size of the same part is stored before it
	endHelper := func(v ssa.Value) bool {
		ridx, nres := 0, 1
		if ex, isEx := v.(*ssa.Extract); isEx {
			// one result of a helper that also reports whether there was a last part
			v = ex.Tuple
			ridx = ex.Index
			nres = 0
		}
		hc, ok := v.(*ssa.Call)
		if !ok || hc.Call.StaticCallee() == nil || !storagePkg(hc.Call.StaticCallee()) || hc.Call.StaticCallee().Blocks == nil {
			return false
		}
		h := hc.Call.StaticCallee()
		okAll, any := true, false
		for _, b := range h.Blocks {
			ret, isRet := b.Instrs[len(b.Instrs)-1].(*ssa.Return)
			if !isRet || (nres == 1 && len(ret.Results) != 1) || ridx >= len(ret.Results) {
				continue
			}
			rv := retVal(ret, ridx)
			if k, isK := constInt(rv); isK && k == 0 {
				continue
			}
			base, isE := isEnd(rv)
			if !isE {
				okAll = false
				continue
			}
			fixed := false
			for _, st := range storesToField(c, h, sizeF) {
				if _, sb := fieldOfAddr(st.Addr); sb == base && instrReaches(st, ret) {
					fixed = true
				}
			}
			if !fixed {
				okAll = false
			}
			any = true
		}
		return okAll && any
	}
	// NewPart: the offset given to newPartDisk is phi(0, last.offset + last.size), and last.size was stored before
	allInstrs(np, func(in ssa.Instruction) {
		call, ok := in.(*ssa.Call)
		if !ok || call.Call.StaticCallee() != mk {
			return
		}
		off := call.Call.Args[len(call.Call.Args)-1]
		if len(call.Call.Args) >= 2 && isTimestampType(call.Call.Args[1].Type()) {
			off = call.Call.Args[1]
		}
		okShape := false
		viaHelper := false
		var last ssa.Value
		if phi, ok := off.(*ssa.Phi); ok {
			zero, end := false, false
			for _, e := range phi.Edges {
				if k, isK := constInt(e); isK && k == 0 {
					zero = true
				} else if b, isE := isEnd(e); isE {
					end = true
					last = b
				} else if endHelper(e) {
					end, viaHelper = true, true
				}
			}
			okShape = zero && end && len(phi.Edges) == 2
		} else if endHelper(off) {
			okShape, viaHelper = true, true
		}
		sizeFixed := viaHelper
		if last != nil {
			for _, st := range storesToField(c, np, sizeF) {
				if _, b := fieldOfAddr(st.Addr); b == last && instrDominates(st, call) || reachFromTo(np, st.Block(), call.Block()) && b == last {
					sizeFixed = true
				}
			}
		}
		switch {
		case !okShape && len(storesToField(c, np, sizeF)) == 0:
			r.undecided("T7c: fileDisk.NewPart computes the offset of the new part in a form not known to the rule (%s)", off.String())
		case !okShape:
			r.fail("fileDisk.NewPart|offset", c.Pos(call.Pos()), FuncName(np), "a new part starts at 0 or at previous offset + previous size", "offset argument is "+off.String())
		case !sizeFixed:
			r.fail("fileDisk.NewPart|offset", c.Pos(call.Pos()), FuncName(np), "the previous part's size is fixed before it is used for the next offset", "no store to the previous part's size precedes the computation")
		default:
			r.ok("fileDisk.NewPart|offset", c.Pos(call.Pos()), FuncName(np), "a new part starts where the previous one ends, the previous size being fixed just before", "φ(0, last.offset + last.size)")
		}
	})
	okFinal := false
	finStores := storesToField(c, fin, finalF)
	for _, st := range finStores {
		if _, ok := isEnd(st.Val); ok || endHelper(st.Val) {
			okFinal = true
		}
	}
	if len(finStores) == 0 {
		r.undecided("T7c: fileDisk.Finalize does not store finalSize itself: form not known to the rule")
	} else if okFinal {
		r.ok("fileDisk.Finalize|final-size", c.Pos(fin.Pos()), FuncName(fin), "the file size is the end of its last part", "last.offset + last.size")
	} else {
		r.fail("fileDisk.Finalize|final-size", c.Pos(fin.Pos()), FuncName(fin), "the file size is the end of its last part", "finalSize is not last.offset + last.size")
	}
	return r
}

// ---------------------------------------------------------------------------

func init() {
	registerRule("G12", "only the leading track drives segmentation: in the writers that serve non-leading tracks too, every call that creates or rotates segments / parts is control dependent on the track's own isLeading flag", ruleG12)
	registerRule("V3b", "the playlist decoders do not use bufio.Scanner (its 64 KiB token limit makes long lines undecodable); lines are read with ReadLine / ReadString", ruleV3b)
	registerRule("V1b", "EXT-X-MEDIA constraints match RFC 8216: a missing URI is rejected only for TYPE=SUBTITLES, a present URI only for TYPE=CLOSED-CAPTIONS", ruleV1b)
}

func ruleG12(c *Ctx) *RuleResult {
	r := &RuleResult{Floor: 4, FloorWhat: "segmentation calls in writers that serve non-leading tracks"}
	si := c.segmenter()
	for _, p := range si.problems {
		r.undecided("%s", p)
	}
	if len(si.problems) > 0 {
		return r
	}
	lead := c.Field("", "muxerTrack", "isLeading")
	fns := []*ssa.Function{si.writeSample}
	if f := c.Method("", "muxerSegmenter", "writeMPEG4Audio"); f != nil {
		fns = append(fns, f)
	}
	n := 0
	for _, fn := range fns {
		cnt := 0
		conds := ifsOnV(fn, func(v ssa.Value) bool { f, _ := loadedField(v); return f == lead })
		allInstrs(fn, func(in ssa.Instruction) {
			call, ok := in.(*ssa.Call)
			if !ok || !call.Call.IsInvoke() {
				return
			}
			switch call.Call.Method.Name() {
			case "createFirstSegment", "rotateSegments", "rotateParts":
			default:
				return
			}
			n++
			cnt++
			key := fmt.Sprintf("%s|%s#%d", FuncName(fn), call.Call.Method.Name(), cnt)
			if len(conds) > 0 && onlyIf(fn, call, conds, true) {
				r.ok(key, c.Pos(call.Pos()), FuncName(fn), "segments and parts are created / rotated only on behalf of the leading track", "control dependent on track.isLeading")
			} else {
				r.fail(key, c.Pos(call.Pos()), FuncName(fn), "segments and parts are created / rotated only on behalf of the leading track",
					"the call is reachable for a non-leading track: an audio unit can open or cut a segment, which then does not start with a random-access video unit")
			}
		})
	}
	r.Instances = n
	return r
}

func ruleV3b(c *Ctx) *RuleResult {
	r := &RuleResult{Floor: 3, FloorWhat: "decoder functions"}
	all, _ := c.playlistFuncs()
	n := 0
	for _, fn := range all {
		if fn.Name() != "Unmarshal" && fn.Name() != "unmarshal" && fn.Name() != "findType" && fn.Name() != "ReadLine" && fn.Name() != "SkipHeader" {
			continue
		}
		n++
		bad := ""
		allInstrs(fn, func(in ssa.Instruction) {
			if call, ok := in.(*ssa.Call); ok {
				if f := call.Call.StaticCallee(); f != nil && (isFuncNamed(f, "bufio", "NewScanner") || isMethodNamed(f, "bufio", "Scanner", "Scan")) {
					bad = c.Pos(call.Pos())
				}
			}
		})
		key := FuncName(fn) + "|no-scanner"
		if bad == "" {
			r.ok(key, c.Pos(fn.Pos()), FuncName(fn), "no bufio.Scanner in a decoder", "none")
		} else {
			r.fail(key, bad, FuncName(fn), "no bufio.Scanner in a decoder", "bufio.Scanner gives up on lines longer than 64 KiB: a playlist with a long line (inline data: URI, long unknown tag) decodes through Media.Unmarshal but not through playlist.Unmarshal")
		}
	}
	r.Instances = n
	return r
}

func ruleV1b(c *Ctx) *RuleResult {
	r := &RuleResult{Floor: 2, FloorWhat: "URI constraints of EXT-X-MEDIA"}
	fn := c.codecFuncOf("MultivariantRendition", "unmarshal")
	uriF := c.Field("pkg/playlist", "MultivariantRendition", "URI")
	typF := c.Field("pkg/playlist", "MultivariantRendition", "Type")
	if fn == nil || uriF == nil || typF == nil {
		r.undecided("MultivariantRendition.unmarshal / URI / Type not found")
		return r
	}
	// the constraints may sit in unmarshal itself or in a validator method of the same type that it calls
	rn := namedOf(fn.Signature.Recv().Type())
	var hosts []*ssa.Function
	for _, g := range c.Funcs {
		if g.Signature.Recv() != nil && namedOf(g.Signature.Recv().Type()) == rn && rn != nil {
			hosts = append(hosts, g)
		}
	}
	n := 0
	for _, fn := range hosts {
		typeIs := func(name string) []condIf {
			return ifsOn(fn, func(v ssa.Value) bool {
				bo, ok := v.(*ssa.BinOp)
				if !ok || bo.Op != token.EQL {
					return false
				}
				f, _ := loadedField(bo.X)
				s, isS := constString(bo.Y)
				return f == typF && isS && s == name
			})
		}
		for _, b := range fn.Blocks {
			if len(b.Instrs) == 0 {
				continue
			}
			iff, ok := b.Instrs[len(b.Instrs)-1].(*ssa.If)
			if !ok {
				continue
			}
			bo, ok := iff.Cond.(*ssa.BinOp)
			if !ok || (bo.Op != token.EQL && bo.Op != token.NEQ) {
				continue
			}
			k, isNil := bo.Y.(*ssa.Const)
			f, _ := loadedField(bo.X)
			if !isNil || !k.IsNil() || f != uriF {
				continue
			}
			// which branch returns an error?
			for idx, succ := range b.Succs {
				if len(succ.Instrs) == 0 {
					continue
				}
				ret, isRet := succ.Instrs[len(succ.Instrs)-1].(*ssa.Return)
				if !isRet || isSuccessReturn(ret) {
					continue
				}
				uriNil := (bo.Op == token.EQL) == (idx == 0)
				n++
				want := "CLOSED-CAPTIONS"
				desc := "a present URI is rejected only for TYPE=CLOSED-CAPTIONS"
				if uriNil {
					want = "SUBTITLES"
					desc = "a missing URI is rejected only for TYPE=SUBTITLES"
				}
				key := fmt.Sprintf("MultivariantRendition.unmarshal|uri-%v", map[bool]string{true: "missing", false: "present"}[uriNil])
				conds := typeIs(want)
				if len(conds) > 0 && onlyIf(fn, ret, conds, true) {
					r.ok(key, c.Pos(posOf(ret)), FuncName(fn), desc, "control dependent on Type == "+want)
				} else {
					r.fail(key, c.Pos(posOf(ret)), FuncName(fn), desc, "the rejection is reachable for other rendition types: a rendition that RFC 8216 4.3.4.1 allows (and that Marshal prints) no longer decodes")
				}
			}
		}
	}
	r.Instances = n
	return r
}
