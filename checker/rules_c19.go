package main

// Structural necessary conditions of C19 (regular Low-Latency parts). The arithmetic of the property — which
// multiple of the sample duration a part lasts, the 85 % search of findCompatiblePartDuration — is not decided here
// or anywhere in this family; these rules decide what the code shape alone fixes: what the part switch measures,
// against what, in which order, and where the threshold comes from.

import (
	"fmt"
	"go/token"
	"go/types"
	"strings"

	"golang.org/x/tools/go/ssa"
)

func init() {
	registerRule("Q1", "the part switch measures the open part: every rotateParts request of the segmenter is control dependent on a comparison `(t - openPart.startDTS) >= / > threshold`, the subtrahend being the startDTS of the part in the open-part slot and the threshold a field of the segmenter", ruleQ1)
	registerRule("Q2", "the threshold is adjusted before it is used: on the leading track's path no route leads from the entry of the function that requests rotateParts to the threshold comparison without passing a call that may store the threshold (the first part would be cut against the zero value)", ruleQ2)
	registerRule("Q3", "the threshold is at least PartMinDuration by construction: every store of the threshold field takes the result of a function applied to the segmenter's partMinDuration whose every return is that parameter plus non-negative constants; partMinDuration itself is the user's Muxer.PartMinDuration", ruleQ3)
}

type partSwitchInfo struct {
	fn        *ssa.Function
	call      *ssa.Call
	conds     []condIf
	wants     []condWant
	threshold *types.Var // field of muxerSegmenter compared against
	loose     []string
}

// partSwitches finds the rotateParts requests of the segmenter and the comparisons that guard them.
func (c *Ctx) partSwitches() ([]*partSwitchInfo, string) {
	seg := c.NamedType("", "muxerSegmenter")
	if seg == nil {
		return nil, "muxerSegmenter not found"
	}
	slots, _ := c.slotFields()
	var out []*partSwitchInfo
	for _, fn := range c.Funcs {
		if fn.Signature.Recv() == nil || namedOf(fn.Signature.Recv().Type()) != seg || fn.Blocks == nil {
			continue
		}
		allInstrs(fn, func(in ssa.Instruction) {
			call, ok := in.(*ssa.Call)
			if !ok || !call.Call.IsInvoke() || call.Call.Method.Name() != "rotateParts" {
				return
			}
			ps := &partSwitchInfo{fn: fn, call: call}
			isStartOfOpenPart := func(v ssa.Value) bool {
				f, b := loadedField(v)
				if f == nil || f.Name() != "startDTS" {
					return false
				}
				if nt := namedOf(b.Type()); nt == nil || nt.Obj().Name() != "muxerPart" {
					return false
				}
				sf, _ := loadedField(stripAsserts(b))
				return sf != nil && slots[sf]
			}
			ps.conds = ifsOnV(fn, func(v ssa.Value) bool {
				bo, ok := v.(*ssa.BinOp)
				if !ok {
					return false
				}
				switch bo.Op {
				case token.GEQ, token.GTR, token.LSS, token.LEQ:
				default:
					return false
				}
				if !typeIs(bo.X.Type(), "time", "Duration") {
					return false
				}
				sub, isSub := bo.X.(*ssa.BinOp)
				if !isSub || sub.Op != token.SUB || !isStartOfOpenPart(sub.Y) {
					// a comparison against a segmenter field that measures something else
					if f, _ := loadedField(bo.Y); f != nil && ps.threshold == nil && strings.Contains(strings.ToLower(f.Name()), "partduration") {
						ps.loose = append(ps.loose, bo.String())
					}
					return false
				}
				f, b := loadedField(bo.Y)
				if f == nil || namedOf(b.Type()) != seg {
					return false
				}
				ps.threshold = f
				return true
			})
			for _, ci := range ps.conds {
				bo := ci.Val.(*ssa.BinOp)
				ps.wants = append(ps.wants, condWant{ci, bo.Op == token.GEQ || bo.Op == token.GTR})
			}
			out = append(out, ps)
		})
	}
	return out, ""
}

func ruleQ1(c *Ctx) *RuleResult {
	r := &RuleResult{Floor: 1, FloorWhat: "rotateParts requests of the segmenter"}
	pss, prob := c.partSwitches()
	if prob != "" {
		r.undecided("%s", prob)
		return r
	}
	for i, ps := range pss {
		key := fmt.Sprintf("%s|rotateParts#%d|measures-open-part", FuncName(ps.fn), i+1)
		what := "a part is closed when the time elapsed since the start of that part reaches the threshold: with a constant sample duration every non-final part then lasts the same D"
		pos := c.Pos(ps.call.Pos())
		switch {
		case len(ps.wants) == 0:
			why := "no comparison of the form `(t - openPart.startDTS) >= threshold` guards the request"
			if len(ps.loose) > 0 {
				why += "; the threshold is compared with something else (" + strings.Join(ps.loose, "; ") + "): measured from the segment start or from the previous sample, parts have different lengths"
			}
			r.fail(key, pos, FuncName(ps.fn), what, why)
		case onlyIfAny(ps.fn, ps.call, ps.wants):
			r.ok(key, pos, FuncName(ps.fn), what, "control dependent on the comparison against "+c.fieldName(ps.threshold))
		default:
			r.fail(key, pos, FuncName(ps.fn), what, "the request is reachable with the comparison false: parts are cut before the threshold")
		}
	}
	r.Instances = len(pss)
	return r
}

// storersOf: functions of the root package that (directly, or through one static callee) store field f.
func (c *Ctx) storersOf(f *types.Var) map[*ssa.Function]bool {
	direct := map[*ssa.Function]bool{}
	for _, fn := range c.Funcs {
		if InRootPkg(fn) && fn.Blocks != nil && len(storesToField(c, fn, f)) > 0 {
			direct[fn] = true
		}
	}
	out := map[*ssa.Function]bool{}
	for fn := range direct {
		out[fn] = true
	}
	for _, fn := range c.Funcs {
		if !InRootPkg(fn) || fn.Blocks == nil || out[fn] {
			continue
		}
		allInstrs(fn, func(in ssa.Instruction) {
			if call, ok := in.(*ssa.Call); ok && direct[call.Call.StaticCallee()] {
				out[fn] = true
			}
		})
	}
	return out
}

func ruleQ2(c *Ctx) *RuleResult {
	r := &RuleResult{Floor: 1, FloorWhat: "threshold comparisons of the part switch"}
	pss, prob := c.partSwitches()
	if prob != "" {
		r.undecided("%s", prob)
		return r
	}
	isLeadingF := c.Field("", "muxerTrack", "isLeading")
	n := 0
	for i, ps := range pss {
		if ps.threshold == nil || len(ps.conds) == 0 {
			continue // Q1 reports it
		}
		n++
		key := fmt.Sprintf("%s|rotateParts#%d|adjusted-before-compared", FuncName(ps.fn), i+1)
		what := "the threshold in force when a part is measured already reflects the sample that is being written (the very first comparison would otherwise see the zero value and cut a one-sample part)"
		storers := c.storersOf(ps.threshold)
		blocked := map[int]bool{}
		var where []string
		for _, b := range ps.fn.Blocks {
			for _, in := range b.Instrs {
				if call, ok := in.(*ssa.Call); ok && storers[call.Call.StaticCallee()] {
					blocked[b.Index] = true
					where = append(where, c.Pos(call.Pos()))
				}
				if st, ok := in.(*ssa.Store); ok {
					if f, _ := fieldOfAddr(st.Addr); f == ps.threshold {
						blocked[b.Index] = true
						where = append(where, c.Pos(st.Pos()))
					}
				}
			}
		}
		if len(blocked) == 0 {
			r.fail(key, c.Pos(ps.call.Pos()), FuncName(ps.fn), what, "nothing in "+FuncName(ps.fn)+" stores or calls a function that stores "+c.fieldName(ps.threshold)+" before the comparison")
			continue
		}
		// on the leading track's path: cut the edges taken when track.isLeading is false
		cut := map[edge]bool{}
		if isLeadingF != nil && len(storesToField(c, ps.fn, isLeadingF)) == 0 {
			for _, ci := range ifsOnV(ps.fn, func(v ssa.Value) bool {
				f, _ := loadedField(v)
				return f == isLeadingF
			}) {
				cut[ci.edgeWhen(false)] = true
			}
		}
		seen := reachableBlocks(ps.fn, 0, cut, blocked)
		bad := false
		for _, ci := range ps.conds {
			// the comparison itself is computed in the block of the If or before it; its operands' block decides
			if bo, ok := ci.Val.(*ssa.BinOp); ok && seen[bo.Block().Index] {
				bad = true
			}
		}
		if bad {
			r.fail(key, c.Pos(ps.call.Pos()), FuncName(ps.fn), what, "the comparison is reachable from the entry without passing the adjustment ("+strings.Join(where, ", ")+"): it can run against a threshold that does not yet include this sample's duration")
		} else {
			r.ok(key, c.Pos(ps.call.Pos()), FuncName(ps.fn), what, "every leading-track path to the comparison passes "+strings.Join(where, ", "))
		}
	}
	r.Instances = n
	return r
}

// returnsAtLeastParam0: every return of fn is parameter idx, possibly increased by non-negative constants
// (through φ and the loop that searches upwards).
func returnsAtLeastParam(fn *ssa.Function, idx int) (bool, string) {
	if fn == nil || fn.Blocks == nil || idx >= len(fn.Params) {
		return false, "no body"
	}
	p := fn.Params[idx]
	seen := map[ssa.Value]bool{}
	var ok func(v ssa.Value, d int) (bool, string)
	ok = func(v ssa.Value, d int) (bool, string) {
		if v == ssa.Value(p) {
			return true, ""
		}
		if seen[v] {
			return true, "" // a cycle through the φ of the search loop
		}
		if d > 12 {
			return false, "too deep"
		}
		seen[v] = true
		switch x := v.(type) {
		case *ssa.Phi:
			for _, e := range x.Edges {
				if good, why := ok(e, d+1); !good {
					return false, why
				}
			}
			return true, ""
		case *ssa.BinOp:
			if x.Op == token.ADD {
				if k, isK := constInt(x.Y); isK && k >= 0 {
					return ok(x.X, d+1)
				}
				if k, isK := constInt(x.X); isK && k >= 0 {
					return ok(x.Y, d+1)
				}
			}
			return false, "`" + x.String() + "`"
		case *ssa.Const:
			return false, "the constant " + x.String()
		}
		return false, "`" + v.String() + "`"
	}
	for _, b := range fn.Blocks {
		ret, isRet := b.Instrs[len(b.Instrs)-1].(*ssa.Return)
		if !isRet || len(ret.Results) == 0 {
			continue
		}
		if good, why := ok(retVal(ret, 0), 0); !good {
			return false, why
		}
	}
	return true, ""
}

func ruleQ3(c *Ctx) *RuleResult {
	r := &RuleResult{Floor: 2, FloorWhat: "stores of the part-switch threshold and of partMinDuration"}
	pss, prob := c.partSwitches()
	if prob != "" {
		r.undecided("%s", prob)
		return r
	}
	minF := c.Field("", "muxerSegmenter", "partMinDuration")
	userF := c.Field("", "Muxer", "PartMinDuration")
	if minF == nil || userF == nil {
		r.undecided("muxerSegmenter.partMinDuration / Muxer.PartMinDuration not found")
		return r
	}
	n := 0
	done := map[*types.Var]bool{}
	for _, ps := range pss {
		th := ps.threshold
		if th == nil || done[th] {
			continue
		}
		done[th] = true
		if th == minF {
			n++
			r.ok("threshold|is-partMinDuration", c.Pos(ps.call.Pos()), FuncName(ps.fn), "no non-final part is shorter than PartMinDuration", "the threshold is partMinDuration itself")
			continue
		}
		for _, fn := range c.Funcs {
			if !InRootPkg(fn) || fn.Blocks == nil {
				continue
			}
			for _, st := range storesToField(c, fn, th) {
				n++
				key := fmt.Sprintf("%s|store %s#%d", FuncName(fn), th.Name(), n)
				what := "no non-final part is shorter than PartMinDuration: the threshold never falls below it"
				call, isCall := canon(st.Val).(*ssa.Call)
				if !isCall || call.Call.StaticCallee() == nil {
					r.fail(key, c.Pos(st.Pos()), FuncName(fn), what, "the threshold is assigned "+describeVal(canon(st.Val))+", not the result of the search that starts at partMinDuration")
					continue
				}
				g := call.Call.StaticCallee()
				idx := -1
				for i, a := range call.Call.Args {
					if f, _ := loadedField(stripConv(a)); f == minF {
						idx = i
					}
				}
				if idx < 0 {
					r.fail(key, c.Pos(st.Pos()), FuncName(fn), what, FuncName(g)+" is not given the segmenter's partMinDuration")
					continue
				}
				// g.Params includes no receiver for a plain function; for a method the receiver is Params[0]
				pidx := idx
				if g.Signature.Recv() != nil {
					pidx = idx
				}
				if good, why := returnsAtLeastParam(g, pidx); good {
					r.ok(key, c.Pos(st.Pos()), FuncName(fn), what, FuncName(g)+" returns its minimum plus non-negative steps")
				} else {
					r.fail(key, c.Pos(st.Pos()), FuncName(fn), what, FuncName(g)+" can return "+why+", which is not derived from the minimum by adding non-negative constants: the threshold can fall below PartMinDuration")
				}
			}
		}
	}
	// partMinDuration is the user's value
	for _, cl := range c.compositeLiterals("muxerSegmenter") {
		v, has := cl.fields[minF]
		if !has {
			continue
		}
		n++
		key := fmt.Sprintf("%s|partMinDuration-literal#%d", FuncName(cl.fn), n)
		what := "the segmenter's minimum is the PartMinDuration the user configured"
		if f, _ := loadedField(stripConv(v)); f == userF {
			r.ok(key, c.Pos(cl.alloc.Pos()), FuncName(cl.fn), what, "Muxer.PartMinDuration")
		} else {
			r.fail(key, c.Pos(cl.alloc.Pos()), FuncName(cl.fn), what, "initialised with "+describeVal(v))
		}
	}
	r.Instances = n
	return r
}

func init() {
	registerRule("Q4", "only the leading track moves the threshold: in the function that requests rotateParts every call that may store the threshold is control dependent on the track's isLeading flag (a rendition's sample durations would change the part length in the middle of a segment although the leading track is perfectly regular)", ruleQ4)
}

func ruleQ4(c *Ctx) *RuleResult {
	r := &RuleResult{Floor: 1, FloorWhat: "adjustments of the part-switch threshold"}
	pss, prob := c.partSwitches()
	if prob != "" {
		r.undecided("%s", prob)
		return r
	}
	isLeadingF := c.Field("", "muxerTrack", "isLeading")
	if isLeadingF == nil {
		r.undecided("muxerTrack.isLeading not found")
		return r
	}
	n := 0
	seenFn := map[*ssa.Function]bool{}
	for _, ps := range pss {
		if ps.threshold == nil || seenFn[ps.fn] {
			continue
		}
		seenFn[ps.fn] = true
		storers := c.storersOf(ps.threshold)
		conds := ifsOnV(ps.fn, func(v ssa.Value) bool {
			f, _ := loadedField(v)
			return f == isLeadingF
		})
		allInstrs(ps.fn, func(in ssa.Instruction) {
			call, ok := in.(*ssa.Call)
			if !ok || !storers[call.Call.StaticCallee()] {
				return
			}
			n++
			key := fmt.Sprintf("%s|adjust#%d|leading-only", FuncName(ps.fn), n)
			what := "with a constant sample duration of the leading track every non-final part has the same length, whatever the other tracks carry"
			if len(conds) > 0 && onlyIf(ps.fn, call, conds, true) {
				r.ok(key, c.Pos(call.Pos()), FuncName(ps.fn), what, "control dependent on track.isLeading")
			} else {
				r.fail(key, c.Pos(call.Pos()), FuncName(ps.fn), what, "the threshold is adjusted for every track: an audio rendition whose access-unit duration is not compatible with the current part duration changes it mid-segment (parts of 66.7 ms followed by parts of 133.3 ms, PART-TARGET changes)")
			}
		})
	}
	r.Instances = n
	return r
}
