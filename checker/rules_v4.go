package main

import (
	"fmt"
	"go/token"
	"go/types"
	"strings"

	"golang.org/x/tools/go/ssa"
)

func init() {
	registerRule("V4a", "type assertions in client code: every single-value assertion is preceded by a successful comma-ok assertion of the same type on the same value, or sits in a helper every call of which is reachable only after the track-processor set was initialised by a function that validated (or installed) that type", ruleV4a)
	registerRule("V4b", "zero divisors: every integer division / remainder in client code and in request-handler code has a divisor that is a non-zero constant, is dominated by a non-zero test, or flows only from such values (through parameters and fields, with zero-initialisation covered)", ruleV4b)
	registerRule("V4c", "function-typed fields called in client code are assigned a non-nil function on every success path of their initialiser; user callbacks are defaulted in Client.Start before the run goroutine starts", ruleV4c)
}

// ---------------------------------------------------------------------------
// V4a

func ruleV4a(c *Ctx) *RuleResult {
	r := &RuleResult{Floor: 2, FloorWhat: "single-value type assertions in client code"}
	n := 0
	for _, fn := range c.clientFuncs() {
		cnt := 0
		allInstrs(fn, func(in ssa.Instruction) {
			ta, ok := in.(*ssa.TypeAssert)
			if !ok || ta.CommaOk {
				return
			}
			// type switches on concrete values produce comma-ok; single-value = may panic
			n++
			cnt++
			key := fmt.Sprintf("%s|assert#%d", FuncName(fn), cnt)
			what := "a single-value type assertion cannot fail"
			// (i) locally justified: dominated by a comma-ok assertion of the same type on the same value with ok true
			local := false
			allInstrs(fn, func(x ssa.Instruction) {
				t2, ok := x.(*ssa.TypeAssert)
				if !ok || !t2.CommaOk || !types.Identical(t2.AssertedType, ta.AssertedType) || accessPath(t2.X) != accessPath(ta.X) {
					return
				}
				for _, ref := range *t2.Referrers() {
					if ex, ok := ref.(*ssa.Extract); ok && ex.Index == 1 {
						conds := ifsOnV(fn, func(v ssa.Value) bool { return v == ex })
						if len(conds) > 0 && onlyIf(fn, ta, conds, true) {
							local = true
						}
					}
				}
			})
			if local {
				r.ok(key, c.Pos(ta.Pos()), FuncName(fn), what, "dominated by a successful comma-ok assertion of the same type")
				return
			}
			// (ii) helper: every call site is guarded
			if why, ok := c.helperAssertGuarded(fn, ta); ok {
				r.ok(key, c.Pos(ta.Pos()), FuncName(fn), what, why)
			} else {
				r.fail(key, c.Pos(ta.Pos()), FuncName(fn), what, why)
			}
		})
	}
	r.Instances = n
	return r
}

// helperAssertGuarded checks the call sites of a helper that asserts the leading time converter's type.
func (c *Ctx) helperAssertGuarded(helper *ssa.Function, ta *ssa.TypeAssert) (string, bool) {
	edges := c.callersOf(helper)
	if len(edges) == 0 {
		return "assertion in " + FuncName(helper) + " is not justified locally and the function has no resolved callers", false
	}
	T := ta.AssertedType
	// validators: functions that store a non-nil value to a guard field (a map/pointer field of a stream processor)
	// and whose every success return follows a comma-ok assertion to T (ok true) or the installation of a fresh T
	type guardInfo struct {
		field     *types.Var
		validator *ssa.Function
	}
	var guards []guardInfo
	for _, fn := range c.clientFuncs() {
		valid := c.validatesType(fn, T) || c.calledOnlyAfterValidation(fn, T)
		if !valid {
			continue
		}
		allInstrs(fn, func(in ssa.Instruction) {
			if st, ok := in.(*ssa.Store); ok {
				if f, _ := fieldOfAddr(st.Addr); f != nil {
					if _, isMap := f.Type().Underlying().(*types.Map); isMap {
						if _, isMk := st.Val.(*ssa.MakeMap); isMk {
							guards = append(guards, guardInfo{f, fn})
						}
					}
				}
			}
		})
	}
	if len(guards) == 0 {
		return "no initialiser validates or installs " + T.String() + " before filling a guard field", false
	}
	siteOK := func(F *ssa.Function, site ssa.Instruction) bool {
		okSite := false
		for _, g := range guards {
			// the guard field is only assigned inside the validator
			onlyThere := true
			for _, fn := range c.Funcs {
				for _, st := range storesToField(c, fn, g.field) {
					_ = st
					if fn != g.validator {
						onlyThere = false
					}
				}
			}
			if !onlyThere {
				continue
			}
			// every path from F's entry to the call site passes a call of the validator, or a test showing the
			// guard field (or an element looked up in it, possibly cached in a captured variable) non-nil
			cut := map[edge]bool{}
			blocked := map[int]bool{}
			allInstrs(F, func(in ssa.Instruction) {
				if staticCallee(in) == g.validator {
					blocked[in.Block().Index] = true
				}
			})
			for _, b := range F.Blocks {
				if len(b.Instrs) == 0 {
					continue
				}
				iff, ok := b.Instrs[len(b.Instrs)-1].(*ssa.If)
				if !ok {
					continue
				}
				bo, ok := iff.Cond.(*ssa.BinOp)
				if !ok || (bo.Op != token.EQL && bo.Op != token.NEQ) {
					continue
				}
				k, isNil := bo.Y.(*ssa.Const)
				if !isNil || !k.IsNil() {
					continue
				}
				if !derivesFromGuard(bo.X, g.field, 0) {
					continue
				}
				// remove the edge taken when the value is non-nil
				idx := 1 // EQL: false edge = non-nil
				if bo.Op == token.NEQ {
					idx = 0
				}
				cut[edge{b.Index, b.Succs[idx].Index}] = true
			}
			// the validator block is entered under `guard == nil`; blocking it and cutting the non-nil edges must
			// make the site unreachable
			if !reachableBlocks(F, 0, cut, blocked)[site.Block().Index] || blocked[site.Block().Index] && false {
				okSite = true
			}
		}
		return okSite
	}
	for _, e := range edges {
		if e.Site == nil {
			continue
		}
		F := e.Caller.Func
		okSite := siteOK(F, e.Site)
		if !okSite {
			// the call sits in an intermediate helper (a phase split off the guarded function): every call of that
			// helper must be guarded in its own caller
			up := c.callersOf(F)
			all := len(up) > 0
			for _, e2 := range up {
				if e2.Site == nil || !siteOK(e2.Caller.Func, e2.Site) {
					all = false
				}
			}
			okSite = all
		}
		if !okSite {
			return "call of " + FuncName(helper) + " at " + c.Pos(e.Site.Pos()) + " in " + FuncName(F) + " is reachable before the track processors were initialised by a function that validates " + T.String() +
				": with mixed MPEG-TS/fMP4 playlists the leading converter has another type and the assertion panics", false
		}
	}
	return fmt.Sprintf("helper: all %d call sites are reachable only after an initialiser validated or installed %s (guard field set only there)", len(edges), T.String()), true
}

// calledOnlyAfterValidation: fn is the second phase of an initialiser: at every call site a call of a function that
// validates T dominates the site, and the site is reachable only if that call returned a nil error.
func (c *Ctx) calledOnlyAfterValidation(fn *ssa.Function, T types.Type) bool {
	edges := c.callersOf(fn)
	if len(edges) == 0 {
		return false
	}
	for _, e := range edges {
		if e.Site == nil {
			return false
		}
		F := e.Caller.Func
		okSite := false
		allInstrs(F, func(in ssa.Instruction) {
			call, ok := in.(*ssa.Call)
			if !ok || okSite {
				return
			}
			v := call.Call.StaticCallee()
			if v == nil || v == fn || !InRootPkg(v) || !instrDominates(call, e.Site) || !c.validatesType(v, T) {
				return
			}
			conds := ifsOnV(F, func(x ssa.Value) bool {
				bo, ok := x.(*ssa.BinOp)
				if !ok || bo.Op != token.NEQ {
					return false
				}
				k, isNil := bo.Y.(*ssa.Const)
				return isNil && k.IsNil() && bo.X == ssa.Value(call)
			})
			if len(conds) > 0 && onlyIf(F, e.Site, conds, false) {
				okSite = true
			}
		})
		if !okSite {
			return false
		}
	}
	return true
}

// validatesType: every success return of fn follows either a comma-ok assertion to T with ok == true, or a call that
// installs a freshly allocated T as the leading converter.
func (c *Ctx) validatesType(fn *ssa.Function, T types.Type) bool {
	var conds []condWant
	var installs []ssa.Instruction
	allInstrs(fn, func(in ssa.Instruction) {
		if ta, ok := in.(*ssa.TypeAssert); ok && ta.CommaOk && types.Identical(ta.AssertedType, T) {
			for _, ref := range *ta.Referrers() {
				if ex, ok := ref.(*ssa.Extract); ok && ex.Index == 1 {
					conds = append(conds, wantAll(ifsOn(fn, func(v ssa.Value) bool { return v == ex }), true)...)
				}
			}
		}
		if call, ok := in.(*ssa.Call); ok && call.Call.IsInvoke() && call.Call.Method.Name() == "setLeadingTimeConv" {
			if mi, ok := call.Call.Args[0].(*ssa.MakeInterface); ok && types.Identical(mi.X.Type(), T) {
				if _, fresh := mi.X.(*ssa.Alloc); fresh {
					installs = append(installs, in)
				}
			}
		}
	})
	if len(conds) == 0 && len(installs) == 0 {
		return false
	}
	ok := true
	nSucc := 0
	allInstrs(fn, func(in ssa.Instruction) {
		ret, isRet := in.(*ssa.Return)
		if !isRet || !isSuccessReturn(ret) {
			return
		}
		nSucc++
		// unreachable when the ok-true edges are cut and the install blocks are blocked
		cut := map[edge]bool{}
		for _, cw := range conds {
			b := cw.ci.If.Block()
			idx := 0
			if !cw.ci.Pol {
				idx = 1
			}
			cut[edge{b.Index, b.Succs[idx].Index}] = true
		}
		blocked := map[int]bool{}
		for _, i := range installs {
			blocked[i.Block().Index] = true
		}
		if reachableBlocks(fn, 0, cut, blocked)[ret.Block().Index] {
			ok = false
		}
	})
	return ok && nSucc > 0
}

// derivesFromGuard: v is a load of the guard field, a lookup in it, or a captured cell that only holds such lookups.
func derivesFromGuard(v ssa.Value, g *types.Var, depth int) bool {
	if depth > 5 {
		return false
	}
	if f, _ := loadedField(v); f == g {
		return true
	} else if f != nil && theCtx != nil && depth < 3 {
		// a field that only ever holds guard-derived values (or nil): a captured variable turned into a field
		n, okAll := 0, true
		for _, fn := range theCtx.Funcs {
			for _, st := range storesToField(theCtx, fn, f) {
				n++
				if k, isK := st.Val.(*ssa.Const); isK && k.IsNil() {
					continue
				}
				if !derivesFromGuard(st.Val, g, depth+1) {
					okAll = false
				}
			}
		}
		if n > 0 && okAll {
			return true
		}
	}
	switch x := v.(type) {
	case *ssa.Lookup:
		return derivesFromGuard(x.X, g, depth+1)
	case *ssa.Extract:
		return derivesFromGuard(x.Tuple, g, depth+1)
	case *ssa.UnOp:
		if x.Op == token.MUL {
			// captured variable cell: every store in the enclosing functions holds a guard-derived value (or nil)
			var cell ssa.Value = x.X
			var stores []*ssa.Store
			collect := func(fn *ssa.Function) {
				allInstrs(fn, func(in ssa.Instruction) {
					if st, ok := in.(*ssa.Store); ok && st.Addr == cell {
						stores = append(stores, st)
					}
				})
			}
			switch cv := cell.(type) {
			case *ssa.FreeVar:
				fn := cv.Parent()
				collect(fn)
				// also bindings in the parent
				if fn.Parent() != nil {
					idx := -1
					for i, fv := range fn.FreeVars {
						if fv == cv {
							idx = i
						}
					}
					allInstrs(fn.Parent(), func(in ssa.Instruction) {
						if mc, ok := in.(*ssa.MakeClosure); ok && mc.Fn == fn && idx >= 0 {
							if al, ok := mc.Bindings[idx].(*ssa.Alloc); ok {
								for _, ref := range *al.Referrers() {
									if st, ok := ref.(*ssa.Store); ok && st.Addr == al {
										stores = append(stores, st)
									}
								}
							}
						}
					})
				}
			case *ssa.Alloc:
				collect(cv.Parent())
			default:
				return false
			}
			if len(stores) == 0 {
				return false
			}
			for _, st := range stores {
				if k, ok := st.Val.(*ssa.Const); ok && k.IsNil() {
					continue
				}
				if !derivesFromGuard(st.Val, g, depth+1) {
					return false
				}
			}
			return true
		}
	}
	return false
}

// ---------------------------------------------------------------------------
// V4b

type nzCtx struct {
	c     *Ctx
	memo  map[ssa.Value]string
	busy  map[ssa.Value]bool
	fmemo map[*types.Var]string
	fbusy map[*types.Var]bool
}

// why returns "" if v is provably non-zero, else the reason it is not.
func (z *nzCtx) why(v ssa.Value, at ssa.Instruction, depth int) string {
	if depth > 10 {
		return "provenance too deep"
	}
	if k, ok := constInt(v); ok {
		if k != 0 {
			return ""
		}
		return "constant zero"
	}
	// dominated by a non-zero test on the same value
	if at != nil && nonZeroFact(factsAt(at.Block()), v) {
		return ""
	}
	switch x := v.(type) {
	case *ssa.Convert:
		return z.why(x.X, at, depth+1)
	case *ssa.ChangeType:
		return z.why(x.X, at, depth+1)
	case *ssa.Parameter:
		if z.busy[v] {
			return ""
		}
		z.busy[v] = true
		defer delete(z.busy, v)
		fn := x.Parent()
		idx := -1
		for i, p := range fn.Params {
			if p == x {
				idx = i
			}
		}
		edges := z.c.callersOf(fn)
		n := 0
		for _, e := range edges {
			if e.Site == nil || !InLib(e.Caller.Func) {
				continue
			}
			args := e.Site.Common().Args
			var arg ssa.Value
			if e.Site.Common().IsInvoke() {
				if idx >= 1 && idx-1 < len(args) {
					arg = args[idx-1]
				}
			} else if idx < len(args) {
				arg = args[idx]
			}
			if arg == nil {
				continue
			}
			n++
			if w := z.why(arg, e.Site, depth+1); w != "" {
				return "argument at " + z.c.Pos(e.Site.Pos()) + " in " + FuncName(e.Caller.Func) + ": " + w
			}
		}
		if n == 0 {
			return "parameter " + x.Name() + " of " + FuncName(fn) + " has no library call site"
		}
		return ""
	case *ssa.UnOp:
		if x.Op == token.MUL {
			if f, _ := fieldOfAddr(x.X); f != nil {
				return z.fieldWhy(f, x, depth)
			}
		}
	case *ssa.Field:
		if f, _ := fieldOfValue(x); f != nil {
			return z.fieldWhy(f, x, depth)
		}
	case *ssa.Phi:
		if z.busy[v] {
			return ""
		}
		z.busy[v] = true
		defer delete(z.busy, v)
		for i, e := range x.Edges {
			// the value on this edge, judged at the end of the predecessor
			pred := x.Block().Preds[i]
			var last ssa.Instruction
			if len(pred.Instrs) > 0 {
				last = pred.Instrs[len(pred.Instrs)-1]
			}
			if w := z.why(e, last, depth+1); w != "" {
				return w
			}
		}
		return ""
	case *ssa.Call:
		// len() and friends can be zero; library getters: all returns non-zero
		if f := x.Call.StaticCallee(); f != nil && InLib(f) && f.Blocks != nil {
			bad := ""
			allInstrs(f, func(in ssa.Instruction) {
				if ret, ok := in.(*ssa.Return); ok && len(ret.Results) > 0 {
					if w := z.why(retVal(ret, 0), ret, depth+1); w != "" {
						bad = w
					}
				}
			})
			return bad
		}
		if x.Call.IsInvoke() {
			// interface getter: every implementation
			bad := ""
			for _, g := range z.c.calleesOf(x) {
				if !InLib(g) || g.Blocks == nil {
					return "dynamic call " + x.String()
				}
				allInstrs(g, func(in ssa.Instruction) {
					if ret, ok := in.(*ssa.Return); ok && len(ret.Results) > 0 {
						if w := z.why(retVal(ret, 0), ret, depth+1); w != "" {
							bad = w
						}
					}
				})
			}
			if bad != "" {
				return bad
			}
			if len(z.c.calleesOf(x)) > 0 {
				return ""
			}
		}
	}
	return "value " + v.String() + " is not shown to be non-zero"
}

func nonZeroFact(facts []fact, v ssa.Value) bool {
	for _, f := range facts {
		bo, ok := f.cond.(*ssa.BinOp)
		if !ok {
			continue
		}
		if !sameValueLoose(bo.X, v) {
			continue
		}
		k, isK := constInt(bo.Y)
		if !isK || k != 0 {
			continue
		}
		if (bo.Op == token.EQL && !f.pol) || (bo.Op == token.NEQ && f.pol) || (bo.Op == token.GTR && f.pol) {
			return true
		}
	}
	return false
}

// sameValueLoose: identical values, values equal up to conversions, or two loads of the same field through the
// same base pointer in a function that never stores to that field.
func sameValueLoose(a, b ssa.Value) bool {
	return sameValueLoose0(a, b, 0)
}

func sameValueLoose0(a, b ssa.Value, depth int) bool {
	a, b = stripConv(a), stripConv(b)
	if a == b || sameValue(a, b) {
		return true
	}
	if depth > 4 {
		return false
	}
	// two loads of the same captured variable / local cell that this function never assigns
	if ua, ok := a.(*ssa.UnOp); ok && ua.Op == token.MUL {
		if ub, ok := b.(*ssa.UnOp); ok && ub.Op == token.MUL && ua.X == ub.X {
			switch ua.X.(type) {
			case *ssa.FreeVar, *ssa.Alloc:
				assigned := false
				allInstrs(ua.Parent(), func(in ssa.Instruction) {
					if st, ok := in.(*ssa.Store); ok && st.Addr == ua.X {
						assigned = true
					}
				})
				if _, isFree := ua.X.(*ssa.FreeVar); isFree && !assigned {
					return true
				}
				// a cell that is assigned exactly once (a parameter spilled because a closure captures it)
				if al, isAl := ua.X.(*ssa.Alloc); isAl {
					n := 0
					for _, ref := range *al.Referrers() {
						if st, ok := ref.(*ssa.Store); ok && st.Addr == ssa.Value(al) {
							n++
						}
					}
					if n == 1 {
						return true
					}
				}
			}
		}
	}
	fa, ba := loadedField(a)
	fb, bb := loadedField(b)
	if fa == nil || fa != fb {
		return false
	}
	if ba != bb && !sameValueLoose0(ba, bb, depth+1) {
		return false
	}
	ia, ok1 := a.(ssa.Instruction)
	ib, ok2 := b.(ssa.Instruction)
	if !ok1 || !ok2 || ia.Parent() != ib.Parent() {
		return false
	}
	// no store to that field on a path between the two loads
	between := false
	allInstrs(ia.Parent(), func(in ssa.Instruction) {
		if st, ok := in.(*ssa.Store); ok {
			if f, _ := fieldOfAddr(st.Addr); f == fa {
				if (instrReaches(ia, st) && instrReaches(st, ib)) || (instrReaches(ib, st) && instrReaches(st, ia)) {
					between = true
				}
			}
		}
	})
	return !between
}

// fieldWhy: every store to f in the library stores a non-zero value, and the implicit zero value is never read:
// either every composite literal of the owning struct sets f, or the read is guarded by a validity flag that is
// only raised together with a store to f.
func (z *nzCtx) fieldWhy(f *types.Var, load ssa.Value, depth int) string {
	c := z.c
	if z.fbusy[f] {
		return ""
	}
	if w, ok := z.fmemo[f]; ok && w == "" {
		// explicit stores fine; zero-init coverage is per load (flag guard) — recheck below only if needed
		if z.zeroInitCovered(f, load) {
			return ""
		}
	}
	z.fbusy[f] = true
	defer delete(z.fbusy, f)
	n := 0
	for _, fn := range c.Funcs {
		for _, st := range storesToField(c, fn, f) {
			n++
			if w := z.why(st.Val, st, depth+1); w != "" {
				z.fmemo[f] = w
				return "field " + c.fieldName(f) + " is assigned at " + c.Pos(st.Pos()) + " in " + FuncName(fn) + ": " + w
			}
		}
	}
	if n == 0 {
		return "field " + c.fieldName(f) + " is never assigned by the library (caller-supplied or zero)"
	}
	z.fmemo[f] = ""
	if !z.zeroInitCovered(f, load) {
		return "field " + c.fieldName(f) + " is not set by every composite literal of its struct and the read is not guarded by a validity flag raised together with it: the zero value can be read"
	}
	return ""
}

func (z *nzCtx) zeroInitCovered(f *types.Var, load ssa.Value) bool {
	c := z.c
	owner := namedOwner(c, f)
	if owner == nil {
		return false
	}
	// every allocation of the owner in library code is followed by a store to f on the allocation (composite literal)
	allSet := true
	nAlloc := 0
	for _, fn := range c.Funcs {
		allInstrs(fn, func(in ssa.Instruction) {
			al, ok := in.(*ssa.Alloc)
			if !ok || namedOf(al.Type()) != owner {
				return
			}
			if _, isPtrToStruct := al.Type().(*types.Pointer).Elem().Underlying().(*types.Struct); !isPtrToStruct {
				return
			}
			// local copies of value receivers (`t0 = local T (t)`) are not constructions
			if !al.Heap && al.Comment != "complit" {
				return
			}
			nAlloc++
			set := false
			for _, ref := range *al.Referrers() {
				if fa, ok := ref.(*ssa.FieldAddr); ok {
					if derefStruct(al.Type()).Field(fa.Field) == f {
						for _, rr := range *fa.Referrers() {
							if _, isSt := rr.(*ssa.Store); isSt {
								set = true
							}
						}
					}
				}
			}
			if !set {
				allSet = false
			}
		})
	}
	if allSet && nAlloc > 0 {
		return true
	}
	// validity flag: the load is control dependent on a bool field G of the same struct, and every store G = true
	// shares its block with a store to f
	li, ok := load.(ssa.Instruction)
	if !ok {
		return false
	}
	fn := li.Parent()
	st := owner.Underlying().(*types.Struct)
	for i := 0; i < st.NumFields(); i++ {
		g := st.Field(i)
		if b, ok := g.Type().Underlying().(*types.Basic); !ok || b.Kind() != types.Bool {
			continue
		}
		conds := ifsOnV(fn, func(v ssa.Value) bool { lf, _ := loadedField(v); return lf == g })
		if len(conds) == 0 || !onlyIf(fn, li, conds, true) {
			continue
		}
		paired := true
		nTrue := 0
		for _, h := range c.Funcs {
			for _, s := range storesToField(c, h, g) {
				if b, isB := constBool(s.Val); isB && b {
					nTrue++
					has := false
					for _, x := range s.Block().Instrs {
						if s2, ok := x.(*ssa.Store); ok {
							if ff, _ := fieldOfAddr(s2.Addr); ff == f {
								has = true
							}
						}
					}
					if !has {
						paired = false
					}
				}
			}
		}
		if paired && nTrue > 0 {
			return true
		}
	}
	return false
}

func ruleV4b(c *Ctx) *RuleResult {
	r := &RuleResult{Floor: 8, FloorWhat: "integer divisions with a non-constant divisor in client and request-handler code"}
	ro := c.roles()
	set := map[*ssa.Function]bool{}
	for _, fn := range c.clientFuncs() {
		set[fn] = true
	}
	for fn := range c.reachRole(ro.R) {
		if InRootPkg(fn) && fn.Blocks != nil && fn.Synthetic == "" {
			set[fn] = true
		}
	}
	z := &nzCtx{c: c, memo: map[ssa.Value]string{}, busy: map[ssa.Value]bool{}, fmemo: map[*types.Var]string{}, fbusy: map[*types.Var]bool{}}
	n := 0
	var fns []*ssa.Function
	for fn := range set {
		fns = append(fns, fn)
	}
	sortFuncs(fns)
	for _, fn := range fns {
		cnt := 0
		allInstrs(fn, func(in ssa.Instruction) {
			bo, ok := in.(*ssa.BinOp)
			if !ok || (bo.Op != token.QUO && bo.Op != token.REM) {
				return
			}
			b, ok := bo.Type().Underlying().(*types.Basic)
			if !ok || b.Info()&types.IsInteger == 0 {
				return
			}
			if k, ok := constInt(bo.Y); ok && k != 0 {
				return
			}
			n++
			cnt++
			key := fmt.Sprintf("%s|div#%d", FuncName(fn), cnt)
			what := "the divisor of an integer division is never zero"
			if w := z.why(bo.Y, bo, 0); w == "" {
				r.ok(key, c.Pos(bo.Pos()), FuncName(fn), what, "divisor "+bo.Y.Name()+" is non-zero on every path (constants, dominating tests, call sites and field stores)")
			} else {
				r.fail(key, c.Pos(bo.Pos()), FuncName(fn), what, w+": integer divide by zero panics inside the client / a request handler")
			}
		})
	}
	r.Instances = n
	return r
}

func sortFuncs(fns []*ssa.Function) {
	for i := 1; i < len(fns); i++ {
		for j := i; j > 0 && fns[j].String() < fns[j-1].String(); j-- {
			fns[j], fns[j-1] = fns[j-1], fns[j]
		}
	}
}

// ---------------------------------------------------------------------------
// V4c

func ruleV4c(c *Ctx) *RuleResult {
	r := &RuleResult{Floor: 8, FloorWhat: "calls through function-typed fields in client code"}
	start := c.Method("", "Client", "Start")
	called := map[*types.Var][]ssa.Instruction{}
	for _, fn := range c.clientFuncs() {
		allInstrs(fn, func(in ssa.Instruction) {
			call, ok := in.(*ssa.Call)
			if !ok || call.Call.IsInvoke() || call.Call.StaticCallee() != nil {
				return
			}
			if f, _ := loadedField(call.Call.Value); f != nil {
				if _, isSig := f.Type().Underlying().(*types.Signature); isSig {
					called[f] = append(called[f], in)
				}
			}
		})
	}
	// the fields a called callback is copied from (field-to-field copies) are part of the same obligation
	for changed := true; changed; {
		changed = false
		for f := range called {
			for _, fn := range c.Funcs {
				for _, st := range storesToField(c, fn, f) {
					if lf, _ := loadedField(stripConv(st.Val)); lf != nil {
						if _, isSig := lf.Type().Underlying().(*types.Signature); isSig {
							if _, ok := called[lf]; !ok && !(c.fieldOwner(lf) == "Client" && lf.Exported()) {
								called[lf] = []ssa.Instruction{st}
								changed = true
							}
						}
					}
				}
			}
		}
	}
	var fields []*types.Var
	for f := range called {
		fields = append(fields, f)
	}
	for i := 1; i < len(fields); i++ {
		for j := i; j > 0 && c.fieldName(fields[j]) < c.fieldName(fields[j-1]); j-- {
			fields[j], fields[j-1] = fields[j-1], fields[j]
		}
	}
	n := 0
	for _, f := range fields {
		n += len(called[f])
		fname := c.fieldName(f)
		key := fname + "|non-nil"
		what := fname + " is a non-nil function whenever client code calls it"
		pos := c.Pos(called[f][0].Pos())
		owner := c.fieldOwner(f)
		// user callbacks of Client: defaulted in Start
		if owner == "Client" && f.Exported() {
			if start == nil {
				r.undecided("Client.Start not found")
				continue
			}
			if c.defaultedInStart(start, f) {
				r.ok(key, pos, "", what, "Client.Start assigns a default when the field is nil, before `go c.run()`")
			} else {
				r.fail(key, pos, "", what, "Client.Start does not default this callback: a client created without it calls a nil function")
			}
			continue
		}
		// every store is a function value or a copy of another checked callback
		okStores := true
		why := ""
		nst := 0
		var storeFns []*ssa.Function
		for _, fn := range c.Funcs {
			for _, st := range storesToField(c, fn, f) {
				nst++
				storeFns = appendUnique(storeFns, fn)
				switch v := stripConv(st.Val).(type) {
				case *ssa.MakeClosure, *ssa.Function:
				case *ssa.Extract:
					// the cancel function returned by context.WithCancel and friends is never nil
					if call, isCall := v.Tuple.(*ssa.Call); isCall && v.Index == 1 && call.Call.StaticCallee() != nil &&
						call.Call.StaticCallee().Pkg != nil && call.Call.StaticCallee().Pkg.Pkg.Path() == "context" {
						continue
					}
					okStores, why = false, "stored value "+st.Val.String()+" at "+c.Pos(st.Pos())
				case *ssa.Const:
					if v.IsNil() {
						okStores, why = false, "nil stored at "+c.Pos(st.Pos())
					}
				default:
					// copy of another callback field: that field must itself be non-nil (user callbacks are defaulted in Start)
					if lf, _ := loadedField(v); lf != nil {
						if _, isSig := lf.Type().Underlying().(*types.Signature); isSig {
							if w := c.callbackChainWhy(lf, start, 0); w != "" {
								okStores, why = false, "copied at "+c.Pos(st.Pos())+" from "+c.fieldName(lf)+": "+w
							}
							continue
						}
					}
					if _, isP := v.(*ssa.Parameter); isP {
						continue
					}
					okStores, why = false, "stored value "+st.Val.String()+" at "+c.Pos(st.Pos())
				}
			}
		}
		if nst == 0 {
			r.fail(key, pos, "", what, "the field is never assigned")
			continue
		}
		if !okStores {
			r.fail(key, pos, "", what, why)
			continue
		}
		// an initialiser that assigns in some branches only (decodePayload): every success return follows a store
		bad := ""
		for _, fn := range storeFns {
			if fn.Signature.Results().Len() == 0 {
				continue
			}
			blocked := map[int]bool{}
			viaReceiver := false
			for _, st := range storesToField(c, fn, f) {
				blocked[st.Block().Index] = true
				if !freshObject(st.Addr) {
					viaReceiver = true
				}
			}
			if !viaReceiver {
				continue // composite literals set the field at construction
			}
			seen := reachableBlocks(fn, 0, nil, blocked)
			allInstrs(fn, func(in ssa.Instruction) {
				if ret, ok := in.(*ssa.Return); ok && isSuccessReturn(ret) && seen[ret.Block().Index] {
					bad = "a success return of " + FuncName(fn) + " at " + c.Pos(posOf(ret)) + " is reachable without assigning " + fname
				}
			})
		}
		// a field that is only ever set at construction must be set by every construction of its struct
		if bad == "" {
			onlyLiterals := true
			for _, fn := range storeFns {
				for _, st := range storesToField(c, fn, f) {
					if !freshObject(st.Addr) {
						onlyLiterals = false
					}
				}
			}
			if owner := namedOwner(c, f); onlyLiterals && owner != nil {
				for _, fn := range c.Funcs {
					allInstrs(fn, func(in ssa.Instruction) {
						al, ok := in.(*ssa.Alloc)
						if !ok {
							return
						}
						pt, ok := al.Type().Underlying().(*types.Pointer)
						if en, isNamed := types.Unalias(pt.Elem()).(*types.Named); !ok || !isNamed || en != owner {
							return
						}
						set := false
						for _, ref := range *al.Referrers() {
							if fa, ok := ref.(*ssa.FieldAddr); ok {
								if ff, _ := fieldOfAddr(fa); ff == f {
									for _, r2 := range *fa.Referrers() {
										if st, ok := r2.(*ssa.Store); ok && st.Addr == fa {
											set = true
										}
									}
								}
							}
						}
						if !set {
							bad = "the " + owner.Obj().Name() + " constructed in " + FuncName(fn) + " at " + c.Pos(al.Pos()) + " leaves " + fname + " nil"
						}
					})
				}
			}
		}
		if bad != "" {
			r.fail(key, pos, "", what, bad+": the first call through the field panics")
		} else {
			r.ok(key, pos, "", what, fmt.Sprintf("%d store(s), all function values; initialisers assign on every success path", nst))
		}
	}
	r.Instances = n
	return r
}

func (c *Ctx) defaultedInStart(start *ssa.Function, f *types.Var) bool {
	var goI ssa.Instruction
	allInstrs(start, func(in ssa.Instruction) {
		if _, ok := in.(*ssa.Go); ok {
			goI = in
		}
	})
	ok := false
	for _, ci := range ifsOn(start, func(v ssa.Value) bool {
		bo, isB := v.(*ssa.BinOp)
		if !isB || bo.Op != token.EQL {
			return false
		}
		k, isNil := bo.Y.(*ssa.Const)
		lf, _ := loadedField(bo.X)
		return isNil && k.IsNil() && lf == f
	}) {
		tb := ci.If.Block().Succs[0]
		for _, in := range tb.Instrs {
			if st, isSt := in.(*ssa.Store); isSt {
				if sf, _ := fieldOfAddr(st.Addr); sf == f {
					switch stripConv(st.Val).(type) {
					case *ssa.MakeClosure, *ssa.Function:
						if goI == nil || instrReaches(st, goI) {
							ok = true
						}
					}
				}
			}
		}
	}
	return ok
}

var _ = strings.Contains

// callbackChainWhy follows a callback field through field-to-field copies back to its origin; returns "" when
// every origin is a function value or a user callback that Client.Start defaults.
func (c *Ctx) callbackChainWhy(f *types.Var, start *ssa.Function, depth int) string {
	if depth > 8 {
		return "copy chain too long"
	}
	if c.fieldOwner(f) == "Client" && f.Exported() {
		if start != nil && c.defaultedInStart(start, f) {
			return ""
		}
		return "Client." + f.Name() + " is not defaulted by Client.Start"
	}
	n := 0
	for _, fn := range c.Funcs {
		for _, st := range storesToField(c, fn, f) {
			n++
			switch v := stripConv(st.Val).(type) {
			case *ssa.MakeClosure, *ssa.Function:
			case *ssa.Parameter:
			default:
				if lf, _ := loadedField(v); lf != nil {
					if _, isSig := lf.Type().Underlying().(*types.Signature); isSig {
						if w := c.callbackChainWhy(lf, start, depth+1); w != "" {
							return w
						}
						continue
					}
				}
				return "assigned " + st.Val.String()
			}
		}
	}
	if n == 0 {
		return c.fieldName(f) + " is never assigned"
	}
	return ""
}
