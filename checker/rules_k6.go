package main

import (
	"fmt"
	"go/constant"
	"go/token"
	"go/types"

	"golang.org/x/tools/go/ssa"
)

// constValue looks up an integer constant of the root package.
func (c *Ctx) rootConstInt(name string) (int64, bool) {
	o := c.Pkg("").Scope().Lookup(name)
	k, ok := o.(*types.Const)
	if !ok {
		return 0, false
	}
	if k.Val().Kind() != constant.Int {
		return 0, false
	}
	return constant.Int64Val(k.Val())
}

func ruleK6(c *Ctx) *RuleResult {
	r := &RuleResult{Floor: 8, FloorWhat: "fan-in obligations"}
	K, ok := c.rootConstInt("clientMaxTracksPerStream")
	if !ok {
		r.undecided("constant clientMaxTracksPerStream not found")
		return r
	}
	// (a) completion channels: chan struct{} fields of root-package structs made with a constant capacity > 0
	compl := map[*types.Var]int64{}
	for _, fn := range c.Funcs {
		if !InRootPkg(fn) {
			continue
		}
		allInstrs(fn, func(in ssa.Instruction) {
			st, ok := in.(*ssa.Store)
			if !ok {
				return
			}
			mk, ok := st.Val.(*ssa.MakeChan)
			if !ok {
				return
			}
			f, _ := fieldOfAddr(st.Addr)
			if f == nil {
				return
			}
			ch, _ := f.Type().Underlying().(*types.Chan)
			if ch == nil {
				return
			}
			if s, ok := ch.Elem().Underlying().(*types.Struct); !ok || s.NumFields() != 0 {
				return
			}
			k, isConst := constInt(mk.Size)
			if !isConst || k == 0 {
				return
			}
			compl[f] = k
			key := "cap|" + c.fieldName(f)
			if k == K {
				r.ok(key, c.Pos(st.Pos()), FuncName(fn), "the completion channel has the capacity of the per-stream track bound", fmt.Sprintf("capacity %d = clientMaxTracksPerStream", k))
			} else if k > K {
				r.ok(key, c.Pos(st.Pos()), FuncName(fn), "the completion channel has at least the capacity of the per-stream track bound", fmt.Sprintf("capacity %d >= clientMaxTracksPerStream %d", k, K))
			} else {
				r.fail(key, c.Pos(st.Pos()), FuncName(fn), "the completion channel has the capacity of the per-stream track bound", fmt.Sprintf("capacity %d < clientMaxTracksPerStream %d: consumers block on the completion while the producer blocks on push", k, K))
			}
		})
	}
	if len(compl) < 2 {
		r.undecided("expected 2 completion channels, found %d", len(compl))
		return r
	}
	// functions that send on / receive from a completion channel
	senders := map[*ssa.Function]*types.Var{}
	joiners := map[*ssa.Function]*types.Var{}
	for _, fn := range c.Funcs {
		allInstrs(fn, func(in ssa.Instruction) {
			if sel, ok := in.(*ssa.Select); ok {
				for _, st := range sel.States {
					if f, _ := loadedField(st.Chan); f != nil {
						if _, isC := compl[f]; isC {
							if st.Dir == types.SendOnly {
								senders[fn] = f
							} else {
								joiners[fn] = f
							}
						}
					}
				}
			}
		})
	}
	// (b) the track bound is checked before tracks are handed on
	nb := 0
	for _, fn := range c.clientFuncs() {
		allInstrs(fn, func(in ssa.Instruction) {
			call, ok := in.(*ssa.Call)
			if !ok || !call.Call.IsInvoke() || call.Call.Method.Name() != "setTracks" || len(call.Call.Args) != 2 {
				return
			}
			if _, ok := call.Call.Args[1].Type().Underlying().(*types.Slice); !ok {
				return
			}
			nb++
			tracks := call.Call.Args[1]
			key := FuncName(fn) + "|track-bound"
			conds := ifsOnV(fn, func(v ssa.Value) bool {
				bo, ok := v.(*ssa.BinOp)
				if !ok || bo.Op != token.GTR {
					return false
				}
				lc, ok := bo.X.(*ssa.Call)
				if !ok {
					return false
				}
				if b, ok := lc.Call.Value.(*ssa.Builtin); !ok || b.Name() != "len" || lc.Call.Args[0] != tracks {
					return false
				}
				k, ok := constInt(bo.Y)
				return ok && k <= K
			})
			// the call must only be reachable when len(tracks) > K is false
			if len(conds) > 0 && onlyIf(fn, call, conds, false) {
				r.ok(key, c.Pos(call.Pos()), FuncName(fn), "tracks are handed on only if `len(tracks) > clientMaxTracksPerStream` was false", "guarded")
			} else {
				r.fail(key, c.Pos(call.Pos()), FuncName(fn), "tracks are handed on only if `len(tracks) > clientMaxTracksPerStream` was false",
					"no dominating bound check on the same slice: more track processors than the completion channel can hold")
			}
		})
	}
	if nb < 2 {
		r.undecided("expected 2 setTracks call sites in stream processors, found %d", nb)
	}
	// (c) every work item is acknowledged on every success path of the consumer
	for _, fn := range c.clientFuncs() {
		var ack []ssa.Instruction
		allInstrs(fn, func(in ssa.Instruction) {
			if ci, ok := in.(ssa.CallInstruction); ok {
				for _, g := range c.calleesOf(ci) {
					if _, isS := senders[g]; isS {
						ack = append(ack, in)
					}
				}
			}
		})
		if len(ack) == 0 {
			continue
		}
		key := FuncName(fn) + "|ack"
		first := fn.Blocks[0].Instrs[0]
		isAck := func(x ssa.Instruction) bool {
			for _, a := range ack {
				if a == x {
					return true
				}
			}
			return false
		}
		// a success return (constant nil error) reachable from entry without acknowledging
		bad := pathAvoiding(c, fn, first, isAck, func(x ssa.Instruction) bool {
			ret, ok := x.(*ssa.Return)
			return ok && isSuccessReturn(ret)
		})
		// MPEG-TS form: the acknowledgement is sent for the nil sentinel only; the non-sentinel path
		// returns the result of handleData (not a constant nil), which isSuccessReturn excludes.
		if bad == nil {
			r.ok(key, c.Pos(ack[0].Pos()), FuncName(fn), "every success return of the consumer is preceded by the completion notification", "no success return reachable without it")
		} else {
			r.fail(key, c.Pos(ack[0].Pos()), FuncName(fn), "every success return of the consumer is preceded by the completion notification",
				"a work item can be consumed without acknowledgement: the producer waits for it in its join forever", bad...)
		}
	}
	// (d) producer loops
	pushFns := map[*ssa.Function]bool{}
	for _, fn := range c.clientFuncs() {
		if fn.Name() != "push" {
			continue
		}
		allInstrs(fn, func(in ssa.Instruction) {
			if sel, ok := in.(*ssa.Select); ok {
				for _, st := range sel.States {
					if st.Dir == types.SendOnly {
						pushFns[fn] = true
					}
				}
			}
		})
	}
	np := 0
	for _, fn := range c.clientFuncs() {
		cnt := 0
		allInstrs(fn, func(in ssa.Instruction) {
			call, ok := in.(*ssa.Call)
			if !ok || !pushFns[call.Call.StaticCallee()] {
				return
			}
			// only pushes to track processors (stream processor → track processor hand-off)
			if !joinsCompletion(c, fn, joiners) {
				return
			}
			np++
			cnt++
			key := fmt.Sprintf("%s|push#%d", FuncName(fn), cnt)
			what := "between two joins the producer enqueues at most clientMaxTracksPerStream work items"
			if !inLoop(call) {
				r.ok(key, c.Pos(call.Pos()), FuncName(fn), what, "not in a loop")
				return
			}
			// certified loop: range over the processors map (one push per processor)
			if rangesOverMapField(call) && loopDepth(call) == 1 {
				r.ok(key, c.Pos(call.Pos()), FuncName(fn), what, "one push per track processor (range over the processor map, whose size is bounded by the track-bound check)")
				return
			}
			// otherwise: an in-loop join guarded by counter == K' (K' <= capacity), counter reset afterwards
			if why, ok := inLoopJoin(c, fn, call, joiners, K); ok {
				r.ok(key, c.Pos(call.Pos()), FuncName(fn), what, why)
			} else {
				r.fail(key, c.Pos(call.Pos()), FuncName(fn), what,
					"the push loop runs once per fragment of the downloaded payload and "+why+": with more than "+fmt.Sprint(K)+" pending items the consumers block on the completion channel while the producer blocks in push")
			}
		})
	}
	if np < 2 {
		r.undecided("expected at least 2 push sites in stream processors, found %d", np)
	}
	return r
}

// joinsCompletion: fn (or a library function it calls directly) receives from a completion channel.
func joinsCompletion(c *Ctx, fn *ssa.Function, joiners map[*ssa.Function]*types.Var) bool {
	if _, ok := joiners[fn]; ok {
		return true
	}
	found := false
	allInstrs(fn, func(in ssa.Instruction) {
		if ci, ok := in.(ssa.CallInstruction); ok {
			if g := ci.Common().StaticCallee(); g != nil {
				if _, ok := joiners[g]; ok {
					found = true
				}
			}
		}
	})
	return found
}

func rangesOverMapField(call *ssa.Call) bool {
	// receiver derives from Next(Range(load of a map-typed field))
	v := call.Call.Args[0]
	for i := 0; i < 6; i++ {
		switch x := v.(type) {
		case *ssa.Extract:
			if nx, ok := x.Tuple.(*ssa.Next); ok {
				if rg, ok := nx.Iter.(*ssa.Range); ok {
					if f, _ := loadedField(rg.X); f != nil {
						_, isMap := f.Type().Underlying().(*types.Map)
						return isMap
					}
				}
				return false
			}
			return false
		case *ssa.Phi:
			return false
		default:
			return false
		}
	}
	return false
}

// loopDepth: number of distinct natural-loop headers (blocks that dominate b and are reachable from b).
func loopDepth(in ssa.Instruction) int {
	fn := in.Parent()
	b := in.Block()
	n := 0
	from := reachableBlocks(fn, b.Index, nil, nil)
	for _, h := range fn.Blocks {
		if !h.Dominates(b) || h == b {
			if h != b {
				continue
			}
		}
		// h is a loop header for b if some predecessor of h is reachable from b and dominated by h
		isHeader := false
		for _, p := range h.Preds {
			if from[p.Index] && h.Dominates(p) && (p == b || reachFromTo(fn, b, p)) {
				isHeader = true
			}
		}
		if isHeader {
			n++
		}
	}
	return n
}

func reachFromTo(fn *ssa.Function, a, b *ssa.BasicBlock) bool {
	if a == b {
		return true
	}
	return reachableBlocks(fn, a.Index, nil, nil)[b.Index]
}

// inLoopJoin checks the counter protocol around a push call inside a data-dependent loop.
func inLoopJoin(c *Ctx, fn *ssa.Function, push *ssa.Call, joiners map[*ssa.Function]*types.Var, K int64) (string, bool) {
	// find join calls in the same loop (mutually reachable with the push)
	var joins []*ssa.Call
	allInstrs(fn, func(in ssa.Instruction) {
		call, ok := in.(*ssa.Call)
		if !ok {
			return
		}
		if _, isJ := joiners[call.Call.StaticCallee()]; !isJ {
			return
		}
		if reachFromTo(fn, push.Block(), call.Block()) && reachFromTo(fn, call.Block(), push.Block()) {
			joins = append(joins, call)
		}
	})
	if len(joins) == 0 {
		return "there is no join inside the loop", false
	}
	for _, j := range joins {
		// guard: j only if counter == K' / counter >= K'
		var counter ssa.Value
		conds := ifsOn(fn, func(v ssa.Value) bool {
			bo, ok := v.(*ssa.BinOp)
			if !ok || (bo.Op != token.EQL && bo.Op != token.GEQ) {
				return false
			}
			k, ok := constInt(bo.Y)
			if !ok || k > K || k < 1 {
				return false
			}
			counter = bo.X
			return true
		})
		if len(conds) == 0 || !onlyIf(fn, j, conds, true) {
			continue
		}
		// the join must be reached on every path from the push when the guard is true: the If is in the same loop after the push
		guardAfterPush := false
		for _, ci := range conds {
			if reachFromTo(fn, push.Block(), ci.If.Block()) {
				guardAfterPush = true
			}
		}
		if !guardAfterPush {
			continue
		}
		// counter = BinOp ADD(phi, 1); phi has an edge from const 0 (reset) and from the incremented value
		add, ok := counter.(*ssa.BinOp)
		if !ok || add.Op != token.ADD {
			continue
		}
		one, ok := constInt(add.Y)
		if !ok || one != 1 {
			continue
		}
		if !reachFromTo(fn, push.Block(), add.Block()) {
			continue
		}
		// the reset: a phi in the loop that merges const 0 (on the path after the join) with add
		resetOK := phiChainHasResetAfter(add.X, j, add, 0)
		if !resetOK {
			return "the counter is not reset to 0 after the in-loop join", false
		}
		return fmt.Sprintf("in-loop join at %s when the pending counter reaches the bound, counter reset to 0 afterwards", c.Pos(j.Pos())), true
	}
	return "the in-loop join is not guarded by `pending == bound` (bound <= capacity)", false
}

// phiChainHasResetAfter: v is (a chain of) phi nodes one of whose incoming values is the constant 0
// coming from a block reachable from the join, and another is the incremented counter.
func phiChainHasResetAfter(v ssa.Value, join *ssa.Call, inc ssa.Value, depth int) bool {
	if depth > 6 {
		return false
	}
	phi, ok := v.(*ssa.Phi)
	if !ok {
		return false
	}
	hasZeroAfterJoin := false
	for i, e := range phi.Edges {
		if k, ok := constInt(e); ok && k == 0 {
			pred := phi.Block().Preds[i]
			if reachFromTo(join.Parent(), join.Block(), pred) {
				hasZeroAfterJoin = true
			}
		}
		if e != inc && e != v {
			if phiChainHasResetAfter(e, join, inc, depth+1) {
				hasZeroAfterJoin = true
			}
		}
	}
	return hasZeroAfterJoin
}
