package main

// Rules added after the eighth round of seeded changes and the gap analysis (DESIGN section 10, "eighth batch").

import (
	"fmt"
	"go/constant"
	"go/token"
	"go/types"
	"sort"
	"strings"

	"golang.org/x/tools/go/ssa"
)

func init() {
	registerRule("G4d", "announced = stored: the TARGETDURATION / PART-TARGET a generator writes are direct loads of the stream's sticky fields, and the products behind CAN-SKIP-UNTIL / PART-HOLD-BACK multiply those same fields (never a value recomputed per request)", ruleG4d)
	registerRule("G7h", "every Low-Latency response honours _HLS_skip: on each path through the Low-Latency branch of handleMediaPlaylist to a playlist generation, the delta flag handed to the generator has been assigned from the skip directive", ruleG7h)
	registerRule("F3b", "every delivery directive is filtered: filterOutHLSParams deletes the keys of the parsed query by the `_HLS_` prefix inside a range over all keys (not a fixed list of names)", ruleF3b)
	registerRule("V4i", "open slots are dereferenced under their own nil test in the close path: in muxerStream.close every call on the value of an open slot (nextSegment / nextPart) is control dependent on that slot's nil test", ruleV4i)
	registerRule("T13", "decode targets are fresh: a value whose Unmarshal method is called inside the line loop of a playlist decoder is allocated inside that loop (no field of an earlier tag survives into the next one)", ruleT13)
	registerRule("F7i", "the current playlist is the one just fetched: a function that receives the fetched playlist as a parameter reads nothing but PlaylistType through the downloader's firstPlaylist", ruleF7i)
	registerRule("K5b", "routine errors are always forwarded: in the pool's goroutine the send of the error returned by run() depends on nothing but `err != nil`", ruleK5b)
	registerRule("V5", "sizes announced by the peer never size an allocation: no Grow / make in client code takes a length derived from http.Response.ContentLength", ruleV5)
	registerRule("K8", "registrations survive initialisation: a callback registered on a mediacommon reader/writer is not followed by a call on the same object that unconditionally overwrites the field the registration set", ruleK8)
	registerRule("T14", "free text is cut once: the value stored into MediaSegment.Title comes from a split that yields at most two pieces (SplitN(…, 2) / Cut / an index slice), never an element of an unbounded strings.Split", ruleT14)
	registerRule("T6g", "parameter sets are compared before a unit can be dropped: in a video writer that compares parameter sets inside a loop over the unit, the head of that loop dominates every success return", ruleT6g)
	registerRule("G17", "defaults before use: in Muxer.Start a store that gives a configuration field its default (under the field's zero test) dominates every other read of that field in Start", ruleG17)
	registerRule("V1d", "enumerations are validated exactly: where a decoder stores a value of an enumerated string type, that very value has been compared with `==`/`!=` against every constant of the type on the path (no case folding, no partial list)", ruleV1d)
}

func ruleG4d(c *Ctx) *RuleResult {
	r := &RuleResult{Floor: 4, FloorWhat: "announced target values"}
	td := c.Field("", "muxerStream", "targetDuration")
	ptd := c.Field("", "muxerStream", "partTargetDuration")
	fTD := c.Field("pkg/playlist", "Media", "TargetDuration")
	fPT := c.Field("pkg/playlist", "MediaPartInf", "PartTarget")
	fSkip := c.Field("pkg/playlist", "MediaServerControl", "CanSkipUntil")
	fHold := c.Field("pkg/playlist", "MediaServerControl", "PartHoldBack")
	if td == nil || ptd == nil || fTD == nil || fPT == nil || fSkip == nil || fHold == nil {
		r.undecided("muxerStream.targetDuration / partTargetDuration or the playlist fields not found")
		return r
	}
	n := 0
	// non-constant leaves of a product / quotient
	var leaves func(v ssa.Value, out *[]ssa.Value, depth int)
	leaves = func(v ssa.Value, out *[]ssa.Value, depth int) {
		if depth > 8 {
			*out = append(*out, v)
			return
		}
		v = stripConv(v)
		if bo, ok := v.(*ssa.BinOp); ok && (bo.Op == token.MUL || bo.Op == token.QUO) {
			leaves(bo.X, out, depth+1)
			leaves(bo.Y, out, depth+1)
			return
		}
		if _, ok := v.(*ssa.Const); ok {
			return
		}
		*out = append(*out, v)
	}
	for _, fn := range c.Funcs {
		if !InRootPkg(fn) {
			continue
		}
		k := 0
		allInstrs(fn, func(in ssa.Instruction) {
			st, ok := in.(*ssa.Store)
			if !ok {
				return
			}
			f, _ := fieldOfAddr(st.Addr)
			var want *types.Var
			var what string
			product := false
			switch f {
			case fTD:
				want, what = td, "TARGETDURATION is the stream's targetDuration field"
			case fPT:
				want, what = ptd, "PART-TARGET is the stream's partTargetDuration field"
			case fSkip:
				want, what, product = td, "CAN-SKIP-UNTIL is a multiple of the announced target duration", true
			case fHold:
				want, what, product = ptd, "PART-HOLD-BACK is a multiple of the announced part target", true
			default:
				return
			}
			n++
			k++
			key := fmt.Sprintf("%s|%s#%d", FuncName(fn), f.Name(), k)
			val := st.Val
			if product {
				// &local: the value stored into the cell
				al, isAl := val.(*ssa.Alloc)
				if !isAl {
					r.undecided("G4d: %s stores %s into %s: form not known to the rule", FuncName(fn), val.String(), f.Name())
					return
				}
				var vals []ssa.Value
				for _, ref := range *al.Referrers() {
					if s2, ok := ref.(*ssa.Store); ok && s2.Addr == ssa.Value(al) {
						vals = append(vals, s2.Val)
					}
				}
				if len(vals) != 1 {
					r.undecided("G4d: the cell behind %s in %s is assigned %d times: form not known to the rule", f.Name(), FuncName(fn), len(vals))
					return
				}
				var ls []ssa.Value
				leaves(vals[0], &ls, 0)
				bad := ""
				for _, l := range ls {
					if lf, _ := loadedField(l); lf != want {
						bad = describeVal(l)
					}
				}
				if len(ls) == 0 {
					bad = "a constant"
				}
				if bad == "" {
					r.ok(key, c.Pos(st.Pos()), FuncName(fn), what, "product of "+want.Name())
				} else {
					r.fail(key, c.Pos(st.Pos()), FuncName(fn), what,
						"the product is built from "+bad+", not from muxerStream."+want.Name()+": the announced bound follows a value that can shrink between requests while the announced target stays (CAN-SKIP-UNTIL below six target durations)")
				}
				return
			}
			if lf, _ := loadedField(stripConv(val)); lf == want {
				r.ok(key, c.Pos(st.Pos()), FuncName(fn), what, "direct load")
			} else {
				r.fail(key, c.Pos(st.Pos()), FuncName(fn), what,
					"stored "+describeVal(stripConv(val))+": the value is not the sticky field the rotation maintains (recomputed per request it shrinks when a long segment leaves the window, and the streams of one muxer diverge)")
			}
		})
	}
	r.Instances = n
	return r
}

func ruleG7h(c *Ctx) *RuleResult {
	r := &RuleResult{Floor: 1, FloorWhat: "playlist generations inside the Low-Latency branch"}
	h := c.Method("", "muxerStream", "handleMediaPlaylist")
	variantF := c.Field("", "muxerStream", "variant")
	if h == nil || variantF == nil {
		r.undecided("handleMediaPlaylist / muxerStream.variant not found")
		return r
	}
	// the Low-Latency edge
	var llBlock *ssa.BasicBlock
	for _, b := range h.Blocks {
		if len(b.Instrs) == 0 {
			continue
		}
		iff, ok := b.Instrs[len(b.Instrs)-1].(*ssa.If)
		if !ok {
			continue
		}
		bo, ok := iff.Cond.(*ssa.BinOp)
		if !ok || (bo.Op != token.EQL && bo.Op != token.NEQ) {
			continue
		}
		if f, _ := loadedField(bo.X); f != variantF {
			continue
		}
		k, ok := bo.Y.(*ssa.Const)
		if !ok || k.Value == nil {
			continue
		}
		name := constName(c, bo.Y.Type(), k.Value)
		if !strings.Contains(name, "LowLatency") {
			continue
		}
		if bo.Op == token.EQL {
			llBlock = b.Succs[0]
		} else {
			llBlock = b.Succs[1]
		}
	}
	if llBlock == nil {
		r.undecided("G7h: no `variant == MuxerVariantLowLatency` test in handleMediaPlaylist: form not known to the rule")
		return r
	}
	isGen := func(g *ssa.Function) bool {
		return g != nil && InLib(g) && strings.Contains(g.Name(), "generateMediaPlaylist")
	}
	n := 0
	// closures created in the handler that call the generator with a captured flag
	allInstrs(h, func(in ssa.Instruction) {
		mc, ok := in.(*ssa.MakeClosure)
		if !ok {
			return
		}
		cl := mc.Fn.(*ssa.Function)
		var flagCell ssa.Value
		allInstrs(cl, func(x ssa.Instruction) {
			call, ok := x.(*ssa.Call)
			if !ok {
				return
			}
			gen := false
			for _, g := range c.calleesOf(call) {
				if isGen(g) {
					gen = true
				}
			}
			if !gen {
				return
			}
			for _, a := range call.Call.Args {
				if b, ok := a.Type().Underlying().(*types.Basic); ok && b.Kind() == types.Bool {
					if u, ok := a.(*ssa.UnOp); ok && u.Op == token.MUL {
						if fv, ok := u.X.(*ssa.FreeVar); ok {
							for i, f := range cl.FreeVars {
								if f == fv {
									flagCell = mc.Bindings[i]
								}
							}
						}
					}
				}
			}
		})
		if flagCell == nil {
			return
		}
		// only closures reachable from the Low-Latency edge
		if !(llBlock == mc.Block() || reachableBlocks(h, llBlock.Index, nil, nil)[mc.Block().Index]) {
			return
		}
		n++
		key := fmt.Sprintf("handleMediaPlaylist|delta-flag#%d", n)
		what := "on every Low-Latency path to this generation the delta flag was assigned from _HLS_skip"
		isAssign := func(x ssa.Instruction) bool {
			st, ok := x.(*ssa.Store)
			if !ok || st.Addr != flagCell {
				return false
			}
			_, isConst := st.Val.(*ssa.Const)
			return !isConst
		}
		isMC := func(x ssa.Instruction) bool { return x == ssa.Instruction(mc) }
		path := pathAvoidingFromBlock(c, h, llBlock, isAssign, isMC)
		if path == nil {
			r.ok(key, c.Pos(mc.Pos()), FuncName(h), what, "the assignment precedes the closure on every Low-Latency path")
		} else {
			r.fail(key, c.Pos(mc.Pos()), FuncName(h), what,
				"a Low-Latency path reaches this generation with the flag still at its initial value: a request that combines _HLS_msn with _HLS_skip is answered with the full playlist (EXT-X-MAP, no EXT-X-SKIP)", path...)
		}
	})
	if n == 0 {
		r.undecided("G7h: no closure of handleMediaPlaylist hands a captured flag to a playlist generator (the construct this rule is anchored on was not found: no verdict)")
	}
	r.Instances = n
	return r
}

// constName returns the name of the package-level constant of type t that has the given value ("" if none).
func constName(c *Ctx, t types.Type, v constant.Value) string {
	n := namedOf(t)
	if n == nil || n.Obj().Pkg() == nil {
		return ""
	}
	sc := n.Obj().Pkg().Scope()
	for _, name := range sc.Names() {
		if k, ok := sc.Lookup(name).(*types.Const); ok && types.Identical(k.Type(), t) && constant.Compare(k.Val(), token.EQL, v) {
			return name
		}
	}
	return ""
}

func ruleF3b(c *Ctx) *RuleResult {
	r := &RuleResult{Floor: 1, FloorWhat: "query filters"}
	fn := c.Func("", "filterOutHLSParams")
	if fn == nil {
		r.undecided("filterOutHLSParams not found")
		return r
	}
	prefixDeletes, namedDeletes := 0, 0
	allInstrs(fn, func(in ssa.Instruction) {
		call, ok := in.(*ssa.Call)
		if !ok {
			return
		}
		if b, ok := call.Call.Value.(*ssa.Builtin); ok && b.Name() == "delete" {
			key := call.Call.Args[1]
			// the key of a range over the same map, under HasPrefix(key, "_HLS_")
			conds := ifsOnV(fn, func(v ssa.Value) bool {
				hc, ok := v.(*ssa.Call)
				if !ok || !isFuncNamed(hc.Call.StaticCallee(), "strings", "HasPrefix") {
					return false
				}
				s, isS := constString(hc.Call.Args[1])
				return isS && s == "_HLS_" && hc.Call.Args[0] == key
			})
			_, fromRange := key.(*ssa.Extract)
			if len(conds) > 0 && onlyIf(fn, call, conds, true) && fromRange {
				prefixDeletes++
			} else {
				namedDeletes++
			}
			return
		}
		if g := call.Call.StaticCallee(); g != nil && g.Name() == "Del" && g.Signature.Recv() != nil && typeIs(g.Signature.Recv().Type(), "net/url", "Values") {
			namedDeletes++
		}
	})
	key := "filterOutHLSParams|by-prefix"
	what := "the filter removes every key that starts with `_HLS_`"
	switch {
	case prefixDeletes > 0:
		r.ok(key, c.Pos(fn.Pos()), FuncName(fn), what, "delete under HasPrefix(k, \"_HLS_\") for the key of a range over the query")
	case namedDeletes > 0:
		r.fail(key, c.Pos(fn.Pos()), FuncName(fn), what,
			"keys are removed by name only: any other delivery directive (_HLS_push, _HLS_report, …) is copied into every URI the playlist lists")
	default:
		r.undecided("F3b: filterOutHLSParams deletes nothing from a parsed query: form not known to the rule")
	}
	r.Instances = 1
	return r
}

func ruleV4i(c *Ctx) *RuleResult {
	r := &RuleResult{Floor: 3, FloorWhat: "calls on open-slot values in muxerStream.close"}
	fn := c.Method("", "muxerStream", "close")
	if fn == nil {
		r.undecided("muxerStream.close not found")
		return r
	}
	slots := map[*types.Var]bool{}
	for _, nm := range []string{"nextSegment", "nextPart"} {
		if f := c.Field("", "muxerStream", nm); f != nil {
			slots[f] = true
		}
	}
	if len(slots) != 2 {
		r.undecided("muxerStream.nextSegment / nextPart not found")
		return r
	}
	n := 0
	allInstrs(fn, func(in ssa.Instruction) {
		ci, ok := in.(ssa.CallInstruction)
		if !ok {
			return
		}
		var recv ssa.Value
		if ci.Common().IsInvoke() {
			recv = ci.Common().Value
		} else if g := ci.Common().StaticCallee(); g != nil && g.Signature.Recv() != nil && len(ci.Common().Args) > 0 {
			recv = ci.Common().Args[0]
		}
		if recv == nil {
			return
		}
		f, _ := loadedField(stripAsserts(recv))
		if !slots[f] {
			return
		}
		n++
		key := fmt.Sprintf("muxerStream.close|%s#%d", f.Name(), n)
		what := "the call on the open " + f.Name() + " is control dependent on `" + f.Name() + " != nil`"
		cut := map[edge]bool{}
		for _, b := range fn.Blocks {
			if len(b.Instrs) == 0 {
				continue
			}
			iff, ok := b.Instrs[len(b.Instrs)-1].(*ssa.If)
			if !ok {
				continue
			}
			bo, ok := iff.Cond.(*ssa.BinOp)
			if !ok || (bo.Op != token.NEQ && bo.Op != token.EQL) {
				continue
			}
			for _, pair := range [][2]ssa.Value{{bo.X, bo.Y}, {bo.Y, bo.X}} {
				if k, isC := pair[1].(*ssa.Const); isC && k.IsNil() {
					if lf, _ := loadedField(stripAsserts(pair[0])); lf == f {
						idx := 0 // NEQ: true edge = non-nil
						if bo.Op == token.EQL {
							idx = 1
						}
						cut[edge{b.Index, b.Succs[idx].Index}] = true
					}
				}
			}
		}
		if len(cut) > 0 && !reachableBlocks(fn, 0, cut, nil)[in.Block().Index] {
			r.ok(key, c.Pos(in.Pos()), FuncName(fn), what, "reachable only through the non-nil edge")
		} else {
			r.fail(key, c.Pos(in.Pos()), FuncName(fn), what,
				"reachable without the slot's own nil test: after a failed rotation the slot is empty while the other one is not, Close panics with the muxer mutex held, nothing is broadcast and every pending request blocks for ever")
		}
	})
	r.Instances = n
	return r
}

func ruleT13(c *Ctx) *RuleResult {
	r := &RuleResult{Floor: 3, FloorWhat: "Unmarshal calls inside decoder loops"}
	_, dec := c.codecSets()
	var fns []*ssa.Function
	for fn := range dec {
		fns = append(fns, fn)
	}
	sort.Slice(fns, func(i, j int) bool { return fns[i].String() < fns[j].String() })
	n := 0
	for _, fn := range fns {
		k := 0
		allInstrs(fn, func(in ssa.Instruction) {
			call, ok := in.(*ssa.Call)
			if !ok {
				return
			}
			g := call.Call.StaticCallee()
			if g == nil || !dec[g] || g.Signature.Recv() == nil || len(call.Call.Args) == 0 {
				return
			}
			if !strings.EqualFold(g.Name(), "unmarshal") {
				return
			}
			if !inLoopBlock(fn, call.Block()) {
				return
			}
			recv := call.Call.Args[0]
			n++
			k++
			key := fmt.Sprintf("%s|%s#%d", FuncName(fn), FuncName(g), k)
			what := "the object decoded into is created in the same iteration"
			al, isAl := recv.(*ssa.Alloc)
			if !isAl {
				// a pointer loaded from a field / cell: the object it points to must have been stored there in this iteration
				r.ok(key, c.Pos(call.Pos()), FuncName(fn), what, "receiver is "+describeVal(recv)+" (not a local value)")
				return
			}
			if inLoopBlock(fn, al.Block()) {
				r.ok(key, c.Pos(call.Pos()), FuncName(fn), what, "allocated inside the loop")
			} else {
				r.fail(key, c.Pos(call.Pos()), FuncName(fn), what,
					"the value is declared outside the loop and reused for every tag: a field that one tag sets and the next does not mention (the start of a byte range) survives into the next segment")
			}
		})
	}
	r.Instances = n
	return r
}

func ruleF7i(c *Ctx) *RuleResult {
	r := &RuleResult{Floor: 1, FloorWhat: "reads through firstPlaylist in functions that receive the fetched playlist"}
	fp := c.Field("", "clientStreamDownloader", "firstPlaylist")
	if fp == nil {
		r.undecided("clientStreamDownloader.firstPlaylist not found")
		return r
	}
	n := 0
	for _, fn := range c.Funcs {
		if !InRootPkg(fn) {
			continue
		}
		top := enclosingNamed(fn)
		hasPl := false
		for _, p := range top.Params[min(1, len(top.Params)):] {
			if typeIs(p.Type(), modPath+"/pkg/playlist", "Media") {
				hasPl = true
			}
		}
		if !hasPl {
			continue
		}
		k := 0
		allInstrs(fn, func(in ssa.Instruction) {
			fa, ok := in.(*ssa.FieldAddr)
			if !ok {
				return
			}
			if bf, _ := loadedField(fa.X); bf != fp {
				return
			}
			st := derefStruct(fa.X.Type())
			if st == nil {
				return
			}
			f := st.Field(fa.Field)
			n++
			k++
			key := fmt.Sprintf("%s|firstPlaylist.%s#%d", FuncName(fn), f.Name(), k)
			what := "only the immutable PLAYLIST-TYPE is read from the first playlist once a fresher one is at hand"
			if f.Name() == "PlaylistType" {
				r.ok(key, c.Pos(fa.Pos()), FuncName(fn), what, "PlaylistType")
			} else {
				r.fail(key, c.Pos(fa.Pos()), FuncName(fn), what,
					"reads firstPlaylist."+f.Name()+" although the function receives the playlist just fetched: a stream that changes after the first poll (ENDLIST appearing, the window sliding) is followed with stale data")
			}
		})
	}
	r.Instances = n
	return r
}

func ruleK5b(c *Ctx) *RuleResult {
	r := &RuleResult{Floor: 1, FloorWhat: "error hand-overs of the routine pool"}
	errF := c.Field("", "clientRoutinePool", "err")
	if errF == nil {
		r.undecided("clientRoutinePool.err not found")
		return r
	}
	n := 0
	for _, fn := range c.Funcs {
		if !InRootPkg(fn) {
			continue
		}
		allInstrs(fn, func(in ssa.Instruction) {
			sel, ok := in.(*ssa.Select)
			if !ok {
				return
			}
			var sent ssa.Value
			for _, st := range sel.States {
				if st.Dir == types.SendOnly {
					if f, _ := loadedField(st.Chan); f == errF {
						sent = st.Send
					}
				}
			}
			if sent == nil {
				return
			}
			n++
			key := fmt.Sprintf("%s|forward#%d", FuncName(fn), n)
			what := "the error returned by the routine is sent whenever it is not nil"
			bad := ""
			for e := range controlEdges(fn, sel.Block()) {
				iff := fn.Blocks[e.from].Instrs[len(fn.Blocks[e.from].Instrs)-1].(*ssa.If)
				okCond := false
				if bo, ok := iff.Cond.(*ssa.BinOp); ok && (bo.Op == token.NEQ || bo.Op == token.EQL) {
					for _, pair := range [][2]ssa.Value{{bo.X, bo.Y}, {bo.Y, bo.X}} {
						if k, isC := pair[1].(*ssa.Const); isC && k.IsNil() && pair[0] == sent {
							okCond = true
						}
					}
				}
				if !okCond {
					bad = condText(c, iff)
				}
			}
			if bad == "" {
				r.ok(key, c.Pos(sel.Pos()), FuncName(fn), what, "controlled by `err != nil` only")
			} else {
				r.fail(key, c.Pos(sel.Pos()), FuncName(fn), what,
					"the send also depends on `"+bad+"`: a fatal error for which it does not hold ends its routine silently — the pool is never cancelled and Wait yields nothing until Close")
			}
		})
	}
	if n == 0 {
		r.undecided("K5b: no select sends on clientRoutinePool.err (the construct this rule is anchored on was not found: no verdict)")
	}
	r.Instances = n
	return r
}

func ruleV5(c *Ctx) *RuleResult {
	r := &RuleResult{Floor: 0, FloorWhat: "allocations sized by a response header"}
	n := 0
	isCL := func(v ssa.Value) bool {
		f, _ := loadedField(v)
		return f != nil && f.Name() == "ContentLength" && f.Pkg() != nil && f.Pkg().Path() == "net/http"
	}
	var derives func(v ssa.Value, depth int) bool
	derives = func(v ssa.Value, depth int) bool {
		if v == nil || depth > 6 {
			return false
		}
		if isCL(v) {
			return true
		}
		switch x := v.(type) {
		case *ssa.Convert:
			return derives(x.X, depth+1)
		case *ssa.BinOp:
			return derives(x.X, depth+1) || derives(x.Y, depth+1)
		case *ssa.Phi:
			for _, e := range x.Edges {
				if derives(e, depth+1) {
					return true
				}
			}
		}
		return false
	}
	reads := 0
	for _, fn := range c.Funcs {
		if !InRootPkg(fn) {
			continue
		}
		allInstrs(fn, func(in ssa.Instruction) {
			if v, ok := in.(ssa.Value); ok && isCL(v) {
				reads++
			}
			switch x := in.(type) {
			case *ssa.Call:
				g := x.Call.StaticCallee()
				if g != nil && g.Name() == "Grow" && len(x.Call.Args) == 2 && derives(x.Call.Args[1], 0) {
					n++
					r.fail(fmt.Sprintf("%s|grow#%d", FuncName(fn), n), c.Pos(x.Pos()), FuncName(fn), "no allocation is sized by Content-Length",
						"Grow is given the announced Content-Length: a server that announces an absurd length makes the downloader panic (bytes.Buffer: too large) or allocate it, instead of ending with an error from Wait")
				}
			case *ssa.MakeSlice:
				if derives(x.Len, 0) || derives(x.Cap, 0) {
					n++
					r.fail(fmt.Sprintf("%s|make#%d", FuncName(fn), n), c.Pos(x.Pos()), FuncName(fn), "no allocation is sized by Content-Length",
						"make([]byte, …) with the announced Content-Length: the size of an allocation is chosen by the peer")
				}
			}
		})
	}
	r.Notes = append(r.Notes, fmt.Sprintf("reads of http.Response.ContentLength in client code: %d", reads))
	if n == 0 {
		r.ok("client|no-peer-sized-allocation", "-", "client code", "no allocation is sized by Content-Length", fmt.Sprintf("%d reads of ContentLength, none reaches Grow/make", reads))
	}
	r.Instances = n
	return r
}

func ruleK8(c *Ctx) *RuleResult {
	r := &RuleResult{Floor: 1, FloorWhat: "callback registrations on mediacommon objects"}
	n := 0
	// fields a method stores unconditionally (its entry block dominates the store and every return is reachable from it)
	storesOf := func(g *ssa.Function, onlyParam bool) map[*types.Var]bool {
		out := map[*types.Var]bool{}
		if g == nil || g.Blocks == nil || len(g.Params) == 0 {
			return out
		}
		allInstrs(g, func(in ssa.Instruction) {
			st, ok := in.(*ssa.Store)
			if !ok {
				return
			}
			f, base := fieldOfAddr(st.Addr)
			if f == nil || base != ssa.Value(g.Params[0]) {
				return
			}
			if onlyParam {
				isParam := false
				for _, p := range g.Params[1:] {
					if st.Val == ssa.Value(p) {
						isParam = true
					}
				}
				if !isParam {
					return
				}
			} else {
				// on every successful outcome: the store's block dominates every return whose error result is nil
				// (or every return, for a function without results)
				for _, b := range g.Blocks {
					ret, isRet := b.Instrs[len(b.Instrs)-1].(*ssa.Return)
					if !isRet || b == g.Recover {
						continue
					}
					if len(ret.Results) > 0 {
						if k, isC := retVal(ret, len(ret.Results)-1).(*ssa.Const); !isC || !k.IsNil() {
							continue // an error return
						}
					}
					if !st.Block().Dominates(b) && st.Block() != b {
						return
					}
				}
			}
			out[f] = true
		})
		return out
	}
	for _, fn := range c.Funcs {
		if !InRootPkg(fn) {
			continue
		}
		k := 0
		allInstrs(fn, func(in ssa.Instruction) {
			call, ok := in.(*ssa.Call)
			if !ok {
				return
			}
			g := call.Call.StaticCallee()
			if g == nil || InLib(g) || g.Signature.Recv() == nil || !strings.HasPrefix(g.Name(), "On") || len(call.Call.Args) < 2 {
				return
			}
			if g.Pkg == nil || !strings.Contains(g.Pkg.Pkg.Path(), "mediacommon") {
				return
			}
			set := storesOf(g, true)
			if len(set) == 0 {
				return
			}
			n++
			k++
			key := fmt.Sprintf("%s|%s#%d", FuncName(fn), g.Name(), k)
			what := "the registration is not overwritten by a later call on the same object"
			recv := call.Call.Args[0]
			bad := ""
			allInstrs(fn, func(x ssa.Instruction) {
				c2, ok := x.(*ssa.Call)
				if !ok || c2 == call || bad != "" {
					return
				}
				g2 := c2.Call.StaticCallee()
				if g2 == nil || g2.Signature.Recv() == nil || len(c2.Call.Args) == 0 || !sameValueLoose(c2.Call.Args[0], recv) {
					return
				}
				if !instrReaches(call, c2) {
					return
				}
				over := storesOf(g2, false)
				for f := range set {
					if over[f] && g2 != g {
						bad = g2.Name() + " (which assigns " + f.Name() + " unconditionally)"
					}
				}
			})
			if bad == "" {
				r.ok(key, c.Pos(call.Pos()), FuncName(fn), what, "no later call resets the field")
			} else {
				r.fail(key, c.Pos(call.Pos()), FuncName(fn), what,
					"the registration is followed by "+bad+": the callback is lost — decode errors are skipped without being reported through OnDecodeError")
			}
		})
	}
	r.Instances = n
	return r
}

func ruleT14(c *Ctx) *RuleResult {
	r := &RuleResult{Floor: 1, FloorWhat: "stores of free text taken from a split"}
	titleF := c.Field("pkg/playlist", "MediaSegment", "Title")
	if titleF == nil {
		r.undecided("playlist.MediaSegment.Title not found")
		return r
	}
	_, dec := c.codecSets()
	n := 0
	for fn := range dec {
		allInstrs(fn, func(in ssa.Instruction) {
			st, ok := in.(*ssa.Store)
			if !ok {
				return
			}
			if f, _ := fieldOfAddr(st.Addr); f != titleF {
				return
			}
			n++
			key := fmt.Sprintf("%s|title#%d", FuncName(fn), n)
			what := "the title is everything after the first comma"
			// value: parts[k] with parts = strings.SplitN(line, ",", 2) — or a slice expression / Cut result
			v := st.Val
			// trimming does not change which piece is taken
			for {
				if call, ok := v.(*ssa.Call); ok && call.Call.StaticCallee() != nil && call.Call.StaticCallee().Pkg != nil &&
					call.Call.StaticCallee().Pkg.Pkg.Path() == "strings" && strings.HasPrefix(call.Call.StaticCallee().Name(), "Trim") && len(call.Call.Args) >= 1 {
					v = call.Call.Args[0]
					continue
				}
				break
			}
			if u, ok := v.(*ssa.UnOp); ok && u.Op == token.MUL {
				if ia, ok := u.X.(*ssa.IndexAddr); ok {
					if call, ok := ia.X.(*ssa.Call); ok {
						g := call.Call.StaticCallee()
						switch {
						case isFuncNamed(g, "strings", "SplitN"):
							if k, ok := constInt(call.Call.Args[2]); ok && k == 2 {
								r.ok(key, c.Pos(st.Pos()), FuncName(fn), what, "SplitN(…, 2)")
							} else {
								r.fail(key, c.Pos(st.Pos()), FuncName(fn), what, "SplitN with a limit other than 2: a title that contains a comma is cut at its comma")
							}
							return
						case isFuncNamed(g, "strings", "Split"):
							r.fail(key, c.Pos(st.Pos()), FuncName(fn), what, "an element of an unbounded strings.Split: a title that contains a comma is silently truncated at that comma (the decoded playlist differs from the encoded one)")
							return
						}
					}
				}
			}
			switch x := v.(type) {
			case *ssa.Slice:
				r.ok(key, c.Pos(st.Pos()), FuncName(fn), what, "slice expression")
				return
			case *ssa.Extract:
				if call, ok := x.Tuple.(*ssa.Call); ok && isFuncNamed(call.Call.StaticCallee(), "strings", "Cut") {
					r.ok(key, c.Pos(st.Pos()), FuncName(fn), what, "strings.Cut")
					return
				}
			}
			r.undecided("T14: %s stores %s into MediaSegment.Title: form not known to the rule", FuncName(fn), describeVal(v))
		})
	}
	r.Instances = n
	return r
}

func ruleT6g(c *Ctx) *RuleResult {
	r := &RuleResult{Floor: 3, FloorWhat: "video writers that compare parameter sets inside a loop"}
	si := c.segmenter()
	if len(si.problems) > 0 {
		r.undecided("%s", si.problems[0])
		return r
	}
	n := 0
	for _, fn := range si.video {
		// comparison sites inside a loop
		var cmpBlocks []*ssa.BasicBlock
		allInstrs(fn, func(in ssa.Instruction) {
			isCodec := func(v ssa.Value) bool {
				f, _ := loadedField(stripConv(v))
				return f != nil && f.Pkg() != nil && strings.HasSuffix(f.Pkg().Path(), "/pkg/codecs")
			}
			switch x := in.(type) {
			case *ssa.Call:
				if isFuncNamed(x.Call.StaticCallee(), "bytes", "Equal") && (isCodec(x.Call.Args[0]) || isCodec(x.Call.Args[1])) && inLoopBlock(fn, x.Block()) {
					cmpBlocks = append(cmpBlocks, x.Block())
				}
			case *ssa.BinOp:
				if (x.Op == token.NEQ || x.Op == token.EQL) && (isCodec(x.X) || isCodec(x.Y)) && inLoopBlock(fn, x.Block()) {
					if k, isC := x.Y.(*ssa.Const); isC && k.IsNil() {
						return
					}
					cmpBlocks = append(cmpBlocks, x.Block())
				}
			}
		})
		if len(cmpBlocks) == 0 {
			continue
		}
		n++
		key := FuncName(fn) + "|compare-before-drop"
		what := "every success return is dominated by the head of the loop that compares the parameter sets"
		// loop head of a block: the highest dominator that lies on a cycle with it
		head := func(b *ssa.BasicBlock) *ssa.BasicBlock {
			h := b
			for d := b.Idom(); d != nil; d = d.Idom() {
				if reachableBlocks(fn, b.Index, nil, nil)[d.Index] && reachableBlocks(fn, d.Index, nil, nil)[b.Index] {
					h = d
				}
			}
			return h
		}
		bad := ""
		for _, b := range fn.Blocks {
			ret, ok := b.Instrs[len(b.Instrs)-1].(*ssa.Return)
			if !ok || b == fn.Recover || len(ret.Results) == 0 {
				continue
			}
			ev := retVal(ret, len(ret.Results)-1)
			if k, isC := ev.(*ssa.Const); !isC || !k.IsNil() {
				// `return s.fmp4WriteSample(...)`: the hand-over itself; also a success, and also after the comparisons
				if _, isCall := ev.(*ssa.Call); !isCall {
					continue
				}
			}
			for _, cb := range cmpBlocks {
				h := head(cb)
				if !(h == b || h.Dominates(b)) {
					bad = c.Pos(posOf(ret))
				}
			}
		}
		if bad == "" {
			r.ok(key, c.Pos(fn.Pos()), FuncName(fn), what, "the comparing loop precedes every success return")
		} else {
			r.fail(key, c.Pos(fn.Pos()), FuncName(fn), what,
				"the success return at "+bad+" can be taken before the loop that compares the parameter sets: a unit that carries only parameter sets is dropped without being compared — the change is never recorded, no cut, no new init segment, and the multivariant playlist keeps describing the old stream")
		}
	}
	r.Instances = n
	return r
}

func ruleG17(c *Ctx) *RuleResult {
	r := &RuleResult{Floor: 3, FloorWhat: "defaulted configuration fields in Muxer.Start"}
	fn := c.Method("", "Muxer", "Start")
	if fn == nil {
		r.undecided("(*Muxer).Start not found")
		return r
	}
	n := 0
	// default stores: store to field F of the receiver, control dependent on a zero test of F
	type dflt struct {
		f  *types.Var
		st *ssa.Store
	}
	var ds []dflt
	allInstrs(fn, func(in ssa.Instruction) {
		st, ok := in.(*ssa.Store)
		if !ok {
			return
		}
		f, base := fieldOfAddr(st.Addr)
		if f == nil || !isRecvValue(fn, base) || !f.Exported() {
			return
		}
		conds := ifsOnV(fn, func(v ssa.Value) bool {
			bo, ok := v.(*ssa.BinOp)
			if !ok || bo.Op != token.EQL {
				return false
			}
			lf, lb := loadedField(bo.X)
			if lf != f || !isRecvValue(fn, lb) {
				return false
			}
			k, isC := bo.Y.(*ssa.Const)
			if !isC {
				return false
			}
			if k.IsNil() {
				return true
			}
			if k.Value != nil {
				switch k.Value.Kind() {
				case constant.Int:
					z, _ := constant.Int64Val(k.Value)
					return z == 0
				case constant.String:
					return constant.StringVal(k.Value) == ""
				}
			}
			return false
		})
		if len(conds) > 0 && onlyIf(fn, st, conds, true) {
			ds = append(ds, dflt{f, st})
		}
	})
	for _, d := range ds {
		n++
		key := "Muxer.Start|default " + d.f.Name()
		what := "the default of " + d.f.Name() + " is in place before any other read of the field in Start"
		bad := ""
		allInstrs(fn, func(in ssa.Instruction) {
			u, ok := in.(*ssa.UnOp)
			if !ok || u.Op != token.MUL || bad != "" {
				return
			}
			f, base := fieldOfAddr(u.X)
			if f != d.f || !isRecvValue(fn, base) {
				return
			}
			// the zero test itself
			isTest := false
			for _, ref := range *u.Referrers() {
				if bo, ok := ref.(*ssa.BinOp); ok && bo.Op == token.EQL {
					// the guard of the default store itself: the If on this comparison is in the store's immediate dominator
					if k, isC := bo.Y.(*ssa.Const); isC && isZeroConst(k) && d.st.Block().Idom() == bo.Block() {
						isTest = true
					}
				}
			}
			if isTest {
				return
			}
			// a read that can execute before the default: it can reach the default store's guard block
			if instrReaches(u, d.st) && !instrDominates(d.st, u) {
				bad = c.Pos(u.Pos())
			}
		})
		if bad == "" {
			r.ok(key, c.Pos(d.st.Pos()), FuncName(fn), what, "no earlier read")
		} else {
			r.fail(key, c.Pos(d.st.Pos()), FuncName(fn), what,
				"the field is read at "+bad+" before its default is applied: validation that depends on it (the Low-Latency minimum of SegmentCount) sees the zero value and takes another branch than the muxer that is then started")
		}
	}
	r.Instances = n
	return r
}

func ruleV1d(c *Ctx) *RuleResult {
	r := &RuleResult{Floor: 3, FloorWhat: "decoder stores of enumerated string values"}
	_, dec := c.codecSets()
	var fns []*ssa.Function
	for fn := range dec {
		fns = append(fns, fn)
	}
	sort.Slice(fns, func(i, j int) bool { return fns[i].String() < fns[j].String() })
	n := 0
	// constants of a named string type
	constsOf := func(t *types.Named) []string {
		var out []string
		sc := t.Obj().Pkg().Scope()
		for _, name := range sc.Names() {
			// typed with the enumeration, or (this repository) untyped string constants named after it
			if k, ok := sc.Lookup(name).(*types.Const); ok && k.Val().Kind() == constant.String &&
				(types.Identical(k.Type(), t) || (strings.HasPrefix(name, t.Obj().Name()) && name != t.Obj().Name())) {
				out = append(out, constant.StringVal(k.Val()))
			}
		}
		sort.Strings(out)
		return out
	}
	for _, fn := range fns {
		k := 0
		allInstrs(fn, func(in ssa.Instruction) {
			st, ok := in.(*ssa.Store)
			if !ok {
				return
			}
			f, _ := fieldOfAddr(st.Addr)
			if f == nil || !inPlaylistPkgType(f) {
				return
			}
			ft := types.Unalias(f.Type())
			val := st.Val
			if p, ok := ft.Underlying().(*types.Pointer); ok {
				ft = p.Elem()
				// &v: the value stored in the cell
				al, isAl := val.(*ssa.Alloc)
				if !isAl {
					return
				}
				val = nil
				for _, ref := range *al.Referrers() {
					if s2, ok := ref.(*ssa.Store); ok && s2.Addr == ssa.Value(al) {
						val = s2.Val
					}
				}
				if val == nil {
					return
				}
			}
			nt, ok := types.Unalias(ft).(*types.Named)
			if !ok || nt.Obj().Pkg() == nil {
				return
			}
			if b, ok := nt.Underlying().(*types.Basic); !ok || b.Kind() != types.String {
				return
			}
			ks := constsOf(nt)

			if len(ks) < 2 {
				return
			}
			if _, isConst := val.(*ssa.Const); isConst {
				return // a default, not decoded input
			}
			n++
			k++
			key := fmt.Sprintf("%s|%s.%s#%d", FuncName(fn), c.fieldOwner(f), f.Name(), k)
			what := "the stored " + nt.Obj().Name() + " was compared exactly with every constant of the type"
			// exact comparisons of `val` (or the cell's loads) against constants
			compared := map[string]bool{}
			same := func(v ssa.Value) bool {
				if v == val {
					return true
				}
				if u, ok := v.(*ssa.UnOp); ok && u.Op == token.MUL {
					if al, ok := u.X.(*ssa.Alloc); ok {
						for _, ref := range *al.Referrers() {
							if s2, ok := ref.(*ssa.Store); ok && s2.Addr == ssa.Value(al) && s2.Val == val {
								return true
							}
						}
					}
				}
				return false
			}
			allInstrs(fn, func(x ssa.Instruction) {
				bo, ok := x.(*ssa.BinOp)
				if !ok || (bo.Op != token.EQL && bo.Op != token.NEQ) {
					return
				}
				for _, pair := range [][2]ssa.Value{{bo.X, bo.Y}, {bo.Y, bo.X}} {
					if s, isS := constString(pair[1]); isS && same(pair[0]) {
						compared[s] = true
					}
				}
			})
			var missing []string
			for _, s := range ks {
				if !compared[s] {
					missing = append(missing, s)
				}
			}
			if len(missing) == 0 {
				r.ok(key, c.Pos(st.Pos()), FuncName(fn), what, strings.Join(ks, ", "))
			} else {
				r.fail(key, c.Pos(st.Pos()), FuncName(fn), what,
					"no exact comparison of the stored value with "+strings.Join(missing, ", ")+": a value that only resembles a known one (another case, a prefix) is accepted and stored as written — the type-dependent rules that compare exactly are skipped and the encoder prints a value outside the enumeration")
			}
		})
	}
	r.Instances = n
	return r
}

func inPlaylistPkgType(f *types.Var) bool {
	return f.Pkg() != nil && (f.Pkg().Path() == modPath+"/pkg/playlist" || f.Pkg().Path() == modPath+"/pkg/playlist/primitives")
}

func init() {
	registerRule("P3d", "a part's placeholder never outlives the part's number: in rotateParts every Low-Latency path from the increment of nextPartID to a return registers the real handler under the part's path or unregisters that path (the preload-hint handler waiting there would otherwise look itself up and recurse)", ruleP3d)
}

func ruleP3d(c *Ctx) *RuleResult {
	r := &RuleResult{Floor: 1, FloorWhat: "increments of nextPartID"}
	fn := c.Method("", "muxerStream", "rotateParts")
	idF := c.Field("", "muxerStream", "nextPartID")
	variantF := c.Field("", "muxerStream", "variant")
	pathF := c.Field("", "muxerPart", "path")
	if fn == nil || idF == nil || variantF == nil || pathF == nil {
		r.undecided("rotateParts / nextPartID / variant / muxerPart.path not found")
		return r
	}
	// only Low-Latency paths: cut the edges on which variant != LowLatency
	cut := map[edge]bool{}
	for _, b := range fn.Blocks {
		if len(b.Instrs) == 0 {
			continue
		}
		iff, ok := b.Instrs[len(b.Instrs)-1].(*ssa.If)
		if !ok {
			continue
		}
		bo, ok := iff.Cond.(*ssa.BinOp)
		if !ok || (bo.Op != token.EQL && bo.Op != token.NEQ) {
			continue
		}
		if f, _ := loadedField(bo.X); f != variantF {
			continue
		}
		k, ok := bo.Y.(*ssa.Const)
		if !ok || k.Value == nil || !strings.Contains(constName(c, bo.Y.Type(), k.Value), "LowLatency") {
			continue
		}
		idx := 1 // EQL: false edge = not Low-Latency
		if bo.Op == token.NEQ {
			idx = 0
		}
		cut[edge{b.Index, b.Succs[idx].Index}] = true
	}
	if len(cut) == 0 {
		r.undecided("P3d: rotateParts has no `variant == MuxerVariantLowLatency` test: form not known to the rule")
		return r
	}
	n := 0
	allInstrs(fn, func(in ssa.Instruction) {
		st, ok := in.(*ssa.Store)
		if !ok {
			return
		}
		if f, _ := fieldOfAddr(st.Addr); f != idF {
			return
		}
		n++
		key := fmt.Sprintf("rotateParts|placeholder-replaced#%d", n)
		what := "after the part counter advanced, every Low-Latency path to a return registers or unregisters the finished part's path"
		isSettle := func(x ssa.Instruction) bool {
			call, ok := x.(*ssa.Call)
			if !ok {
				return false
			}
			g := call.Call.StaticCallee()
			if g == nil || (g != c.pathTableFn("register") && g != c.pathTableFn("unregister")) || len(call.Call.Args) < 2 {
				return false
			}
			f, _ := loadedField(call.Call.Args[1])
			return f == pathF
		}
		isRet := func(x ssa.Instruction) bool { _, ok := x.(*ssa.Return); return ok }
		// a function without any Low-Latency registration at all (variant without parts) is not concerned
		if path := pathAvoidingCut(c, fn, st, cut, isSettle, isRet); path != nil {
			// paths that are not Low-Latency reach the return through a cut edge only; what is left is a real path
			// but only count it if it stays on the Low-Latency side: it must not be forced through a non-LL edge
			r.fail(key, c.Pos(st.Pos()), FuncName(fn), what,
				"a path returns with the counter advanced and the placeholder still registered under the part's path: the next request for the hinted part passes the placeholder's wait, looks up the handler of that path, finds the placeholder itself and recurses until the stack overflows (fatal, the process dies)", path...)
		} else {
			r.ok(key, c.Pos(st.Pos()), FuncName(fn), what, "every path settles the path table")
		}
	})
	r.Instances = n
	return r
}

func init() {
	registerRule("G6c", "the muxer never announces a target duration its own decoder refuses: the running maximum of targetDuration() starts at a positive constant (Media.Unmarshal rejects TARGETDURATION 0)", ruleG6c)
	registerRule("T5b", "no rendition of the selected group loses its attributes: in the client's loop over the audio renditions, an iteration that does not create a stream for the rendition (no URI: its data is in the variant's playlist) still attaches the rendition to a stream", ruleT5b)
}

func ruleG6c(c *Ctx) *RuleResult {
	r := &RuleResult{Floor: 1, FloorWhat: "target duration computations"}
	fn := c.Func("", "targetDuration")
	if fn == nil {
		r.undecided("targetDuration() not found")
		return r
	}
	n := 0
	for _, b := range fn.Blocks {
		ret, ok := b.Instrs[len(b.Instrs)-1].(*ssa.Return)
		if !ok || b == fn.Recover {
			continue
		}
		n++
		key := fmt.Sprintf("targetDuration|minimum#%d", n)
		what := "the value returned is at least 1 (a maximum that starts from a positive constant)"
		v := retVal(ret, 0)
		// the loop-carried maximum: a phi one edge of which is the initial constant
		okMin := false
		desc := describeVal(v)
		seen := map[ssa.Value]bool{}
		var walk func(x ssa.Value, depth int) (int64, bool)
		walk = func(x ssa.Value, depth int) (int64, bool) {
			if depth > 6 || seen[x] {
				return 0, false
			}
			seen[x] = true
			if k, ok := constInt(x); ok {
				return k, true
			}
			if phi, ok := x.(*ssa.Phi); ok {
				// the edges that come from before the loop
				best := int64(-1)
				found := false
				for _, e := range phi.Edges {
					if k, ok := walk(e, depth+1); ok {
						if !found || k < best {
							best = k
						}
						found = true
					}
				}
				return best, found
			}
			return 0, false
		}
		if k, ok := walk(v, 0); ok {
			desc = fmt.Sprintf("initial value %d", k)
			okMin = k >= 1
		} else {
			r.undecided("G6c: targetDuration returns %s: form not known to the rule", desc)
			continue
		}
		if okMin {
			r.ok(key, c.Pos(posOf(ret)), FuncName(fn), what, desc)
		} else {
			r.fail(key, c.Pos(posOf(ret)), FuncName(fn), what,
				desc+": with segments shorter than half a second every rounded EXTINF is 0 and the muxer serves EXT-X-TARGETDURATION:0 — a playlist that playlist.Media.Unmarshal (and therefore the library's own Client) refuses with `TARGETDURATION not set`")
		}
	}
	r.Instances = n
	return r
}

func ruleT5b(c *Ctx) *RuleResult {
	r := &RuleResult{Floor: 1, FloorWhat: "loops over the renditions of the selected group"}
	rendF := c.Field("", "clientStreamDownloader", "rendition")
	if rendF == nil {
		r.undecided("clientStreamDownloader.rendition not found")
		return r
	}
	n := 0
	for _, fn := range c.Funcs {
		if !InRootPkg(fn) {
			continue
		}
		// a construction helper that stores one of its parameters into the field stands for the store
		attachVia := func(x ssa.Instruction) (ssa.Value, bool) {
			call, ok := x.(*ssa.Call)
			if !ok {
				return nil, false
			}
			g := call.Call.StaticCallee()
			if g == nil || g.Blocks == nil || !InRootPkg(g) {
				return nil, false
			}
			for _, s2 := range storesToField(c, g, rendF) {
				for j, p := range g.Params {
					if s2.Val == ssa.Value(p) && j < len(call.Call.Args) {
						return call.Call.Args[j], true
					}
				}
			}
			return nil, false
		}
		allInstrs(fn, func(in ssa.Instruction) {
			var stored ssa.Value
			if st, ok := in.(*ssa.Store); ok {
				if f, _ := fieldOfAddr(st.Addr); f == rendF {
					stored = st.Val
				}
			} else if v, ok := attachVia(in); ok {
				stored = v
			}
			if stored == nil {
				return
			}
			st := in
			// the stored value: an element of a ranged-over slice
			ld, ok := stored.(*ssa.UnOp)
			if !ok || ld.Op != token.MUL {
				return
			}
			ia, ok := ld.X.(*ssa.IndexAddr)
			if !ok {
				return
			}
			isRange, _ := rangeIndexOver(ia.Index)
			if !isRange {
				return
			}
			n++
			key := fmt.Sprintf("%s|rendition-kept#%d", FuncName(fn), n)
			what := "every iteration over the renditions of the group attaches the rendition to a stream"
			// loop header: the block of the index phi (ia.Index is phi+1 or the phi)
			var head *ssa.BasicBlock
			if bo, ok := ia.Index.(*ssa.BinOp); ok {
				head = bo.Block()
			} else if phi, ok := ia.Index.(*ssa.Phi); ok {
				head = phi.Block()
			}
			if head == nil || len(head.Instrs) == 0 {
				r.undecided("T5b: loop head of the rendition loop in %s not recognised", FuncName(fn))
				return
			}
			isAttach := func(x ssa.Instruction) bool {
				if _, via := attachVia(x); via {
					return true
				}
				s2, ok := x.(*ssa.Store)
				if !ok {
					return false
				}
				f2, _ := fieldOfAddr(s2.Addr)
				return f2 == rendF
			}
			first := head.Instrs[0]
			isHead := func(x ssa.Instruction) bool { return x == first }
			path := pathAvoiding(c, fn, ld, isAttach, isHead)
			if path == nil {
				r.ok(key, c.Pos(st.Pos()), FuncName(fn), what, "no iteration bypasses the attachment")
			} else {
				r.fail(key, c.Pos(ld.Pos()), FuncName(fn), what,
					"an iteration returns to the loop head without attaching the rendition (the `URI == nil` arm): the name, language and default flag of a rendition whose data is in the variant's own playlist — the first track of an audio-only muxer — never reach the client's Track", path...)
			}
		})
	}
	if n == 0 {
		r.undecided("T5b: no store of a ranged-over rendition into clientStreamDownloader.rendition (the construct this rule is anchored on was not found: no verdict)")
	}
	r.Instances = n
	return r
}

func init() {
	registerRule("G7i", "absence of _HLS_part is visible to the wait predicate: the part-availability predicate (which takes a part index) is evaluated only when the request carried _HLS_part; without it the wait ends on the segment counter (complete segment)", ruleG7i)
	registerRule("G7j", "the oldest listed segment has not expired: the lowest media sequence number a blocking reload accepts is nextSegmentID - len(segments), the number of the first listed entry", ruleG7j)
}

// partPresenceConds: the If instructions of fn (a closure of the handler) that test the raw _HLS_part value against "".
func partPresenceConds(c *Ctx, fn *ssa.Function) (present []condIf, absent []condIf) {
	isPartVal := func(v ssa.Value) bool {
		// a captured cell / free variable / parameter named part, or the result of queryVal(q, "_HLS_part")
		seen := map[ssa.Value]bool{}
		var walk func(x ssa.Value, depth int) bool
		walk = func(x ssa.Value, depth int) bool {
			if x == nil || seen[x] || depth > 6 {
				return false
			}
			seen[x] = true
			switch y := x.(type) {
			case *ssa.Call:
				for _, a := range y.Call.Args {
					if s, ok := constString(a); ok && s == "_HLS_part" {
						return true
					}
				}
			case *ssa.UnOp:
				return walk(y.X, depth+1)
			case *ssa.FreeVar:
				// the binding in the enclosing function
				if p := y.Parent().Parent(); p != nil {
					found := false
					allInstrs(p, func(in ssa.Instruction) {
						if mc, ok := in.(*ssa.MakeClosure); ok && mc.Fn == ssa.Value(y.Parent()) {
							for i, fv := range y.Parent().FreeVars {
								if fv == y && walk(mc.Bindings[i], depth+1) {
									found = true
								}
							}
						}
					})
					return found
				}
			case *ssa.Alloc:
				for _, ref := range *y.Referrers() {
					if st, ok := ref.(*ssa.Store); ok && st.Addr == ssa.Value(y) && walk(st.Val, depth+1) {
						return true
					}
				}
			case *ssa.Parameter:
				// a helper that receives the raw value: every call site passes it
				pf := y.Parent()
				idx := -1
				for i, p := range pf.Params {
					if p == y {
						idx = i
					}
				}
				edges := c.callersOf(pf)
				if idx < 0 || len(edges) == 0 {
					return false
				}
				for _, e := range edges {
					if e.Site == nil || idx >= len(e.Site.Common().Args) || !walk(e.Site.Common().Args[idx], depth+1) {
						return false
					}
				}
				return true
			case *ssa.Phi:
				for _, e := range y.Edges {
					if walk(e, depth+1) {
						return true
					}
				}
			}
			return false
		}
		return walk(v, 0)
	}
	for _, b := range fn.Blocks {
		if len(b.Instrs) == 0 {
			continue
		}
		iff, ok := b.Instrs[len(b.Instrs)-1].(*ssa.If)
		if !ok {
			continue
		}
		bo, ok := iff.Cond.(*ssa.BinOp)
		if !ok || (bo.Op != token.EQL && bo.Op != token.NEQ) {
			continue
		}
		for _, pair := range [][2]ssa.Value{{bo.X, bo.Y}, {bo.Y, bo.X}} {
			if s, isS := constString(pair[1]); isS && s == "" && isPartVal(pair[0]) {
				// EQL: true edge = absent
				if bo.Op == token.EQL {
					absent = append(absent, condIf{If: iff, Pol: true})
					present = append(present, condIf{If: iff, Pol: false})
				} else {
					present = append(present, condIf{If: iff, Pol: true})
					absent = append(absent, condIf{If: iff, Pol: false})
				}
			}
		}
	}
	return present, absent
}

func ruleG7i(c *Ctx) *RuleResult {
	r := &RuleResult{Floor: 1, FloorWhat: "evaluations of the part-availability predicate in wait loops"}
	pred := c.Method("", "muxerStream", "hasPart")
	if pred == nil {
		r.undecided("(*muxerStream).hasPart not found")
		return r
	}
	n := 0
	for _, fn := range c.Funcs {
		if !InRootPkg(fn) || fn == pred {
			continue
		}
		allInstrs(fn, func(in ssa.Instruction) {
			call, ok := in.(*ssa.Call)
			if !ok || call.Call.StaticCallee() != pred {
				return
			}
			n++
			key := fmt.Sprintf("%s|part-present#%d", FuncName(fn), n)
			what := "the part predicate is consulted only for requests that carry _HLS_part"
			present, _ := partPresenceConds(c, fn)
			if len(present) == 0 {
				r.fail(key, c.Pos(call.Pos()), FuncName(fn), what,
					"no test of the raw _HLS_part value controls the call: an absent _HLS_part and _HLS_part=0 both reach the predicate as part 0, so a request for the complete segment M is answered as soon as part 0 of M exists")
				return
			}
			cut := map[edge]bool{}
			for _, ci := range present {
				b := ci.If.Block()
				idx := 0
				if !ci.Pol {
					idx = 1
				}
				cut[edge{b.Index, b.Succs[idx].Index}] = true
			}
			if !reachableBlocks(fn, 0, cut, nil)[call.Block().Index] {
				r.ok(key, c.Pos(call.Pos()), FuncName(fn), what, "control dependent on `part != \"\"`")
			} else {
				r.fail(key, c.Pos(call.Pos()), FuncName(fn), what,
					"the call is reachable when _HLS_part is absent: the request for the complete segment is then treated as one for its part 0")
			}
		})
	}
	if n == 0 {
		r.undecided("G7i: no call of hasPart outside itself (the construct this rule is anchored on was not found: no verdict)")
	}
	r.Instances = n
	return r
}

func ruleG7j(c *Ctx) *RuleResult {
	r := &RuleResult{Floor: 1, FloorWhat: "expired-number tests of the blocking reload"}
	nextF := c.Field("", "muxerStream", "nextSegmentID")
	segF := c.Field("", "muxerStream", "segments")
	if nextF == nil || segF == nil {
		r.undecided("muxerStream.nextSegmentID / segments not found")
		return r
	}
	n := 0
	for _, fn := range c.Funcs {
		if !InRootPkg(fn) {
			continue
		}
		for _, b := range fn.Blocks {
			if len(b.Instrs) == 0 {
				continue
			}
			iff, ok := b.Instrs[len(b.Instrs)-1].(*ssa.If)
			if !ok {
				continue
			}
			bo, ok := iff.Cond.(*ssa.BinOp)
			if !ok || (bo.Op != token.LSS && bo.Op != token.LEQ) {
				continue
			}
			// right side: nextSegmentID - f(len(segments))
			sub, ok := stripConv(bo.Y).(*ssa.BinOp)
			if !ok || sub.Op != token.SUB {
				continue
			}
			if f, _ := loadedField(stripConv(sub.X)); f != nextF {
				continue
			}
			// f(len(segments)) = len(segments) + k
			k := int64(0)
			v := stripConv(sub.Y)
			for {
				if bb, ok := v.(*ssa.BinOp); ok && (bb.Op == token.SUB || bb.Op == token.ADD) {
					if kk, isC := constInt(bb.Y); isC {
						if bb.Op == token.SUB {
							k -= kk
						} else {
							k += kk
						}
						v = stripConv(bb.X)
						continue
					}
				}
				break
			}
			call, ok := v.(*ssa.Call)
			if !ok {
				continue
			}
			if bi, ok := call.Call.Value.(*ssa.Builtin); !ok || bi.Name() != "len" {
				continue
			}
			if f, _ := loadedField(call.Call.Args[0]); f != segF {
				continue
			}
			n++
			// keyed by the construct, not by the function it lives in: the wait loop may be moved into a helper
			key := fmt.Sprintf("blocking-reload|oldest-listed#%d", n)
			what := "the first listed media sequence number (nextSegmentID - len(segments)) is still accepted"
			// rejected iff msn < next - (len + k)  →  lowest accepted = next - len - k; for LEQ one more
			lowest := -k
			if bo.Op == token.LEQ {
				lowest++
			}
			if lowest <= 0 {
				r.ok(key, c.Pos(bo.Pos()), FuncName(fn), what, fmt.Sprintf("lowest accepted = oldest listed %+d", lowest))
			} else {
				r.fail(key, c.Pos(bo.Pos()), FuncName(fn), what,
					fmt.Sprintf("the lowest accepted number is the oldest listed one plus %d: a blocking reload for the first entry of the current playlist (its EXT-X-MEDIA-SEQUENCE) is answered 400 although that segment has not expired", lowest))
			}
		}
	}
	if n == 0 {
		r.undecided("G7j: no comparison of the form `msn < nextSegmentID - uint64(len(segments) ± k)` found (the construct this rule is anchored on was not found: no verdict)")
	}
	r.Instances = n
	return r
}

// isRecvValue: v is the receiver of fn, directly or re-loaded from the cell go/ssa spills a captured receiver into.
func isRecvValue(fn *ssa.Function, v ssa.Value) bool {
	if len(fn.Params) == 0 {
		return false
	}
	if v == ssa.Value(fn.Params[0]) {
		return true
	}
	if u, ok := v.(*ssa.UnOp); ok && u.Op == token.MUL {
		if al, ok := u.X.(*ssa.Alloc); ok {
			n, okAll := 0, true
			for _, ref := range *al.Referrers() {
				if st, ok := ref.(*ssa.Store); ok && st.Addr == ssa.Value(al) {
					n++
					if st.Val != ssa.Value(fn.Params[0]) {
						okAll = false
					}
				}
			}
			return n > 0 && okAll
		}
	}
	return false
}

func isZeroConst(k *ssa.Const) bool {
	if k.IsNil() {
		return true
	}
	if k.Value == nil {
		return true
	}
	switch k.Value.Kind() {
	case constant.Int:
		z, _ := constant.Int64Val(k.Value)
		return z == 0
	case constant.String:
		return constant.StringVal(k.Value) == ""
	case constant.Bool:
		return !constant.BoolVal(k.Value)
	}
	return false
}

func init() {
	registerRule("P7", "readers are closed exactly where they exist: in muxer code a reader obtained from a part/segment (`reader()`) is closed on every path that follows a nil error, and Close is never scheduled or called where the error has not been tested", ruleP7)
}

func ruleP7(c *Ctx) *RuleResult {
	r := &RuleResult{Floor: 2, FloorWhat: "readers obtained in handlers"}
	n := 0
	var fns []*ssa.Function
	for _, fn := range c.Funcs {
		if InRootPkg(fn) {
			fns = append(fns, fn)
		}
	}
	sort.Slice(fns, func(i, j int) bool { return fns[i].String() < fns[j].String() })
	for _, fn := range fns {
		k := 0
		allInstrs(fn, func(in ssa.Instruction) {
			call, ok := in.(*ssa.Call)
			if !ok {
				return
			}
			res := call.Type()
			tup, ok := res.(*types.Tuple)
			if !ok || tup.Len() != 2 || !isErrorType(tup.At(1).Type()) {
				return
			}
			// (io.ReadCloser, error): an interface with Read and Close
			it, ok := tup.At(0).Type().Underlying().(*types.Interface)
			if !ok {
				return
			}
			hasRead, hasClose := false, false
			for i := 0; i < it.NumMethods(); i++ {
				switch it.Method(i).Name() {
				case "Read":
					hasRead = true
				case "Close":
					hasClose = true
				}
			}
			if !hasRead || !hasClose {
				return
			}
			name := ""
			if g := call.Call.StaticCallee(); g != nil {
				name = g.Name()
			} else if call.Call.IsInvoke() {
				name = call.Call.Method.Name()
			}
			if !strings.EqualFold(name, "reader") {
				return
			}
			// the function must use the reader itself (a forwarding `return x.Reader()` hands ownership on)
			var rd, er ssa.Value
			for _, ref := range *call.Referrers() {
				if ex, ok := ref.(*ssa.Extract); ok {
					if ex.Index == 0 {
						rd = ex
					} else {
						er = ex
					}
				}
			}
			if rd == nil || er == nil {
				return
			}
			// handed on to the caller: the reader is only returned
			onlyReturned := true
			for _, ref := range *rd.Referrers() {
				if _, isRet := ref.(*ssa.Return); !isRet {
					if _, isDbg := ref.(*ssa.DebugRef); !isDbg {
						onlyReturned = false
					}
				}
			}
			if onlyReturned {
				return
			}
			n++
			k++
			key := fmt.Sprintf("%s|reader#%d", FuncName(fn), k)
			what := "the reader is closed on every path after a nil error, and only there"
			// error edges: err != nil
			cutErr := map[edge]bool{}   // edges taken when err != nil
			cutNoErr := map[edge]bool{} // edges taken when err == nil
			for _, b := range fn.Blocks {
				if len(b.Instrs) == 0 {
					continue
				}
				iff, ok := b.Instrs[len(b.Instrs)-1].(*ssa.If)
				if !ok {
					continue
				}
				bo, ok := iff.Cond.(*ssa.BinOp)
				if !ok || (bo.Op != token.NEQ && bo.Op != token.EQL) {
					continue
				}
				if kk, isC := bo.Y.(*ssa.Const); !isC || !kk.IsNil() || bo.X != er {
					continue
				}
				ti, fi := 0, 1
				if bo.Op == token.EQL {
					ti, fi = 1, 0
				}
				cutErr[edge{b.Index, b.Succs[ti].Index}] = true
				cutNoErr[edge{b.Index, b.Succs[fi].Index}] = true
			}
			isClose := func(x ssa.Instruction) bool {
				var cc *ssa.CallCommon
				switch y := x.(type) {
				case *ssa.Call:
					cc = &y.Call
				case *ssa.Defer:
					cc = &y.Call
				default:
					return false
				}
				return cc.IsInvoke() && cc.Method.Name() == "Close" && cc.Value == rd
			}
			isRet := func(x ssa.Instruction) bool { _, ok := x.(*ssa.Return); return ok }
			// (a) on the paths where err == nil (error edges removed) every return is preceded by Close
			if path := pathAvoidingCut(c, fn, call, cutErr, isClose, isRet); path != nil {
				r.fail(key, c.Pos(call.Pos()), FuncName(fn), what,
					"a path returns without closing the reader: every such request leaks a file descriptor when segments are stored on disk, until listed URIs start answering 500", path...)
				return
			}
			// (b) no Close where the error has not been tested: with the `err == nil` edges removed no Close is reachable
			bad := false
			if len(cutNoErr) == 0 {
				bad = true
			} else {
				reach := reachableBlocks(fn, call.Block().Index, cutNoErr, nil)
				allInstrs(fn, func(x ssa.Instruction) {
					if isClose(x) && reach[x.Block().Index] && (x.Block() != call.Block() || instrIndex(x) > instrIndex(call)) {
						bad = true
					}
				})
			}
			if bad {
				r.fail(key, c.Pos(call.Pos()), FuncName(fn), what,
					"Close is scheduled or called before the error was tested: when the reader could not be obtained it is nil and the (deferred) Close panics inside the request")
				return
			}
			r.ok(key, c.Pos(call.Pos()), FuncName(fn), what, "closed on every success path, only after the error test")
		})
	}
	r.Instances = n
	return r
}

func init() {
	registerRule("K5p", "decoder and writer errors are honoured: in the playlist decoders and on the muxer's writer path, the error result of every library / strconv / mediacommon call is returned, or tested against nil with the failing branch returning a non-nil error (or reporting it); exempt are the close path and writes to the HTTP response", ruleK5p)
}

func ruleK5p(c *Ctx) *RuleResult {
	r := &RuleResult{Floor: 60, FloorWhat: "error-returning calls in the playlist decoders and the muxer"}
	errT := types.Universe.Lookup("error").Type()
	_, dec := c.codecSets()
	inScope := func(fn *ssa.Function) bool {
		top := enclosingNamed(fn)
		if dec[fn] || dec[top] {
			return true
		}
		if !InRootPkg(fn) {
			return false
		}
		if isClientFunc(top) {
			return false // K5
		}
		return true
	}
	var fns []*ssa.Function
	for _, fn := range c.Funcs {
		if inScope(fn) {
			fns = append(fns, fn)
		}
	}
	sort.Slice(fns, func(i, j int) bool { return fns[i].String() < fns[j].String() })
	for _, fn := range fns {
		top := enclosingNamed(fn)
		cnt := map[string]int{}
		allInstrs(fn, func(in ssa.Instruction) {
			call, ok := in.(*ssa.Call)
			if !ok {
				return
			}
			res := call.Call.Signature().Results()
			ei := -1
			for i := 0; i < res.Len(); i++ {
				if types.Identical(res.At(i).Type(), errT) {
					ei = i
				}
			}
			if ei < 0 {
				return
			}
			name := ""
			pk := ""
			if f := call.Call.StaticCallee(); f != nil {
				name = FuncName(f)
				if f.Pkg != nil {
					pk = f.Pkg.Pkg.Path()
				} else if f.Object() != nil && f.Object().Pkg() != nil {
					pk = f.Object().Pkg().Path()
				}
				if !(isLibPkgPath(pk) || strings.Contains(pk, "mediacommon") || pk == "strconv" || pk == "net/url" || pk == "time" || InLib(f)) {
					return
				}
			} else if call.Call.IsInvoke() {
				name = call.Call.Method.FullName()
				if p := call.Call.Method.Pkg(); p != nil {
					pk = p.Path()
				}
				if !(isLibPkgPath(pk) || strings.Contains(pk, "mediacommon")) {
					return
				}
			} else {
				// a function value: only the library's own function-typed fields
				f, _ := loadedField(call.Call.Value)
				if f == nil || f.Pkg() == nil || !isLibPkgPath(f.Pkg().Path()) {
					return
				}
				name = "func field " + f.Name()
			}
			// exemptions (one reason each)
			if top.Name() == "close" && top.Signature.Recv() != nil && typeIs(top.Signature.Recv().Type(), modPath, "muxerStream") {
				return // Close discards what is still open: a failure to flush it changes nothing the caller could act on
			}
			cnt[name]++
			key := fmt.Sprintf("%s|%s#%d", FuncName(fn), shortName(name), cnt[name])
			what := "the error is returned, or tested with the failing branch leaving with a non-nil error"
			var ev ssa.Value
			if res.Len() == 1 {
				ev = call
			} else {
				for _, ref := range *call.Referrers() {
					if ex, ok := ref.(*ssa.Extract); ok && ex.Index == ei {
						ev = ex
					}
				}
			}
			if ev == nil || ev.Referrers() == nil || len(*ev.Referrers()) == 0 {
				r.fail(key, c.Pos(call.Pos()), FuncName(fn), what, "the error result of "+name+" is discarded: the caller continues with a half-filled object / an unwritten unit as if nothing had happened")
				return
			}
			handled := false
			var visit func(v ssa.Value, depth int)
			seen := map[ssa.Value]bool{}
			visit = func(v ssa.Value, depth int) {
				if v == nil || seen[v] || depth > 4 || handled {
					return
				}
				seen[v] = true
				for _, ref := range *v.Referrers() {
					switch x := ref.(type) {
					case *ssa.Return:
						handled = true
					case *ssa.Phi:
						visit(x, depth+1)
					case *ssa.Store:
						// stored into a result cell / captured variable that is returned or tested elsewhere
						if al, ok := x.Addr.(*ssa.Alloc); ok {
							for _, r2 := range *al.Referrers() {
								if u, ok := r2.(*ssa.UnOp); ok && u.Op == token.MUL {
									visit(u, depth+1)
								}
							}
						} else if _, ok := x.Addr.(*ssa.FreeVar); ok {
							handled = true // the enclosing function owns the variable (checked there)
						}
					case *ssa.BinOp:
						if x.Op != token.NEQ && x.Op != token.EQL {
							continue
						}
						if k, isC := x.Y.(*ssa.Const); !isC || !k.IsNil() {
							continue
						}
						for _, r3 := range *x.Referrers() {
							iff, ok := r3.(*ssa.If)
							if !ok {
								continue
							}
							fail := iff.Block().Succs[0]
							if x.Op == token.EQL {
								fail = iff.Block().Succs[1]
							}
							// the failing branch: leaves with a non-nil error, or reports the error to a callback
							if last, ok := fail.Instrs[len(fail.Instrs)-1].(*ssa.Return); ok {
								sigRes := fn.Signature.Results()
								if sigRes.Len() > 0 && types.Identical(sigRes.At(sigRes.Len()-1).Type(), errT) {
									rv := retVal(last, len(last.Results)-1)
									if k, isC := rv.(*ssa.Const); !isC || !k.IsNil() {
										handled = true
									}
								} else if len(last.Results) > 0 {
									// no error result: the failure is signalled by returning zero values (nil bytes → the caller
									// answers 500; an unparsable query is dropped)
									allZero := true
									for i := range last.Results {
										if k, isC := retVal(last, i).(*ssa.Const); !isC || !isZeroConst(k) {
											allZero = false
										}
									}
									if allZero {
										handled = true
									}
								} else {
									// a handler: no result; it must have written a status
									for _, y := range fail.Instrs {
										if ci, ok := y.(ssa.CallInstruction); ok && ci.Common().IsInvoke() && ci.Common().Method.Name() == "WriteHeader" {
											handled = true
										}
									}
								}
							}
							for _, y := range fail.Instrs {
								if ci, ok := y.(*ssa.Call); ok {
									for _, a := range ci.Call.Args {
										if a == v {
											handled = true // handed to a reporter (onEncodeError, fmt.Errorf wrapping, …)
										}
									}
									// a second attempt whose own error is judged at its own call (parseTime: RFC 3339, then ISO 8601)
									r2 := ci.Call.Signature().Results()
									if r2.Len() > 0 && types.Identical(r2.At(r2.Len()-1).Type(), errT) {
										handled = true
									}
								}
							}
						}
					case *ssa.Call:
						// wrapped or reported directly
						handled = true
					case *ssa.MakeInterface:
						visit(x, depth+1)
					}
				}
			}
			visit(ev, 0)
			if handled {
				r.ok(key, c.Pos(call.Pos()), FuncName(fn), what, "handled")
			} else {
				r.fail(key, c.Pos(call.Pos()), FuncName(fn), what, "the error of "+name+" is read but its failing outcome neither returns a non-nil error nor reports it")
			}
		})
	}
	return r
}

func init() {
	registerRule("F33", "sibling literals agree: every composite literal of a muxer object type (muxerPart, muxerSegmentFMP4, muxerSegmentMPEGTS, muxerStream) sets the same fields as the other literals of that type, and a field that mirrors a stream field (segmentMaxSize, prefix, storageFactory, tracks, …) is filled from that stream field in every one of them", ruleF33)
}

type complit struct {
	fn     *ssa.Function
	alloc  *ssa.Alloc
	fields map[*types.Var]ssa.Value
}

// compositeLiterals collects the composite literals of a named struct type in the root package.
func (c *Ctx) compositeLiterals(typeName string) []complit {
	var out []complit
	for _, fn := range c.Funcs {
		if !InRootPkg(fn) {
			continue
		}
		allInstrs(fn, func(in ssa.Instruction) {
			al, ok := in.(*ssa.Alloc)
			if !ok || al.Comment != "complit" {
				return
			}
			if !typeIs(al.Type(), modPath, typeName) {
				return
			}
			if _, isStruct := al.Type().(*types.Pointer).Elem().Underlying().(*types.Struct); !isStruct {
				return
			}
			cl := complit{fn: fn, alloc: al, fields: map[*types.Var]ssa.Value{}}
			for _, ref := range *al.Referrers() {
				fa, ok := ref.(*ssa.FieldAddr)
				if !ok {
					continue
				}
				st := derefStruct(fa.X.Type())
				for _, r2 := range *fa.Referrers() {
					if s2, ok := r2.(*ssa.Store); ok && s2.Addr == ssa.Value(fa) && s2.Block() == al.Block() {
						cl.fields[st.Field(fa.Field)] = s2.Val
					}
				}
			}
			out = append(out, cl)
		})
	}
	sort.Slice(out, func(i, j int) bool {
		if out[i].fn.String() != out[j].fn.String() {
			return out[i].fn.String() < out[j].fn.String()
		}
		return out[i].alloc.Pos() < out[j].alloc.Pos()
	})
	return out
}

func ruleF33(c *Ctx) *RuleResult {
	r := &RuleResult{Floor: 4, FloorWhat: "composite literals of muxer object types"}
	n := 0
	// a field of the literal whose name is also a field of muxerStream / Muxer mirrors that field
	for _, tn := range []string{"muxerPart", "muxerSegmentFMP4", "muxerSegmentMPEGTS", "muxerStream"} {
		lits := c.compositeLiterals(tn)
		if len(lits) < 2 {
			continue
		}
		union := map[*types.Var]bool{}
		for _, l := range lits {
			for f := range l.fields {
				union[f] = true
			}
		}
		// the source of a mirrored field: the field of the same name of another library struct
		srcOf := func(v ssa.Value) string {
			f, _ := loadedField(stripConv(v))
			if f == nil {
				return ""
			}
			return f.Name() // the owner may differ (seg.prefix was itself filled from s.prefix); the role may not
		}
		perFn := map[*ssa.Function]int{}
		for _, l := range lits {
			perFn[l.fn]++
			n++
			key := fmt.Sprintf("%s|%s literal#%d", FuncName(l.fn), tn, perFn[l.fn])
			what := "the literal sets every field its sibling literals set, from the same kind of source"
			var missing []string
			for f := range union {
				if _, ok := l.fields[f]; !ok {
					missing = append(missing, f.Name())
				}
			}
			sort.Strings(missing)
			// fields that legitimately differ between sites (one reason each)
			var realMissing []string
			for _, m := range missing {
				switch tn + "." + m {
				case "muxerSegmentFMP4.fromForcedRotation", "muxerSegmentMPEGTS.fromForcedRotation":
					// only a rotation can be forced; the first segment of a stream is not
				case "muxerStream.isRendition", "muxerStream.name", "muxerStream.language", "muxerStream.isDefault", "muxerStream.isLeading", "muxerStream.tracks":
					// the single stream of the MPEG-TS variant is not a rendition; per-track streams are filled in a loop
				default:
					realMissing = append(realMissing, m)
				}
			}
			if len(realMissing) > 0 {
				r.fail(key, c.Pos(l.alloc.Pos()), FuncName(l.fn), what,
					"does not set "+strings.Join(realMissing, ", ")+", which the other literals of "+tn+" set: the object built at this site behaves differently (no size limit, no track list, another URI prefix, …) from the ones built at the sibling sites")
				continue
			}
			// same source kind for mirrored fields
			bad := ""
			for f, v := range l.fields {
				src := srcOf(v)
				if src == "" {
					continue
				}
				for _, o := range lits {
					if o.alloc == l.alloc {
						continue
					}
					if ov, ok := o.fields[f]; ok {
						if os := srcOf(ov); os != "" && os != src {
							bad = f.Name() + " is filled from " + src + " here and from " + os + " in " + FuncName(o.fn)
						}
					}
				}
			}
			if bad != "" {
				r.fail(key, c.Pos(l.alloc.Pos()), FuncName(l.fn), what, bad)
			} else {
				r.ok(key, c.Pos(l.alloc.Pos()), FuncName(l.fn), what, fmt.Sprintf("%d fields", len(l.fields)))
			}
		}
	}
	r.Instances = n
	return r
}
